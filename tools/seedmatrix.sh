#!/bin/bash
# usage: tools/seedmatrix.sh [out file]   runs, for every seeded/<id>, the quick check of the property it breaks (first 3 chars of the id;
# plus the properties listed in seeded/<id>/also) against the change in a scratch worktree; writes one line per (seed, property).
cd "$(dirname "$0")/.."
OUT=${1:-/tmp/seedmatrix.out}; [ -n "${APPEND:-}" ] || : > $OUT
LANES=${LANES:-1 2 3 4}      # LANES="1 3" APPEND=1 runs a part of the matrix and appends
DEFER=$(mktemp)
# checks that regenerate lean/NasdaqModel/Extracted (C01 C02 C12 C15) never run concurrently against different trees: outside lane 1 they are deferred
lane() { n=$1; shift; for s in "$@"; do p=${s:0:3}; for q in $p $(cat seeded/$s/also 2>/dev/null); do
  if [ $n != 1 ] && echo "$q" | grep -q 'C01\|C02\|C12\|C15'; then echo "$s $q" >> $DEFER; else tools/seedtest.sh seeded/$s $q 2>&1 | grep '^RESULT' >> $OUT; fi; done; done; }
ALL=$(ls seeded | grep '^C[0-9][0-9]')
L1=$(echo "$ALL" | grep '^C0[12]\|^C15\|^C12')          # these regenerate lean/NasdaqModel/Extracted: one lane
L2=$(echo "$ALL" | grep '^C0[3-7]\|^C11')
L3=$(echo "$ALL" | grep '^C0[89]\|^C1[0346]')
L4=$(echo "$ALL" | grep '^C1[789]\|^C20')
for n in $LANES; do eval "lane $n \$L$n" & done; wait
while read s q; do tools/seedtest.sh seeded/$s $q 2>&1 | grep '^RESULT' >> $OUT; done < $DEFER; rm -f $DEFER
./check C02 > /dev/null 2>&1; ./check C12 > /dev/null 2>&1      # restore the extracted tables of the unchanged tree
sort $OUT
