#!/venv/bin/python
"""usage: tools/seedadopt.py <src dir with patch.diff demo.py meta.json> <seed id, e.g. C04c> <property> [more properties…]
confirms the change independently (tools/seedverify.sh), runs the named checks against it (tools/seedtest.sh, quick tier) and,
when confirmed, stores it as seeded/<id>/ with meta.json extended by what was run here and which check caught it."""
import json, os, shutil, subprocess, sys
V = os.path.dirname(os.path.dirname(os.path.abspath(__file__)))
src, sid, props = sys.argv[1], sys.argv[2], sys.argv[3:]
tmp = f'/tmp/sv/{sid}'
shutil.rmtree(tmp, ignore_errors=True); os.makedirs('/tmp/sv', exist_ok=True); shutil.copytree(src, tmp)
v = subprocess.run([f'{V}/tools/seedverify.sh', tmp], capture_output=True, text=True).stdout.strip().splitlines()
print('\n'.join(v[-2:]))
if not v or 'NOT-CONFIRMED' in v[-1] or 'CONFIRMED' not in v[-1]:
    sys.exit(1)
caught = {}
for p in props:
    r = subprocess.run([f'{V}/tools/seedtest.sh', tmp, p], capture_output=True, text=True).stdout.strip().splitlines()
    print('\n'.join(r))
    line = next((l for l in r if l.startswith('RESULT')), '')
    caught[p] = {'rc': int(line.split('rc=')[1].split()[0]) if 'rc=' in line else None,
                 'verdict': ('no-failing-input-found' if 'no-failing-input-found' in line else 'failing-input') if 'VIOLATION' in line else 'not caught',
                 'first_line': (r[-1] if len(r) > 1 else '')[:300]}
dst = f'{V}/seeded/{sid}'
shutil.rmtree(dst, ignore_errors=True); os.makedirs(dst)
for f in ('patch.diff', 'demo.py'):
    shutil.copy(f'{tmp}/{f}', dst)
meta = json.load(open(f'{tmp}/meta.json'))
meta['confirmed_by_coordinator'] = {'how': 'tools/seedverify.sh in a fresh scratch worktree of /repo HEAD: patch applies, unedited suite green with it, demo.py fails with it and passes without it',
                                    'result': v[-2] if len(v) > 1 else ''}
meta['checks_run'] = caught
json.dump(meta, open(f'{dst}/meta.json', 'w'), indent=1)
print('adopted', sid, {p: c['verdict'] for p, c in caught.items()})
