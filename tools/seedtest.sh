#!/bin/bash
# usage: tools/seedtest.sh <patchdir> <Cxx> [tier]
# applies <patchdir>/patch_ported.diff (or patch.diff) to a fresh scratch worktree of /repo's HEAD, runs the check against it with
# VERIF_REPO, evidence to a scratch dir; removes the worktree afterwards.  One worktree per (patch, property): runs may overlap.
set -u
PD=$(realpath $1); P=$2; TIER=${3:-quick}
ID=$(basename $PD)
WT=/tmp/wt-mut-$ID-$P
git -C /repo worktree remove --force $WT >/dev/null 2>&1; rm -rf $WT
git -C /repo worktree add -q --detach $WT HEAD || exit 3
PATCH=$PD/patch.diff; [ -f $PD/patch_ported.diff ] && PATCH=$PD/patch_ported.diff
if ! git -C $WT apply --3way $PATCH 2>/tmp/seedtest.$ID.err; then echo "APPLY-FAILED $PD"; tail -5 /tmp/seedtest.$ID.err; git -C /repo worktree remove --force $WT; exit 3; fi
cd /verif
VERIF_REPO=$WT VERIF_EVIDENCE_DIR=/tmp/seedtest-evidence-$ID timeout 3000 ./check $P --tier $TIER > /tmp/seedtest.$ID.$P.out 2>&1
rc=$?
echo "RESULT $ID $P tier=$TIER rc=$rc $(grep -m1 '^VIOLATION' /tmp/seedtest.$ID.$P.out)"
grep -m1 -A1 '^VIOLATION' /tmp/seedtest.$ID.$P.out | tail -1 | cut -c1-300
git -C /repo worktree remove --force $WT; git -C /repo worktree prune
rm -rf /tmp/seedtest-evidence-$ID
