#!/bin/bash
# usage: tools/srccov.sh [tier] [checks…]   which lines of /repo/src/nasdaq_protocols are executed by the implementation side of the checks?
# Runs the checks under coverage.py (all their subprocesses included), combines, prints a per-file table and writes
# /verif/evidence/source_coverage.json (statement coverage of the library by the correspondence/oracle runs = how much of the code the
# model/implementation tie actually exercises; lines never reached are code no check looks at).
set -u
TIER=${1:-quick}; shift || true
CHECKS=${*:-C01 C02 C03 C04 C05 C06 C07 C08 C09 C10 C11 C12 C13 C14 C15 C16 C17 C18 C19 C20}
V=$(cd "$(dirname "$0")/.." && pwd)
OUT=$(mktemp -d /tmp/srccov.XXXX)
cat > $OUT/rc <<RC
[run]
source = /repo/src/nasdaq_protocols
parallel = True
data_file = $OUT/.coverage
concurrency = thread,multiprocessing
sigterm = True
RC
export COVERAGE_PROCESS_START=$OUT/rc
export PYTHONPATH=$V/tools/covsite${PYTHONPATH:+:$PYTHONPATH}
export VERIF_EVIDENCE_DIR=$OUT/evidence
cd $V
printf '%s\n' $CHECKS | xargs -P 4 -I{} sh -c "./check {} --tier $TIER > $OUT/{}.out 2>&1; echo \"{} rc=\$?\""
unset COVERAGE_PROCESS_START
cd $OUT && /venv/bin/python -m coverage combine --rcfile=$OUT/rc -q >/dev/null 2>&1
/venv/bin/python -m coverage json --rcfile=$OUT/rc -o $OUT/cov.json -q >/dev/null 2>&1
/venv/bin/python - <<PY
import json
c = json.load(open('$OUT/cov.json'))
rows = []
for f, d in sorted(c['files'].items()):
    s = d['summary']
    rows.append({'file': f.replace('/repo/src/nasdaq_protocols/', ''), 'statements': s['num_statements'], 'executed': s['covered_lines'],
                 'percent': round(s['percent_covered'], 1), 'missing_lines': d['missing_lines']})
tot = c['totals']
print(f"{'file':50s} stmts  exec   %")
for r in rows:
    print(f"{r['file']:50s} {r['statements']:5d} {r['executed']:5d} {r['percent']:5.1f}  {' '.join(map(str, r['missing_lines'][:18]))}{' …' if len(r['missing_lines']) > 18 else ''}")
print(f"{'TOTAL':50s} {tot['num_statements']:5d} {tot['covered_lines']:5d} {tot['percent_covered']:5.1f}")
json.dump({'tier': '$TIER', 'checks': '$CHECKS'.split(), 'total': {'statements': tot['num_statements'], 'executed': tot['covered_lines'],
           'percent': round(tot['percent_covered'], 1)}, 'files': rows,
           'note': 'statement coverage of /repo/src/nasdaq_protocols by the implementation side of the listed checks (coverage.py, all subprocesses)'},
          open('$V/evidence/source_coverage.json', 'w'), indent=1)
PY
rm -rf $OUT
