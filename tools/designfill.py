#!/venv/bin/python
"""usage: tools/designfill.py    splices tools/design_section0.md (the "as built" section, with __PLACEHOLDERS__ for everything that can be
counted) into DESIGN.md §0, filling the counts from the tree: theorem numbers per property, model / lemma sizes, fixes, seeded-round statistics."""
import glob
import json
import os
import re
import sys

V = os.path.dirname(os.path.dirname(os.path.abspath(__file__)))
sys.path.insert(0, os.path.join(V, 'harness'))
import common  # noqa: E402

L = common.Lean()
t = open(os.path.join(V, 'tools', 'design_section0.md')).read()


def lines(pat):
    return sum(len(open(f).read().splitlines()) for f in glob.glob(os.path.join(V, 'lean', 'NasdaqModel', pat)))


tp = tw = 0
for i in range(1, 21):
    p = f'C{i:02d}'
    th = L.theorems_of(p)
    a = len([1 for s, _ in th if s == 'Props'])
    b = len(th) - a
    tp += a
    tw += b
    t = t.replace(f'__{p}__', f'{a} / {b}')
k = json.load(open(os.path.join(V, 'known_findings.json')))['findings']
commits = {c.strip() for f in k if f['status'] == 'fixed' for c in f.get('commit', '').split(',') if c.strip()}
# commits named in the defect table that share one finding id (C01, C15, C17, C20 rows list several)
extra = set(re.findall(r'\b[0-9a-f]{7}\b', t))
t = t.replace('__NFIX__', str(len(commits | extra)))
t = t.replace('__NMODELS__', str(len(glob.glob(os.path.join(V, 'lean', 'NasdaqModel', 'Model', '*.lean')))))
t = t.replace('__LMODEL__', f'{round(lines("Model/*.lean"), -2):,}'.replace(',', ' '))
t = t.replace('__LLEMMAS__', f'{round(lines("Lemmas/*.lean"), -2):,}'.replace(',', ' '))
t = t.replace('__NPROPS__', str(tp)).replace('__NWIT__', str(tw))
t = t.replace('__NPROPFILES__', str(len(glob.glob(os.path.join(V, 'lean', 'NasdaqModel', 'Props', '*.lean')))))
readme = open(os.path.join(V, 'seeded', 'README.md')).read()
m = re.search(r'(\| round \| changes .*?)\n\n', readme, re.S)
n_seeds = len([d for d in os.listdir(os.path.join(V, 'seeded')) if re.fullmatch(r'C\d\d[a-z]', d)])
stats = (f'{n_seeds} changes to the library are kept under `seeded/` (rounds 1–2: the previous session; rounds 3–8: session 3, 40 per round (round 7: 18 aimed at regressions of the repairs; round 8: 4 aimed at the two repairs made last), two per '
         f'property from 20 fresh sub-agents; round 9: session 4, 7 changes, one per property, not yet in the matrix below — their results are in each `meta.json` and in the round-9 paragraph). State at the last matrix run (own check = the check of the property the change was written against):\n\n'
         + (m.group(1) if m else '(run tools/seedmatrix.sh seeded/MATRIX.txt && tools/seedreadme.py)'))
t = t.replace('__SEEDSTATS__', stats)
d = open(os.path.join(V, 'DESIGN.md')).read()
i = d.index('## 0. As built')
j = d.index('## 1. Why proof, and why it reaches what the suite cannot')
open(os.path.join(V, 'DESIGN.md'), 'w').write(d[:i] + t + d[j:])
left = re.findall(r'__[A-Z0-9]+__', t)
print('spliced; theorems', tp, 'witnesses', tw, 'placeholders left:', left)
