# used only by tools/srccov.sh: start coverage measurement in every python process of a check run
import os
if os.environ.get('COVERAGE_PROCESS_START'):
    try:
        import coverage
        coverage.process_startup()
    except Exception:      # noqa
        pass
