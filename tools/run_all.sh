#!/bin/bash
# usage: tools/run_all.sh <tier> [parallel] [seed]   runs every check of the manifest once; prints one line per check
TIER=${1:-quick}; PAR=${2:-4}; export VERIF_SEED=${3:-0}
cd "$(dirname "$0")/.."
mkdir -p /tmp/runall-$$
ls lean/.lake/build/bin/drv_C12 >/dev/null 2>&1 || ./setup.sh >/dev/null
printf '%s\n' C01 C02 C03 C04 C05 C06 C07 C08 C09 C10 C11 C12 C13 C14 C15 C16 C17 C18 C19 C20 | \
  xargs -P $PAR -I{} sh -c "./check {} --tier $TIER > /tmp/runall-$$/{}.out 2>&1; echo \"{} rc=\$? \$(grep -m1 '^VIOLATION' /tmp/runall-$$/{}.out) \$(tail -1 /tmp/runall-$$/{}.out)\""
