#!/venv/bin/python
"""regenerates MANIFEST.json from the table below (single source of truth for what is claimed)"""
import json
import os

VERIF = os.path.dirname(os.path.dirname(os.path.abspath(__file__)))
TRUST = ("Lean 4.33 kernel; axioms propext/Classical.choice/Quot.sound only (audited by #print axioms each run, no sorry/native_decide); "
         "hand-written model tied to /repo's working tree by the per-run correspondence check + independent property oracle in harness/; "
         "Python semantics layer NasdaqModel/Py is modelled, not verified")

SESS = ("Task-level session machine Model/Session.lean (AsyncSession, Reader, HeartbeatMonitor, DispatchableMessageQueue, stop_task, soup/fix login) "
        "with events = atomic task steps / inbound frames / user calls / cancellations in any order; tie: every run executes ~1500 random "
        "scenarios on the real session under a virtual-time loop with every asyncio task step logged, replays the step log through the compiled "
        "model (per-event observables + final task set) and evaluates the property statement on the implementation alone. ")

CLAIMS = {
    'C01': dict(
        text="Model/BinCodec.lean transcribes common/message/types.py and structures.py (every integer width/signedness/byte order, bool, char, "
             "length-prefixed and fixed strings of both charsets, records, optional records, arrays with any count type, message id byte + registry). "
             "Proved by mutual induction over the schema type, for every schema tree, every in-domain value (explicit decidable wf) and every tail: "
             "encode is total; decode(encode v ++ tail) consumes exactly the reported length and yields norm v; every read path reads back equal; "
             "re-encode is identical; norm v is again in the domain; reported length = bytes produced and fixed/char fields occupy exactly their width "
             "for EVERY encodable value (no wf hypothesis); message level round trip incl. class; unknown id raises. Tie: random schema trees built "
             "as dynamic classes of the real library, values from the typed domain plus a malformed stream; reads, consumed length, re-encoded bytes, "
             "reported length, error class compared with the compiled model; statement evaluated on the implementation alone.",
        design="§5-C01", technique="Lean 4 proof by structural induction over schema trees + differential correspondence with the binary codec"),
    'C02': dict(
        text="Same model as C01 plus Spec/Layout.lean, an independent reference written from the documented DATATYPES table (digit-wise integers, "
             "2-byte LE string length, space padding, count in the declared count type, presence byte, id byte + fields in declaration order). Proved "
             "for every schema and in-domain value: encode = layout (and reports its length), decode(layout ++ tail) = value consuming exactly the "
             "layout, both at message level, layout injective up to norm; the type-id table probed from the running library before each build equals "
             "the documented table (decide over all 20 rows) and the array-count selection of parser.py equals the documented one. Tie: exact bytes of "
             "the implementation vs the Lean layout on generated schemas/values; the extracted table is regenerated from the live objects each run, so a "
             "consistent change of packer and unpacker breaks C02_table and yields the failing bytes.",
        design="§5-C02", technique="Lean 4 proof encode = documented layout + per-run extracted type table (decide) + byte-exact differential check"),
    'C06': dict(
        text=SESS + "Proved for every configuration and event sequence (invariant B over all reachable states): once the close has completed both monitors "
             "and the receive helper have ended, reader and dispatcher have ended or end at their next step; at quiescence every library task has "
             "finished; after completion a monitor step is impossible (no heartbeat after close); no message callback starts after the transport was "
             "closed and the close callback is entered at most once; a receive blocked at close ends with EndOfQueue. Partial: 'no unretrieved "
             "exception' and timers of the real loop are judged by the scenario oracle (task factory + loop exception handler over three heartbeat "
             "intervals of virtual time after the close), not by a theorem.",
        design="§5-C06, Appendix A", technique="Lean 4 invariant proof over a task-level state machine + step-log replay correspondence"),
    'C11': dict(
        text=SESS + "Proved (step theorems over the same machine, any state satisfying the stated preconditions): login() writes the login request first; "
             "an acceptance on an open session returns the session with both monitors started and the dispatcher started (callbacks only after "
             "acceptance); any other reply, or an acceptance on a closed/closing session, sets closed in that step and raises refused; a disconnect "
             "during the reply ends in refused; a caller cancellation closes the session before it propagates; closed never reverts and the close "
             "completes (C05 deadlock freedom). Partial: the two-outcome statement is a family of step theorems rather than one trace theorem; the "
             "connectors of the four application layers are exercised by the oracle only.",
        design="§5-C11", technique="Lean 4 step theorems over the session state machine + step-log replay correspondence on login scenarios"),
    'C13': dict(
        text="Model/Fix.lean transcribes fix/core.py (Field, DataSegment, Group, GroupContainer, Message: find-based splitting, stop at unknown or "
             "repeated tag, count check, first 35=, __eq__). Proved for every dictionary with pairwise distinct tags (wfDef), any nesting depth and every "
             "message of valid values in ANY assignment order (wfMsg): encode never raises; decode yields the registered class, consumes every byte, "
             "returns the canonical form; re-encode identical; the decoded message == the original (Group.__eq__ as repaired in /repo 02aab28; the "
             "order-sensitive equality is kept as a decided counterexample); group = count field + instances in dictionary order; assignment order "
             "irrelevant. Floats are opaque text tokens. Tie: generated dictionaries built as real classes in fresh processes, random messages with "
             "shuffled assignment order; bytes, decoded collection, ==, consumed, re-encode compared with the model; statement evaluated on the implementation.",
        design="§5-C13", technique="Lean 4 proof over FIX tag=value codec model (induction over dictionary entries) + differential correspondence"),
    'C14': dict(
        text="Model/FixFrame.lean transcribes FixSession.send_msg's header stamping and _prepare_complete_msg on top of the C13 codec and the C03 FIX "
             "reader. Proved for every dictionary with the framing entries, every message, header values, sequence number, time stamp and both version "
             "strings: the frame is 8=<ver>|9=<n>|35=<type>|…|10=<ccc>| with n the exact byte count and ccc the three-digit byte sum mod 256; the "
             "library's reader cuts exactly that frame from any continuation, frames nothing on a proper prefix, frames exactly one message under any "
             "segmentation; Message.from_bytes of the frame returns the sent message plus the four framing fields. Tie: real Fix44/Fix50 sessions on a "
             "fake transport over generated dictionaries (BodyLength digit-count crossings, checksums < 100, automatic heartbeats); exact bytes vs the "
             "model, independent length/checksum recomputation, read back through the real reader under random segmentation.",
        design="§5-C14", technique="Lean 4 proof over FIX frame model composed with the framing and codec theorems + byte-exact differential correspondence"),
    'C15': dict(
        text="Model/GenSoupApp.lean: spec AST, gen (parser.py + templates at the level of abstract generated code, quirks included), evalModule (what "
             "importing that code defines) and denote (reference semantics read from the XML documentation). Proved for every well-formed spec, each of "
             "ITCH/OUCH/SQF, any app name and override flag: evalModule(gen s) = denote s — __all__, enums with members/values, records, messages with "
             "id, direction, fields in order with types (datatype, fixed length, record, array element and count type) and defaults; corollaries for "
             "field names, char enum values, defaults, array count endianness, datatype table. ElementTree parsing, chevron rendering and Python's import "
             "are on the implementation side only. Tie: grammar-based specs -> XML -> the real CLI entry points -> import -> introspection diffed with "
             "the model's module; values through the generated classes vs a reference codec derived from the XML (oracle).",
        design="§5-C15", technique="Lean 4 proof gen = denote over spec AST + generator differential correspondence (generate, import, introspect)"),
    'C18': dict(
        text="Model/Heap.lean: object heap with owners (instance / class-level / caller buffer), operations new, read, assign, append-in-place, set "
             "index, encode, decode, mkbuf, scribble, FIX copy/clone. Proved for every schema and EVERY history (get_field_value handing out a fresh "
             "list, /repo fcb8b8f): ownership invariant in all reachable states; an operation about instance a leaves what any other instance reads and "
             "encodes unchanged; observing operations change nobody; decoded/new/cloned instances consist of new cells only and share nothing with the "
             "buffer or class-level defaults; held references stay confined to their owner. The `_partial` variants and Witness/C18 describe the "
             "pre-repair shared class-level list. Tie: random histories over 2-5 instances of generated binary and FIX types; after each operation all "
             "reads and encodings of all instances compared with the model (pinned to the repaired semantics) and checked for cross-instance change.",
        design="§5-C18", technique="Lean 4 ownership-invariant proof over a heap model + differential correspondence on operation histories"),
    'C20': dict(
        text="Model/SyncFacade.lean: loop thread, any number of caller threads with program counters through _must_be_active / run_coroutine_threadsafe / "
             "future.result / close_lock / closed_event / stop / join, peer events. Proved for every configuration and every interleaving: safety "
             "invariants (event set => stop requested, lock discipline, thread exit only after the close callback, state error after close, fail-fast on "
             "a dead executor) and termination by a strictly decreasing measure — every run has at most 14 steps per call + 6 + peer events, every "
             "maximal run ends with all callers returned (or waiting in receive() on an open session), and once a close started the thread has exited and "
             "the session is closed. Partial: OS scheduling, fairness and the real threading primitives are not modelled — the harness is the scheduler: "
             "it forces model-generated maximal interleavings on the real classes statement by statement with gates and a watchdog and compares positions, "
             "outcomes and hangs with the model; the oracle checks returned/raised, thread exited, StateError afterwards.",
        design="§5-C20", technique="Lean 4 invariant + termination-measure proof over a thread-interleaving model + forced-interleaving correspondence"),
    'C03': dict(
        text="Model/Framing.lean transcribes Reader.on_data/_process/_process_1/stop and both deserialize() functions. Proved for all lists of "
             "well-formed packets (wfPkt) or FIX frames (wfFixFrame) and all interleavings of segments and polls: emitted is a prefix of the "
             "non-heartbeats before the first logout; once all bytes arrived and n polls followed emitted = expected, stopped iff logout, exactly "
             "one close signal; nothing after a stop; for arbitrary bytes close is signalled at most once. Tie: the observed on_data/deserialize "
             "event log of the real readers under virtual time is replayed through the model (every 1-/2-cut split of short streams, random long "
             "ones, malformed streams for agreement only) plus a messages-out == messages-in oracle on the implementation.",
        design="§5-C03", technique="Lean 4 proof (generic framing spec + soup/FIX instances) + event-log replay correspondence"),
    'C04': dict(
        text=SESS + "Proved for every event sequence: conservation of messages (reader output = gone ++ held ++ queued, in order; frames taken ++ "
             "buffered = frames received), observable deliveries = the taken list, delivered is a subsequence of the messages sent (never reordered, "
             "duplicated, invented) and a PREFIX of them at every moment (C04_prefix, C04_nothing_lost: full since /repo 426c1c1), a dispatcher step "
             "delivers the head of the queue, a receive cancelled at ANY phase - also after its helper task took the message - reports the cancellation, "
             "consumes nothing and the next receive returns the next undelivered message (C04_cancelled_receive_consumes_nothing, "
             "C04_receive_after_cancelled_receive). The late-cancel loss was a known finding of earlier sessions; it is repaired (426c1c1), the pre-repair "
             "transition is kept as Witness/C04Late (decided: loses the message on the recorded history).",
        design="§5-C04", technique="Lean 4 invariant proof over a task-level state machine + step-log replay correspondence"),
    'C05': dict(
        text=SESS + "Proved for every configuration and event sequence: invariant A (closed <-> close body entered; close-sequence monitor): transport "
             "closed / close callback entered / left at most once and in that order, no message callback started after the transport is closed, "
             "completion implies exactly once, a second close() returns at once. Completion (deadlock freedom) is covered by the scenario oracle; "
             "application-session layer (ITCH/OUCH/SQF/ASN.1) is exercised by the oracle only.",
        design="§5-C05, Appendix A", technique="Lean 4 invariant proof over a task-level state machine + step-log replay correspondence"),
    'C07': dict(
        text=SESS + "Proved: in every reachable state a connected session that does not report closed has a live, polling, unstopped reader (never open and "
             "deaf); each poll consumes exactly one frame; the poll that meets a malformed or logout frame sets closed; closed is final. Every malformed-"
             "frame class x segmentation is run on the implementation (must behave as the model's `bad` frame or keep delivering consistently).",
        design="§5-C07", technique="Lean 4 invariant proof over a task-level state machine + step-log replay correspondence"),
    'C08': dict(
        text="Theorems over all event histories, intervals >= 1 grid unit and all three roles about Model/Monitor.lean (HeartbeatMonitor tick loop, "
             "send_msg's heartbeat exemption, data_received's ping, the three start_heartbeats call sites): 2*I silent-gap bound, exact characterisation "
             "of which ticks emit a heartbeat, heartbeats never count as activity, role intervals. Tie: real soup client / soup server / FIX sessions "
             "and bare monitors under the virtual-time loop on grid schedules, write times and kinds compared with the compiled model; oracle on the "
             "observed writes with the session's own-role interval.",
        design="§5-C08", technique="Lean 4 proof over executable monitor model + virtual-time differential correspondence"),
    'C09': dict(
        text="Same model as C08. Proved for every arrival history, interval and tolerated-miss count: silence closes by (n+1)*P of the peer's role, "
             "a trip is preceded by an arrival-free period, a live peer is never dropped, any byte counts, tolerance 0 = tolerance 1. Tie: close time "
             "and cause of real sessions under virtual time vs the model; oracle with the peer-role interval.",
        design="§5-C09", technique="Lean 4 proof over executable monitor model + virtual-time differential correspondence"),
    'C10': dict(
        text="Theorems for all histories over Model/Seq.lean (SoupSession.send_msg, SoupClientSession.login, FixSession.send_msg): counter = initial + "
             "number of 'S' frames written; adoption of exactly the stated number (also for the acceptance as encoded on the wire, via C12); FIX k-th "
             "frame = logon + k (full for the repaired code path 9c458df, and under an explicit no-encode-failure hypothesis for the old one, with the "
             "gap witness); no repeat; rejected sends invisible. Tie: real soup server / client and FIX sessions on a fake transport under virtual time; "
             "exception per op, session.sequence, exact writes and tag 34 compared with the model; statement evaluated on the implementation.",
        design="§5-C10", technique="Lean 4 proof over executable model + differential correspondence on operation histories"),
    'C12': dict(
        text="Theorems over all packets/payloads (layout, length prefix, round trip, byte-exact payloads 0..32766, too-long rejected, "
             "decoded kind = type character) about Model/Soup.lean, a line-by-line transcription of soup/core.py; every run diffs model "
             "and implementation on generated well-formed and malformed packets and decoder inputs and evaluates the statement on the implementation.",
        design="§5-C12", technique="Lean 4 proof over executable model + differential correspondence with soup/core.py"),
    'C16': dict(
        text="For every dictionary satisfying the explicit guard wfDict and every version the CLI offers (4.2/4.4/5.0/5.0SP2) the model generator's output "
             "imports and its loaded classes equal the reference meaning of the dictionary (Spec.FixDict.denote): one field class per field (tag, type, enum "
             "constants), header/body/trailer entry trees with components expanded in place, required flags, nested group classes via the generated unique "
             "names, integer count fields, well-scoped groups module. Tie: 500-6000 generated dictionaries through the real parse/Generator/click command in "
             "fresh processes, introspected classes, names and definition order diffed with the model; on the implementation alone entries = independent "
             "expansion and built messages round-trip, validate and are framed and read back. The composition with C13/C14 (round trip and framing of "
             "generated classes) is checked on the implementation side only.",
        design="§5-C16", technique="Lean 4 proof gen = denote over dictionary AST + generator differential correspondence"),
    'C17': dict(
        text="Lean model of invocation histories of the four code-generation tools (process-level class state x abstract file system; file-open modes and "
             "state resets as a Semantics record). Proved for the current semantics of the three generators (truncate + reset, after a5da5b2/6c43d46/388f25f) "
             "and all worlds/histories: outcome and every written file depend on the invocation only; empty or same-target directories equal the fresh output "
             "and import identically; no leak between specs; frame and failure theorems for every semantics. The new_project clause is partial with a witness "
             "(known finding). Tie: 1-3-invocation histories through the real click entry points in forked processes, outcome / per-file chunk structure / "
             "import result compared with the model; oracle compares with real fresh runs byte-for-byte.",
        design="§5-C17", technique="Lean 4 proof over history model + differential correspondence on generator invocation histories"),
    'C19': dict(
        text="Theorems for every list of class statements over Model/Registry.lean (CommonMessage.__init_subclass__ / from_bytes, ITCH/OUCH/SQF id equality, "
             "generated-app namespace rule): first declaration wins, unique, duplicate rejected with state unchanged, isolated per application, unknown raises. "
             "Tie: each history runs in a fresh process, all 256 id bytes through every base class plus by_indicator/by_name/get_msg_classes, compared with "
             "the model; oracle on in-quantifier histories.",
        design="§5-C19", technique="Lean 4 proof over registry model + per-process differential correspondence"),
}

# ---- additions of the third session (appended to the claim texts above; DESIGN.md §0 has the details)
EXT = {
    'C01': "Added: message and record classes declared by inheritance from registered classes (Model/BinInherit, Props/C01Inherit: the encoding depends on the "
           "class's own id and field list only), class families with the order of first use varied in the correspondence.",
    'C02': "Added: Extracted.arrayElemTable (576 rows: endian attribute x 8 declaration forms x every datatype id and enum bases, read through the real Parser, element "
           "type probed behaviourally), Model/ParserDecl and Props/C02Decl (decide over the whole table); real bytes of every generated array type vs the Lean layout.",
    'C03': "Added: bursts of 66-520 frames per poll, received packets up to the protocol maximum (payloads >= 32767 bytes: /repo d656a66), streams run through a "
           "session and its transport (pause_reading/resume_reading honoured), embedded look-alike packets cut exactly at their boundaries.",
    'C04': "Added: the second stage (ITCH/OUCH/SQF/ASN.1 application sessions: decode + own queue) is in the model (Model/AppSession.lean, a product with the "
           "unchanged session machine); Props/C04App: what the application consumer gets is a prefix of decode applied "
           "to the decodable messages on the wire, both consumer modes, falsy values included; every application scenario (4 kinds, real compiled ASN.1 spec) is "
           "replayed event by event through the model. Props/C04Bytes: refinement from the byte-level reader (C03 model) to the token-level reader of the session "
           "machine, so the prefix/subsequence theorems are stated over the BYTES received.",
    'C05': "Added: the application-session layer is in the model (Model/AppSession.lean); Props/C05App (15 theorems): application close callback at most once and "
           "exactly once on completion, after the transport close, closed semantics, close() idempotent and returning at once from the close callback, no deadlock "
           "through _on_soup_close (lifted from C05_close_never_deadlocks), callers released; C05App_close_never_raises is full since /repo 4b4f253 (close() awaited from the application message callback is carried out by the "
           "dispatcher task itself: Model/AppSession closeOnD2; the former known finding is Witness/C05AppOld); one further defect found there and repaired (/repo 7eb8348). "
           "Props/C05AppLink: the link invariant (isCloser inner (U 0) -> astatus D2 = inSoup, every event list) and C05AppLink_close_progress: a started close "
           "can always take its next step through an enabled product event, also when the dispatcher is the closer.",
    'C06': "Added: Props/C06App (second queue stopped, its dispatcher and helper done, blocked receive released with EndOfQueue, no application callback after close).",
    'C07': "Added: byte-level theorems for both readers over EVERY byte string (Props/C07Framing: a poll stops the reader, waits as announced or consumes a non-empty "
           "frame; the reader settles within len(buffer) polls; negative / zero / padded BodyLength included); Props/C07Bytes ties them to the session machine. The "
           "correspondence now drives ~150 malformed/extreme frame classes x {soup client, soup server, FIX} x {before, after login} and hostile application payloads "
           "on ITCH/OUCH/SQF sessions, with a CPU-time bound per frame (/repo 1a01534: group count blow-up).",
    'C08': "Added: sends the library rejects (validation or encode failure) are events of the model (Ev.sendFailed); Props/C08Failed: failed sends are erasable from "
           "any history, the gap bound and the heartbeat-at-tick characterisation hold with them.",
    'C09': "Added: a blocked event loop / late ticks (Model/MonitorLate, Props/C09Late: every check window is at least one interval because the next sleep starts at "
           "the late check; a live peer is never dropped under any hold-ups); the virtual loop can be held up from inside a callback.",
    'C10': "Added: encode failures per segment (header field, header group instance, trailer, body): Model/SeqSeg, Props/C10Seg, Witness/C10Seg.",
    'C11': "Replaced the partial claim: every clause of the two-outcome statement is now a theorem over all event lists from the fresh session (Props/C11Trace, 15 "
           "theorems: outcomes; cancelled only on request; state error only when dispatching; request before reply and first write; active => acceptance consumed, "
           "no callback and no transport close before, heartbeats running; refused/cancelled => closed for good and C05/C06 clean-up; any other reply or an "
           "acceptance on a closing session refused). The real connectors of soup, FIX and the four application layers are driven through a replaced "
           "create_connection with every connector parameter varied (harness/login_app.py, oracle only); FIX sessions are part of the step-log replay.",
    'C12': "Added: Props/C12Table — the outcome of SoupMessage.from_bytes for all 256 type bytes x lengths x fillers, extracted from the running library on every "
           "run, equals the model on EVERY row (decide +kernel; exactly the registered indicators are known); Props/C12Long (received packets of every legal length "
           "decode byte-exact: /repo d656a66); Props/C12Obj (re-encode histories on one packet object); Props/C12Any (every packet the library can build); "
           "Props/C12Py (str.isspace exact for every code point, int(bytes), int(str), strip tables extracted from the interpreter).",
    'C13': "Added: Props/C13Anchor — the hypothesis 'MsgType is the first header field assigned' is gone (anchored lookup, /repo a2cfe01; tags ending in 35 and values "
           "containing '35=' covered); Props/C13Shared — dictionaries whose groups share tags with their surroundings where the count ends the group; values over the "
           "whole FIX alphabet (LF, CR, controls) in the correspondence; group count without instances rejected (/repo 1a01534).",
    'C14': "Added: Props/C14Anchor (any version string) and Props/C14Echo — the hypothesis that the sent message holds none of the framing fields is now a theorem "
           "about every sent message (the session removes 8/9/35/10 a message carries: /repo b25d247, found because the proof had forced that hypothesis), so the "
           "frame decodes to what was sent for EVERY message; one message in four of the correspondence carries framing fields of its own.",
    'C16': "Added: dictionaries generated in interleaved groups in one process (construct/generate phases), the four version type tables asked for in all 24 orders.",
    'C17': "Added: option-change histories (every option of every generator) with the version type tables as process state (Props/C17Opts) and histories at the "
           "granularity of the generator API (construct k / generate k with the context captured at construction and list aliasing; Props/C17Phases: generate k "
           "depends only on spec k and its options for every interleaving), with decided witnesses for the cached-table and clear-in-place semantics.",
    'C18': "Added: declared defaults on record-typed, 1-D and 2-D array fields (deep copy on read, /repo c3c2285), Props/C18Defaults; encode-before-mutate histories.",
}
TECH = {
    'C11': "Lean 4 trace-level invariant proofs over the session state machine + step-log replay correspondence (soup and FIX) + connector scenarios on the real connect_async entry points",
    'C12': "Lean 4 proof over executable model + complete extracted probe table (decide +kernel) + differential correspondence with soup/core.py",
    'C02': "Lean 4 proof encode = documented layout + per-run extracted type / array count / array element tables (decide) + byte-exact differential check",
    'C04': "Lean 4 invariant proofs over the task-level session machine and its product with the application layer + byte-to-token refinement + step-log replay correspondence",
    'C05': "Lean 4 invariant proofs over the task-level session machine and its product with the application layer + step-log replay correspondence",
    'C06': "Lean 4 invariant proofs over the task-level session machine and its product with the application layer + step-log replay correspondence",
    'C07': "Lean 4 invariant proofs over the session machine + byte-level progress theorems for both readers + step-log / reader-log replay correspondence",
}
EXT2 = {
    'C01': "Round 6: re-encode histories on one message object (Model/BinObj: value tree + path updates; Props/C01Reenc: every encoding of every history is a "
           "function of the current tree and round-trips; Witness/C01Reenc: a shallow-snapshot cache is wrong exactly below the top level).",
    'C03': "Round 5: Props/C03Handler - the reader with a SUSPENDED on_msg_coro (data appended while the handler awaits, wake-ups, length-matched appends) refines the "
           "poll model; prefix and completeness for soup and FIX over all such event lists; bursts of 1.2-2 MiB.",
    'C04': "Props/C04Drain: every fully received message is delivered within a bounded number of reader ticks (explicit drain cost, heartbeats cost one tick each, "
           "callback and pull mode). Props/C04Bytes is unconditional for FIX since /repo 658ee1f (negative BodyLength is a malformed frame). Props/C04AppHead: an application "
           "dispatcher step delivers exactly the head and keeps the rest of the queue for EVERY callback behaviour, also one that closes at once.",
    'C05': "Round 6: Props/C05Flow and the C05 scenario family on a transport that pauses writing (every close trigger issued while write-paused).",
    'C08': "Round 5: Model/MonitorFlow, Props/C08Flow - pause_writing/resume_writing are erasable from every history (the session never consults them), so the gap "
           "bound and the heartbeat-at-tick characterisation hold under write flow control; FakeTransport models the write buffer's water marks.",
    'C09': "Round 5: Props/C09Flow (silence closes / a live peer is never dropped, with flow-control events in the history); awaiting message callbacks across the "
           "trip instant and bursts of thousands of frames with a live peer in the correspondence.",
    'C10': "Rounds 5-6: several sessions alive in one process (Model/SeqMulti, Props/C10Multi: per-session counters are independent); message OBJECTS that carry a "
           "number from an earlier send, from the peer or from the application (Model/SeqObj, Props/C10Obj: the session never reads an object's number; k-th frame "
           "clause over all object histories); Props/C10Flow: heartbeats during a write-paused window.",
    'C11': "Props/C11Unique: a login caller returns at most once, exactly one of the outcomes, outcomes mutually exclusive.",
    'C12': "Round 5: Props/C12Via - every decode entry point (SoupMessage.from_bytes and from_bytes on each concrete class) x every type byte, table extracted per run.",
    'C13': "Rounds 5-6: Props/C13Order (several header/trailer entries assigned in any order: equality is order-sensitive and the decoded copy keeps the wire order), "
           "Props/C13Short (3-byte group instances, empty values, group last), Props/C13SharedGen (shared tags, general form).",
    'C14': "Round 6: Props/C14Resend - one message object sent several times with in-place changes at any depth between the sends.",
    'C15': "Rounds 5-6: Props/C15Enum (an enum default denotes the member with that VALUE whatever the member names), Props/C15Defs (12 theorems: a def-reference leaves "
           "the definitions table unchanged; the meaning of a field is local to enums / fielddefs / record names).",
    'C16': "Round 5: Props/C16Enum + Spec/FixDictEnum (enumeration tables of the generated classes equal the dictionary's, XML-special characters included: /repo 8c9ad6b).",
    'C17': "Round 6: Props/C17Reuse (one parsed specification object handed to several generators).",
    'C19': "Round 5: Props/C19Names (definition site, module and class name are irrelevant to the registry; a redefinition under the same name is rejected; the first "
           "class survives any later attempts). Round 9: Props/C19Classes (get_msg_classes lists a class iff an id of that application resolves to it, only the "
           "application's own statements matter, by-indicator lookup = decode), Props/C19ByName (a registering statement's name resolves to its class, every other "
           "(application, name) unchanged, rejected / id-less statements change no name), Props/C19NameList (by-name results are always listed / resolvable in the same application).",
    'C20': "Rounds 5-6: Props/C20Raise (the call's outcome is the coroutine's own outcome, including a coroutine that raises TimeoutError; an untimed call never ends "
           "with the slice expiry: /repo ea90e75), deterministic stop-after-check scenarios.",
}
for _p, _t in EXT2.items():
    EXT[_p] = (EXT.get(_p, '') + ' ' + _t).strip()
for _p, _t in EXT.items():
    CLAIMS[_p]['text'] = CLAIMS[_p]['text'].replace(
        " Partial: the two-outcome statement is a family of step theorems rather than one trace theorem; the connectors of the four application layers are exercised by the oracle only.", "").replace(
        " Completion (deadlock freedom) is covered by the scenario oracle; application-session layer (ITCH/OUCH/SQF/ASN.1) is exercised by the oracle only.",
        " Completion: C05_close_never_deadlocks (a definite task can always take the next step of a started close).") + ' ' + _t
for _p, _t in TECH.items():
    CLAIMS[_p]['technique'] = _t

PENDING_REASON = "check not built yet in this round (work in progress; see DESIGN.md §8) — not claimed until its model, theorems and correspondence exist"


def main():
    props = [json.loads(l) for l in open(os.path.join(VERIF, 'properties.jsonl'))]
    checks, na = [], []
    for p in props:
        pid = p['id']
        if pid in CLAIMS:
            c = CLAIMS[pid]
            checks.append({
                'property_id': pid,
                'quick_cmd': f'./check {pid} --tier quick',
                'thorough_cmd': f'./check {pid} --tier thorough',
                'evidence_file': f'evidence/{pid}.json',
                'replay_cmd_template': f'./check {pid} --replay {{path}}',
                'engine': 'lean4-model+correspondence',
                'level_claimed': {'category': 'proof', 'text': c['text'], 'design_ref': c['design']},
                'level_note': c.get('note', TRUST),
                'technique': c['technique'],
            })
        else:
            na.append({'property_id': pid, 'reason': NA.get(pid, PENDING_REASON)})
    m = {
        'version': 1,
        'setup_cmd': './setup.sh',
        'hooks': {
            'guard': 'NASDAQ_PROTOCOLS_VERIF',
            'enable': 'no source hooks are needed: checks import /repo/src in-process and instrument from outside (virtual-time loop, fake transport); the guard variable is set by harness/common.py but nothing in /repo reads it',
            'baseline_off_cmd': 'cd /repo && /venv/bin/python -m pytest -ra -q -p no:cacheprovider --timeout=900 --continue-on-collection-errors',
            'source_commits': [],
            'add_only': True,
        },
        'engines': [{
            'name': 'lean4-model+correspondence', 'path': 'lean/ + harness/',
            'serves_properties': sorted(CLAIMS),
            'kind_free_text': 'Lean 4 theorems over hand-written executable models (lean/NasdaqModel), compiled model driver behind a line '
                              'protocol, Python harness running the real library on the same cases (correspondence) plus an independent oracle',
        }],
        'checks': checks,
        'not_applicable': na,
        'notes': 'Exit codes: 0 held, 1 VIOLATION (replay file under replays/), 2 infrastructure error. VERIF_SEED / VERIF_TIER / VERIF_REPO honoured.',
    }
    json.dump(m, open(os.path.join(VERIF, 'MANIFEST.json'), 'w'), indent=1)
    print(f'{len(checks)} checks claimed, {len(na)} not claimed')


NA = {}

if __name__ == '__main__':
    main()
