#!/venv/bin/python
"""regenerates MANIFEST.json from the table below (single source of truth for what is claimed)"""
import json
import os

VERIF = os.path.dirname(os.path.dirname(os.path.abspath(__file__)))
TRUST = ("Lean 4.33 kernel; axioms propext/Classical.choice/Quot.sound only (audited by #print axioms each run, no sorry/native_decide); "
         "hand-written model tied to /repo's working tree by the per-run correspondence check + independent property oracle in harness/; "
         "Python semantics layer NasdaqModel/Py is modelled, not verified")

CLAIMS = {
    'C12': dict(
        text="Theorems over all packets/payloads (layout, length prefix, round trip, byte-exact payloads 0..32766, too-long rejected, "
             "decoded kind = type character) about Model/Soup.lean, a line-by-line transcription of soup/core.py; every run diffs model "
             "and implementation on generated well-formed and malformed packets and decoder inputs and evaluates the statement on the implementation.",
        design="§5-C12", technique="Lean 4 proof over executable model + differential correspondence with soup/core.py"),
}

PENDING_REASON = "check not built yet in this round (work in progress; see DESIGN.md §8) — not claimed until its model, theorems and correspondence exist"


def main():
    props = [json.loads(l) for l in open(os.path.join(VERIF, 'properties.jsonl'))]
    checks, na = [], []
    for p in props:
        pid = p['id']
        if pid in CLAIMS:
            c = CLAIMS[pid]
            checks.append({
                'property_id': pid,
                'quick_cmd': f'./check {pid} --tier quick',
                'thorough_cmd': f'./check {pid} --tier thorough',
                'evidence_file': f'evidence/{pid}.json',
                'replay_cmd_template': f'./check {pid} --replay {{path}}',
                'engine': 'lean4-model+correspondence',
                'level_claimed': {'category': 'proof', 'text': c['text'], 'design_ref': c['design']},
                'level_note': c.get('note', TRUST),
                'technique': c['technique'],
            })
        else:
            na.append({'property_id': pid, 'reason': NA.get(pid, PENDING_REASON)})
    m = {
        'version': 1,
        'setup_cmd': './setup.sh',
        'hooks': {
            'guard': 'NASDAQ_PROTOCOLS_VERIF',
            'enable': 'no source hooks are needed: checks import /repo/src in-process and instrument from outside (virtual-time loop, fake transport); the guard variable is set by harness/common.py but nothing in /repo reads it',
            'baseline_off_cmd': 'cd /repo && /venv/bin/python -m pytest -ra -q -p no:cacheprovider --timeout=900 --continue-on-collection-errors',
            'source_commits': [],
            'add_only': True,
        },
        'engines': [{
            'name': 'lean4-model+correspondence', 'path': 'lean/ + harness/',
            'serves_properties': sorted(CLAIMS),
            'kind_free_text': 'Lean 4 theorems over hand-written executable models (lean/NasdaqModel), compiled model driver behind a line '
                              'protocol, Python harness running the real library on the same cases (correspondence) plus an independent oracle',
        }],
        'checks': checks,
        'not_applicable': na,
        'notes': 'Exit codes: 0 held, 1 VIOLATION (replay file under replays/), 2 infrastructure error. VERIF_SEED / VERIF_TIER / VERIF_REPO honoured.',
    }
    json.dump(m, open(os.path.join(VERIF, 'MANIFEST.json'), 'w'), indent=1)
    print(f'{len(checks)} checks claimed, {len(na)} not claimed')


NA = {}

if __name__ == '__main__':
    main()
