#!/bin/bash
# usage: tools/seedverify.sh <dir with patch.diff demo.py>     confirms a seeded change independently, in a scratch worktree of /repo HEAD:
#   (1) the patch applies, (2) the unedited test suite passes with it, (3) demo.py exits non-zero with it, (4) demo.py exits 0 without it.
set -u
PD=$(realpath $1); ID=$(basename $PD)
WT=/tmp/wt-verify-$ID-$$
git -C /repo worktree add -q --detach $WT HEAD || exit 3
cd $WT
PYTHONPATH=$WT/src timeout 300 /venv/bin/python $PD/demo.py > /tmp/seedverify.$ID.clean.out 2>&1; clean=$?
if ! git apply $PD/patch.diff 2>/tmp/seedverify.$ID.err; then echo "VERIFY $ID APPLY-FAILED"; cat /tmp/seedverify.$ID.err | tail -3; cd /; git -C /repo worktree remove --force $WT; exit 3; fi
/venv/bin/python -m pytest -q -p no:cacheprovider --timeout=900 -n 8 > /tmp/seedverify.$ID.pytest.out 2>&1; pt=$?
PYTHONPATH=$WT/src timeout 300 /venv/bin/python $PD/demo.py > /tmp/seedverify.$ID.mut.out 2>&1; mut=$?
cd /; git -C /repo worktree remove --force $WT; git -C /repo worktree prune
echo "VERIFY $ID demo_clean_rc=$clean pytest_rc=$pt ($(tail -1 /tmp/seedverify.$ID.pytest.out)) demo_mutant_rc=$mut"
[ $clean -eq 0 ] && [ $pt -eq 0 ] && [ $mut -ne 0 ] && [ $mut -ne 124 ] && echo "VERIFY $ID CONFIRMED" || echo "VERIFY $ID NOT-CONFIRMED"
