#!/bin/bash
# setup_cmd: build the Lean models, proofs and the compiled model driver from files on disk only (offline).
cd "$(dirname "$0")/lean" && lake build 2>&1 | grep -v 'WARNING conda' | tail -5
test -x .lake/build/bin/drv_C12
