import NasdaqModel.Driver.Loop
import NasdaqModel.Driver.Monitor
def main : IO Unit := NasdaqModel.Driver.mainLoop [NasdaqModel.Driver.MonitorD.handle]
