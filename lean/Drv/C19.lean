import NasdaqModel.Driver.Loop
import NasdaqModel.Driver.Registry
def main : IO Unit := NasdaqModel.Driver.mainLoop [NasdaqModel.Driver.RegistryD.handle]
