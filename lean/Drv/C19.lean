import NasdaqModel.Driver.Loop
def main : IO Unit := NasdaqModel.Driver.mainLoop []
