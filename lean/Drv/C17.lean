import NasdaqModel.Driver.Loop
import NasdaqModel.Driver.GenHistory
def main : IO Unit := NasdaqModel.Driver.mainLoop [NasdaqModel.Driver.GenHistoryD.handle]
