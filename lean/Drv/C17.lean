import NasdaqModel.Driver.Loop
import NasdaqModel.Driver.GenHistory
import NasdaqModel.Driver.GenReuse
import NasdaqModel.Driver.GenNames
def main : IO Unit := NasdaqModel.Driver.mainLoop [NasdaqModel.Driver.GenHistoryD.handle, NasdaqModel.Driver.GenReuseD.handle, NasdaqModel.Driver.GenNamesD.handle]
