import NasdaqModel.Driver.Loop
import NasdaqModel.Driver.Soup
import NasdaqModel.Driver.SoupVia
def main : IO Unit := NasdaqModel.Driver.mainLoop [NasdaqModel.Driver.SoupD.handle, NasdaqModel.Driver.SoupViaD.handle]
