import NasdaqModel.Driver.Loop
import NasdaqModel.Driver.Soup
def main : IO Unit := NasdaqModel.Driver.mainLoop [NasdaqModel.Driver.SoupD.handle]
