import NasdaqModel.Driver.Loop
import NasdaqModel.Driver.Seq
import NasdaqModel.Driver.SeqMulti
def main : IO Unit := NasdaqModel.Driver.mainLoop [NasdaqModel.Driver.SeqD.handle, NasdaqModel.Driver.SeqMultiD.handle]
