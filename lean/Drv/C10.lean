import NasdaqModel.Driver.Loop
import NasdaqModel.Driver.Seq
def main : IO Unit := NasdaqModel.Driver.mainLoop [NasdaqModel.Driver.SeqD.handle]
