import NasdaqModel.Driver.Loop
import NasdaqModel.Driver.Seq
import NasdaqModel.Driver.SeqMulti
import NasdaqModel.Driver.SeqObj
def main : IO Unit := NasdaqModel.Driver.mainLoop [NasdaqModel.Driver.SeqD.handle, NasdaqModel.Driver.SeqMultiD.handle, NasdaqModel.Driver.SeqObjD.handle]
