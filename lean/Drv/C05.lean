import NasdaqModel.Driver.Loop
import NasdaqModel.Driver.Session
def main : IO Unit := NasdaqModel.Driver.mainLoop [NasdaqModel.Driver.SessD.handle]
