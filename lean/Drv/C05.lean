import NasdaqModel.Driver.Loop
import NasdaqModel.Driver.Session
import NasdaqModel.Driver.AppSession
import NasdaqModel.Witness.C04App
import NasdaqModel.Witness.C05App
open NasdaqModel in
def appWitnesses : List (String × List App.Ev) :=
  [("C04App-late-cancel", Witness.C04App.history),
   ("C05App-close-from-handler", Witness.C05App.historyA),
   ("C05App-close-from-handler-race", Witness.C05App.historyC),
   ("C05App-cleanup-close", Witness.C05App.historyB)]
def main : IO Unit :=
  NasdaqModel.Driver.mainLoop [NasdaqModel.Driver.SessD.handle, NasdaqModel.Driver.AppD.handleWith appWitnesses]
