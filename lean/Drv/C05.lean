import NasdaqModel.Driver.Loop
import NasdaqModel.Driver.Session
import NasdaqModel.Driver.AppSession
def main : IO Unit := NasdaqModel.Driver.mainLoop [NasdaqModel.Driver.SessD.handle, NasdaqModel.Driver.AppD.handle]
