import NasdaqModel.Driver.Loop
import NasdaqModel.Driver.Heap
def main : IO Unit := NasdaqModel.Driver.mainLoop [NasdaqModel.Driver.HeapD.handle]
