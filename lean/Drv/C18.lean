import NasdaqModel.Driver.Loop
import NasdaqModel.Driver.Heap
import NasdaqModel.Driver.HeapCut
def main : IO Unit := NasdaqModel.Driver.mainLoop [NasdaqModel.Driver.HeapD.handle, NasdaqModel.Driver.HeapCutD.handle]
