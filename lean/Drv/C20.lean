import NasdaqModel.Driver.Loop
import NasdaqModel.Driver.SyncFacade
def main : IO Unit := NasdaqModel.Driver.mainLoop [NasdaqModel.Driver.SyncD.handle]
