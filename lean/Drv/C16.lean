import NasdaqModel.Driver.Loop
import NasdaqModel.Driver.GenFix
def main : IO Unit := NasdaqModel.Driver.mainLoop [NasdaqModel.Driver.GenFixD.handle]
