import NasdaqModel.Driver.Loop
import NasdaqModel.Driver.Framing
def main : IO Unit := NasdaqModel.Driver.mainLoop [NasdaqModel.Driver.FramingD.handle]
