import NasdaqModel.Driver.Loop
import NasdaqModel.Driver.GenSoupApp
def main : IO Unit := NasdaqModel.Driver.mainLoop [NasdaqModel.Driver.GenSoupAppD.handle]
