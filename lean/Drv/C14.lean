import NasdaqModel.Driver.Loop
import NasdaqModel.Driver.Fix
import NasdaqModel.Driver.FixObj
def main : IO Unit := NasdaqModel.Driver.mainLoop [NasdaqModel.Driver.FixD.handle, NasdaqModel.Driver.FixObjD.handle]
