import NasdaqModel.Driver.Loop
import NasdaqModel.Driver.Fix
def main : IO Unit := NasdaqModel.Driver.mainLoop [NasdaqModel.Driver.FixD.handle]
