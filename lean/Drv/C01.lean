import NasdaqModel.Driver.Loop
import NasdaqModel.Driver.BinCodec
def main : IO Unit := NasdaqModel.Driver.mainLoop [NasdaqModel.Driver.BinCodecD.handle]
