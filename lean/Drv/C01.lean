import NasdaqModel.Driver.Loop
import NasdaqModel.Driver.BinCodec
import NasdaqModel.Driver.BinObj
def main : IO Unit := NasdaqModel.Driver.mainLoop [NasdaqModel.Driver.BinCodecD.handle, NasdaqModel.Driver.BinObjD.handle]
