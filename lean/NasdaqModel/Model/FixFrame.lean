import NasdaqModel.Model.Fix
/-
Model of the FIX framing in `nasdaq_protocols/fix/session.py` (`send_msg` header stamping, `_prepare_complete_msg`)
and of the find-logic of `fix/_reader.py` (`FixMessageReader.deserialize`, `calc_msg_len`).

`SendingTime` is an input (the harness reads it from the frame the implementation wrote); the session's
comp ids / sub id are the `str` values `_initialize_session` copied from the logon message.
The standard header fields are addressed by their standard tags: SenderSubID 50, TargetCompID 56, SenderCompID 49,
MsgSeqNum 34, SendingTime 52; BeginString 8 (string), BodyLength 9 (int), MsgType 35 (string), CheckSum 10 (string)
are taken from the global `Field.Def` by `_prepare_complete_msg`.

`fixCut` duplicates the small find-logic of the reader here on purpose (the reader *machine* of C03 lives elsewhere).
-/
namespace NasdaqModel.FixFrame
open NasdaqModel Py Fix

/-- what `_initialize_session` stored -/
structure Sess where
  senderSub : Str
  target : Str
  sender : Str
  deriving Repr, Inhabited

/-- `msg.Header.<Name> = value` (`DataSegment.__setattr__`): a name that is not an entry of this header class lands in
    the instance `__dict__` and never reaches the wire -/
def stamp (es : List Entry) (s : Seg) (t : Nat) (v : Val) : Except Err Seg :=
  match lookupE es t with
  | none => .ok s
  | some _ => setItem es s t v

/-- the five assignments of `send_msg`, in its order -/
def stampHeader (es : List Entry) (se : Sess) (seq : Int) (time : Str) (h : Seg) : Except Err Seg := do
  let h ← stamp es h 50 (.str se.senderSub)
  let h ← stamp es h 56 (.str se.target)
  let h ← stamp es h 49 (.str se.sender)
  let h ← stamp es h 34 (.int seq)
  stamp es h 52 (.str time)

/-- `reduce(add, data)` -/
def byteSum (b : Bytes) : Nat := b.foldl (· + ·) 0

/-- `_prepare_complete_msg` on the bytes of `msg.to_bytes()` -/
def prepare (ver ty : Str) (body : Bytes) : Except Err Bytes := do
  let tyb ← encodeAscii ty
  let d1 := fieldBytes 35 tyb ++ 1 :: body
  let d2 := fieldBytes 9 (intStr (d1.length : Int)) ++ 1 :: d1
  let verb ← encodeAscii ver
  let d3 := fieldBytes 8 verb ++ 1 :: d2
  let ck := rjust0 (intStr ((byteSum d3 % 256 : Nat) : Int)) 3
  pure (d3 ++ (fieldBytes 10 ck ++ [1]))

/-- `segment.values.pop(tag, None)` for each of `ks` -/
def dropKeys (ks : List Nat) (s : Seg) : Seg := s.filter (fun p => !ks.contains p.1)

/-- `send_msg`: the bytes given to `transport.write` and the message as mutated by the stamping.  `_prepare_complete_msg` first
    removes the four framing fields the message itself may carry (a message obtained from the reader and sent again): the session
    writes BeginString, BodyLength, MsgType and CheckSum itself. -/
def frame (ver : Str) (d : MsgDef) (se : Sess) (seq : Int) (time : Str) (m : Msg) : Except Err (Bytes × Msg) := do
  validateSeg d.body m.body
  let h ← stampHeader d.hdr se seq time m.hdr
  let m' : Msg := { m with hdr := dropKeys [8, 9, 35] h, trl := dropKeys [10] m.trl }
  let b ← encMsg d m'
  let f ← prepare ver d.type b
  pure (f, m')

/-- Python slice bound: `i` as used in `buf[:i]` / `buf[i:]` for a sequence of length `len` -/
def pyIdx (len : Nat) (i : Int) : Nat :=
  if i < 0 then (len + i).toNat else min i.toNat len

/-- the framing part of `FixMessageReader.deserialize`: `none` = `(None, False, False)`, otherwise
    `(buffer[:msg_len], buffer[msg_len:])`; `int()` may raise -/
def fixCut (buf : Bytes) : Except Err (Option (Bytes × Bytes)) :=
  match findSub [51, 53, 61] buf with
  | none => .ok none
  | some _ =>
    match findFrom [61] buf 2 with
    | none => .ok none
    | some start =>
      match findFrom [1] buf start with
      | none => .ok none
      | some stop => do
          let n ← parseIntBytes ((buf.take stop).drop (start + 1))
          if n < 0 then .error .value else                 -- `if body_length < 0: raise ValueError`
          let msgLen : Int := ((stop + 1 : Nat) : Int) + n + 7
          if (buf.length : Int) < msgLen then .ok none
          else
            let k := pyIdx buf.length msgLen
            .ok (some (buf.take k, buf.drop k))

/-- `deserialize`: cut, then `Message.from_bytes(frame)`; the decoder's byte count is ignored by the reader -/
def fixDeser (reg : List MsgDef) (buf : Bytes) : Except Err (Option (MsgDef × Msg × Bytes)) := do
  match ← fixCut buf with
  | none => pure none
  | some (fr, rest) => do
      let r ← decodeMsg reg fr
      pure (some (r.2.1, r.2.2, rest))

/-- feeding the reader segment by segment, deserialising after every segment until nothing more is framed
    (`fuel` bounds the inner loop; every framed message removes at least one byte when `msg_len > 0`) -/
def drain : Nat → Bytes → List Bytes → Except Err (List Bytes × Bytes)
  | 0, buf, out => .ok (out, buf)
  | fuel + 1, buf, out => do
      match ← fixCut buf with
      | none => pure (out, buf)
      | some (fr, rest) => drain fuel rest (out ++ [fr])

def feed : List Bytes → Bytes → List Bytes → Except Err (List Bytes × Bytes)
  | [], buf, out => .ok (out, buf)
  | seg :: segs, buf, out => do
      let r ← drain ((buf ++ seg).length + 1) (buf ++ seg) out
      feed segs r.2 r.1

end NasdaqModel.FixFrame
