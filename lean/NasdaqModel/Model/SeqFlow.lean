import NasdaqModel.Model.Seq
/-
Sequence-number bookkeeping of a session whose transport exercises WRITE flow control (C10, seeded change C10l) — import-free,
executable.

An asyncio socket transport keeps what the peer does not read in a buffer of its own and tells the protocol about it:
`protocol.pause_writing()` — synchronously, from inside `transport.write()` — once the buffer is above its high-water mark,
`protocol.resume_writing()` — from a loop callback — once the peer has read it down to the low-water mark.  WHEN the transport makes
these calls is decided by the peer and by the water marks: for the session they are external events, at arbitrary positions of a
history.

What the code under verification does with them (transcribed):

  common/session.py   `class AsyncSession(asyncio.Protocol, …)` defines neither `pause_writing` nor `resume_writing`;
  soup/session.py, fix/session.py   neither;
  asyncio/protocols.py  `BaseProtocol.pause_writing(self)` / `resume_writing(self)`: bodies are a docstring only;
  SoupSession.send_msg / FixSession.send_msg call `self._transport.write(bytes_)` unconditionally (Model/Seq.lean).

So both callbacks are no-ops on the state C10 speaks about, and a `transport.write` made while the transport has asked for a pause is
a write like any other.  `FFix` / `FSoup` add the transport's `_protocol_paused` flag to the states of Model/Seq.lean — no transition
of the session reads it — and a ghost field with what was written while the flag was set, so that theorems can speak about "while
paused".
-/
namespace NasdaqModel.SeqFlow
open NasdaqModel NasdaqModel.SeqNum Soup

/-! ## FIX -/

structure FFix where
  s : FixSt
  writingPaused : Bool          -- the transport's `_protocol_paused`
  pausedFrames : List Int       -- ghost: tag 34 of the frames handed to `transport.write` while `writingPaused`, oldest first
  deriving Repr, DecidableEq

def FFix.init : FFix := { s := fixInit, writingPaused := false, pausedFrames := [] }

inductive FFixOp where
  | base (op : FixOp)      -- an operation of Model/Seq.lean (logon, application send, heartbeat — explicit or timer-driven)
  | pauseWriting           -- the transport calls `protocol.pause_writing()`
  | resumeWriting          -- the transport calls `protocol.resume_writing()`
  deriving Repr, DecidableEq

/-- the frame an outcome stands for, if any -/
def writtenTag : FixOut → List Int
  | .written n => [n]
  | _ => []

def FFix.step (x : FFix) : FFixOp → FFix
  | .pauseWriting => { x with writingPaused := true }        -- `BaseProtocol.pause_writing`: no body
  | .resumeWriting => { x with writingPaused := false }      -- `BaseProtocol.resume_writing`: no body
  | .base op =>
      let r := fixStepR x.s op          -- `send_msg` does not consult the flag
      { x with s := r.1, pausedFrames := if x.writingPaused then x.pausedFrames ++ writtenTag r.2 else x.pausedFrames }

def FFix.run (x : FFix) (ops : List FFixOp) : FFix := ops.foldl FFix.step x

/-- the history as the session's own transitions see it: without the transport's callbacks -/
def baseOnly : List FFixOp → List FixOp
  | [] => []
  | .base op :: rest => op :: baseOnly rest
  | _ :: rest => baseOnly rest

def FFixOp.isLogin : FFixOp → Bool
  | .base op => op.isLogin
  | _ => false

/-- no `login` among the operations -/
def noLoginF (ops : List FFixOp) : Bool := ops.all (fun op => !op.isLogin)

/-! ### NOT the code: a write gate behind the draw

A flow-control feature is tempted to skip keep-alive traffic while the transport is paused.  `send_msg` has drawn and stamped
MsgSeqNum (`next(self.sequence)`) BEFORE it reaches the write, so a gate at the write site drops a frame whose number is gone.
`stepGated` is that design — it is what the theorems of Props/C10Flow.lean are sensitive to (`C10Flow_gate_behind_draw_breaks`). -/

def FFix.stepGated (x : FFix) : FFixOp → FFix
  | .pauseWriting => { x with writingPaused := true }
  | .resumeWriting => { x with writingPaused := false }
  | .base (.heartbeat m) =>
      let r := fixStepR x.s (.heartbeat m)
      if x.writingPaused then { x with s := { r.1 with frames := x.s.frames } }      -- number consumed, frame not written
      else { x with s := r.1 }
  | .base op => { x with s := (fixStepR x.s op).1 }

def FFix.runGated (x : FFix) (ops : List FFixOp) : FFix := ops.foldl FFix.stepGated x

/-! ## SoupBinTCP -/

structure FSoup where
  s : SoupSt
  writingPaused : Bool
  deriving Repr, DecidableEq

inductive FSoupOp where
  | base (op : SoupOp)
  | pauseWriting
  | resumeWriting
  deriving Repr, DecidableEq

def FSoup.step (x : FSoup) : FSoupOp → FSoup
  | .pauseWriting => { x with writingPaused := true }
  | .resumeWriting => { x with writingPaused := false }
  | .base op => { x with s := (soupStep x.s op).1 }

def FSoup.run (x : FSoup) (ops : List FSoupOp) : FSoup := ops.foldl FSoup.step x

def baseOnlySoup : List FSoupOp → List SoupOp
  | [] => []
  | .base op :: rest => op :: baseOnlySoup rest
  | _ :: rest => baseOnlySoup rest

end NasdaqModel.SeqFlow
