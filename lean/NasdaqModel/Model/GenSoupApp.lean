import NasdaqModel.Py.Dec
/-
Model of the ITCH / OUCH / SQF code generator:

* `common/message/parser.py`   — `Parser.parse`, `_parse_*`, `MessageDef.id` converter, `FieldDef._field_context`,
                                 `get_codegen_context` of every definition class;
* `common/message/templates/{message_soup_app,enum,record}.mustache` as rendered by chevron — at the level of
  *abstract generated code* (`Module`: class declarations whose field types are small expressions);
* `itch|ouch|sqf/codegen.py`   — the `generate` entry points (`record_type = 'Record'`, the implementation name).

`gen` is that pipeline.  `evalModule` models what Python does when the generated module is imported
(name lookup in the module namespace, `Array.__attrs_post_init__`, calling a class / an instance, `Enum` class
creation, the per-application message registry of `itch|ouch|sqf/core.py`).  `denote` is the reference
semantics of a specification, read from the documentation block of `tools/templates/soup_app_xml.mustache`.

All text is a list of code points (`Str`).  XML parsing (ElementTree) and text rendering (chevron) are not
modelled: a `Spec` is the element tree after parsing, a `Module` is the generated file after `ast.parse`.
Import-free apart from `Py/Basic`, `Py/Dec` so that the driver links.
-/
namespace NasdaqModel.GenSoupApp
open NasdaqModel
open NasdaqModel.Py (isDigit digitsVal natDigits)

/-- code points of a string literal (tables are written with it; closed terms reduce by `decide`) -/
def cp (s : String) : Str := s.toList.map Char.toNat

/-! ## small Python helpers -/

/-- `a.startswith(p)` -/
def isPrefix : Str → Str → Bool
  | [], _ => true
  | _ :: _, [] => false
  | a :: as, b :: bs => a == b && isPrefix as bs

/-- `p in s` for strings -/
def isInfix (p : Str) : Str → Bool
  | [] => p.isEmpty
  | b :: bs => isPrefix p (b :: bs) || isInfix p bs

/-- `s.replace(p, '')` for a non-empty `p` (left to right, non-overlapping).  `fuel` is the length of `s`. -/
def removeAllAux (p : Str) : Nat → Str → Str
  | 0, s => s
  | _ + 1, [] => []
  | fuel + 1, c :: cs =>
      if isPrefix p (c :: cs) then removeAllAux p fuel ((c :: cs).drop p.length)
      else c :: removeAllAux p fuel cs

def removeAll (p : Str) (s : Str) : Str := removeAllAux p s.length s

/-- chevron's `_html_escape` (`{{x}}` as opposed to `{{{x}}}`): `&` first, then `"`, `<`, `>` -/
def htmlEscape : Str → Str
  | [] => []
  | c :: cs =>
      (if c = 38 then cp "&amp;" else if c = 34 then cp "&quot;" else if c = 60 then cp "&lt;"
       else if c = 62 then cp "&gt;" else [c]) ++ htmlEscape cs

/-- `_py_str_body`: `text.replace('\\', '\\\\').replace("'", "\\'")` — what must stand between the single quotes of a literal -/
def pyStrBody : Str → Str
  | [] => []
  | c :: cs => (if c = 92 then [92, 92] else if c = 39 then [92, 39] else [c]) ++ pyStrBody cs

/-- chevron renders `None` as the empty string -/
def orEmpty : Option Str → Str
  | some s => s
  | none => []

/-- `element.get('name', fallback)` -/
def nameOr (a b : Option Str) : Option Str :=
  match a with
  | some n => some n
  | none => b

/-- an f-string renders `None` as `None` -/
def orNone : Option Str → Str
  | some s => s
  | none => cp "None"

def isIdentStart (c : Nat) : Bool := (65 ≤ c && c ≤ 90) || (97 ≤ c && c ≤ 122) || c == 95
def isIdentChar (c : Nat) : Bool := isIdentStart c || isDigit c

def pyKeywords : List Str := [
  cp "False", cp "None", cp "True", cp "and", cp "as", cp "assert", cp "async", cp "await", cp "break",
  cp "class", cp "continue", cp "def", cp "del", cp "elif", cp "else", cp "except", cp "finally", cp "for",
  cp "from", cp "global", cp "if", cp "import", cp "in", cp "is", cp "lambda", cp "nonlocal", cp "not",
  cp "or", cp "pass", cp "raise", cp "return", cp "try", cp "while", cp "with", cp "yield"]

/-- an (ASCII) Python identifier that is not a keyword.  Non-ASCII identifiers are outside the model. -/
def isIdent (s : Str) : Bool :=
  match s with
  | [] => false
  | c :: cs => isIdentStart c && cs.all isIdentChar && !pyKeywords.contains s

/-- a decimal integer literal Python 3 accepts: digits, no leading zero unless the number is all zeros -/
def isNatLit (s : Str) : Bool :=
  !s.isEmpty && s.all isDigit && (s.head? != some 48 || s.all (· == 48))

/-! ## Python dictionaries (insertion ordered; assigning an existing key keeps its position) -/

def dictSet {κ ν : Type} [BEq κ] : List (κ × ν) → κ → ν → List (κ × ν)
  | [], k, v => [(k, v)]
  | (k', v') :: rest, k, v => if k' == k then (k', v) :: rest else (k', v') :: dictSet rest k v

def dictOfList {κ ν : Type} [BEq κ] (xs : List (κ × ν)) : List (κ × ν) :=
  xs.foldl (fun d kv => dictSet d kv.1 kv.2) []

def dictGet? {κ ν : Type} [BEq κ] : List (κ × ν) → κ → Option ν
  | [], _ => none
  | (k', v') :: rest, k => if k' == k then some v' else dictGet? rest k

/-- `Except` map over a list, left to right (the first failure wins) -/
def mapE {α β : Type} (f : α → Except Err β) : List α → Except Err (List β)
  | [] => .ok []
  | a :: as => do
      let b ← f a
      let bs ← mapE f as
      pure (b :: bs)

/-! ## the registered datatypes: `TypeDefinition.Definitions` (common/message/types.py) -/

inductive Prim where
  | boolean | byte | int2 | int2be | uint2 | uint2be | int4 | int4be | uint4 | uint4be
  | int8 | int8be | uint8 | uint8be | charAscii | charIso | strAscii | strIso
  deriving DecidableEq, Repr, Inhabited

def Prim.all : List Prim :=
  [.boolean, .byte, .int2, .int2be, .uint2, .uint2be, .int4, .int4be, .uint4, .uint4be,
   .int8, .int8be, .uint8, .uint8be, .charAscii, .charIso, .strAscii, .strIso]

/-- the id a class is registered under (`@TypeDefinition.add_type(id)`) -/
def Prim.id : Prim → Str
  | .boolean => cp "boolean" | .byte => cp "byte"
  | .int2 => cp "int_2" | .int2be => cp "int_2_be" | .uint2 => cp "uint_2" | .uint2be => cp "uint_2_be"
  | .int4 => cp "int_4" | .int4be => cp "int_4_be" | .uint4 => cp "uint_4" | .uint4be => cp "uint_4_be"
  | .int8 => cp "int_8" | .int8be => cp "int_8_be" | .uint8 => cp "uint_8" | .uint8be => cp "uint_8_be"
  | .charAscii => cp "char_ascii" | .charIso => cp "char_iso-8859-1"
  | .strAscii => cp "str_ascii" | .strIso => cp "str_iso-8859-1"

/-- `__name__` of the class -/
def Prim.cls : Prim → Str
  | .boolean => cp "Boolean" | .byte => cp "Byte"
  | .int2 => cp "Short" | .int2be => cp "ShortBE" | .uint2 => cp "UnsignedShort" | .uint2be => cp "UnsignedShortBE"
  | .int4 => cp "Int" | .int4be => cp "IntBE" | .uint4 => cp "UnsignedInt" | .uint4be => cp "UnsignedIntBE"
  | .int8 => cp "Long" | .int8be => cp "LongBE" | .uint8 => cp "UnsignedLong" | .uint8be => cp "UnsignedLongBE"
  | .charAscii => cp "CharAscii" | .charIso => cp "CharIso8599"
  | .strAscii => cp "AsciiString" | .strIso => cp "Iso8859String"

inductive PrimKind where | bool | int | text
  deriving DecidableEq, Repr

def Prim.kind : Prim → PrimKind
  | .boolean => .bool
  | .charAscii | .charIso | .strAscii | .strIso => .text
  | _ => .int

/-- the class attribute `hint` -/
def PrimKind.hint : PrimKind → Str
  | .bool => cp "bool" | .int => cp "int" | .text => cp "str"

/-- one entry of `TypeDefinition.Definitions` -/
inductive TypeEntry where
  | prim (p : Prim)
  | fixed (iso : Bool)        -- `FixedAsciiString` / `FixedIsoString`: classes that must be instantiated with a length
  deriving DecidableEq, Repr

def fixedId (iso : Bool) : Str := if iso then cp "str_iso-8859-1_n" else cp "str_ascii_n"
def fixedCls (iso : Bool) : Str := if iso then cp "FixedIsoString" else cp "FixedAsciiString"

def TypeEntry.cls : TypeEntry → Str
  | .prim p => p.cls
  | .fixed iso => fixedCls iso

def TypeEntry.hint : TypeEntry → Str
  | .prim p => p.kind.hint
  | .fixed _ => cp "str"

def typeDefs : List (Str × TypeEntry) :=
  Prim.all.map (fun p => (p.id, TypeEntry.prim p)) ++ [(fixedId false, .fixed false), (fixedId true, .fixed true)]

/-- `TypeDefinition.Definitions[id]` (`KeyError` when missing; `None` is never a key) -/
def typeDef (id : Option Str) : Except Err TypeEntry :=
  match id with
  | none => .error .key
  | some i => match dictGet? typeDefs i with
    | some e => .ok e
    | none => .error .key

/-! ## the specification after XML parsing -/

structure EnumVal where
  name : Str                 -- attribute `name` (absent ↦ empty: chevron renders `None` as '')
  value : Str                -- element text (absent ↦ empty)
  deriving DecidableEq, Repr, Inhabited

structure EnumEl where
  name : Str                 -- attribute `id`
  ty : Option Str            -- attribute `type`
  values : List EnumVal
  deriving DecidableEq, Repr, Inhabited

/-- one `<field …/>` element: its attributes as written -/
structure FieldEl where
  name : Option Str := none
  defn : Option Str := none     -- `def`
  ty : Option Str := none       -- `type`
  ref : Option Str := none
  array : Option Str := none
  length : Option Str := none
  dflt : Option Str := none     -- `default`
  endian : Option Str := none
  deriving DecidableEq, Repr, Inhabited

structure RecordEl where
  name : Str                 -- attribute `id`
  fields : List FieldEl
  deriving DecidableEq, Repr, Inhabited

structure MessageEl where
  name : Str                 -- attribute `id`
  msgId : Str                -- attribute `message-id`
  group : Option Str         -- attribute `message-group`
  direction : Option Str
  fields : List FieldEl
  deriving DecidableEq, Repr, Inhabited

/-- the four sections in the order of the documented skeleton; an absent section is an empty list
    (the generator is modelled in a fresh process: `FieldDef.Definitions` starts empty — reuse across runs is C17) -/
structure Spec where
  enums : List EnumEl
  fielddefs : List FieldEl
  records : List RecordEl
  messages : List MessageEl
  deriving DecidableEq, Repr, Inhabited

inductive Impl where | itch | ouch | sqf
  deriving DecidableEq, Repr, Inhabited

def Impl.name : Impl → Str
  | .itch => cp "itch" | .ouch => cp "ouch" | .sqf => cp "sqf"

/-! ## parser.py -/

/-- `FieldDef` (attrs class) -/
structure FieldDef where
  name : Option Str
  ty : Option Str
  ref : Option Str
  array : Option Str
  length : Option Str
  dflt : Option Str
  endian : Option Str
  deriving DecidableEq, Repr, Inhabited

abbrev FieldDefs := List (Option Str × FieldDef)       -- `FieldDef.Definitions`

/-- `Parser._parse_field` -/
def parseField (defs : FieldDefs) (e : FieldEl) : Except Err FieldDef :=
  let plain : FieldDef := ⟨e.name, e.ty, e.ref, e.array, e.length, e.dflt, e.endian⟩
  match e.defn with
  | none => .ok plain
  | some d =>
    if d.isEmpty then .ok plain                       -- `element.get('def', False)` is falsy for ''
    else match dictGet? defs (some d) with            -- `copy.deepcopy(FieldDef.Definitions[def])`
      | none => .error .key
      | some fd => .ok { fd with name := nameOr e.name fd.name }

/-- `Parser._parse_fields` -/
def parseFields (defs : FieldDefs) (es : List FieldEl) : Except Err (List FieldDef) := mapE (parseField defs) es

/-- `Parser._parse_fielddefs`: parsed against the *previous* `FieldDef.Definitions` (empty in a fresh process) -/
def parseFieldDefs (es : List FieldEl) : Except Err FieldDefs := do
  let fs ← parseFields [] es
  pure (dictOfList (fs.map fun f => (f.name, f)))

structure RecordDef where
  name : Str
  fields : List FieldDef
  deriving DecidableEq, Repr, Inhabited

structure MessageDef where
  name : Str
  id : Str
  group : Option Str
  fields : List FieldDef
  direction : Option Str
  deriving DecidableEq, Repr, Inhabited

/-- the attrs converter of `MessageDef.id`: `x if x.isdigit() else str(ord(x))`.
    (`str.isdigit` is modelled for ASCII digits only.) -/
def convertMsgId (x : Str) : Except Err Str :=
  if !x.isEmpty && x.all isDigit then .ok x
  else match x with
    | [c] => .ok (natDigits c)
    | _ => .error .type                               -- `ord()` expected a character

/-- the key of `Parser._parse_messages`: `f'{msg.id}-{msg.group}-{msg.direction}'` -/
def msgKey (m : MessageDef) : Str := m.id ++ [45] ++ orNone m.group ++ [45] ++ orNone m.direction

/-- `Parser._parse_messages` -/
def parseMessages (defs : FieldDefs) (override : Bool) :
    List (Str × MessageDef) → List MessageEl → Except Err (List (Str × MessageDef))
  | acc, [] => .ok acc
  | acc, e :: es => do
      -- argument order of `MessageDef(id, message-id, group, fields, direction)`: fields are parsed before the converter runs
      let fs ← parseFields defs e.fields
      let id ← convertMsgId e.msgId
      let m : MessageDef := ⟨e.name, id, e.group, fs, e.direction⟩
      if (dictGet? acc (msgKey m)).isSome && !override then .error .value
      else parseMessages defs override (dictSet acc (msgKey m) m) es

structure Definitions where
  enums : List (Str × EnumEl)
  records : List (Str × RecordDef)
  messages : List MessageDef
  deriving Repr, Inhabited

/-- `Parser.parse` for the sections in skeleton order -/
def parse (override : Bool) (s : Spec) : Except Err Definitions := do
  let enums := dictOfList (s.enums.map fun e => (e.name, e))
  let defs ← parseFieldDefs s.fielddefs
  let recs ← mapE (fun (r : RecordEl) => do
      let fs ← parseFields defs r.fields
      pure (r.name, (⟨r.name, fs⟩ : RecordDef))) s.records
  let msgs ← parseMessages defs override [] s.messages
  pure ⟨enums, dictOfList recs, msgs.map (·.2)⟩

/-! ## abstract generated code -/

/-- a type expression as it appears in `Field('name', <expr>, …)` -/
inductive TyExpr where
  | cls (n : Str)                         -- a name
  | array (e cnt : TyExpr)                -- `Array(e, cnt)`
  | callLen (e : TyExpr) (len : Str)      -- `e(length=len)`, `len` is the raw text put there
  deriving DecidableEq, Repr, Inhabited

/-- the text the parser builds -/
def TyExpr.render : TyExpr → Str
  | .cls n => n
  | .array e c => cp "Array(" ++ e.render ++ cp ", " ++ c.render ++ cp ")"
  | .callLen e l => e.render ++ cp "(length=" ++ l ++ cp ")"

/-- a literal as emitted by the templates: `'text'` when `quoted`, else the bare text -/
structure Lit where
  quoted : Bool
  text : Str
  deriving DecidableEq, Repr, Inhabited

structure FieldDecl where
  name : Str
  ty : TyExpr
  dflt : Option Lit
  hintBase : Str              -- the annotation `name: list[list[base]]` with `hintDepth` levels of `list[…]`
  hintDepth : Nat
  deriving DecidableEq, Repr, Inhabited

structure EnumDecl where
  name : Str
  members : List (Str × Lit)
  deriving DecidableEq, Repr, Inhabited

structure RecordDecl where
  name : Str
  base : Str
  fields : List FieldDecl
  deriving DecidableEq, Repr, Inhabited

structure MsgDecl where
  name : Str
  indicator : Str             -- bare text after `indicator=`
  direction : Str             -- text between the quotes of `direction='…'`
  fields : List FieldDecl
  deriving DecidableEq, Repr, Inhabited

structure Module where
  impl : Impl
  appName : Str
  exports : List Str          -- `__all__`
  enums : List EnumDecl
  records : List RecordDecl
  messages : List MsgDecl
  deriving DecidableEq, Repr, Inhabited

/-- `EnumDef.get_codegen_context` + enum.mustache -/
def genEnum (e : EnumEl) : Except Err EnumDecl := do
  let t ← typeDef e.ty
  let quote := t.hint == cp "str"
  pure ⟨e.name, e.values.map fun v => (v.name, ⟨quote, if quote then pyStrBody v.value else v.value⟩)⟩

/-- the array count class: `'uint_2_be' if self.endian == 'big' else 'uint_2'` -/
def countCls (endian : Option Str) : Str :=
  if endian == some (cp "big") then Prim.uint2be.cls else Prim.uint2.cls

def kwEnum : Str := cp "enum:"
def kwRecord : Str := cp "record:"

/-- the `type_, hint` part of `FieldDef._field_context` -/
def typeAndHint (d : Definitions) (f : FieldDef) : Except Err (Str × Str) :=
  match f.ref, f.ty with
  | some r, _ =>
      if !r.isEmpty then .ok (r, r)
      else .error .attr                                   -- `if self.ref:` is falsy for '', then `None.startswith`
  | none, none => .error .value                           -- unreachable (excluded by the first test of `genField`)
  | none, some t =>
      if isPrefix kwEnum t then
        let enumName := removeAll kwEnum t
        match dictGet? d.enums enumName with
        | none => .error .value
        | some e =>
          match typeDef e.ty with
          | .error err => .error err
          | .ok et => .ok (et.cls, enumName)
      else if isPrefix kwRecord t then
        let rec_ := removeAll kwRecord t
        match dictGet? d.records rec_ with
        | none => .error .value
        | some r => .ok (r.name, r.name)
      else
        match typeDef (some t) with
        | .error err => .error err
        | .ok e => .ok (e.cls, e.hint)

/-- the element type: fixed-length strings are instantiated with their length -/
def elemExpr (f : FieldDef) (type_ : Str) : TyExpr :=
  let isFixedLenStr := f.ty == some (fixedId false) || f.ty == some (fixedId true)
  if isFixedLenStr then .callLen (.cls type_) (orNone f.length) else .cls type_

/-- the array wrapping around the element type; second component: how many `list[…]` the hint gets -/
def fieldTyExpr (f : FieldDef) (type_ : Str) : TyExpr × Nat :=
  let elem := elemExpr f type_
  let endian := countCls f.endian
  match f.array with
  | none => (elem, 0)
  | some a =>
    if a == cp "double" then (.array (.array elem (.cls endian)) (.cls endian), 2)
    else (.array elem (.cls endian), 1)

/-- `'Char' in type_ or 'String' in type_` -/
def quoteOf (ty : TyExpr) : Bool := isInfix (cp "Char") ty.render || isInfix (cp "String") ty.render

/-- `FieldDef._field_context` + `get_codegen_context` + the `Field(…)` line and the annotation line of the templates -/
def genField (d : Definitions) (f : FieldDef) : Except Err FieldDecl :=
  if (f.ty.isNone && f.ref.isNone) || (f.ty.isSome && f.ref.isSome) then .error .value
  else
    match typeAndHint d f with
    | .error err => .error err
    | .ok (type_, hint) =>
      let tyd := fieldTyExpr f type_
      .ok {
        name := orEmpty f.name
        ty := tyd.1
        dflt := match f.dflt with
          | none => none
          | some v => some ⟨quoteOf tyd.1, if quoteOf tyd.1 then pyStrBody v else v⟩
        hintBase := hint
        hintDepth := tyd.2 }

def genRecord (d : Definitions) (r : RecordDef) : Except Err RecordDecl := do
  let fs ← mapE (genField d) r.fields
  pure ⟨r.name, cp "Record", fs⟩

def genMessage (d : Definitions) (m : MessageDef) : Except Err MsgDecl := do
  let fs ← mapE (genField d) m.fields
  pure ⟨m.name, m.id, htmlEscape (orEmpty m.direction), fs⟩

/-- `Definitions.get_codegen_context` (enums, then messages, then records — the order in which the contexts are built)
    + message_soup_app.mustache -/
def genDefs (impl : Impl) (app : Str) (d : Definitions) : Except Err Module := do
  let enums ← mapE (fun (kv : Str × EnumEl) => genEnum kv.2) d.enums
  let msgs ← mapE (genMessage d) d.messages
  let recs ← mapE (fun (kv : Str × RecordDef) => genRecord d kv.2) d.records
  pure {
    impl := impl, appName := app
    exports := [cp "Message", cp "ClientSession", cp "connect_async"]
      ++ enums.map (·.name) ++ recs.map (·.name) ++ msgs.map (·.name)
    enums := enums, records := recs, messages := msgs }

/-- the `generate` entry point of `itch|ouch|sqf/codegen.py` (in a fresh process, into a fresh directory) -/
def gen (impl : Impl) (app : Str) (override : Bool) (s : Spec) : Except Err Module := do
  let d ← parse override s
  genDefs impl app d

/-! ## importing the generated module -/

/-- a default value / enum member value after evaluation -/
inductive DVal where
  | int (i : Int)
  | str (s : Str)
  | bool (b : Bool)
  deriving DecidableEq, Repr, Inhabited

/-- what a field type expression evaluates to -/
inductive Ty where
  | prim (p : Prim)                       -- the class registered under that datatype id
  | fixedCls (iso : Bool)                 -- the *class* `FixedAsciiString` / `FixedIsoString`
  | fixed (iso : Bool) (len : Option Nat) -- an instance, `length=None` when no length was given
  | record (name : Str)                   -- a generated record class
  | array (elem cnt : Ty)                 -- an `Array` instance
  | other                                 -- any other object
  deriving DecidableEq, Repr, Inhabited

structure FieldS where
  name : Str
  ty : Ty
  dflt : Option DVal
  deriving DecidableEq, Repr, Inhabited

structure EnumS where
  name : Str
  members : List (Str × DVal)
  deriving DecidableEq, Repr, Inhabited

structure RecordS where
  name : Str
  fields : List FieldS
  deriving DecidableEq, Repr, Inhabited

structure MsgS where
  name : Str
  id : Nat
  dir : Option Str            -- `MsgId.direction` (ITCH message ids carry none)
  fields : List FieldS
  deriving DecidableEq, Repr, Inhabited

/-- the importable module / the denotation of a specification -/
structure Schema where
  exports : List Str
  enums : List EnumS
  records : List RecordS
  messages : List MsgS
  deriving DecidableEq, Repr, Inhabited

/-- what a name of the module namespace is bound to -/
inductive Binding where
  | prim (p : Prim)
  | fixedCls (iso : Bool)
  | recordBase                -- `Record`
  | msgBase                   -- the application's `Message`
  | enumBase                  -- `Enum`
  | recordCls (n : Str)
  | enumCls
  | msgCls
  | pyType                    -- builtins `int`, `str`, `bool`
  | pyList                    -- builtin `list`
  | opaque                    -- anything else
  deriving DecidableEq, Repr, Inhabited

abbrev Env := List (Str × Binding)

/-- names bound by the fixed part of the template (imports, `Message`, `ClientSession`, `connect_async`), other than the
    datatype classes -/
def templateNames (impl : Impl) : List (Str × Binding) := [
  (cp "Record", .recordBase), (cp "Message", .msgBase), (cp "Enum", .enumBase),
  (cp "Array", .opaque), (cp "Field", .opaque), (cp "RecordWithPresentBit", .opaque),
  (cp "ClientSession", .opaque), (cp "connect_async", .opaque), (cp "CommonMessage", .opaque),
  (cp "DuplicateMessageException", .opaque), (cp "Callable", .opaque), (cp "Awaitable", .opaque), (cp "Type", .opaque),
  (cp "logable", .opaque), (cp "soup", .opaque), (impl.name, .opaque),
  (cp "Definitions", .opaque), (cp "EnumDef", .opaque), (cp "EnumVal", .opaque), (cp "FieldDef", .opaque),
  (cp "Generator", .opaque), (cp "MessageDef", .opaque), (cp "Parser", .opaque), (cp "RecordDef", .opaque),
  (cp "codegen", .opaque), (cp "parser", .opaque), (cp "structures", .opaque), (cp "templates", .opaque),
  (cp "types", .opaque)]

/-- builtins the generated code relies on (looked up after the module namespace) -/
def builtinNames : List (Str × Binding) := [
  (cp "int", .pyType), (cp "str", .pyType), (cp "bool", .pyType), (cp "list", .pyList),
  (cp "super", .opaque), (cp "ValueError", .opaque), (cp "tuple", .opaque), (cp "bytes", .opaque),
  (cp "classmethod", .opaque)]

/-- the module namespace (followed by the builtins) when the first generated class statement runs -/
def initEnv (impl : Impl) : Env :=
  Prim.all.map (fun p => (p.cls, Binding.prim p))
  ++ [(fixedCls false, .fixedCls false), (fixedCls true, .fixedCls true)]
  ++ templateNames impl ++ builtinNames

/-- names a specification must not define -/
def reservedNames (impl : Impl) : List Str := (initEnv impl).map (·.1)

/-- name lookup: `NameError` when unbound -/
def Env.get (env : Env) (n : Str) : Except Err Binding :=
  match dictGet? env n with
  | some b => .ok b
  | none => .error .other

/-- the text of a single-quoted literal → the string it evaluates to.  NUL, LF, CR and a bare `'` cannot stand between
    the quotes; of the backslash escapes only `\\` and `\'` (the two the generator emits) are modelled, any other is an error. -/
def unquoteAux : Bool → Str → Except Err Str       -- the flag: the previous character was a backslash still to be resolved
  | false, [] => .ok []
  | true, [] => .error .other
  | false, c :: cs =>
      if c = 92 then unquoteAux true cs
      else if c = 0 ∨ c = 10 ∨ c = 13 ∨ c = 39 then .error .other
      else (match unquoteAux false cs with | .ok r => .ok (c :: r) | .error e => .error e)
  | true, c :: cs =>
      if c = 92 ∨ c = 39 then (match unquoteAux false cs with | .ok r => .ok (c :: r) | .error e => .error e)
      else .error .other

def unquote (s : Str) : Except Err Str := unquoteAux false s

def quotedOk (s : Str) : Bool := (unquote s).isOk

/-- a bare literal the model evaluates: a decimal integer with optional minus sign, `True`, `False` -/
def rawOk (s : Str) : Bool :=
  s == cp "True" || s == cp "False" ||
  match s with
  | 45 :: ds => isNatLit ds
  | _ => isNatLit s

def Lit.syntaxOk (l : Lit) : Bool := if l.quoted then quotedOk l.text else rawOk l.text

def Lit.eval (l : Lit) : Except Err DVal :=
  if l.quoted then (match unquote l.text with | .ok t => .ok (.str t) | .error e => .error e)
  else if l.text == cp "True" then .ok (.bool true)
  else if l.text == cp "False" then .ok (.bool false)
  else match l.text with
    | 45 :: ds => if isNatLit ds then .ok (.int (- (digitsVal ds : Int))) else .error .other
    | ds => if isNatLit ds then .ok (.int (digitsVal ds)) else .error .other

/-- the text after `length=`: a decimal literal or `None` -/
def lenOk (l : Str) : Bool := l == cp "None" || isNatLit l

def evalLen (l : Str) : Except Err (Option Nat) :=
  if l == cp "None" then .ok none
  else if isNatLit l then .ok (some (digitsVal l))
  else .error .other

def TyExpr.syntaxOk : TyExpr → Bool
  | .cls n => isIdent n
  | .array e c => e.syntaxOk && c.syntaxOk
  | .callLen e l => e.syntaxOk && lenOk l

def FieldDecl.syntaxOk (f : FieldDecl) : Bool :=
  isIdent f.name && f.ty.syntaxOk && isIdent f.hintBase &&
  (match f.dflt with | none => true | some l => l.syntaxOk)

/-- does the file compile?  (`SyntaxError` / `IndentationError` are raised before anything runs) -/
def Module.syntaxOk (m : Module) : Bool :=
  m.enums.all (fun e => isIdent e.name && !e.members.isEmpty &&
      e.members.all fun kv => isIdent kv.1 && kv.2.syntaxOk)
  && m.records.all (fun r => isIdent r.name && isIdent r.base && r.fields.all FieldDecl.syntaxOk)
  && m.messages.all (fun g => isIdent g.name && isNatLit g.indicator && quotedOk g.direction
      && g.fields.all FieldDecl.syntaxOk)

/-- evaluation of a field type expression in the module namespace -/
def evalTy (env : Env) : TyExpr → Except Err Ty
  | .cls n => do
      match ← env.get n with
      | .prim p => pure (.prim p)
      | .fixedCls iso => pure (.fixedCls iso)
      | .recordCls r => pure (.record r)
      | _ => pure .other
  | .array e c => do
      let te ← evalTy env e
      let tc ← evalTy env c
      -- `Array.__attrs_post_init__`: `inspect.isclass(self.type) and issubclass(…)`, then `self.type.to_bytes` / `.from_bytes`
      -- (classes and parametrised instances — `FixedAsciiString(length=n)`, another `Array` — both have them)
      match te with
      | .other => throw .attr                 -- approximation: other objects are taken to have no `to_bytes`
      | _ => pure (.array te tc)
  | .callLen e l => do
      let te ← evalTy env e
      let n ← evalLen l
      match te with
      | .fixedCls iso => pure (.fixed iso n)
      | _ => throw .type                      -- `'Array' object is not callable`, `LongBE() takes no arguments`, …

def evalField (env : Env) (f : FieldDecl) : Except Err FieldS := do
  let t ← evalTy env f.ty
  let d ← (match f.dflt with
    | none => pure none
    | some l => do
        let v ← l.eval
        pure (some v) : Except Err (Option DVal))
  pure ⟨f.name, t, d⟩

/-- the annotation `name: list[…[base]…]` -/
def evalHint (env : Env) (f : FieldDecl) : Except Err Unit := do
  let _ ← env.get f.hintBase
  if f.hintDepth = 0 then pure ()
  else match ← env.get (cp "list") with
    | .pyList => pure ()
    | _ => throw .type

/-- a class body: `Fields = [Field(…), …]`, then the annotations -/
def evalBody (env : Env) (fs : List FieldDecl) : Except Err (List FieldS) := do
  let out ← mapE (evalField env) fs
  let _ ← mapE (evalHint env) fs
  pure out

def hasDup {α : Type} [BEq α] : List α → Bool
  | [] => false
  | a :: as => as.contains a || hasDup as

/-- `class name(Enum): member = literal …` -/
def evalEnum (env : Env) (e : EnumDecl) : Except Err EnumS := do
  match ← env.get (cp "Enum") with
  | .enumBase => pure ()
  | _ => throw .type
  let ms ← mapE (fun (kv : Str × Lit) => do
      let v ← kv.2.eval
      pure (kv.1, v)) e.members
  if hasDup (e.members.map (·.1)) then throw .type        -- `Attempted to reuse key`
  pure ⟨e.name, ms⟩

def evalEnums : Env → List EnumDecl → Except Err (Env × List EnumS)
  | env, [] => .ok (env, [])
  | env, e :: es => do
      let s ← evalEnum env e
      let (env', ss) ← evalEnums ((e.name, .enumCls) :: env) es
      pure (env', s :: ss)

def evalRecord (env : Env) (r : RecordDecl) : Except Err RecordS := do
  match ← env.get r.base with
  | .recordBase => pure ()
  | _ => throw .type
  let fs ← evalBody env r.fields
  pure ⟨r.name, fs⟩

def evalRecords : Env → List RecordDecl → Except Err (Env × List RecordS)
  | env, [] => .ok (env, [])
  | env, r :: rs => do
      let s ← evalRecord env r
      let (env', ss) ← evalRecords ((r.name, .recordCls r.name) :: env) rs
      pure (env', s :: ss)

/-- equality of message ids: `ItchMessageId(indicator)`, `SqfMessageId(indicator, direction[eq=False])`,
    `OuchMessageId(indicator, direction)` -/
def idEq (impl : Impl) (a b : Nat × Str) : Bool :=
  match impl with
  | .ouch => a.1 == b.1 && a.2 == b.2
  | _ => a.1 == b.1

/-- `class name(Message, indicator=…, direction='…')`: the body, then the `__init_subclass__` chain ending in
    `CommonMessage.__init_subclass__` (registration, `DuplicateMessageException`) -/
def evalMessage (impl : Impl) (env : Env) (reg : List (Nat × Str)) (g : MsgDecl) : Except Err MsgS := do
  match ← env.get (cp "Message") with
  | .msgBase => pure ()
  | _ => throw .type
  match ← env.get (cp "Record") with
  | .recordBase => pure ()
  | _ => throw .type
  let fs ← evalBody env g.fields
  let id := digitsVal g.indicator
  let dir ← unquote g.direction
  if reg.any (idEq impl (id, dir)) then throw .dup
  pure ⟨g.name, id, if impl = .itch then none else some dir, fs⟩

def evalMessages (impl : Impl) : Env → List (Nat × Str) → List MsgDecl → Except Err (List MsgS)
  | _, _, [] => .ok []
  | env, reg, g :: gs => do
      let s ← evalMessage impl env reg g
      let dir ← unquote g.direction
      let ss ← evalMessages impl ((g.name, .msgCls) :: env) ((s.id, dir) :: reg) gs
      pure (s :: ss)

/-- `import module` -/
def evalModule (m : Module) : Except Err Schema := do
  if !m.syntaxOk then throw .other
  let (env1, enums) ← evalEnums (initEnv m.impl) m.enums
  let (env2, recs) ← evalRecords env1 m.records
  let msgs ← evalMessages m.impl env2 [] m.messages
  pure ⟨m.exports, enums, recs, msgs⟩

/-! ## reference semantics of a specification (from the documentation of the XML format) -/

/-- DATATYPES: the documented ids that need no parameter -/
def docPrim (id : Str) : Option Prim := Prim.all.find? fun p => p.id == id

/-- "If the DATATYPE of the field contains 'n' at the end … fixed length string … length in the 'length' attribute" -/
def docFixed (id : Str) : Option Bool :=
  if id == cp "str_ascii_n" then some false else if id == cp "str_iso-8859-1_n" then some true else none

/-- canonical decimal text: `0` or digits without a leading zero, optionally signed -/
def parseNat? (s : Str) : Option Nat :=
  if isNatLit s then some (digitsVal s) else none

def parseInt? (s : Str) : Option Int :=
  match s with
  | 45 :: ds => (parseNat? ds).map fun n => - (n : Int)
  | _ => (parseNat? s).map fun n => (n : Int)

/-- the value a piece of text denotes in the domain of a datatype -/
def docValue (k : PrimKind) (text : Str) : Except Err DVal :=
  match k with
  | .int => match parseInt? text with
      | some i => .ok (.int i)
      | none => .error .value
  | .text => .ok (.str text)
  | .bool => .error .value                    -- the documentation gives no notation for boolean constants

def findEnum? (s : Spec) (n : Str) : Option EnumEl := s.enums.find? fun e => e.name == n
def findRecord? (s : Spec) (n : Str) : Option RecordEl := s.records.find? fun r => r.name == n
def findDef? (s : Spec) (n : Str) : Option FieldEl := s.fielddefs.find? fun f => f.name == some n

/-- `<field def="D"/>` stands for the definition `D`; a `name` attribute renames it -/
def resolveDef (s : Spec) (f : FieldEl) : Except Err FieldEl :=
  match f.defn with
  | none => .ok f
  | some d => match findDef? s d with
    | none => .error .key
    | some base => .ok { base with name := nameOr f.name base.name }

/-- split `kind:name` -/
def splitColon : Str → Str × Option Str
  | [] => ([], none)
  | c :: cs => if c = 58 then ([], some cs) else
      let (a, b) := splitColon cs
      (c :: a, b)

/-- element type and the domain of its constants -/
def docElemTy (s : Spec) (f : FieldEl) : Except Err (Ty × Option PrimKind) :=
  match f.ty with
  | none => .error .value
  | some t =>
    match splitColon t with
    | (k, some n) =>
      if k == cp "enum" then
        match findEnum? s n with
        | none => .error .value
        | some e => match e.ty.bind docPrim with
          | some p => .ok (.prim p, some p.kind)
          | none => .error .value
      else if k == cp "record" then
        match findRecord? s n with
        | none => .error .value
        | some r => .ok (.record r.name, none)
      else .error .value
    | (_, none) =>
      match docPrim t, docFixed t with
      | some p, _ => .ok (.prim p, some p.kind)
      | none, some iso =>
        match f.length.bind parseNat? with
        | some n => .ok (.fixed iso (some n), some .text)
        | none => .error .value
      | none, none => .error .key

/-- "the message automatically adds the length of the array before the array itself as a 2 byte short …
    you can control the endian of this length by adding the 'endian' attribute" -/
def docCount (f : FieldEl) : Ty := .prim (if f.endian == some (cp "big") then .uint2be else .uint2)

/-- a field whose `def=` reference has been resolved -/
def denoteResolved (s : Spec) (f : FieldEl) : Except Err FieldS :=
  match docElemTy s f with
  | .error e => .error e
  | .ok (t, dom) =>
    match f.name with
    | none => .error .value
    | some name =>
      match f.array with
      | some _ =>
        (match f.dflt with
         | some _ => .error .value
         | none => .ok ⟨name, .array t (docCount f), none⟩)
      | none =>
        match f.dflt, dom with
        | none, _ => .ok ⟨name, t, none⟩
        | some v, some k =>
          (match docValue k v with
           | .error e => .error e
           | .ok d => .ok ⟨name, t, some d⟩)
        | some _, none => .error .value

def denoteField (s : Spec) (f0 : FieldEl) : Except Err FieldS :=
  match resolveDef s f0 with
  | .error e => .error e
  | .ok f => denoteResolved s f

def denoteEnum (e : EnumEl) : Except Err EnumS := do
  match e.ty.bind docPrim with
  | none => throw .value
  | some p =>
    let ms ← mapE (fun (v : EnumVal) => do
        let d ← docValue p.kind v.value
        pure (v.name, d)) e.values
    pure ⟨e.name, ms⟩

/-- "MSG_TYPE_IN_DECIMAL: the message type in decimal" — or the character itself -/
def denoteMsgId (x : Str) : Except Err Nat :=
  match parseNat? x with
  | some n => .ok n
  | none => match x with
    | [c] => if isDigit c then .error .value else .ok c
    | _ => .error .value

/-- "direction=incoming | outgoing": part of the message id for OUCH and SQF; ITCH messages only flow one way -/
def denoteDir (impl : Impl) (d : Option Str) : Except Err (Option Str) :=
  match impl, d with
  | .itch, _ => .ok none
  | _, some d => .ok (some d)
  | _, none => .error .value

def denoteMessage (impl : Impl) (s : Spec) (g : MessageEl) : Except Err MsgS := do
  let id ← denoteMsgId g.msgId
  let fs ← mapE (denoteField s) g.fields
  let dir ← denoteDir impl g.direction
  pure ⟨g.name, id, dir, fs⟩

/-- the schema a specification describes: one class per enum, record and message, in document order -/
def denote (impl : Impl) (s : Spec) : Except Err Schema := do
  let enums ← mapE denoteEnum s.enums
  let recs ← mapE (fun (r : RecordEl) => do
      let fs ← mapE (denoteField s) r.fields
      pure (⟨r.name, fs⟩ : RecordS)) s.records
  let msgs ← mapE (denoteMessage impl s) s.messages
  pure {
    exports := [cp "Message", cp "ClientSession", cp "connect_async"]
      ++ s.enums.map (·.name) ++ s.records.map (·.name) ++ s.messages.map (·.name)
    enums := enums, records := recs, messages := msgs }

/-! ## well-formed specifications: the domain the property quantifies over -/

/-- a character that can be a character constant: anything but NUL and the line breaks LF / CR (they cannot stand inside a
    single-quoted literal and the generator does not escape them) -/
def plainChar (c : Nat) : Bool := !(c == 0 || c == 10 || c == 13)

def plainText (s : Str) : Bool := s.all plainChar

/-- canonical decimal integer, optionally signed -/
def isIntLit (s : Str) : Bool :=
  match s with
  | 45 :: ds => isNatLit ds
  | _ => isNatLit s

def Prim.isChar : Prim → Bool
  | .charAscii | .charIso => true
  | _ => false

/-- field names that collide with attributes of `Record` / `CommonMessage` instances (attribute access would not
    reach the field) -/
def fieldReserved : List Str := [
  cp "record", cp "values", cp "Fields", cp "IndexedFields", cp "log", cp "MsgId", cp "MsgIdClass", cp "AppName",
  cp "BodyRecord", cp "MsgIdToClsMap", cp "MsgNameToMsgMap", cp "Definitions", cp "IncomingMsgClasses",
  cp "OutgoingMsgsClasses", cp "to_bytes", cp "from_bytes", cp "to_str", cp "from_str", cp "hint", cp "type_cls",
  cp "default_value", cp "init_values", cp "as_collection", cp "get_field_value", cp "get_value", cp "is_record",
  cp "get_msg_classes", cp "get_msg_cls_by_name", cp "get_msg_cls_by_indicator"]

def wfFieldName (n : Str) : Bool := isIdent n && n.head? != some 95 && !fieldReserved.contains n

/-- `mro` and `_sunder_` names cannot be `Enum` members -/
def wfMemberName (n : Str) : Bool := isIdent n && n.head? != some 95 && n != cp "mro"

/-- a constant of a datatype (`char`: exactly one character) -/
def wfConst (k : PrimKind) (char : Bool) (v : Str) : Bool :=
  match k with
  | .int => isIntLit v
  | .text => plainText v && (!char || v.length == 1)
  | .bool => false

/-- enums of integer and character types, at least one member, distinct member names -/
def wfEnum (e : EnumEl) : Bool :=
  match e.ty.bind docPrim with
  | none => false
  | some p =>
    (p.kind == .int || p.isChar) && !e.values.isEmpty
    && e.values.all (fun v => wfMemberName v.name && wfConst p.kind p.isChar v.value)
    && !hasDup (e.values.map (·.name))

/-- reusable field definitions are named, distinct, and are not themselves references -/
def wfFieldDefs (s : Spec) : Bool :=
  s.fielddefs.all (fun f => f.defn.isNone && f.name.isSome) && !hasDup (s.fielddefs.map (·.name))

/-- the admissible shapes of the `type` attribute; the result is the domain of the field's constants
    (`none`: records have no constants).  `seen`: the records declared before this point. -/
def wfType (s : Spec) (seen : List Str) (f : FieldEl) : Option (Option (PrimKind × Bool)) :=
  match f.ty with
  | none => none
  | some t =>
    match splitColon t with
    | (k, some n) =>
        if !isIdent n then none
        else if k == cp "enum" then
          match findEnum? s n with
          | some e => (e.ty.bind docPrim).map fun p => some (p.kind, p.isChar)
          | none => none
        else if k == cp "record" then
          if seen.contains n then some none else none
        else none
    | (_, none) =>
        match docPrim t, docFixed t with
        | some p, _ => some (some (p.kind, p.isChar))
        | none, some _ =>
            if (f.length.bind parseNat?).isSome then some (some (.text, false)) else none
        | none, none => none

def wfDefault (dom : Option (PrimKind × Bool)) (f : FieldEl) : Bool :=
  match f.dflt with
  | none => true
  | some v => f.array.isNone && (match dom with
      | some (k, ch) => wfConst k ch v
      | none => false)

/-- one `<field>` of a record or message -/
def wfField (s : Spec) (seen : List Str) (f0 : FieldEl) : Bool :=
  (match f0.defn with | none => true | some d => !d.isEmpty) &&
  match resolveDef s f0 with
  | .error _ => false
  | .ok f =>
    (match f.name with | some n => wfFieldName n | none => false)
    && f.ref.isNone
    && f.array != some (cp "double")          -- undocumented; the generated nested `Array(Array(…))` does not import
    && (match wfType s seen f with
        | some dom => wfDefault dom f
        | none => false)

/-- the name a field ends up with -/
def resolvedName (s : Spec) (f0 : FieldEl) : Str :=
  match resolveDef s f0 with
  | .ok f => orEmpty f.name
  | .error _ => []

/-- the fields of one record or message (possibly none: a message may consist of its id byte only) -/
def wfFields (s : Spec) (seen : List Str) (fs : List FieldEl) : Bool :=
  fs.all (wfField s seen) && !hasDup (fs.map (resolvedName s))

/-- a record may use the records declared before it -/
def wfRecords (s : Spec) : List Str → List RecordEl → Bool
  | _, [] => true
  | seen, r :: rs => wfFields s seen r.fields && wfRecords s (r.name :: seen) rs

/-- the message id as the parser stores it (for the duplicate key) -/
def specMsgKey (g : MessageEl) : Str :=
  (match convertMsgId g.msgId with | .ok i => i | .error _ => g.msgId) ++ [45] ++ orNone g.group ++ [45] ++ orNone g.direction

def msgIdVal (g : MessageEl) : Nat :=
  match denoteMsgId g.msgId with
  | .ok n => n
  | .error _ => 0

def wfMessage (s : Spec) (g : MessageEl) : Bool :=
  (match denoteMsgId g.msgId with | .ok n => decide (n < 256) | .error _ => false)
  && (g.direction == some (cp "incoming") || g.direction == some (cp "outgoing"))
  && wfFields s (s.records.map (·.name)) g.fields

/-- no message id is registered twice (the registry's notion of equal ids) -/
def regOk (impl : Impl) : List (Nat × Str) → List (Nat × Str) → Bool
  | _, [] => true
  | reg, k :: ks => !reg.any (idEq impl k) && regOk impl (k :: reg) ks

def classNames (s : Spec) : List Str :=
  s.enums.map (·.name) ++ s.records.map (·.name) ++ s.messages.map (·.name)

/-- the specifications the property quantifies over.  Outside, each for a stated reason: `array="double"`, `ref=`, boolean
    constants (undocumented); NUL / line breaks in character constants; non-canonical decimal numbers; names that are not
    fresh ASCII identifiers; a record that uses a record declared after it. -/
def wfSpec (impl : Impl) (s : Spec) : Bool :=
  (classNames s).all (fun n => isIdent n && !(reservedNames impl).contains n) && !hasDup (classNames s)
  && s.enums.all wfEnum
  && wfFieldDefs s
  && wfRecords s [] s.records
  && s.messages.all (wfMessage s)
  && !hasDup (s.messages.map specMsgKey)
  && regOk impl [] (s.messages.map fun g => (msgIdVal g, orEmpty g.direction))

end NasdaqModel.GenSoupApp
