import NasdaqModel.Model.Soup
/-
Model of the sequence-number bookkeeping of the sessions (property C10), transcribed from

  soup/session.py   SoupSession.send_msg (l.109-123), send_debug, logout, SoupClientSession.login (l.155-180),
                    send_heartbeat, send_unseq_data, SoupServerSession.send_seq_msg, end_session, _handle_login
  fix/session.py    FixSession.login / _initialize_session (l.53-56, 95-100), send_msg (l.74-88), send_heartbeat

Only the state the property speaks about is kept: the counter, and what was handed to `transport.write`.
Closing a session (`close`, `initiate_close`, the `initiate_close()` at the end of `logout` / `end_session`) touches
neither, so it is a step that leaves this state alone — sends after a close still reach `transport.write`.
`send_msg` of both protocols contains no `await`: a timer-driven heartbeat can run before or after a send, never
inside one, so a history is a list of atomic operations.
-/
namespace NasdaqModel.SeqNum
open NasdaqModel Soup

/-! ## SoupBinTCP -/

inductive Role where
  | client | server
  deriving Repr, DecidableEq, Inhabited

structure SoupSt where
  role : Role
  connected : Bool          -- `self._transport` is set (`connection_made` ran)
  seq : Int                 -- `self.sequence`
  written : List Bytes      -- arguments of `self._transport.write`, oldest first
  deriving Repr, DecidableEq

/-- a freshly constructed session, `SoupXxxSession(sequence=init)` followed by `connection_made` -/
def soupInit (role : Role) (init : Int) : SoupSt := { role, connected := true, seq := init, written := [] }

/-- `SoupSession.send_msg(msg)`.
      _, bytes_ = msg.to_bytes()            -- may raise: nothing happened yet
      self._transport.write(bytes_)         -- AttributeError when there is no transport
      ...
      if isinstance(msg, SequencedData): self.sequence += 1
    Returns the new state and the exception that escaped, if any. -/
def soupSend (s : SoupSt) (p : Pkt) : SoupSt × Option Err :=
  match encode p with
  | .error e => (s, some e)
  | .ok b =>
    if s.connected then
      ({ s with written := s.written ++ [b], seq := if p.isSequenced then s.seq + 1 else s.seq }, none)
    else (s, some .attr)

/-- the packet `send_heartbeat` builds -/
def hbPkt : Role → Pkt
  | .client => .clientHb
  | .server => .serverHb

/-- operations of a history (everything except the client's `login`) -/
inductive SoupOp where
  | send (p : Pkt)      -- send_msg(p); send_seq_msg(d) = send (seqData d); send_unseq_data(d) = send (unseqData d);
                        -- send_debug(t) = send (debug t); the server's login reply = send (loginAcc ..) / (loginRej ..)
  | heartbeat           -- send_heartbeat(), called by the local monitor or by hand
  | logout              -- send_msg(LogoutRequest()); initiate_close()
  | endSession          -- send_msg(EndOfSession()); initiate_close()
  | close               -- close() / initiate_close() / connection_lost
  deriving Repr, DecidableEq

def soupStep (s : SoupSt) : SoupOp → SoupSt × Option Err
  | .send p => soupSend s p
  | .heartbeat => soupSend s (hbPkt s.role)
  | .logout => soupSend s .logoutReq
  | .endSession => soupSend s .endOfSession
  | .close => (s, none)

def soupRun (s : SoupSt) (ops : List SoupOp) : SoupSt := ops.foldl (fun st op => (soupStep st op).1) s

/-- per-operation trace for the correspondence: (exception, counter after the operation) -/
def soupTrace : SoupSt → List SoupOp → List (Option Err × Int)
  | _, [] => []
  | s, op :: rest => let r := soupStep s op; (r.2, r.1.seq) :: soupTrace r.1 rest

/-- `b[2] == 'S'`: the bytes handed to the transport are a sequenced-data packet -/
def isSeqFrame (b : Bytes) : Bool := b[2]? == some 83

/-- number of sequenced-data packets among the writes -/
def countSeq (ws : List Bytes) : Nat := (ws.filter isSeqFrame).length

/-- What the client's `login` does with the frames the reader hands over while `receive_msg()` waits:
    heartbeats are skipped by the reader; a frame that does not decode kills the reader; a logout-type packet
    closes the session; `LoginAccepted` is adopted (`self.sequence = reply.sequence`); anything else refuses.
    Only "accepted or not" and the counter are modelled here (the rest belongs to C07/C11). -/
def awaitReply (s : SoupSt) : List Bytes → SoupSt × Bool
  | [] => (s, false)
  | b :: rest =>
    match decode b with
    | .error _ => (s, false)
    | .ok p =>
      if p.isHeartbeat then awaitReply s rest
      else match p with
        | .loginAcc _ q => ({ s with seq := q }, true)
        | _ => (s, false)

/-- `SoupClientSession.login(req)` with the reply frames `replies` arriving afterwards.
    Result: state, exception raised by the send of the request (if any), accepted flag. -/
def clientLogin (s : SoupSt) (req : Pkt) (replies : List Bytes) : SoupSt × Option Err × Bool :=
  match soupSend s req with
  | (s', some e) => (s', some e, false)
  | (s', none) => let r := awaitReply s' replies; (r.1, none, r.2)

/-! ## FIX -/

/-- what `send_msg` can observe of a message -/
structure FixMsg where
  bodyValid : Bool     -- `msg.validate(segments=[BODY])` passes (every required body tag present)
  encodable : Bool     -- `_prepare_complete_msg(msg)` succeeds once the header is stamped
  deriving Repr, DecidableEq, Inhabited

inductive FixOut where
  | rejected          -- ValueError from validation: before `next(self.sequence)`
  | notLoggedIn       -- TypeError: `self.sequence` is still the int 1 / comp ids are None
  | encodeError       -- exception from `_prepare_complete_msg`: after `next(self.sequence)`
  | written (n : Int) -- frame handed to the transport, stamped MsgSeqNum = n
  deriving Repr, DecidableEq

structure FixSt where
  next : Option Int       -- `self.sequence`: `none` = not yet `itertools.count(..)`; `some n` = the count yields n next
  frames : List Int       -- tag 34 of every frame handed to `transport.write`, oldest first
  deriving Repr, DecidableEq

def fixInit : FixSt := { next := none, frames := [] }

/-- `FixSession.send_msg(msg)`:
      msg.validate(segments=[BODY])                       -- ValueError: nothing happened
      msg.Header.SenderSubID = ... (three comp ids)        -- TypeError before login (None into a str field)
      msg.Header.MsgSeqNum = next(self.sequence)           -- number taken (TypeError before login: `next(1)`)
      msg.Header.SendingTime = ...
      data = self._prepare_complete_msg(msg)               -- may raise: the number is gone
      self._transport.write(data)                                                                   -/
def fixSend (s : FixSt) (m : FixMsg) : FixSt × FixOut :=
  if !m.bodyValid then (s, .rejected)
  else match s.next with
    | none => (s, .notLoggedIn)
    | some n =>
      if m.encodable then ({ next := some (n + 1), frames := s.frames ++ [n] }, .written n)
      else ({ s with next := some (n + 1) }, .encodeError)

inductive FixOp where
  | login (seq : Int) (m : FixMsg)   -- `login(m)` up to its first await: `_initialize_session(m)` then `send_msg(m)`;
                                     -- `seq` = `m.Header.MsgSeqNum`
  | send (m : FixMsg)                -- `send_msg(m)` by the application
  | heartbeat (m : FixMsg)           -- `send_heartbeat()`: `send_msg(Message.Def['0']())`, m = what that message looks like
  deriving Repr, DecidableEq

/-- the message an operation hands to `send_msg` -/
def FixOp.msg : FixOp → FixMsg
  | .login _ m => m
  | .send m => m
  | .heartbeat m => m

def FixOp.isLogin : FixOp → Bool
  | .login .. => true
  | _ => false

def fixStep (s : FixSt) : FixOp → FixSt × FixOut
  | .login q m => fixSend { s with next := some q } m
  | .send m => fixSend s m
  | .heartbeat m => fixSend s m

def fixRun (s : FixSt) (ops : List FixOp) : FixSt := ops.foldl (fun st op => (fixStep st op).1) s

/-- per-operation trace for the correspondence: (outcome, counter after the operation) -/
def fixTrace : FixSt → List FixOp → List (FixOut × Option Int)
  | _, [] => []
  | s, op :: rest => let r := fixStep s op; (r.2, r.1.next) :: fixTrace r.1 rest

/-! ### the repaired `send_msg` (fixes/C10-encode-failure-gap.md)

The proposed repair gives the number back when serialisation fails (`self.sequence = count(seq_num)` in an
`except` around `_prepare_complete_msg`).  The harness probes which of the two behaviours the code under test has
(it replays `witnessGap`) and ties *that* variant to the code; the theorems say which statement holds for which. -/

def fixSendR (s : FixSt) (m : FixMsg) : FixSt × FixOut :=
  if !m.bodyValid then (s, .rejected)
  else match s.next with
    | none => (s, .notLoggedIn)
    | some n =>
      if m.encodable then ({ next := some (n + 1), frames := s.frames ++ [n] }, .written n)
      else ({ s with next := some n }, .encodeError)      -- `self.sequence = count(n)`

def fixStepR (s : FixSt) : FixOp → FixSt × FixOut
  | .login q m => fixSendR { s with next := some q } m
  | .send m => fixSendR s m
  | .heartbeat m => fixSendR s m

def fixRunR (s : FixSt) (ops : List FixOp) : FixSt := ops.foldl (fun st op => (fixStepR st op).1) s

def fixTraceR : FixSt → List FixOp → List (FixOut × Option Int)
  | _, [] => []
  | s, op :: rest => let r := fixStepR s op; (r.2, r.1.next) :: fixTraceR r.1 rest

/-- the history `Witness/C10.lean` is about: logon with MsgSeqNum 5, a send that passes validation and cannot be
    serialised, a good send.  The driver prints this very term (`witness C10`) and the harness replays it on the code. -/
def witnessGap : List FixOp :=
  [.login 5 ⟨true, true⟩, .send ⟨true, false⟩, .send ⟨true, true⟩]

end NasdaqModel.SeqNum
