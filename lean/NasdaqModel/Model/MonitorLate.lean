import NasdaqModel.Model.Monitor
/-
Heartbeat monitors when the event loop is held up (C09, seeded change C09f) — import-free, executable.

Model/Monitor.lean assumes that every timer fires at its deadline.  A real event loop runs one callback at a time: while a
callback blocks (work done synchronously in a message / close handler, a long GC pause, …) *nothing* else runs — the clock
moves on, no timer fires, bytes from the peer pile up in the socket.  When the callback returns, `BaseEventLoop._run_once`
first polls the selector and queues the I/O callbacks (`data_received` with everything that arrived meanwhile) and only then
queues the timers whose deadline has passed: **the bytes are handed to the session before its late timers run**.

Transcribed here, on top of `Monitor.Sess`:

* `hold`   one grid unit passes while the loop is held up: `now` advances, every pending `asyncio.sleep(interval)` comes closer
           to (or passes) its deadline (`left` counts down to 0 and stays there), nothing runs;
* `recv k` while the loop is held up: the bytes reach the socket (`arrivals`) and wait (`pending`); otherwise as before;
* `resume` the blocking callback returns: the waiting bytes are handed to `data_received` (remote monitor pinged), then the
           sleeps whose deadline has passed return — *late*.  `HeartbeatMonitor._start_monitor` then does
           `await asyncio.sleep(self.interval)` again: the next sleep starts **when the late check ran** (`Mon.wake` sets
           `left := interval`), not at the missed deadline.  That drift is what keeps every check window at least one
           interval long (`Props/C09Late.lean`).
* every other event needs a running loop and therefore ends a hold-up first.

`arrivals`, `remChecks`, `tripFrom` are ghost state (never read by a transition).
-/
namespace NasdaqModel.MonitorLate
open NasdaqModel.Monitor

/-- one grid unit passes for a monitor whose loop is held up: the deadline of its sleep comes closer, nothing runs -/
def passMon (m : Mon) : Mon := if m.running then { m with left := m.left - 1 } else m

/-- the loop runs its due timers at the current instant: a sleep whose deadline has been reached during a hold-up returns -/
def fireMon (m : Mon) : Mon × Bool := if m.running && m.left == 0 then m.wake else (m, false)

/-- local monitor's late timer; trip ⇒ `send_heartbeat()` -/
def fireLocal (s : Sess) : Sess :=
  let r := fireMon s.loc
  let s1 := { s with loc := r.1 }
  if r.2 then s1.sendMsg .mon else s1

/-- remote monitor's late timer; trip ⇒ `close()` -/
def fireRemote (s : Sess) : Sess :=
  let r := fireMon s.rem
  let s1 := { s with rem := r.1 }
  if r.2 then s1.close true else s1

/-- one grid unit passes while the loop is held up -/
def passSess (s : Sess) : Sess := { s with now := s.now + 1, loc := passMon s.loc, rem := passMon s.rem }

structure LSess where
  s : Sess
  held : Bool                  -- a callback is blocking the event loop
  pending : List RecvKind      -- bytes that reached the socket during the hold-up, oldest first
  arrivals : List Nat          -- ghost: instants at which bytes from the peer reached the socket, newest first
  remChecks : List Nat         -- ghost: instants at which the remote monitor's sleep returned and it looked at `_pinged`, newest first
  tripFrom : Nat               -- ghost: when the remote monitor closed the session — the instant of its previous check (0 = login)
  deriving Repr, DecidableEq, Inhabited

def LSess.ofSess (s : Sess) : LSess :=
  { s := s, held := false, pending := [], arrivals := [], remChecks := [], tripFrom := 0 }

/-- instant of the remote monitor's last check; login (its start) if it has not checked yet -/
def LSess.lastCheck (x : LSess) : Nat := x.remChecks.headD 0

/-- will the remote monitor's sleep return when the timers due within `bound` grid units are run -/
def remDue (s : Sess) (bound : Nat) : Bool := s.rem.running && decide (s.rem.left ≤ bound)

/-- ghost bookkeeping around a step of the underlying session that may run the remote monitor's check at instant `s'.now` -/
def LSess.noteCheck (x : LSess) (woke : Bool) (s' : Sess) : LSess :=
  { x with s := s',
           remChecks := if woke then s'.now :: x.remChecks else x.remChecks,
           tripFrom := if !x.s.closed && s'.closed && s'.closedByMon then x.lastCheck else x.tripFrom }

/-- the bytes that waited in the socket are handed to `data_received`, oldest first -/
def handover (s : Sess) (ks : List RecvKind) : Sess := ks.foldl (fun s k => s.dataReceived k) s

/-- the blocking callback returns: waiting bytes first, then the late timers (local, then remote) -/
def LSess.resume (x : LSess) : LSess :=
  if x.held then
    let s1 := handover x.s x.pending
    let x1 := { x with s := s1, held := false, pending := [] }
    x1.noteCheck (remDue s1 0) (fireRemote (fireLocal s1))
  else x

inductive LEv where
  | base (e : Ev)      -- an event of Model/Monitor.lean (`adv`: one unit passes with the loop running, timers fire on time)
  | hold               -- one grid unit passes while the loop is held up
  | resume             -- the hold-up ends (also implied by every `base` event except `recv`)
  deriving Repr, DecidableEq, Inhabited

/-- an event that needs the loop running, on a loop that is running -/
def LSess.baseStep (x : LSess) : Ev → LSess
  | .adv => x.noteCheck (remDue x.s 1) (x.s.step .adv)
  | .recv k => { x with s := x.s.dataReceived k, arrivals := x.s.now :: x.arrivals }
  | .send => { x with s := x.s.step .send }
  | .sendHb => { x with s := x.s.step .sendHb }
  | .sendFailed => { x with s := x.s.step .sendFailed }
  | .close => { x with s := x.s.step .close }

/-- the kind of bytes of a `recv` event -/
def recvKind? : Ev → Option RecvKind
  | .recv k => some k
  | _ => none

def LSess.step (x : LSess) : LEv → LSess
  | .hold => { x with s := passSess x.s, held := true }
  | .resume => x.resume
  | .base e =>
      match recvKind? e, x.held with
      | some k, true =>
          -- the loop is held up: the bytes wait in the socket
          { x with pending := x.pending ++ [k], arrivals := x.s.now :: x.arrivals }
      | _, _ => x.resume.baseStep e      -- (`resume` does nothing on a running loop)

def LSess.run (x : LSess) (evs : List LEv) : LSess := evs.foldl LSess.step x

/-- the session right after a successful login, loop running -/
def loginL (role : Role) (c : Cfg) : LSess := LSess.ofSess (login role c)

def startWithL (l r tl tr : Nat) : LSess := LSess.ofSess (startWith l r tl tr)

end NasdaqModel.MonitorLate
