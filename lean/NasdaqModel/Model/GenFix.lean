import NasdaqModel.Py.Dec
/-
Model of the FIX code generator: `fix/parser/parser.py` (parse), `fix/parser/definitions.py` (codegen contexts),
`fix/parser/version_types.py` (type tables), the mustache templates (abstract generated code) and the part of Python's
import of the generated package that decides whether it loads and which classes the entries refer to
(`fix/core.py` `Field/DataSegment/GroupContainer/Message.__init_subclass__`).

Text (names, attribute values) is `Str` = list of code points.  XML parsing (ElementTree) and text rendering (chevron) are
not modelled: the input is the element tree, the output is the *abstract* generated code (class declarations with their
entry references), see DESIGN.md §3 (trusted base) — they are exercised on the implementation side of the correspondence.
Import-free apart from the Python semantics layer.
-/
namespace NasdaqModel.GenFix
open NasdaqModel Py

/-- a string literal as code points (reduces by `decide`/`rfl`) -/
def lit (s : String) : Str := s.toList.map Char.toNat

/-! ## association lists with Python `dict` semantics (insertion ordered, assignment to an existing key keeps its place) -/

def aget {α : Type} (k : Str) : List (Str × α) → Option α
  | [] => none
  | (k', v) :: t => if k' = k then some v else aget k t

def aset {α : Type} (k : Str) (v : α) : List (Str × α) → List (Str × α)
  | [] => [(k, v)]
  | (k', v') :: t => if k' = k then (k', v) :: t else (k', v') :: aset k v t

/-! ## the element tree of a dictionary file -/

/-- a child element of `<header>`, `<trailer>`, `<message>`, `<component>` or `<group>`;
    `req` is the raw `required` attribute (`none` = absent) -/
inductive Item where
  | field (name : Str) (req : Option Str)
  | group (name : Str) (req : Option Str) (items : List Item)
  | comp (name : Str) (req : Option Str)
  deriving Repr, Inhabited

structure EnumXml where
  enum : Str
  desc : Str
  deriving Repr, DecidableEq

structure FieldXml where
  number : Str
  name : Str
  type : Str
  values : List EnumXml
  deriving Repr, DecidableEq

structure CompXml where
  name : Str
  items : List Item
  deriving Repr

structure MsgXml where
  name : Str
  msgtype : Str
  msgcat : Str
  items : List Item
  deriving Repr

/-- a top-level child of `<fix>` -/
inductive Section where
  | fields (fs : List FieldXml)
  | components (cs : List CompXml)
  | header (items : List Item)
  | trailer (items : List Item)
  | messages (ms : List MsgXml)
  deriving Repr

inductive Version where
  | v42 | v44 | v50 | v50sp2 | unknown
  deriving Repr, DecidableEq

/-- the dictionary file (sections in file order) together with the `--fix-version` argument -/
structure Dict where
  version : Version
  sections : List Section
  deriving Repr

/-! ## `version_types.py` -/

inductive PyKind where
  | str | bool | int | float
  deriving Repr, DecidableEq

/-- the classes of `fix/types.py` that the tables mention -/
inductive TyCls where
  | FixAmount | FixBool | FixChar | FixCurrency | FixString | FixDayOfMonth | FixExchange | FixFloat | FixInt
  | FixMultipleValueString | FixPrice | FixPriceOffset | FixQuantity | FixUTCTimeOnly | FixUTCTimeStamp
  | FixLocalMktDate | FixTzTimeonly
  deriving Repr, DecidableEq

/-- `type_cls` of the class (inherited from FixString / FixBool / FixInt / FixFloat) -/
def TyCls.kind : TyCls → PyKind
  | .FixAmount | .FixFloat | .FixPrice | .FixPriceOffset | .FixQuantity => .float
  | .FixBool => .bool
  | .FixDayOfMonth | .FixInt => .int
  | _ => .str

abbrev TypeTable := List (Str × TyCls)

/-- `dict.update` -/
def updateAll (t : TypeTable) (u : TypeTable) : TypeTable := u.foldl (fun acc kv => aset kv.1 kv.2 acc) t

def types42 : TypeTable := [
  (lit "AMT", .FixAmount), (lit "BOOLEAN", .FixBool), (lit "CHAR", .FixChar), (lit "CURRENCY", .FixCurrency),
  (lit "DATA", .FixString), (lit "DAYOFMONTH", .FixDayOfMonth), (lit "EXCHANGE", .FixExchange), (lit "FLOAT", .FixFloat),
  (lit "INT", .FixInt), (lit "LENGTH", .FixInt), (lit "LOCALMKTDATE", .FixString), (lit "MONTHYEAR", .FixInt),
  (lit "MULTIPLEVALUESTRING", .FixMultipleValueString), (lit "PRICE", .FixPrice), (lit "PRICEOFFSET", .FixPriceOffset),
  (lit "QTY", .FixQuantity), (lit "STRING", .FixString), (lit "UTCDATE", .FixString), (lit "UTCTIMEONLY", .FixUTCTimeOnly),
  (lit "UTCTIMESTAMP", .FixUTCTimeStamp), (lit "COUNTRY", .FixString), (lit "PERCENTAGE", .FixFloat), (lit "LONG", .FixInt)]

def types44 : TypeTable := updateAll types42 [(lit "SEQNUM", .FixInt), (lit "NUMINGROUP", .FixInt)]

def types50 : TypeTable := updateAll types42
  [(lit "FIXSTRING", .FixString), (lit "MULTIPLECHARVALUE", .FixString), (lit "NUMINGROUP", .FixInt), (lit "SEQNUM", .FixInt)]

def types502 : TypeTable := updateAll types50
  [(lit "LOCALMKTDATE", .FixLocalMktDate), (lit "TZTIMEONLY", .FixTzTimeonly), (lit "MULTIPLESTRINGVALUE", .FixMultipleValueString)]

/-- `get_supported_types(version)` -/
def supportedTypes : Version → Except Err TypeTable
  | .v42 => .ok types42
  | .v44 => .ok types44
  | .v50 => .ok types50
  | .v50sp2 => .ok types502
  | .unknown => .error .value

/-! ## `definitions.py`: the parsed dictionary -/

structure FieldDef where
  tag : Str
  name : Str
  type : TyCls
  values : List (Str × Str)      -- possible_values: enum ↦ description (a dict)
  deriving Repr, DecidableEq

inductive Entry where
  | field (fd : FieldDef) (req : Bool)
  | group (name : Str) (req : Bool) (entries : List Entry)
  deriving Repr, Inhabited

structure Message where
  tag : Str
  name : Str
  category : Str
  entries : List Entry
  deriving Repr

abbrev FieldTab := List (Str × FieldDef)
abbrev CompTab := List (Str × List Entry)

structure Defs where
  version : Version
  fields : FieldTab := []
  components : CompTab := []
  header : List Entry := []
  trailer : List Entry := []
  messages : List Message := []
  deriving Repr

/-! ## `parser.py` -/

/-- `_is_required`: `entry.get('required') == 'Y'` -/
def isRequired (r : Option Str) : Bool := r == some [89]

/-- `{v.get('enum'): v.get('description') for v in field.iter('value')}` -/
def valuesDict (vs : List EnumXml) : List (Str × Str) := vs.foldl (fun acc v => aset v.enum v.desc acc) []

/-- `_handle_fields` (the loop body: `definitions.fields[name] = FieldDef(…, type=types[field.get('type')], …)`) -/
def handleFields (types : TypeTable) : FieldTab → List FieldXml → Except Err FieldTab
  | ft, [] => .ok ft
  | ft, f :: rest =>
    match aget f.type types with
    | none => .error .key
    | some ty => handleFields types (aset f.name ⟨f.number, f.name, ty, valuesDict f.values⟩ ft) rest

/-- the signature of "give me component `n`" as seen from `_handle_entry`: may extend `definitions.components` -/
abbrev CompLookup := CompTab → Str → Except Err (CompTab × List Entry)

mutual
/-- `_handle_entry` / `_create_group`; returns the entries appended to the container (nothing else of the container is touched) -/
def handleItem (fields : FieldTab) (sub : CompLookup) (ct : CompTab) : Item → Except Err (CompTab × List Entry)
  | .field n r =>
    match aget n fields with
    | none => .error .value                       -- 'Field definition for … not found'
    | some fd => .ok (ct, [Entry.field fd (isRequired r)])
  | .group n r items =>
    match handleItems fields sub ct items with
    | .error e => .error e
    | .ok (ct', es) => .ok (ct', [Entry.group n (isRequired r) es])
  | .comp n _ => sub ct n                         -- `for component_entry in component.entries: container.entries.append(…)`
/-- `for entry in element: _handle_entry(…)` -/
def handleItems (fields : FieldTab) (sub : CompLookup) (ct : CompTab) : List Item → Except Err (CompTab × List Entry)
  | [] => .ok (ct, [])
  | i :: rest =>
    match handleItem fields sub ct i with
    | .error e => .error e
    | .ok (ct1, es1) =>
      match handleItems fields sub ct1 rest with
      | .error e => .error e
      | .ok (ct2, es2) => .ok (ct2, es1 ++ es2)
end

/-- the `component` branch of `_handle_entry`: `definitions.components[name]`, on `KeyError` the first
    `./components/component` of that name is handled on the spot (`_handle_component`) and stored.
    `fuel` = remaining nesting depth of such on-the-spot handling; Python recurses without bound (a component that
    reaches itself ends in `RecursionError`, which is what running out of fuel stands for: `parse` supplies more fuel
    than there are components). -/
def getComponent (fields : FieldTab) (root : List CompXml) : Nat → CompLookup
  | 0, _, _ => .error .other
  | k + 1, ct, n =>
    match aget n ct with
    | some es => .ok (ct, es)
    | none =>
      match root.find? (fun c => c.name = n) with
      | none => .error .value                     -- 'Component definition for … not found'
      | some c =>
        match handleItems fields (getComponent fields root k) ct c.items with
        | .error e => .error e
        | .ok (ct', es) => .ok (aset n es ct', es)

/-- `_handle_component` called from `_handle_components` -/
def handleComponent (fields : FieldTab) (root : List CompXml) (fuel : Nat) (ct : CompTab) (c : CompXml) : Except Err CompTab :=
  match handleItems fields (getComponent fields root fuel) ct c.items with
  | .error e => .error e
  | .ok (ct', es) => .ok (aset c.name es ct')

def handleComponents (fields : FieldTab) (root : List CompXml) (fuel : Nat) : CompTab → List CompXml → Except Err CompTab
  | ct, [] => .ok ct
  | ct, c :: rest =>
    match handleComponent fields root fuel ct c with
    | .error e => .error e
    | .ok ct' => handleComponents fields root fuel ct' rest

/-- `_handle_messages` -/
def handleMessages (fields : FieldTab) (root : List CompXml) (fuel : Nat) :
    CompTab → List MsgXml → Except Err (CompTab × List Message)
  | ct, [] => .ok (ct, [])
  | ct, m :: rest =>
    match handleItems fields (getComponent fields root fuel) ct m.items with
    | .error e => .error e
    | .ok (ct1, es) =>
      match handleMessages fields root fuel ct1 rest with
      | .error e => .error e
      | .ok (ct2, ms) => .ok (ct2, ⟨m.msgtype, m.name, m.msgcat, es⟩ :: ms)

def compsOf : Section → List CompXml
  | .components cs => cs
  | _ => []

/-- `root.findall('./components/component')` -/
def allComps (d : Dict) : List CompXml := d.sections.flatMap compsOf

/-- one handler call of the loop in `parse` -/
def handleSection (types : TypeTable) (root : List CompXml) (fuel : Nat) (defs : Defs) : Section → Except Err Defs
  | .fields fs =>
    match handleFields types defs.fields fs with
    | .error e => .error e
    | .ok ft => .ok { defs with fields := ft }
  | .components cs =>
    match handleComponents defs.fields root fuel defs.components cs with
    | .error e => .error e
    | .ok ct => .ok { defs with components := ct }
  | .header items =>
    match handleItems defs.fields (getComponent defs.fields root fuel) defs.components items with
    | .error e => .error e
    | .ok (ct, es) => .ok { defs with components := ct, header := defs.header ++ es }
  | .trailer items =>
    match handleItems defs.fields (getComponent defs.fields root fuel) defs.components items with
    | .error e => .error e
    | .ok (ct, es) => .ok { defs with components := ct, trailer := defs.trailer ++ es }
  | .messages ms =>
    match handleMessages defs.fields root fuel defs.components ms with
    | .error e => .error e
    | .ok (ct, msgs) => .ok { defs with components := ct, messages := defs.messages ++ msgs }

def handleSections (types : TypeTable) (root : List CompXml) (fuel : Nat) : Defs → List Section → Except Err Defs
  | defs, [] => .ok defs
  | defs, s :: rest =>
    match handleSection types root fuel defs s with
    | .error e => .error e
    | .ok defs' => handleSections types root fuel defs' rest

/-- `parse(file, version)`: the sections are handled in *reverse* file order -/
def parse (d : Dict) : Except Err Defs :=
  match supportedTypes d.version with
  | .error e => .error e
  | .ok types => handleSections types (allComps d) ((allComps d).length + 1) { version := d.version } d.sections.reverse

/-! ## `get_codegen_context` and the templates: abstract generated code -/

/-- what a template needs of one entry context: `fix.Entry(fields.<name>, req)` or `fix.Entry(<unique_name>_List, req)`.
    (The nested `'entries'` of a group's own context are never rendered and are not kept; the *effects* of computing
    them — counters advanced, contexts appended — are, see `ctxEntry`.) -/
inductive ERef where
  | field (fd : FieldDef) (req : Bool)
  | group (name : Str) (uname : Str) (req : Bool)
  deriving Repr, DecidableEq

/-- an element of `Group.Contexts`: one group class (and its `_List` container) of the groups module -/
structure GroupCtx where
  name : Str
  uname : Str
  entries : List ERef
  deriving Repr, DecidableEq

/-- `Group.UniqueNameCounter` (last number handed out per name) and `Group.Contexts` -/
structure GState where
  counters : List (Str × Nat) := []
  contexts : List GroupCtx := []
  deriving Repr, DecidableEq

/-- `f'{self.name}_{next(Group.UniqueNameCounter[self.name])}'` -/
def uniqueName (name : Str) (k : Nat) : Str := name ++ [95] ++ natDigits k

def counterOf (name : Str) (s : GState) : Nat := (aget name s.counters).getD 0   -- defaultdict(count(1)): nothing handed out yet

def bump (name : Str) (s : GState) : GState := { s with counters := aset name (counterOf name s + 1) s.counters }

def push (c : GroupCtx) (s : GState) : GState := { s with contexts := s.contexts ++ [c] }

mutual
/-- `Field.get_codegen_context` / `Group.get_codegen_context`.  The list comprehension over the group's entries is
    evaluated twice (once for the returned context, once for the `Group.Contexts` element), so every nested group gets
    two names and two classes per evaluation of its parent; the `Contexts` element carries the *second* evaluation. -/
def ctxEntry (s : GState) : Entry → ERef × GState
  | .field fd r => (.field fd r, s)
  | .group n r es =>
    let u := uniqueName n (counterOf n s + 1)
    let s1 := bump n s
    let s2 := (ctxEntries s1 es).2
    let r3 := ctxEntries s2 es
    (.group n u r, push ⟨n, u, r3.1⟩ r3.2)
def ctxEntries (s : GState) : List Entry → List ERef × GState
  | [] => ([], s)
  | e :: t =>
    let r1 := ctxEntry s e
    let r2 := ctxEntries r1.2 t
    (r1.1 :: r2.1, r2.2)
end

/-- python keywords (`keyword.kwlist` of CPython 3.12; soft keywords are not `iskeyword`) -/
def keywords : List Str := [
  lit "False", lit "None", lit "True", lit "and", lit "as", lit "assert", lit "async", lit "await", lit "break",
  lit "class", lit "continue", lit "def", lit "del", lit "elif", lit "else", lit "except", lit "finally", lit "for",
  lit "from", lit "global", lit "if", lit "import", lit "in", lit "is", lit "lambda", lit "nonlocal", lit "not", lit "or",
  lit "pass", lit "raise", lit "return", lit "try", lit "while", lit "with", lit "yield"]

def isKeyword (s : Str) : Bool := keywords.contains s

/-- one line pair of the field template: `<key>: '<attr>'` in `Values` and `<attr> = <key>`; the key is quoted iff `quoted` -/
structure EnumCls where
  key : Str
  quoted : Bool
  attr : Str
  deriving Repr, DecidableEq

/-- `FieldDef._values_ctx` -/
def valuesCtx (fd : FieldDef) : List EnumCls :=
  fd.values.map fun kv =>
    ⟨kv.1, fd.type.kind == .str || fd.type.kind == .bool, if isKeyword kv.2 then kv.2 ++ [95] else kv.2⟩

/-- `class <name>(fix.Field, Tag="<tag>", Name="<name>", Type=fix.<type>)` -/
structure FieldCls where
  name : Str
  tag : Str
  type : TyCls
  values : List EnumCls
  deriving Repr, DecidableEq

/-- `class <name>(fix.DataSegment): Entries = […]` of the bodies module -/
structure BodyCls where
  name : Str
  entries : List ERef
  deriving Repr, DecidableEq

/-- a class of the messages module (`entries`: the annotations, which mention `groups.<unique>_List`) -/
structure MsgCls where
  name : Str
  tag : Str
  category : Str
  bodyName : Str
  entries : List ERef
  deriving Repr, DecidableEq

inductive SessionCls where
  | Fix42Session | Fix44Session | Fix50Session
  deriving Repr, DecidableEq

/-- the generated package, abstractly: the five modules in the order `__init__` imports them -/
structure Module where
  session : SessionCls
  fields : List FieldCls
  groups : List GroupCtx
  bodies : List BodyCls
  messages : List MsgCls
  deriving Repr, DecidableEq

/-- `Definitions._client_session` -/
def clientSession : Version → Except Err SessionCls
  | .v42 => .ok .Fix42Session
  | .v44 => .ok .Fix44Session
  | .v50 | .v50sp2 => .ok .Fix50Session
  | .unknown => .error .value                     -- 'Version … is not supported' (unreachable: `parse` has refused it)

def bodySuffix : Str := lit "Body"

/-- the `message_context` comprehension: every message's entries, in order, threading the class-level state -/
def ctxMessages (s : GState) : List Message → List MsgCls × GState
  | [] => ([], s)
  | m :: rest =>
    let r1 := ctxEntries s m.entries
    let r2 := ctxMessages r1.2 rest
    (⟨m.name, m.tag, m.category, m.name ++ bodySuffix, r1.1⟩ :: r2.1, r2.2)

/-- `Definitions.get_codegen_context` rendered through the five templates, with the class-level state at `s0`.
    The method resets `Group.Contexts` and `Group.UniqueNameCounter` first, i.e. it always runs with `s0 = {}` (`codegen`).
    Order of evaluation as in the source: messages, `_client_session()`, fields, header, trailer; `Group.Contexts` last. -/
def codegenFrom (s0 : GState) (defs : Defs) : Except Err Module :=
  let rm := ctxMessages s0 defs.messages
  match clientSession defs.version with
  | .error e => .error e
  | .ok sess =>
    let fields := defs.fields.map fun kv => (⟨kv.2.name, kv.2.tag, kv.2.type, valuesCtx kv.2⟩ : FieldCls)
    let rh := ctxEntries rm.2 defs.header
    let rt := ctxEntries rh.2 defs.trailer
    .ok { session := sess, fields := fields, groups := rt.2.contexts,
          bodies := ⟨lit "Header", rh.1⟩ :: ⟨lit "Trailer", rt.1⟩ :: rm.1.map (fun m => ⟨m.bodyName, m.entries⟩),
          messages := rm.1 }

def codegen (defs : Defs) : Except Err Module := codegenFrom {} defs

/-- `Generator(parse(spec, version), …).generate()` (the generator state is reset per generation, so no process history enters) -/
def gen (d : Dict) : Except Err Module :=
  match parse d with
  | .error e => .error e
  | .ok defs => codegen defs

/-! ## importing the generated package: which class every entry refers to -/

/-- a loaded field class: `Tag` is `int(kwargs['Tag'])` -/
structure LField where
  name : Str
  tag : Int
  type : TyCls
  values : List EnumCls
  deriving Repr, DecidableEq

/-- the `Entries` of a loaded segment / group class, references followed to the class objects:
    a field class, or a `GroupContainer` with its `CountCls` (name, tag, type) and the `Entries` of its `GroupCls` -/
inductive LEntry where
  | field (name : Str) (tag : Int) (type : TyCls) (req : Bool)
  | group (name : Str) (tag : Int) (ctype : TyCls) (req : Bool) (entries : List LEntry)
  deriving Repr

/-- a `<unique>_List` class object: CountCls + the Entries of `<unique>` -/
structure LGroup where
  name : Str
  tag : Int
  ctype : TyCls
  entries : List LEntry
  deriving Repr

structure LMsg where
  cls : Str
  type : Str
  category : Str
  header : List LEntry
  body : List LEntry
  trailer : List LEntry
  deriving Repr

structure Loaded where
  session : SessionCls
  fields : List LField
  header : List LEntry
  trailer : List LEntry
  messages : List LMsg
  deriving Repr

def isIdentStart (c : Nat) : Bool := (65 ≤ c && c ≤ 90) || (97 ≤ c && c ≤ 122) || c == 95
def isIdentChar (c : Nat) : Bool := isIdentStart c || isDigit c
/-- an ASCII python identifier that is not a keyword -/
def isIdent (s : Str) : Bool :=
  match s with
  | [] => false
  | c :: t => isIdentStart c && t.all isIdentChar && !isKeyword s

/-- executing one class statement of the fields module.  `int(Tag)` may raise; an unquoted enum key must be a literal and
    every description becomes an attribute name (anything else is a SyntaxError of the whole module: `other`). -/
def loadField (f : FieldCls) : Except Err LField :=
  if !(f.values.all fun v => isIdent v.attr && (v.quoted || (parseIntStr v.key).toBool)) then .error .other
  else match parseIntStr f.tag with
    | .error e => .error e
    | .ok t => .ok ⟨f.name, t, f.type, f.values⟩

/-- the fields module: module namespace, most recent binding first -/
def loadFields : List (Str × LField) → List FieldCls → Except Err (List (Str × LField))
  | env, [] => .ok env
  | env, f :: rest =>
    match loadField f with
    | .error e => .error e
    | .ok lf => loadFields ((f.name, lf) :: env) rest

/-- evaluating `fix.Entry(fields.X, r)` / `fix.Entry(<U>_List, r)`; `miss` = the exception for an unbound group class
    (`NameError` inside the groups module, `AttributeError` through `groups.`) -/
def resolveRef (fenv : List (Str × LField)) (genv : List (Str × LGroup)) (miss : Err) : ERef → Except Err LEntry
  | .field fd r =>
    match aget fd.name fenv with
    | none => .error .attr
    | some lf => .ok (.field lf.name lf.tag lf.type r)
  | .group _ u r =>
    match aget u genv with
    | none => .error miss
    | some g => .ok (.group g.name g.tag g.ctype r g.entries)

def resolveRefs (fenv : List (Str × LField)) (genv : List (Str × LGroup)) (miss : Err) : List ERef → Except Err (List LEntry)
  | [] => .ok []
  | r :: rest =>
    match resolveRef fenv genv miss r with
    | .error e => .error e
    | .ok le =>
      match resolveRefs fenv genv miss rest with
      | .error e => .error e
      | .ok les => .ok (le :: les)

/-- the groups module, statement by statement: `class U(fix.Group)` then `class U_List(…, CountCls=fields.<name>, GroupCls=U)`.
    The namespace is keyed by `U` (the `_List` class is bound immediately after `U` and no `U` ends in `_List`). -/
def loadGroups (fenv : List (Str × LField)) : List (Str × LGroup) → List GroupCtx → Except Err (List (Str × LGroup))
  | genv, [] => .ok genv
  | genv, g :: rest =>
    match resolveRefs fenv genv .other g.entries with
    | .error e => .error e
    | .ok les =>
      match aget g.name fenv with
      | none => .error .attr
      | some cf => loadGroups fenv ((g.uname, ⟨cf.name, cf.tag, cf.type, les⟩) :: genv) rest

def loadBodies (fenv : List (Str × LField)) (genv : List (Str × LGroup)) :
    List (Str × List LEntry) → List BodyCls → Except Err (List (Str × List LEntry))
  | benv, [] => .ok benv
  | benv, b :: rest =>
    match resolveRefs fenv genv .attr b.entries with
    | .error e => .error e
    | .ok les => loadBodies fenv genv ((b.name, les) :: benv) rest

def loadMessages (fenv : List (Str × LField)) (genv : List (Str × LGroup)) (benv : List (Str × List LEntry)) :
    List MsgCls → Except Err (List LMsg)
  | [] => .ok []
  | m :: rest =>
    match aget (lit "Header") benv, aget m.bodyName benv, aget (lit "Trailer") benv with
    | some h, some b, some t =>
      match resolveRefs fenv genv .attr m.entries with       -- the annotations are evaluated when the class body runs
      | .error e => .error e
      | .ok _ =>
        match loadMessages fenv genv benv rest with
        | .error e => .error e
        | .ok ms => .ok (⟨m.name, m.tag, m.category, h, b, t⟩ :: ms)
    | _, _, _ => .error .attr

/-- `import <package>`: fields, groups, bodies, messages, app — in the order of the generated `__init__` -/
def load (m : Module) : Except Err Loaded :=
  match loadFields [] m.fields with
  | .error e => .error e
  | .ok fenv =>
    match loadGroups fenv [] m.groups with
    | .error e => .error e
    | .ok genv =>
      match loadBodies fenv genv [] m.bodies with
      | .error e => .error e
      | .ok benv =>
        match loadMessages fenv genv benv m.messages with
        | .error e => .error e
        | .ok msgs =>
          match aget (lit "Header") benv, aget (lit "Trailer") benv with
          | some h, some t =>
            .ok { session := m.session, fields := (fenv.map (·.2)).reverse, header := h, trailer := t,
                  messages := msgs }
          | _, _ => .error .attr

/-- generate, then import -/
def genLoad (d : Dict) : Except Err Loaded :=
  match gen d with
  | .error e => .error e
  | .ok m => load m

/-! ## scoping of the generated groups module -/

def groupRefs (es : List ERef) : List Str := es.filterMap fun | .group _ u _ => some u | _ => none
def fieldRefs (es : List ERef) : List Str := es.filterMap fun | .field fd _ => some fd.name | _ => none

def nodupB : List Str → Bool
  | [] => true
  | a :: t => !t.contains a && nodupB t

/-- every group class a group class mentions is defined *earlier* in the groups module -/
def scopedGroups : List Str → List GroupCtx → Bool
  | _, [] => true
  | seen, g :: rest => (groupRefs g.entries).all (fun u => seen.contains u) && scopedGroups (g.uname :: seen) rest

/-- the generated modules only mention classes that exist when the mention is evaluated; class names are unique -/
def wellScoped (m : Module) : Bool :=
  let fnames := m.fields.map (·.name)
  let unames := m.groups.map (·.uname)
  scopedGroups [] m.groups
  && nodupB unames
  && m.groups.all (fun g => fnames.contains g.name && (fieldRefs g.entries).all (fun n => fnames.contains n))
  && m.bodies.all (fun b => (groupRefs b.entries).all (fun u => unames.contains u) && (fieldRefs b.entries).all (fun n => fnames.contains n))
  && m.messages.all (fun c => (groupRefs c.entries).all (fun u => unames.contains u))

end NasdaqModel.GenFix
