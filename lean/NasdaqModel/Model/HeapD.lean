import NasdaqModel.Model.Heap
/-
C18 - DECLARED defaults (`Field(name, type, default_value=…)` with a list / a list of rows / a list of records / a record) on top of
the object heap of `Model/Heap.lean`.

What the code does with them (`structures.py`, since /repo c3c2285):
  * `_Record.get_field_value`, key not in `values`:  `default = field.default_value` (the class-level object kept in the `Field`),
    `return copy.deepcopy(default) if isinstance(default, list) else default` - a never-assigned ARRAY field with a declared default
    reads as a brand-new object graph, all the way down, on every read.  Nothing of it is stored in the instance and nothing of the
    class-level object is handed out: in-place changes of what was read are changes of a temporary only the caller holds.
  * a declared default on a RECORD-typed field is never looked at: `init_values` / `__attrs_post_init__` put `field.type()`, a new
    nested record, into `values` of every instance (the field is never "unset").  `Defaults` therefore lists array fields only.

Model: the class-level default objects are immutable data of the schema (`Defaults`: (class, field) ↦ pure `Tree`); a deep copy of an
immutable tree is the tree.  Reading through a declared default continues inside that tree (`navTree`), operations that end inside it
check what Python checks (kind of object, index range, type of the assigned value) and leave the heap as it is; everything else is the
operation of `Model/Heap.lean` on the schema in which these fields read as `[]`.  Observation = the observation of `Model/Heap.lean`
with the unassigned array fields that have a declared default shown as that default (`patch`), encoding = encoding of that observation.

The variant that copies ONE level (`list(default)`, the code before c3c2285; or `dict(default.values)` for a record default) needs
class-level CELLS for the inner objects: it is not this model, it is the subject of `Witness/C18Defaults.lean`, written with the cells
and operations of `Model/Heap.lean`.
-/
namespace NasdaqModel.HeapD
open NasdaqModel Py Heap

/-- declared defaults of array-typed fields: (class id, field index) ↦ the default value as a pure tree -/
structure Defaults where
  table : List ((Nat × Key) × Tree)
  deriving Repr, Inhabited

def Defaults.get (D : Defaults) (c : Nat) (k : Key) : Option Tree :=
  (D.table.find? (fun e => e.1.1 == c && e.1.2 == k)).map (·.2)

def declaredKeys (S : Schema) (c : Nat) : List Key := (S.declared c).map (·.1)

/-- what a key that is not in the store of a TEMPORARY record of class `c` reads as, as a tree: the declared default, else the
    type-level default (`0`, `[]`, `None`; FIX: `0`, `''`, `None`) -/
def unsetTree (S : Schema) (D : Defaults) (c : Nat) (k : Key) : Option Tree :=
  match (S.declared c).find? (fun kd => kd.1 == k) with
  | Option.none => Option.none
  | some kd =>
    match D.get c k with
    | some t => some t
    | Option.none =>
      match kd.2 with
      | .int i => some (.int i)
      | .str s => some (.str s)
      | .none => some .none
      | _ => some (.list [])

/-- follow a path of reads inside a temporary (a deep copy of a declared default) -/
def navTree (S : Schema) (D : Defaults) : Tree → List Step → Except Err Tree
  | t, [] => .ok t
  | .list xs, .idx i :: p =>
    match xs[i]? with
    | some x => navTree S D x p
    | Option.none => .error .index
  | .obj c ks ts, .fld k :: p =>
    match lookup2 ks ts k with
    | some x => navTree S D x p
    | Option.none =>
      match unsetTree S D c k with
      | some x =>
        -- one more declared / type-level default: a tree again (it has no `.obj` with unset keys of its own to look up here)
        match x, p with
        | x, [] => .ok x
        | .list ys, .idx i :: q =>
          match ys[i]? with
          | some y => navTree S D y q
          | Option.none => .error .index
        | _, _ => .error .attr
      | Option.none => .error .key
  | _, _ :: _ => .error .attr

/-- where a path of reads from a heap value ends: in the heap, or inside a temporary -/
inductive RVal where
  | heap (v : Val)
  | tmp (t : Tree)
  deriving Repr, Inhabited

/-- `resolve` of `Model/Heap.lean`, leaving the heap where a never-assigned array field has a declared default -/
def resolveD (S : Schema) (D : Defaults) (h : Cells) : Val → List Step → Except Err RVal
  | v, [] => .ok (.heap v)
  | .ref a, .fld k :: p =>
    match h[a]? with
    | some ⟨_, .obj c st⟩ =>
      match storeGet st k with
      | some v => resolveD S D h v p
      | Option.none =>
        match (S.declared c).find? (fun kd => kd.1 == k) with
        | Option.none => .error .key
        | some kd =>
          match D.get c k with
          | some t => do
            let r ← navTree S D t p
            pure (.tmp r)
          | Option.none => resolveD S D h kd.2 p
    | _ => .error .attr
  | .ref a, .idx i :: p =>
    match h[a]? with
    | some ⟨_, .list xs⟩ =>
      match xs[i]? with
      | some v => resolveD S D h v p
      | Option.none => .error .index
    | _ => .error .attr
  | .elist, .idx _ :: _ => .error .index
  | _, _ :: _ => .error .attr

/-! ### observation -/

/-- a temporary observed to depth `n` (same depth accounting as `deref`) -/
def treeD (S : Schema) (D : Defaults) : Nat → Tree → DVal
  | _, .int i => .int i
  | _, .str s => .str s
  | _, .none => .none
  | 0, _ => .cut
  | n + 1, .list xs => .list (xs.map (treeD S D n))
  | n + 1, .obj c ks ts =>
    let dk := (declaredKeys S c).filter (fun k => !ks.contains k)
    .obj c ks (ts.map (treeD S D n)) dk
      (dk.map (fun k => match unsetTree S D c k with
                        | some t => treeD S D n t
                        | Option.none => .cut))

/-- the observation of `Model/Heap.lean` with every unassigned array field that has a declared default shown as that default -/
def patch (S : Schema) (D : Defaults) : Nat → DVal → DVal
  | n + 1, .list xs => .list (xs.map (patch S D n))
  | n + 1, .obj c sk sv dk dv =>
    .obj c sk (sv.map (patch S D n)) dk
      ((dk.zip dv).map (fun kd => match D.get c kd.1 with
                                  | some t => treeD S D n t
                                  | Option.none => patch S D n kd.2))
  | _, d => d

/-- what instance `i` reads, declared defaults included -/
def viewD (S : Schema) (D : Defaults) (n : Nat) (H : Heap) (i : Nat) : Option DVal :=
  (view S n H i).map (patch S D n)

/-- `instance.to_bytes()[1]`: a function of what the instance reads -/
def encodeInstD (S : Schema) (D : Defaults) (H : Heap) (i : Nat) : Except Err Bytes :=
  match H.insts[i]? with
  | some cr => encodeD S (obsDepth S) cr.1 (patch S D (obsDepth S) (deref S (obsDepth S) H.cells (.ref cr.2)))
  | Option.none => .error .key

/-! ### operations -/

def targetD (S : Schema) (D : Defaults) (H : Heap) (a : Nat) (p : List Step) : Except Err RVal := do
  let cr ← getInst H a
  resolveD S D H.cells (.ref cr.2) p

def addBuf (H : Heap) (bs : Bytes) : Heap :=
  { H with cells := H.cells ++ [⟨.ext, .buf bs⟩], bufs := H.bufs ++ [H.cells.length] }

/-- one operation.  Ending inside a temporary: Python's own checks, then nothing any instance holds changes. -/
def stepD (S : Schema) (D : Defaults) (H : Heap) : Op → Except Err Heap
  | .read a p => do
    let _ ← targetD S D H a p
    .ok H
  | .assign a p k t => do
    match ← targetD S D H a p with
    | .tmp (.obj c _ _) => do
      let _ ← convAssign S c k t          -- the type check of `__setattr__` on the temporary record
      .ok H
    | .tmp _ => .error .attr
    | .heap _ => step S H (.assign a p k t)
  | .append a p t => do
    match ← targetD S D H a p with
    | .tmp (.list _) => .ok H
    | .tmp _ => .error .attr
    | .heap _ => step S H (.append a p t)
  | .setIdx a p i t => do
    match ← targetD S D H a p with
    | .tmp (.list xs) => if i < xs.length then .ok H else .error .index
    | .tmp _ => .error .attr
    | .heap _ => step S H (.setIdx a p i t)
  | .encode a => do
    let _ ← encodeInstD S D H a
    .ok H
  | .mkbuf a => do
    let bs ← encodeInstD S D H a
    .ok (addBuf H bs)
  | op => step S H op                      -- new, decode, scribble, copy, clone: as in `Model/Heap.lean`

def stepKD (S : Schema) (D : Defaults) (H : Heap) (op : Op) : Heap :=
  match stepD S D H op with
  | .ok H' => H'
  | .error _ => H

def runD (S : Schema) (D : Defaults) (H : Heap) (ops : List Op) : Heap := ops.foldl (stepKD S D) H

end NasdaqModel.HeapD
