import NasdaqModel.Model.FixFrame
/-
A FIX message *object* over time (C14, re-send histories).

`fix.Message` objects are mutable: a program keeps one message (a quote with legs, each leg with its parties …), sends it
through a session, changes something IN PLACE — a body field, a field of a group instance, a field of an instance of a group
nested in that instance, an instance appended to / replaced in / removed from a (nested) list — and sends the same object
again.  In `nasdaq_protocols/fix/core.py` nothing is remembered between two `to_bytes()` calls: `Message.to_bytes`,
`DataSegment.to_bytes`, `GroupContainer.to_bytes`, `Group.to_bytes` walk the values the object holds at that moment.
`FixSession.send_msg` changes the object itself (the five header assignments; `_prepare_complete_msg` pops the framing fields).

This file transcribes exactly that:
  * the state of an object is the `Msg` value it holds (`Model/Fix.lean`);
  * `Edit` / `editAt` — the in-place operations, addressed by a path of (group tag, instance index) steps from a segment down:
      `set t v`        `target[t] = v`                 (`DataSegment.__setitem__`: type-checked, an existing key keeps its place)
      `pop t`          `target.values.pop(t)`          (the idiom `_prepare_complete_msg` itself uses to remove a field)
      `append t g`     `target[t].groups.append(G.from_value(g))`
      `insert t i g`   `target[t].groups.insert(i, G.from_value(g))`
      `replace t i g`  `target[t][i] = G.from_value(g)`         (`GroupContainer.__setitem__`)
      `delete t i`     `del target[t].groups[i]`
  * `Op.send seq time` — `send_msg` with the sequence number drawn and the clock reading: `FixFrame.frame` of the value the
    object holds NOW; afterwards the object holds the stamped message `frame` returns;
  * `trace` — a history folded over the object: for every send, what the object held when `send_msg` was called, the frame
    written, what it holds afterwards.  A history stops at the first operation that raises (the harness generates none).

`Cached` (bottom of the file) is NOT the code: it is the semantics of the seeded change C14l (`Group.to_bytes` keeps the bytes of
an instance, only an assignment on that very instance drops them), kept as the subject of `Witness/C14Resend.lean`.
-/
namespace NasdaqModel.FixObj
open NasdaqModel Py Fix FixFrame

/-- from a segment down to a group instance: (count tag of the group, index of the instance) per level -/
abbrev Path := List (Nat × Nat)

inductive SegSel where
  | hdr | body | trl
  deriving Repr, DecidableEq, Inhabited

inductive Edit where
  | set (t : Nat) (v : Val)
  | pop (t : Nat)
  | append (t : Nat) (inst : Seg)
  | insert (t : Nat) (i : Nat) (inst : Seg)
  | replace (t : Nat) (i : Nat) (inst : Seg)
  | delete (t : Nat) (i : Nat)
  deriving Repr, Inhabited

inductive Op where
  | edit (s : SegSel) (p : Path) (e : Edit)
  | send (seq : Int) (time : Str)
  deriving Repr, Inhabited

/-- `target[t]` where a `GroupContainer` is expected: its `GroupCls.Entries` and its `groups`.
    An unknown tag is a `KeyError` (`self.__dict__[key]`); a known group that is not set reads as `None`, a field as its plain
    value — `.groups` / `[i]` on those is an `AttributeError` / `TypeError` (reported as `attr`) -/
def container (es : List Entry) (s : Seg) (t : Nat) : Except Err (List Entry × List Seg) :=
  match lookupE es t with
  | none => .error .key
  | some (.group _ sub _) =>
    match lookupV s t with
    | some (.grp insts) => .ok (sub, insts)
    | _ => .error .attr
  | some (.field ..) => .error .attr

/-- `lst[i] = g` (non-negative `i`): `IndexError` behind the end -/
def setIdx (l : List Seg) (i : Nat) (g : Seg) : Except Err (List Seg) :=
  if i < l.length then .ok (l.set i g) else .error .index

/-- `del lst[i]` -/
def delIdx (l : List Seg) (i : Nat) : Except Err (List Seg) :=
  if i < l.length then .ok (l.eraseIdx i) else .error .index

/-- the edit on the segment / group instance it addresses (`es` = the entries of its class, `s` = its `values`) -/
def editHere (es : List Entry) (s : Seg) : Edit → Except Err Seg
  | .set t v => setItem es s t v
  | .pop t => if hasKey s t then .ok (s.filter (fun p => p.1 != t)) else .error .key
  | .append t g => do
      let (sub, insts) ← container es s t
      let g' ← buildSeg sub [] g
      pure (upsert s t (.grp (insts ++ [g'])))
  | .insert t i g => do
      let (sub, insts) ← container es s t
      let g' ← buildSeg sub [] g
      pure (upsert s t (.grp (insts.take i ++ g' :: insts.drop i)))          -- `list.insert` clamps behind the end
  | .replace t i g => do
      let (sub, insts) ← container es s t
      let g' ← buildSeg sub [] g
      let l ← setIdx insts i g'
      pure (upsert s t (.grp l))
  | .delete t i => do
      let (_, insts) ← container es s t
      let l ← delIdx insts i
      pure (upsert s t (.grp l))

/-- walk down the path (`target = target[gt][i]` per step), edit there, and put every level back where it was: the enclosing
    objects are the same objects, they now hold the changed instance -/
def editAt (es : List Entry) (s : Seg) : Path → Edit → Except Err Seg
  | [], e => editHere es s e
  | (gt, i) :: p, e => do
      let (sub, insts) ← container es s gt
      match insts[i]? with
      | none => .error .index
      | some inst => do
          let inst' ← editAt sub inst p e
          pure (upsert s gt (.grp (insts.set i inst')))

def entriesOf (d : MsgDef) : SegSel → List Entry
  | .hdr => d.hdr | .body => d.body | .trl => d.trl

def getSeg (m : Msg) : SegSel → Seg
  | .hdr => m.hdr | .body => m.body | .trl => m.trl

def setSeg (m : Msg) : SegSel → Seg → Msg
  | .hdr, s => { m with hdr := s } | .body, s => { m with body := s } | .trl, s => { m with trl := s }

/-- one in-place edit of the message object -/
def applyEdit (d : MsgDef) (m : Msg) (sg : SegSel) (p : Path) (e : Edit) : Except Err Msg := do
  let s ← editAt (entriesOf d sg) (getSeg m sg) p e
  pure (setSeg m sg s)

/-- one `send_msg` of a history -/
structure Sent where
  seq : Int
  time : Str
  /-- what the object held when `send_msg` was called (all edits made so far applied) -/
  before : Msg
  /-- the bytes given to `transport.write` -/
  frame : Bytes
  /-- what the object holds afterwards (header stamped, framing fields removed) -/
  after : Msg
  deriving Repr, Inhabited

/-- a history on one message object through one session (`ver`, `se`): the sends in order, and what the object holds at the end -/
def trace (ver : Str) (d : MsgDef) (se : Sess) : Msg → List Op → Except Err (List Sent × Msg)
  | m, [] => .ok ([], m)
  | m, .edit sg p e :: r => do
      let m' ← applyEdit d m sg p e
      trace ver d se m' r
  | m, .send seq time :: r => do
      let fm ← frame ver d se seq time m
      let rest ← trace ver d se fm.2 r
      pure ({ seq := seq, time := time, before := m, frame := fm.1, after := fm.2 } :: rest.1, rest.2)

/-- the frames a history writes -/
def run (ver : Str) (d : MsgDef) (se : Sess) (m : Msg) (ops : List Op) : Except Err (List Bytes × Msg) := do
  let r ← trace ver d se m ops
  pure (r.1.map (·.frame), r.2)

/-- the instance a path leads to -/
def instAt (s : Seg) : Path → Option Seg
  | [] => some s
  | (gt, i) :: p =>
    match lookupV s gt with
    | some (.grp insts) =>
      match insts[i]? with
      | some inst => instAt inst p
      | none => none
    | _ => none

/-! ### `Cached`: the semantics of the seeded change C14l (not the code)

`Group.to_bytes` stores the bytes it computed in the instance (`self.__dict__['_encoded']`) and returns them on later calls;
`Group.__setitem__` (every assignment on that instance) drops them.  Objects are identified by their place: a key is the segment
(0 header, 1 body, 2 trailer) and the path of the instance.  Edits that move instances to other places (`insert`, `delete`) are
outside this variant (`.error .other`); `replace` and a `set` of a whole list put NEW objects (no remembered bytes) at and below
the place; `pop` and the list operations go past `__setitem__` and drop nothing of the object they act on. -/
namespace Cached

abbrev Key := Nat × Path
abbrev Cache := List (Key × Bytes)

def segIdx : SegSel → Nat
  | .hdr => 0 | .body => 1 | .trl => 2

def cacheGet : Cache → Key → Option Bytes
  | [], _ => none
  | (k, b) :: c, k' => if k = k' then some b else cacheGet c k'

/-- is `q` the path `p` or a place below it -/
def below (p q : Path) : Bool := p.isPrefixOf q

mutual
/-- `Field.to_bytes` / `GroupContainer.to_bytes` of the entry `e` held by the object at `(sg, p)` -/
def encEntryC : Nat → Nat → Path → Cache → Entry → Val → Except Err (Bytes × Cache)
  | 0, _, _, _, _, _ => .error .other
  | _ + 1, _, _, c, .field t ty _, v => do
      let b ← tyToBytes ty v
      pure (fieldBytes t b, c)
  | fuel + 1, sg, p, c, .group t sub _, .grp insts => do
      let r ← encInstsC fuel sg p t 0 c sub insts
      pure (joinSOH (fieldBytes t (intStr (insts.length : Int)) :: r.1), r.2)
  | _ + 1, _, _, _, .group .., _ => .error .type
/-- the instances of group `t` of the object at `(sg, p)`, from index `i` on: `Group.to_bytes` with the remembered bytes -/
def encInstsC : Nat → Nat → Path → Nat → Nat → Cache → List Entry → List Seg → Except Err (List Bytes × Cache)
  | 0, _, _, _, _, _, _, _ => .error .other
  | _ + 1, _, _, _, _, c, _, [] => .ok ([], c)
  | fuel + 1, sg, p, t, i, c, sub, inst :: rest => do
      let key : Key := (sg, p ++ [(t, i)])
      let one ← (match cacheGet c key with
        | some b => .ok (b, c)                                            -- `_encoded` is there: returned as it is
        | none => do
            let r ← encFieldsC fuel sg (p ++ [(t, i)]) c sub inst
            pure (joinSOH r.1, (key, joinSOH r.1) :: r.2) : Except Err (Bytes × Cache))
      let more ← encInstsC fuel sg p t (i + 1) one.2 sub rest
      pure (one.1 :: more.1, more.2)
/-- `[values[e.Tag].to_bytes()[1] for e in Entries if e.Tag in values]` of the instance at `(sg, p)` -/
def encFieldsC : Nat → Nat → Path → Cache → List Entry → Seg → Except Err (List Bytes × Cache)
  | 0, _, _, _, _, _ => .error .other
  | _ + 1, _, _, c, [], _ => .ok ([], c)
  | fuel + 1, sg, p, c, e :: es, inst =>
      match lookupV inst e.tag with
      | some v => do
          let b ← encEntryC fuel sg p c e v
          let r ← encFieldsC fuel sg p b.2 es inst
          pure (b.1 :: r.1, r.2)
      | none => encFieldsC fuel sg p c es inst
end

/-- more than any nesting the witnesses use -/
def fuel : Nat := 64

/-- `DataSegment.to_bytes` of a top-level segment: insertion order, nothing remembered for the segment itself -/
def encSegFieldsC (sg : Nat) (es : List Entry) : Cache → Seg → Except Err (List Bytes × Cache)
  | c, [] => .ok ([], c)
  | c, (t, v) :: s =>
    match lookupE es t with
    | none => .error .key
    | some e => do
        let b ← encEntryC fuel sg [] c e v
        let r ← encSegFieldsC sg es b.2 s
        pure (b.1 :: r.1, r.2)

/-- `Message.to_bytes` -/
def encMsgC (c : Cache) (d : MsgDef) (m : Msg) : Except Err (Bytes × Cache) := do
  let h ← encSegFieldsC 0 d.hdr c m.hdr
  let b ← encSegFieldsC 1 d.body h.2 m.body
  let t ← encSegFieldsC 2 d.trl b.2 m.trl
  let bs := joinSOH ([joinSOH h.1, joinSOH b.1, joinSOH t.1].filter (fun x => !x.isEmpty))
  pure (if endsWithSOH bs then bs else bs ++ [1], t.2)

/-- `send_msg` (`FixFrame.frame` with the remembering encoder).  The header assignments act on the header segment, which
    remembers nothing. -/
def frameC (c : Cache) (ver : Str) (d : MsgDef) (se : Sess) (seq : Int) (time : Str) (m : Msg) :
    Except Err (Bytes × Msg × Cache) := do
  validateSeg d.body m.body
  let h ← stampHeader d.hdr se seq time m.hdr
  let m' : Msg := { m with hdr := dropKeys [8, 9, 35] h, trl := dropKeys [10] m.trl }
  let b ← encMsgC c d m'
  let f ← prepare ver d.type b.1
  pure (f, m', b.2)

/-- is the place `k` an instance of group `t` of the object at `(sg, p)`, or below one -/
def underGroup (sg : Nat) (p : Path) (t : Nat) (k : Key) : Bool :=
  decide (k.1 = sg) && below p k.2 && (match k.2.drop p.length with
                                       | (t', _) :: _ => decide (t' = t)
                                       | [] => false)

def dropWhere (c : Cache) (f : Key → Bool) : Cache := c.filter (fun kb => !f kb.1)

/-- what an edit does to the remembered bytes -/
def invalidate (c : Cache) (sg : SegSel) (p : Path) : Edit → Except Err Cache
  | .set t (.grp _) =>       -- `__setitem__` on the instance at `p`; the instances of the assigned list are new objects
      .ok (dropWhere c (fun k => decide (k = (segIdx sg, p)) || underGroup (segIdx sg) p t k))
  | .set _ _ => .ok (dropWhere c (fun k => decide (k = (segIdx sg, p))))        -- `__setitem__` on the instance at `p`
  | .pop t => .ok (dropWhere c (underGroup (segIdx sg) p t))                     -- past `__setitem__`: only the removed objects go
  | .append _ _ => .ok c                                                          -- a new object at a new place
  | .replace t i _ =>                                                             -- a new object at that place
      .ok (dropWhere c (fun k => decide (k.1 = segIdx sg) && below (p ++ [(t, i)]) k.2))
  | .insert .. => .error .other
  | .delete .. => .error .other

/-- the history with the remembering encoder: the frames written and what the object holds at the end -/
def runC (ver : Str) (d : MsgDef) (se : Sess) : Cache → Msg → List Op → Except Err (List Bytes × Msg)
  | _, m, [] => .ok ([], m)
  | c, m, .edit sg p e :: r => do
      let m' ← applyEdit d m sg p e
      let c' ← invalidate c sg p e
      runC ver d se c' m' r
  | c, m, .send seq time :: r => do
      let fm ← frameC c ver d se seq time m
      let rest ← runC ver d se fm.2.2 fm.2.1 r
      pure (fm.1 :: rest.1, rest.2)

end Cached

/-! ### the concrete histories of `Props/C14Resend.lean` (non-vacuity) and `Witness/C14Resend.lean`
(printed by the driver's `fix.witness.resend` and replayed on the implementation every run) -/

/-- standard header, body: QuoteID(117), legs 555 { 600 string, parties 539 { 524 string, 538 int } }, trailer: 10 -/
def resendDef : MsgDef :=
  { name := [83], type := [83],
    hdr := [.field 8 .string true, .field 9 .int true, .field 35 .string true, .field 49 .string true,
            .field 56 .string true, .field 34 .int true, .field 50 .string false, .field 52 .string true],
    body := [.field 117 .string true,
             .group 555 [.field 600 .string true, .group 539 [.field 524 .string true, .field 538 .int false] false] false],
    trl := [.field 10 .string true] }

/-- `Q1`, one leg `A` with parties (`D1`, 1) and (`D2`, 2) -/
def resendMsg : Msg :=
  { hdr := [], trl := [],
    body := [(117, .str [81, 49]),
             (555, .grp [[(600, .str [65]), (539, .grp [[(524, .str [68, 49]), (538, .int 1)], [(524, .str [68, 50]), (538, .int 2)]])]])] }

def resendVer : Str := [70, 73, 88, 46, 52, 46, 52]                                             -- FIX.4.4
def resendSess : Sess := { senderSub := [], target := [83, 82, 86], sender := [67, 76, 73] }      -- '', 'SRV', 'CLI'
def resendTime : Str := [50,48,50,54,48,57,50,57,45,49,50,58,48,48,58,48,48]                     -- 20260929-12:00:00

/-- send; `legs[0].parties[1].NestedPartyID = 'XX'`; send; append a party `ZZ` to that leg; `QuoteID = 'Q2'`; send -/
def resendMixed : List Op :=
  [.send 7 resendTime,
   .edit .body [(555, 0), (539, 1)] (.set 524 (.str [88, 88])),
   .send 8 resendTime,
   .edit .body [(555, 0)] (.append 539 [(524, .str [90, 90])]),
   .edit .body [] (.set 117 (.str [81, 50])),
   .send 9 resendTime]

/-- send; `legs[0].parties[1].NestedPartyID = 'XX'` (a field two levels down, in place); send -/
def resendNestedField : List Op :=
  [.send 7 resendTime, .edit .body [(555, 0), (539, 1)] (.set 524 (.str [88, 88])), .send 8 resendTime]

/-- send; `legs[0].parties[0] = Party(NestedPartyID='D0')` (a nested instance replaced); send; a party appended to the leg; send -/
def resendNestedList : List Op :=
  [.send 7 resendTime, .edit .body [(555, 0)] (.replace 539 0 [(524, .str [68, 48])]), .send 8 resendTime,
   .edit .body [(555, 0)] (.append 539 [(524, .str [90, 90])]), .send 9 resendTime]

/-- send; a field of the OUTER instance assigned (`legs[0].LegSymbol = 'B'`); send; the nested field assigned and then the outer
    one again; send -/
def resendOuterField : List Op :=
  [.send 7 resendTime, .edit .body [(555, 0)] (.set 600 (.str [66])), .send 8 resendTime,
   .edit .body [(555, 0), (539, 1)] (.set 524 (.str [88, 88])), .edit .body [(555, 0)] (.set 600 (.str [67])), .send 9 resendTime]

end NasdaqModel.FixObj
