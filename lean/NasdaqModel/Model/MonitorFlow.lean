import NasdaqModel.Model.Monitor
/-
Heartbeat monitors of a session whose transport exercises WRITE flow control (C08, seeded changes C08j / C06i) — import-free,
executable.

An asyncio socket transport keeps what the peer does not read in a buffer of its own and tells the protocol about it:
`protocol.pause_writing()` — synchronously, from inside `transport.write()` — once the buffer is above its high-water mark,
`protocol.resume_writing()` — from a loop callback — once the peer has read it down to the low-water mark (also on a transport
that is already closing).  *When* the transport makes these calls is decided by the peer and by the water marks: for the session
they are external events, like arriving bytes.

What the code under verification does with them (transcribed):

  common/session.py   `class AsyncSession(asyncio.Protocol, …)` defines neither `pause_writing` nor `resume_writing`;
  soup/session.py, fix/session.py   neither;
  asyncio/protocols.py  `BaseProtocol.pause_writing(self)` / `resume_writing(self)`: bodies are a docstring only — nothing happens;
  SoupSession.send_msg / FixSession.send_msg call `self._transport.write(bytes_)` unconditionally, `HeartbeatMonitor` never looks
  at the transport.

So both callbacks are no-ops on the session, and a `transport.write` made while the transport has asked for a pause is a write
like any other (the transport appends it to its buffer).  `FSess` adds the transport's `_protocol_paused` flag to `Monitor.Sess`
— no transition of the session reads it — and two ghost fields that let the theorems talk about "while paused":
`pausedWrites` (the writes made while the flag was set) and `flowCalls` (when the transport called what).
-/
namespace NasdaqModel.MonitorFlow
open NasdaqModel.Monitor

structure FSess where
  s : Sess
  writingPaused : Bool               -- the transport's `_protocol_paused`: `pause_writing()` was called, `resume_writing()` not yet
  pausedWrites : List Write          -- ghost: the `transport.write` calls made while `writingPaused`, newest first
  flowCalls : List (Nat × Bool)      -- ghost: instants of the `pause_writing` (true) / `resume_writing` (false) calls, newest first
  deriving Repr, DecidableEq, Inhabited

def FSess.ofSess (s : Sess) : FSess := { s := s, writingPaused := false, pausedWrites := [], flowCalls := [] }

inductive FEv where
  | base (e : Ev)      -- an event of Model/Monitor.lean
  | pauseWriting       -- the transport calls `protocol.pause_writing()`
  | resumeWriting      -- the transport calls `protocol.resume_writing()`
  deriving Repr, DecidableEq, Inhabited

/-- the writes a step of the session added (a step only ever conses onto `writes`) -/
def newWrites (before after : Sess) : List Write := after.writes.take (after.writes.length - before.writes.length)

def FSess.step (x : FSess) : FEv → FSess
  | .pauseWriting => { x with writingPaused := true, flowCalls := (x.s.now, true) :: x.flowCalls }      -- `BaseProtocol.pause_writing`: no body
  | .resumeWriting => { x with writingPaused := false, flowCalls := (x.s.now, false) :: x.flowCalls }   -- `BaseProtocol.resume_writing`: no body
  | .base e =>
      let s' := x.s.step e          -- the session does not consult the flag
      { x with s := s', pausedWrites := if x.writingPaused then newWrites x.s s' ++ x.pausedWrites else x.pausedWrites }

def FSess.run (x : FSess) (evs : List FEv) : FSess := evs.foldl FSess.step x

/-- the session right after a successful login, on a transport that has not asked for a pause -/
def loginF (role : Role) (c : Cfg) : FSess := FSess.ofSess (login role c)

/-- the history as the session's own transitions see it: without the transport's callbacks -/
def baseOnly : List FEv → List Ev
  | [] => []
  | .base e :: rest => e :: baseOnly rest
  | _ :: rest => baseOnly rest

end NasdaqModel.MonitorFlow
