import NasdaqModel.Model.Framing
import NasdaqModel.Model.Session
/-
Refinement vocabulary: the byte-level reader (Model/Framing.lean, C03) against the token-level reader of the session machine
(Model/Session.lean, C04–C07).

* `tokens P buf` — the frames the reader loop cuts off the byte string `buf`, classified the way `Framing.stepObs` classifies
  the result of one `deserialize()` (`emit | skip | stop | crash` ↦ `msg | hb | logout | bad`), up to and including the first
  `logout` / `bad` (the reader stops there), together with the bytes that are left and whether the reader stopped.
  It is the reader loop itself run to quiescence on a fixed buffer: one `deserialize()` per round, exactly `stepObs … .tick`.
* `BSt`, `bstep` — one byte-level history (`bytes seg` = `data_received(seg)`, every other session event as it is) drives BOTH
  existing machines side by side: the C03 reader machine gets `data seg` / `tick`, the session machine gets
  `Ev.data fs` with `fs` = the frames that `seg` completes / the event itself.  No transition is re-modelled here: `bstep` only
  routes events.  That the two components then agree (buffer contents, what was emitted, when the reader stops) is the
  refinement theorem (Lemmas/Refine.lean, Props/C04Bytes.lean).
-/
namespace NasdaqModel.Refine
open NasdaqModel Py

/-- one frame cut off the byte stream, classified -/
inductive Tok (μ : Type) where
  | msg (m : μ)      -- handed to `on_msg_coro`
  | hb               -- consumed, not handed on
  | logout           -- consumed; the reader stops
  | bad              -- `deserialize()` raised; the reader stops, the buffer is left as it is
  deriving DecidableEq, Repr, Inhabited

/-- the `(stop, skip)` classification of a deserialised message, as in `Framing.stepObs` -/
def classify (P : Framing.Proto μ) (m : μ) : Tok μ :=
  if P.isLogout m then .logout else if P.isHeartbeat m then .hb else .msg m

/-- the session machine's name for a token, under a numbering of the messages -/
def Tok.frame (num : μ → Nat) : Tok μ → Sess.Frame
  | .msg m => .msg (num m)
  | .hb => .hb
  | .logout => .logout
  | .bad => .bad

structure Toks (μ : Type) where
  toks : List (Tok μ) := []     -- frames cut off, in order
  rest : Bytes := []            -- what is left in the buffer
  fin : Bool := false           -- the last token is `logout` / `bad`: the reader has stopped
  deriving DecidableEq, Repr, Inhabited

/-- the reader loop on a fixed buffer, at most `fuel` rounds (`fuel = len(buffer)` is enough when every frame is non-empty) -/
def tokensF (P : Framing.Proto μ) : Nat → Bytes → Toks μ
  | 0, buf => ⟨[], buf, false⟩
  | fuel + 1, buf =>
    if buf.length = 0 then ⟨[], buf, false⟩                      -- `if len(self._buffer) > 0`
    else match P.deser buf with
      | .error _ => ⟨[.bad], buf, true⟩                          -- `except Exception: await self.stop()`
      | .ok none => ⟨[], buf, false⟩                             -- `empty_response`: wait for more bytes
      | .ok (some (m, rest)) =>
        if P.isLogout m then ⟨[.logout], rest, true⟩             -- `if stop: await self.stop()`
        else
          let t := tokensF P fuel rest
          ⟨classify P m :: t.toks, t.rest, t.fin⟩

/-- **tokenisation** of a byte string -/
def tokens (P : Framing.Proto μ) (buf : Bytes) : Toks μ := tokensF P buf.length buf

/-- the token kinds, as the session machine names them -/
def Toks.frames (num : μ → Nat) (t : Toks μ) : List Sess.Frame := t.toks.map (Tok.frame num)

/-- the decodable application messages among the tokens (those the reader hands on), in order -/
def tokMsgs (l : List (Tok μ)) : List μ :=
  l.filterMap fun k => match k with
    | .msg m => some m
    | _ => none

def Toks.msgs (t : Toks μ) : List μ := tokMsgs t.toks

/-- the decodable application messages carried by a byte string (before the first logout / malformed frame) -/
def carried (P : Framing.Proto μ) (buf : Bytes) : List μ := (tokens P buf).msgs

/-- a tokenisation continued when more bytes arrive -/
def Toks.extend (P : Framing.Proto μ) (t : Toks μ) (more : Bytes) : Toks μ :=
  if t.fin then { t with rest := t.rest ++ more }
  else
    let u := tokens P (t.rest ++ more)
    ⟨t.toks ++ u.toks, u.rest, u.fin⟩

/-- tokens put in front of a tokenisation -/
def Toks.prepend (pre : List (Tok μ)) (t : Toks μ) : Toks μ := { t with toks := pre ++ t.toks }

/-! ### stability of framing under later bytes

`st buf` is a (protocol specific, decidable) test that the way the HEAD of `buf` is framed cannot be changed by bytes arriving
later.  For SoupBinTCP it is constantly true (length prefix).  For FIX it is constantly true since the repair 658ee1f; before,
it failed exactly when the computed frame length was negative (`buf[:n]` with `n < 0` counts from the END of whatever has
arrived — `Witness/C04Bytes.lean`).  `stable` runs the test at every cut point. -/

def stableF (P : Framing.Proto μ) (st : Bytes → Bool) : Nat → Bytes → Bool
  | 0, _ => true
  | fuel + 1, buf =>
    if buf.length = 0 then true
    else st buf && match P.deser buf with
      | .ok (some (m, rest)) => if P.isLogout m then true else stableF P st fuel rest
      | _ => true

def stable (P : Framing.Proto μ) (st : Bytes → Bool) (buf : Bytes) : Bool := stableF P st buf.length buf

/-- FIX, after the repair 658ee1f (`if body_length < 0: raise ValueError`): nothing a later byte can change either — the
    pre-repair test (computed frame length ≥ 0) lives in `Witness/C04Bytes.lean` -/
def fixSt (_ : Bytes) : Bool := true

def soupSt (_ : Bytes) : Bool := true

/-! ### one byte-level history driving both machines -/

/-- byte-level events of a session: bytes arrive, or any event of the session machine other than a token delivery -/
inductive BEv where
  | bytes (seg : Bytes)          -- `data_received(seg)`
  | ev (e : Sess.Ev)             -- connect / eof / run t / user calls / cancel (a `data` token event here is ignored)
  deriving DecidableEq, Repr, Inhabited

structure BSt (μ : Type) where
  r : Framing.R μ := {}          -- the reader object as C03 sees it: `_buffer`, stopped, messages handed on, close signals
  s : Sess.St := {}              -- the session as C04–C07 see it
  all : Bytes := []              -- ghost: every byte received so far

/-- the reader task is about to run its loop body: it is runnable at the top of `_process` and `_stopped` is false -/
def polls (s : Sess.St) : Bool :=
  s.status .R == .ready && s.prog .R == .readerLoop && !s.rStopped

/-- the frames that the segment `seg` completes in the buffer of reader `r` (none once the reader has stopped) -/
def newFrames (P : Framing.Proto μ) (num : μ → Nat) (r : Framing.R μ) (seg : Bytes) : List Sess.Frame :=
  if r.stopped then []
  else ((tokens P (r.buf ++ seg)).frames num).drop (tokens P r.buf).toks.length

/-- the token-level event that matches a byte-level event (zero or one) -/
def tokEv (P : Framing.Proto μ) (num : μ → Nat) (b : BSt μ) : BEv → Option Sess.Ev
  | .bytes seg => some (.data (newFrames P num b.r seg))
  | .ev (.data _) => none
  | .ev e => some e

/-- the reader-machine (C03) event that matches a byte-level event (zero or one): a poll of the reader task is a `tick` -/
def rdrEv (b : BSt μ) : BEv → Option Framing.Ev
  | .bytes seg => some (.data seg)
  | .ev (.run .R) => if polls b.s then some .tick else none
  | .ev _ => none

def bstep (P : Framing.Proto μ) (num : μ → Nat) (cfg : Sess.Cfg) (b : BSt μ) (e : BEv) : BSt μ :=
  { r := match rdrEv b e with
      | some x => Framing.step P b.r x
      | none => b.r
    s := match tokEv P num b e with
      | some x => Sess.step cfg b.s x
      | none => b.s
    all := match e with
      | .bytes seg => b.all ++ seg
      | .ev _ => b.all }

def bfold (P : Framing.Proto μ) (num : μ → Nat) (cfg : Sess.Cfg) (b : BSt μ) (evs : List BEv) : BSt μ :=
  evs.foldl (bstep P num cfg) b

def brun (P : Framing.Proto μ) (num : μ → Nat) (cfg : Sess.Cfg) (evs : List BEv) : BSt μ := bfold P num cfg {} evs

/-- the bytes a history delivers, concatenated -/
def bytesOf : List BEv → Bytes
  | [] => []
  | .bytes seg :: evs => seg ++ bytesOf evs
  | .ev _ :: evs => bytesOf evs

/-- the two projections of a byte-level history from state `b`: the token-level events the session machine is given and
    the reader-machine events the C03 machine is given -/
def traces (P : Framing.Proto μ) (num : μ → Nat) (cfg : Sess.Cfg) : BSt μ → List BEv → List Sess.Ev × List Framing.Ev
  | _, [] => ([], [])
  | b, e :: es =>
    let t := traces P num cfg (bstep P num cfg b e) es
    ((tokEv P num b e).toList ++ t.1, (rdrEv b e).toList ++ t.2)

end NasdaqModel.Refine
