import NasdaqModel.Py.Dec
/-
C18 — object heap model of message / record instances (binary `common/message/structures.py` and FIX `fix/core.py`).

Python objects that can be mutated are *cells* at addresses; everything immutable (int, str, bool, None, FIX `Field`
wrappers, whose `.value` the library never rewrites) is a value.  What the code does with object identity is transcribed:

* `Array.default_value : ClassVar[list] = []` is ONE list object for every array field of every record type: cell 0,
  owner `cls`.  `_Record.get_field_value` hands out that very object for an unset array field (`FTy.default`).
* `_Record.init_values` / `__attrs_post_init__` build a fresh nested record per record-typed field (`freshTree`).
* `Record.from_bytes`, `Array.from_bytes`, `DataSegment.from_bytes`, `GroupContainer.from_bytes` build fresh dicts / lists
  (`parse…` produce a pure tree, `allocTree` allocates it).
* `__setattr__` stores the object it is given (`assign`, binary) — FIX `__setitem__` stores `from_value(value)`, a new
  container with new groups (`fixConv` + `allocTree`).

Every cell carries a ghost tag `own` (who allocated it: the class, an instance, or the caller for byte buffers).  No
function below ever branches on a tag; the tags exist so that the ownership invariant of Props/C18.lean can be stated.

Simplifications (documented, none affects sharing): a binary message is identified with its body record (`CommonMessage`
holds exactly one reference, `record`, created in `__attrs_post_init__` / `from_bytes`); a FIX `GroupContainer` is
identified with its `groups` list; scalar types are integers of the fixed-width family and FIX int / string.
-/
namespace NasdaqModel.Heap
open NasdaqModel Py

abbrev Addr := Nat
abbrev Key := Nat        -- binary: index of the field in `Fields`; FIX: tag (message: 0 Header, 1 Body, 2 Trailer)

/-- ghost: who allocated a cell -/
inductive Owner where
  | cls                  -- class-level object (lives as long as the process)
  | ext                  -- the caller (byte buffers handed to `from_bytes`)
  | inst (i : Nat)       -- allocated for instance `i`
  deriving DecidableEq, Repr, Inhabited

inductive Val where
  | int (i : Int)
  | str (s : Str)
  | none
  | ref (a : Addr)
  | elist            -- a brand-new empty list nobody else holds (what the repaired `get_field_value` hands out): a value
  deriving DecidableEq, Repr, Inhabited

inductive Body where
  | list (xs : List Val)                              -- a Python list (array value, `GroupContainer.groups`)
  | obj (cls : Nat) (store : List (Key × Val))        -- `Record.values` / `DataSegment.values` / `Message.data` (insertion ordered)
  | buf (bs : Bytes)                                  -- a `bytearray` owned by the caller
  deriving DecidableEq, Repr, Inhabited

structure Cell where
  own : Owner
  body : Body
  deriving DecidableEq, Repr, Inhabited

abbrev Cells := List Cell

structure Heap where
  cells : Cells
  insts : List (Nat × Addr)      -- instance id = position: (class id, root cell)
  bufs : List Addr               -- buffer id = position
  deriving Repr, Inhabited

def Val.refs : Val → List Addr
  | .ref a => [a]
  | _ => []

def Body.refs : Body → List Addr
  | .list xs => xs.flatMap Val.refs
  | .obj _ st => st.flatMap (fun kv => kv.2.refs)
  | .buf _ => []

/-! ### schema -/

structure IntTy where
  w : Nat
  signed : Bool
  be : Bool
  deriving DecidableEq, Repr, Inhabited

/-- element type of an `Array` -/
inductive ETy where
  | int (t : IntTy)
  | recd (c : Nat)
  deriving DecidableEq, Repr, Inhabited

/-- type of a binary record field; `dflt` is `Field.default_value` -/
inductive FTy where
  | int (t : IntTy) (dflt : Option Int)
  | arr (e : ETy) (cnt : IntTy)
  | recd (c : Nat)
  deriving DecidableEq, Repr, Inhabited

inductive XTy where
  | int | str
  deriving DecidableEq, Repr, Inhabited

inductive XEntry where
  | field (tag : Nat) (t : XTy)
  | group (tag : Nat) (g : Nat)          -- `GroupContainer` with `CountCls.Tag = tag`, `GroupCls` = class `g`
  deriving DecidableEq, Repr, Inhabited

def XEntry.tag : XEntry → Nat
  | .field t _ => t
  | .group t _ => t

inductive ClassDef where
  | binRec (msgId : Option Nat) (fields : List FTy)      -- a `Record`; `msgId` when it is the body of a message class
  | fixMsg (hdr body trl : Nat)
  | fixSeg (isGroup : Bool) (entries : List XEntry)      -- `DataSegment` / `Group`
  deriving Repr, Inhabited

structure Schema where
  /-- `false`: the code as it is — an unset array field reads as the class-level list object `Array.default_value`.
      `true`: the repaired `get_field_value` (fixes/C18-shared-array-default.md) — it reads as a new empty list each time.
      The harness probes which of the two the library under test does and says so in every request. -/
  freshArrayDefault : Bool
  classes : List ClassDef
  deriving Repr, Inhabited

/-- what `get_field_value` falls back to: `field.type.default_value if field.default_value is None else field.default_value` -/
def FTy.default (fresh : Bool) : FTy → Val
  | .int _ d => match d with
    | some v => .int v
    | none => .int 0                 -- `Int.default_value = 0`
  | .arr _ _ => if fresh then .elist  -- repaired: `list(default)`
                else .ref 0          -- as is: `Array.default_value`, the one class-level list object
  | .recd _ => .none                 -- `_Record.default_value = None`

/-- `DataSegment.__getitem__` on a key that is not in `values`: `field.default_value()` for a `Field`, else `None` -/
def XEntry.default : XEntry → Val
  | .field _ .int => .int 0
  | .field _ .str => .str []
  | .group _ _ => .none

def enumFrom : Nat → List α → List (Nat × α)
  | _, [] => []
  | i, x :: xs => (i, x) :: enumFrom (i + 1) xs

/-- the declared keys of a class with the value an unassigned key reads as -/
def Schema.declared (S : Schema) (c : Nat) : List (Key × Val) :=
  match S.classes[c]? with
  | some (.binRec _ fs) => (enumFrom 0 fs).map (fun p => (p.1, p.2.default S.freshArrayDefault))
  | some (.fixSeg _ es) => es.map (fun e => (e.tag, e.default))
  | _ => []

/-! ### pure trees (values the caller builds, decoder output, fresh instances) and their allocation -/

inductive Tree where
  | int (i : Int)
  | str (s : Str)
  | none
  | list (xs : List Tree)
  | obj (cls : Nat) (keys : List Key) (vals : List Tree)     -- store = `keys.zip vals`
  deriving Repr, Inhabited

mutual
/-- build the object graph of `t` out of new cells, all tagged `o`; children first, the container last -/
def allocTree (o : Owner) : Tree → Cells → Cells × Val
  | .int i, h => (h, .int i)
  | .str s, h => (h, .str s)
  | .none, h => (h, .none)
  | .list xs, h =>
    let r := allocList o xs h
    (r.1 ++ [⟨o, .list r.2⟩], .ref r.1.length)
  | .obj c ks ts, h =>
    let r := allocList o ts h
    (r.1 ++ [⟨o, .obj c (ks.zip r.2)⟩], .ref r.1.length)
def allocList (o : Owner) : List Tree → Cells → Cells × List Val
  | [], h => (h, [])
  | t :: ts, h =>
    let r1 := allocTree o t h
    let r2 := allocList o ts r1.1
    (r2.1, r1.2 :: r2.2)
end

/-- replace the contents of cell `a` (the tag stays) -/
def setBody (h : Cells) (a : Addr) (b : Body) : Cells :=
  match h[a]? with
  | some c => h.set a ⟨c.own, b⟩
  | none => h

/-- `dict[k] = v` on an insertion-ordered dict -/
def storeSet (st : List (Key × Val)) (k : Key) (v : Val) : List (Key × Val) :=
  if st.any (fun kv => kv.1 == k) then st.map (fun kv => if kv.1 == k then (k, v) else kv) else st ++ [(k, v)]

def storeGet (st : List (Key × Val)) (k : Key) : Option Val :=
  (st.find? (fun kv => kv.1 == k)).map (·.2)

/-! ### reading -/

/-- `getattr(record, name)` / `segment[tag]` / `message.Header|Body|Trailer`: the stored value, else the default -/
def readKey (S : Schema) (h : Cells) (a : Addr) (k : Key) : Except Err Val :=
  match h[a]? with
  | some ⟨_, .obj c st⟩ =>
    match storeGet st k with
    | some v => .ok v
    | none =>
      match (S.declared c).find? (fun kd => kd.1 == k) with
      | some kd => .ok kd.2
      | none => .error .key
  | _ => .error .attr

inductive Step where
  | fld (k : Key)
  | idx (i : Nat)
  deriving DecidableEq, Repr, Inhabited

/-- follow a path of attribute reads and list indexings -/
def resolve (S : Schema) (h : Cells) : Val → List Step → Except Err Val
  | v, [] => .ok v
  | .ref a, .fld k :: p => do
    let v ← readKey S h a k
    resolve S h v p
  | .ref a, .idx i :: p =>
    match h[a]? with
    | some ⟨_, .list xs⟩ =>
      match xs[i]? with
      | some v => resolve S h v p
      | none => .error .index
    | _ => .error .attr
  | .elist, .idx _ :: _ => .error .index          -- `[][i]`
  | _, _ :: _ => .error .attr

/-- the deep value of what a read returns: what the instance "reads" -/
inductive DVal where
  | int (i : Int)
  | str (s : Str)
  | none
  | list (xs : List DVal)
  | obj (cls : Nat) (skeys : List Key) (svals : List DVal) (dkeys : List Key) (dvals : List DVal)
      -- assigned entries in store order; then the declared-but-unassigned keys with what they read as
  | bytes (bs : Bytes)
  | cut                                   -- observation depth exhausted
  deriving Repr, Inhabited

def unassigned (S : Schema) (c : Nat) (st : List (Key × Val)) : List (Key × Val) :=
  (S.declared c).filter (fun kd => !(st.any (fun kv => kv.1 == kd.1)))

/-- observe `v` to depth `n` -/
def deref (S : Schema) : Nat → Cells → Val → DVal
  | _, _, .int i => .int i
  | _, _, .str s => .str s
  | _, _, .none => .none
  | _, _, .elist => .list []
  | 0, _, .ref _ => .cut
  | n + 1, h, .ref a =>
    match h[a]? with
    | none => .cut
    | some c =>
      match c.body with
      | .list xs => .list (xs.map (deref S n h))
      | .obj k st =>
        .obj k (st.map (·.1)) (st.map (fun kv => deref S n h kv.2))
          ((unassigned S k st).map (·.1)) ((unassigned S k st).map (fun kd => deref S n h kd.2))
      | .buf bs => .bytes bs

/-- what instance `i` reads (to depth `n`) -/
def view (S : Schema) (n : Nat) (H : Heap) (i : Nat) : Option DVal :=
  match H.insts[i]? with
  | some cr => some (deref S n H.cells (.ref cr.2))
  | none => none

/-! ### binary codec on observed values (a function of the view) -/

def pow256 : Nat → Nat
  | 0 => 1
  | w + 1 => 256 * pow256 w

def natToLE : Nat → Nat → Bytes
  | 0, _ => []
  | w + 1, n => (n % 256) :: natToLE w (n / 256)

def leToNat : Bytes → Nat
  | [] => 0
  | b :: bs => b + 256 * leToNat bs

/-- `int.to_bytes(size, endian, signed=…)` -/
def encInt (t : IntTy) (v : Int) : Except Err Bytes :=
  let m : Int := pow256 t.w
  let ok := if t.signed then decide (-(m / 2) ≤ v ∧ v < m / 2) else decide (0 ≤ v ∧ v < m)
  if ok then
    let le := natToLE t.w (v % m).toNat
    .ok (if t.be then le.reverse else le)
  else .error .overflow

/-- `int.from_bytes(value[:size], endian, signed=…)` (a short slice is a shorter number) -/
def decInt (t : IntTy) (bs : Bytes) : Int :=
  let raw := bs.take t.w
  let u := leToNat (if t.be then raw.reverse else raw)
  if t.signed && decide (2 * u ≥ pow256 raw.length) && !raw.isEmpty then (u : Int) - pow256 raw.length else u

def lookup2 (ks : List Key) (vs : List α) (k : Key) : Option α :=
  ((ks.zip vs).find? (fun kv => kv.1 == k)).map (·.2)

def mapMExcept (f : α → Except Err β) : List α → Except Err (List β)
  | [] => .ok []
  | x :: xs => do
    let y ← f x
    let ys ← mapMExcept f xs
    pure (y :: ys)

/-- `Err.other` stands for "whatever Python raises when a value of the wrong kind reaches a packer" (AttributeError /
    TypeError / KeyError depending on the pair of kinds); only reachable once the class-level list has been polluted -/
def mismatch : Except Err α := .error .other

/-- `Record.to_bytes(cls, record)` for class `c`, `Array.to_bytes`, integer packers -/
def encRec (S : Schema) : Nat → Nat → DVal → Except Err Bytes
  | 0, _, _ => mismatch
  | fuel + 1, c, d =>
    match S.classes[c]?, d with
    | some (.binRec _ fs), .obj c' sk sv dk dv =>
      if c' != c then mismatch else do
        let parts ← mapMExcept (fun (p : Nat × FTy) =>
          match (lookup2 sk sv p.1).orElse (fun _ => lookup2 dk dv p.1) with
          | Option.none => mismatch
          | some x =>
            match p.2, x with
            | .int t _, .int i => encInt t i
            | .int _ _, _ => mismatch
            | .arr e cnt, .list xs => do
              let n ← encInt cnt xs.length
              let es ← mapMExcept (fun y =>
                match e, y with
                | .int t, .int i => encInt t i
                | .int _, _ => mismatch
                | .recd c2, y => encRec S fuel c2 y) xs
              pure (n ++ es.flatten)
            | .arr _ _, _ => mismatch
            | .recd c2, y => encRec S fuel c2 y) (enumFrom 0 fs)
        pure parts.flatten
    | _, _ => mismatch

/-! ### FIX codec on observed values -/

def soh : Nat := 1
def eqc : Nat := 61

/-- `SOH.join(parts)` -/
def joinSoh : List Bytes → Bytes
  | [] => []
  | [x] => x
  | x :: y :: r => x ++ soh :: joinSoh (y :: r)

def tagEq (tag : Nat) : Bytes := natDigits tag ++ [eqc]

/-- `Field.to_bytes` -/
def encFixScalar (tag : Nat) (t : XTy) (d : DVal) : Except Err Bytes :=
  match t, d with
  | .int, .int i => .ok (tagEq tag ++ intStr i)
  | .str, .str s => do
    let b ← encodeAscii s
    pure (tagEq tag ++ b)
  | _, _ => mismatch

def findEntry (es : List XEntry) (tag : Nat) : Option XEntry := es.find? (fun e => e.tag == tag)

/-- `DataSegment.to_bytes` (values in insertion order) / `Group.to_bytes` (entries in definition order) and
    `GroupContainer.to_bytes` -/
def encSeg (S : Schema) : Nat → Nat → DVal → Except Err Bytes
  | 0, _, _ => mismatch
  | fuel + 1, c, d =>
    match S.classes[c]?, d with
    | some (.fixSeg isGroup es), .obj c' sk sv _ _ =>
      if c' != c then mismatch else do
        let encEntry := fun (tag : Nat) (x : DVal) =>
          match findEntry es tag, x with
          | some (.field _ t), x => encFixScalar tag t x
          | some (.group _ g), .list gs => do
            let cnt := tagEq tag ++ intStr gs.length
            let parts ← mapMExcept (encSeg S fuel g) gs
            pure (joinSoh (cnt :: parts))
          | _, _ => mismatch
        let order : List Key := if isGroup then (es.map (·.tag)).filter (fun t => sk.contains t) else sk
        let parts ← mapMExcept (fun tag =>
          match lookup2 sk sv tag with
          | some x => encEntry tag x
          | Option.none => mismatch) order
        pure (joinSoh parts)
    | _, _ => mismatch

/-- `Message.to_bytes` -/
def encFixMsg (S : Schema) (fuel : Nat) (h b t : Nat) (d : DVal) : Except Err Bytes :=
  match d with
  | .obj _ sk sv _ _ => do
    let segs ← mapMExcept (fun (p : Key × Nat) =>
      match lookup2 sk sv p.1 with
      | some x => encSeg S fuel p.2 x
      | Option.none => mismatch) [(0, h), (1, b), (2, t)]
    let bytes := joinSoh (segs.filter (fun s => !s.isEmpty))
    pure (if bytes.getLast? == some soh then bytes else bytes ++ [soh])
  | _ => mismatch

/-- `instance.to_bytes()[1]` as a function of what the instance reads -/
def encodeD (S : Schema) (fuel : Nat) (c : Nat) (d : DVal) : Except Err Bytes :=
  match S.classes[c]? with
  | some (.binRec (some mid) _) => do
    let idb ← encInt ⟨1, false, false⟩ mid        -- `Byte.to_bytes(indicator)`
    let body ← encRec S fuel c d
    pure (idb ++ body)
  | some (.binRec Option.none _) => encRec S fuel c d
  | some (.fixMsg h b t) => encFixMsg S fuel h b t d
  | some (.fixSeg _ _) => encSeg S fuel c d
  | Option.none => .error .key

/-- observation depth used for encoding: deeper than any value a schema with this many classes can nest -/
def obsDepth (S : Schema) : Nat := 2 * S.classes.length + 8

def encodeInst (S : Schema) (H : Heap) (i : Nat) : Except Err Bytes :=
  match H.insts[i]? with
  | some cr => encodeD S (obsDepth S) cr.1 (deref S (obsDepth S) H.cells (.ref cr.2))
  | none => .error .key

/-! ### fresh instances: `Cls()` -/

/-- `init_values`: `{f.name: f.type() for f in Fields if f.type is a record class}` -/
def freshFields (mk : Nat → Except Err Tree) : List FTy → Nat → Except Err (List Key × List Tree)
  | [], _ => .ok ([], [])
  | .recd c :: fs, i => do
    let t ← mk c
    let r ← freshFields mk fs (i + 1)
    pure (i :: r.1, t :: r.2)
  | _ :: fs, i => freshFields mk fs (i + 1)

def freshTree (S : Schema) : Nat → Nat → Except Err Tree
  | 0, _ => .error .other
  | fuel + 1, c =>
    match S.classes[c]? with
    | some (.binRec _ fs) => do
      let r ← freshFields (freshTree S fuel) fs 0
      pure (.obj c r.1 r.2)
    | some (.fixMsg h b t) => .ok (.obj c [0, 1, 2] [.obj h [] [], .obj b [] [], .obj t [] []])   -- `SegmentCls[segment]()` ×3
    | some (.fixSeg _ _) => .ok (.obj c [] [])                                                       -- `values = OrderedDict()`
    | Option.none => .error .key

/-! ### assignment: the type check of `_Record.__setattr__`, the conversion of `DataSegment.__setitem__` -/

/-- `GroupContainer.from_value(list)` → `[GroupCls.from_value(d) for d in list]`, `Group.from_value(dict)` →
    `g = cls(); g[k] = v for k, v in dict.items()`; `Field.from_value` type check -/
def fixConv (S : Schema) : Nat → XEntry → Tree → Except Err Tree
  | _, .field _ .int, .int i => .ok (.int i)
  | _, .field _ .str, .str s => .ok (.str s)
  | _, .field _ _, _ => .error .type
  | 0, .group _ _, _ => .error .other
  | fuel + 1, .group _ g, .list ds =>
    match S.classes[g]? with
    | some (.fixSeg _ es) => do
      let gs ← mapMExcept (fun d =>
        match d with
        | .obj _ ks ts => do
          let vs ← mapMExcept (fun (kt : Key × Tree) =>
            match findEntry es kt.1 with
            | some e => fixConv S fuel e kt.2
            | Option.none => .error .key) (ks.zip ts)
          pure (.obj g ks vs)
        | _ => .error .type) ds
      pure (.list gs)
    | _ => .error .other
  | _ + 1, .group _ _, _ => .error .type

/-- what is stored for `obj.k = t` when `obj` has class `c` -/
def convAssign (S : Schema) (c : Nat) (k : Key) (t : Tree) : Except Err Tree :=
  match S.classes[c]? with
  | some (.binRec _ fs) =>
    match fs[k]?, t with
    | some (.int _ _), .int i => .ok (.int i)
    | some (.arr _ _), .list xs => .ok (.list xs)                       -- `isinstance(value, list)`: elements unchecked
    | some (.recd c'), .obj c2 ks ts => if c2 == c' then .ok (.obj c2 ks ts) else .error .value
    | some _, _ => .error .value                                        -- "type mismatch"
    | Option.none, _ => .error .attr
  | some (.fixSeg _ es) =>
    match findEntry es k with
    | some e => fixConv S (S.classes.length + 1) e t
    | Option.none => .error .key
  | _ => .error .other

/-! ### decoding: pure parsers producing a tree (allocated afterwards) -/

/-- `Array.from_bytes` loop: `count` elements, each from `bytes_[offset:]` -/
def parseMany (p : Bytes → Except Err (Nat × Tree)) : Nat → Bytes → Except Err (Nat × List Tree)
  | 0, _ => .ok (0, [])
  | k + 1, bs => do
    let r ← p bs
    let rest ← parseMany p k (bs.drop r.1)
    pure (r.1 + rest.1, r.2 :: rest.2)

def parseFields (pr : Nat → Bytes → Except Err (Nat × Tree)) : List FTy → Bytes → Except Err (Nat × List Tree)
  | [], _ => .ok (0, [])
  | f :: fs, bs => do
    let r ← (match f with
      | .int t _ => (.ok (t.w, .int (decInt t bs)) : Except Err (Nat × Tree))
      | .arr e cnt => do
        let n := decInt cnt bs
        let r ← parseMany (fun b => match e with
          | .int t => .ok (t.w, .int (decInt t b))
          | .recd c => pr c b) n.toNat (bs.drop cnt.w)
        pure (cnt.w + r.1, .list r.2)
      | .recd c => pr c bs)
    let rest ← parseFields pr fs (bs.drop r.1)
    pure (r.1 + rest.1, r.2 :: rest.2)

/-- `Record.from_bytes` -/
def parseRec (S : Schema) : Nat → Nat → Bytes → Except Err (Nat × Tree)
  | 0, _, _ => .error .other
  | fuel + 1, c, bs =>
    match S.classes[c]? with
    | some (.binRec _ fs) => do
      let r ← parseFields (parseRec S fuel) fs bs
      pure (r.1, .obj c ((enumFrom 0 fs).map (·.1)) r.2)
    | _ => .error .other

def findByte (b : Nat) : Bytes → Option Nat
  | [] => Option.none
  | x :: xs => if x == b then some 0 else (findByte b xs).map (· + 1)

/-- `Field.from_bytes` for a scalar entry: (bytes consumed, value) -/
def parseFixField (t : XTy) (bs : Bytes) : Except Err (Nat × Tree) :=
  match findByte eqc bs with
  | Option.none => .error .value
  | some vs =>
    let ve := (findByte soh bs).getD bs.length
    let total := match findByte soh bs with
      | some e => e + 1
      | Option.none => bs.length
    let raw := (bs.take ve).drop (vs + 1)
    do
      let s ← decodeAscii raw
      match t with
      | .str => pure (total, .str s)
      | .int => do
        let i ← parseIntStr s
        pure (total, .int i)

/-- `DataSegment.from_bytes` (outer loop, `loop` iterations at most) and `GroupContainer.from_bytes` -/
def parseSegLoop (S : Schema) (es : List XEntry)
    (pseg : Nat → Bytes → Except Err (Nat × Tree)) :
    Nat → Bytes → List Key → List Tree → Nat → Except Err (Nat × List Key × List Tree)
  | 0, _, _, _, _ => .error .other
  | loop + 1, bs, ks, ts, n =>
    if bs.isEmpty then .ok (n, ks, ts) else
    let tagBytes := match findByte eqc bs with
      | some p => bs.take p
      | Option.none => bs.dropLast                    -- `bytes_[0:-1]`
    do
      let s ← decodeAscii tagBytes
      let tagI ← parseIntStr s
      if tagI < 0 then .ok (n, ks, ts) else           -- not a key of IndexedEntries
      let tag := tagI.toNat
      if ks.contains tag then .ok (n, ks, ts) else
      match findEntry es tag with
      | Option.none => .ok (n, ks, ts)
      | some (.field _ t) => do
        let r ← parseFixField t bs
        parseSegLoop S es pseg loop (bs.drop r.1) (ks ++ [tag]) (ts ++ [r.2]) (n + r.1)
      | some (.group _ g) => do
        let cr ← parseFixField .int bs
        match cr.2 with
        | .int cnt =>
          -- `while len(bytes_) != 0 and len(deserialized) < count.value`
          let rec groups : Nat → Bytes → List Tree → Nat → Except Err (Nat × List Tree)
            | 0, _, acc, m => .ok (m, acc)
            | k + 1, b, acc, m =>
              if b.isEmpty || !(decide ((acc.length : Int) < cnt)) then .ok (m, acc) else do
                let gr ← pseg g b
                -- `if end == 0: break` (/repo 1a01534): what follows is not an instance of this group; the count check below reports it
                if gr.1 == 0 then .ok (m, acc) else
                groups k (b.drop gr.1) (acc ++ [gr.2]) (m + gr.1)
          do
            let gr ← groups (cnt.toNat + 1) (bs.drop cr.1) [] cr.1
            if (gr.2.length : Int) != cnt then .error .value else
            parseSegLoop S es pseg loop (bs.drop gr.1) (ks ++ [tag]) (ts ++ [.list gr.2]) (n + gr.1)
        | _ => .error .other

def parseSeg (S : Schema) : Nat → Nat → Bytes → Except Err (Nat × Tree)
  | 0, _, _ => .error .other
  | fuel + 1, c, bs =>
    match S.classes[c]? with
    | some (.fixSeg _ es) => do
      let r ← parseSegLoop S es (parseSeg S fuel) (bs.length + 1) bs [] [] 0
      pure (r.1, .obj c r.2.1 r.2.2)
    | _ => .error .other

/-- `Cls.from_bytes(buffer)`: class of the decoded instance and its tree.
    Binary: `CommonMessage.from_bytes` — id byte, registry lookup (the schema is one application), body record.
    FIX: `Message.from_bytes` on the concrete class — three segments in turn. -/
def parseInst (S : Schema) (c : Nat) (bs : Bytes) : Except Err (Nat × Tree) :=
  let fuel := S.classes.length + 1
  match S.classes[c]? with
  | some (.binRec _ _) =>
    let mid := decInt ⟨1, false, false⟩ bs
    match (enumFrom 0 S.classes).find? (fun p => match p.2 with
      | .binRec (some m) _ => (m : Int) == mid
      | _ => false) with
    | some p => do
      let r ← parseRec S fuel p.1 (bs.drop 1)
      pure (p.1, r.2)
    | Option.none => .error .key
  | some (.fixMsg h b t) => do
    let r0 ← parseSeg S fuel h bs
    let bs1 := bs.drop r0.1
    let r1 ← parseSeg S fuel b bs1
    let bs2 := bs1.drop r1.1
    let r2 ← parseSeg S fuel t bs2
    pure (c, .obj c [0, 1, 2] [r0.2, r1.2, r2.2])
  | _ => .error .other

/-! ### operations -/

inductive Op where
  | new (c : Nat)                                              -- `Cls()`
  | read (a : Nat) (p : List Step)                             -- follow a path of reads from instance `a`
  | assign (a : Nat) (p : List Step) (k : Key) (t : Tree)      -- `obj = read a p; obj.k = <fresh t>`
  | append (a : Nat) (p : List Step) (t : Tree)                -- `lst = read a p; lst.append(<fresh t>)`
  | setIdx (a : Nat) (p : List Step) (i : Nat) (t : Tree)      -- `lst = read a p; lst[i] = <fresh t>`
  | encode (a : Nat)                                           -- `a.to_bytes()`
  | mkbuf (a : Nat)                                            -- `bytearray(a.to_bytes()[1])`
  | decode (c : Nat) (b : Nat)                                 -- `Cls.from_bytes(buffer b)`
  | scribble (b : Nat)                                         -- overwrite buffer `b` in place
  | copy (b : Nat) (pb : List Step) (k : Key) (a : Nat) (pa : List Step)
      -- `obj = read b pb; v = read a pa; obj[k] = v` on a FIX segment: `__setitem__` stores `from_value(v)`, which rebuilds
      -- containers and groups entry by entry (deep copy).  (Binary `__setattr__` stores the reference as given: aliasing the
      -- caller made himself, outside the statement and not modelled.)
  | clone (a : Nat)                                            -- `Cls({seg: SegCls.from_value(a.<seg>) for the 3 segments})`
  deriving Repr, Inhabited

def getInst (H : Heap) (a : Nat) : Except Err (Nat × Addr) :=
  match H.insts[a]? with
  | some cr => .ok cr
  | none => .error .key

/-- the cell an in-place operation on instance `a` reaches through path `p`; `none`: a temporary list that only the
    caller holds (repaired default of an unset array field) -/
def mutTarget (S : Schema) (H : Heap) (a : Nat) (p : List Step) : Except Err (Option Addr) := do
  let cr ← getInst H a
  let v ← resolve S H.cells (.ref cr.2) p
  match v with
  | .ref r => .ok (some r)
  | .elist => .ok Option.none
  | _ => .error .attr

def listSet (xs : List Val) (i : Nat) (v : Val) : Except Err (List Val) :=
  if i < xs.length then .ok (xs.set i v) else .error .index

/-- the stored object graph below `v` as a pure tree: what an entry-by-entry rebuild (`from_value`) walks over -/
def toTree : Nat → Cells → Val → Except Err Tree
  | _, _, .int i => .ok (.int i)
  | _, _, .str s => .ok (.str s)
  | _, _, .none => .ok .none
  | _, _, .elist => .ok (.list [])
  | 0, _, .ref _ => .error .other
  | n + 1, h, .ref a =>
    match h[a]? with
    | some ⟨_, .list xs⟩ => do
      let ts ← mapMExcept (toTree n h) xs
      pure (.list ts)
    | some ⟨_, .obj c st⟩ => do
      let ts ← mapMExcept (fun kv => toTree n h kv.2) st
      pure (.obj c (st.map (·.1)) ts)
    | _ => .error .other

/-- what is stored for `seg[k] = v` when `v` is an object read from an instance (tree `t` of its stored graph):
    `GroupContainer.from_value` → `GroupCls.from_value(g)` accepts a group only if it is an instance of `GroupCls`
    (anything else that is not a dict raises TypeError), then rebuilds it like a dict -/
def convCopy (S : Schema) (c : Nat) (k : Key) (t : Tree) : Except Err Tree :=
  match S.classes[c]? with
  | some (.fixSeg _ es) =>
    match findEntry es k with
    | some (.group tag g) =>
      match t with
      | .list ds =>
        if ds.all (fun d => match d with
          | .obj c' _ _ => c' == g
          | _ => false) then fixConv S (S.classes.length + 1) (.group tag g) t else .error .type
      | _ => .error .type
    | some e => fixConv S (S.classes.length + 1) e t
    | Option.none => .error .key
  | _ => .error .other

/-- one operation; an exception leaves the heap as it was -/
def step (S : Schema) (H : Heap) : Op → Except Err Heap
  | .new c => do
    let t ← freshTree S (S.classes.length + 1) c
    let r := allocTree (.inst H.insts.length) t H.cells
    match r.2 with
    | .ref root => .ok { H with cells := r.1, insts := H.insts ++ [(c, root)] }
    | _ => .error .other
  | .read a p => do
    let cr ← getInst H a
    let _ ← resolve S H.cells (.ref cr.2) p
    .ok H
  | .assign a p k t => do
    let some r ← mutTarget S H a p | .error .attr           -- a list has no fields
    match H.cells[r]? with
    | some ⟨_, .obj c st⟩ => do
      let t' ← convAssign S c k t
      let al := allocTree (.inst a) t' H.cells
      .ok { H with cells := setBody al.1 r (.obj c (storeSet st k al.2)) }
    | _ => .error .attr
  | .append a p t => do
    let some r ← mutTarget S H a p | .ok H                   -- appended to a temporary list: nothing any instance holds changes
    match H.cells[r]? with
    | some ⟨_, .list xs⟩ =>
      let al := allocTree (.inst a) t H.cells
      .ok { H with cells := setBody al.1 r (.list (xs ++ [al.2])) }
    | _ => .error .attr
  | .setIdx a p i t => do
    let some r ← mutTarget S H a p | .error .index           -- `[][i] = x`
    match H.cells[r]? with
    | some ⟨_, .list xs⟩ => do
      let al := allocTree (.inst a) t H.cells
      let xs' ← listSet xs i al.2
      .ok { H with cells := setBody al.1 r (.list xs') }
    | _ => .error .attr
  | .encode a => do
    let _ ← encodeInst S H a
    .ok H
  | .mkbuf a => do
    let bs ← encodeInst S H a
    .ok { H with cells := H.cells ++ [⟨.ext, .buf bs⟩], bufs := H.bufs ++ [H.cells.length] }
  | .decode c b =>
    match H.bufs[b]? with
    | none => .error .key
    | some ba =>
      match H.cells[ba]? with
      | some ⟨_, .buf bs⟩ => do
        let ct ← parseInst S c bs
        let r := allocTree (.inst H.insts.length) ct.2 H.cells
        match r.2 with
        | .ref root => .ok { H with cells := r.1, insts := H.insts ++ [(ct.1, root)] }
        | _ => .error .other
      | _ => .error .other
  | .scribble b =>
    match H.bufs[b]? with
    | none => .error .key
    | some ba =>
      match H.cells[ba]? with
      | some ⟨_, .buf bs⟩ => .ok { H with cells := setBody H.cells ba (.buf (bs.map (fun _ => 255))) }
      | _ => .error .other
  | .copy b pb k a pa => do
    let some r ← mutTarget S H b pb | .error .attr
    let cr ← getInst H a
    let v ← resolve S H.cells (.ref cr.2) pa
    match H.cells[r]? with
    | some ⟨_, .obj c st⟩ => do
      let t ← toTree (obsDepth S) H.cells v
      let t' ← convCopy S c k t
      let al := allocTree (.inst b) t' H.cells
      .ok { H with cells := setBody al.1 r (.obj c (storeSet st k al.2)) }
    | _ => .error .attr
  | .clone a => do
    let cr ← getInst H a
    match S.classes[cr.1]? with
    | some (.fixMsg _ _ _) => do
      let t ← toTree (obsDepth S) H.cells (.ref cr.2)
      let r := allocTree (.inst H.insts.length) t H.cells
      match r.2 with
      | .ref root => .ok { H with cells := r.1, insts := H.insts ++ [(cr.1, root)] }
      | _ => .error .other
    | _ => .error .other

/-- the process at import time: the class-level list exists and is empty -/
def init : Heap := { cells := [⟨.cls, .list []⟩], insts := [], bufs := [] }

/-- a failed operation raises and changes nothing -/
def stepK (S : Schema) (H : Heap) (op : Op) : Heap :=
  match step S H op with
  | .ok H' => H'
  | .error _ => H

def run (S : Schema) (H : Heap) (ops : List Op) : Heap := ops.foldl (stepK S) H

/-- ghost: tag of the cell an in-place operation would write to (`none`: the operation writes to no existing cell) -/
def writeOwner (S : Schema) (H : Heap) : Op → Option Owner
  | .assign a p _ _ | .append a p _ | .setIdx a p _ _ | .copy a p _ _ _ =>
    match mutTarget S H a p with
    | .ok (some r) => (H.cells[r]?).map (·.own)
    | _ => Option.none
  | _ => Option.none

/-- the operation does not write into a class-level object (hypothesis of the `_partial` frame theorem:
    "no in-place mutation of a value obtained by reading a never-assigned array field") -/
def classSafe (S : Schema) (H : Heap) (op : Op) : Bool :=
  writeOwner S H op != some .cls

def safeRun (S : Schema) : Heap → List Op → Bool
  | _, [] => true
  | H, op :: ops => classSafe S H op && safeRun S (stepK S H op) ops

/-- the instance an operation is about (for `new` / `decode`: the instance it creates) -/
def Op.target (H : Heap) : Op → Nat
  | .new _ => H.insts.length
  | .decode _ _ => H.insts.length
  | .clone _ => H.insts.length
  | .copy b _ _ _ _ => b
  | .read a _ | .assign a _ _ _ | .append a _ _ | .setIdx a _ _ _ | .encode a | .mkbuf a => a
  | .scribble _ => H.insts.length     -- a buffer is nobody's: no instance may change

/-! ### the history of Witness/C18.lean (printed by the driver for the harness from these very terms) -/

/-- message 65 with a 2-byte int and an array of bytes -/
def witnessSchema : Schema :=
  ⟨false, [.binRec (some 65) [.int ⟨2, false, false⟩ none, .arr (.int ⟨1, false, false⟩) ⟨2, false, false⟩]]⟩

/-- `items.append(7)` on the never-assigned array field of instance 0 -/
def witnessBadOp : Op := .append 0 [.fld 1] (.int 7)

def witnessOps : List Op := [.new 0, .new 0, witnessBadOp, .new 0]

end NasdaqModel.Heap
