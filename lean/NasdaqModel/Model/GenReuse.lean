import NasdaqModel.Model.GenHistory
/-
Model for C17 (and the history side of C16) — ONE parsed spec object handed to several generators.

`Model/GenHistory.lean` has the two halves of an entry point: `construct k i` (parse the spec AND build generator object `k`)
and `generate k`.  A build script may also parse once and construct several generators on the object `parse()` returned

    definitions = parse(spec_file, version)                   # fix/parser/parser.py        (one `Definitions` object)
    Generator(definitions, 'client', dir1, '').generate()     # fix/parser/generator.py
    Generator(definitions, 'server', dir2, 'srv').generate()

    definitions = Parser.parse(spec_file, override_messages)  # common/message/parser.py
    Generator(definitions, 'itch', app1, dir1, template, …).generate(…)      # common/message/codegen.py
    Generator(definitions, 'ouch', app2, dir2, template, …).generate(…)

so the first half is split once more: `parse j` (the parsed object gets the number `j`) and `constructOn k j` (generator object
`k` built on parsed object `j` with its own app name / prefix / init flag / directory / protocol).  Object identity is the
number: two generators constructed on `j` hold THE SAME object.

Transcribed from the same sources as Model/GenHistory.lean; `planFix` / `planSoup` are cut where the entry points cut them:
  `parseFix`   = `parse()`: `get_supported_types(version)`, `types[field.get('type')]` per declared field
  `renderFix`  = `Generator.__attrs_post_init__` → `Definitions.get_codegen_context()` (class-level `Group.Contexts` /
                 `Group.UniqueNameCounter` reset, the groups evaluated, `_client_session()`), the files `generate()` will write
  `parseSoup`  = `Parser.parse()`: `FieldDef.Definitions`, the `def=` references resolved, the duplicate-key check
  `renderSoup` = what `Generator.generate()` renders from the parsed definitions (they are never changed after the parse)
and `planFix_eq` / `planSoup_eq` (Props/C17Reuse.lean) show that the cut loses nothing.

The parsed FIX object carries one more component, used only by the switchable behaviour `memo` (NOT what the library does; it
is the semantics of seeded change C16l, kept as the subject of Witness/C17Reuse.lean): every `Group` object of the parsed
dictionary remembers the codegen context it computed the first time it was asked (`rendered`), computes nothing and appends
nothing to `Group.Contexts` afterwards — while `Definitions.get_codegen_context()` still starts every generation from an empty
`Group.Contexts`.  With `memo := false` (the library) `constructOn` never changes a parsed object.
Import-free (only Model files), executable, structurally recursive.
-/
namespace NasdaqModel.GenReuse
open NasdaqModel GenHistory

/-! ## the two halves of `planFix` / `planSoup` -/

/-- `parse(spec_file, version)`: the declared field types looked up in the version's table (KeyError / ValueError) -/
def parseFix (sem : Semantics) (st : ProcState) (spec : FixSpec) : ProcState × Except Err (List GenFix.TyCls) :=
  let t := typesFor sem st.types spec.version
  let st := { st with types := t.1 }
  match t.2 with
  | .error e => (st, .error e)
  | .ok tbl =>
  match resolveTypes tbl (declared spec) with
  | .error e => (st, .error e)
  | .ok resolved => (st, .ok resolved)

mutual
/-- `Group.get_codegen_context` when every `Group` object keeps the context it computed (`memo`): a unique name is taken, the
    nested entries are evaluated ONCE, one class is appended to `Group.Contexts` -/
def ctxGroupOnce (s : FixState) : GTree → FixState × (Nm × Nat)
  | .mk name fields kids =>
    let r := nextU s.counter name
    let s1 : FixState := { s with counter := r.2 }
    let k1 := ctxKidsOnce s1 kids
    let ctx : GCtx := ⟨name, r.1, fields.map .field ++ k1.2.map fun x => .group x.1 x.2⟩
    ({ k1.1 with contexts := k1.1.contexts ++ [ctx] }, (name, r.1))
def ctxKidsOnce (s : FixState) : List GTree → FixState × List (Nm × Nat)
  | [] => (s, [])
  | g :: rest =>
    let a := ctxGroupOnce s g
    let b := ctxKidsOnce a.1 rest
    (b.1, a.2 :: b.2)
end

/-- the groups of the message evaluated by `Definitions.get_codegen_context()` on a parsed dictionary whose `Group` objects
    have (`some top`) or have not (`none`) been asked for their context before.  Returns the class-level state, the unique names
    of the message's top-level groups, and what the `Group` objects remember afterwards. -/
def evalGroups (memo : Bool) (s0 : FixState) (groups : List GTree) (rendered : Option (List (Nm × Nat))) :
    FixState × List (Nm × Nat) × Option (List (Nm × Nat)) :=
  if memo then
    match rendered with
    | some top => (s0, top, some top)               -- every group returns its kept context; nothing is appended, no name taken
    | none => ((ctxKidsOnce s0 groups).1, (ctxKidsOnce s0 groups).2, some (ctxKidsOnce s0 groups).2)
  else ((ctxKids s0 groups).1, (ctxKids s0 groups).2, rendered)

/-- `Generator(definitions, app_name, op_dir, prefix, generate_init_file)`: `__attrs_post_init__` evaluates
    `definitions.get_codegen_context()`; the result is what `generate()` will write -/
def renderFix (sem : Semantics) (memo : Bool) (st : ProcState) (spec : FixSpec) (resolved : List GenFix.TyCls)
    (rendered : Option (List (Nm × Nat))) (o : GenOpts) : ProcState × Option (List (Nm × Nat)) × Except Err RelPlan :=
  let s0 : FixState := ⟨if sem.resetContexts then [] else st.contexts, if sem.resetCounter then [] else st.counter⟩
  let k := evalGroups memo s0 spec.groups rendered
  let st' := { st with contexts := k.1.contexts, counter := k.1.counter }
  if !versionOk spec.version then (st', k.2.2, .error .value)
  else
    let mp := prefix_ o.pfx ++ sFix ++ o.app
    let f (suffix : Str) (c : Chunk) : RelAction := ⟨mp ++ suffix ++ sPy, sem.genMode, [c]⟩
    let acts : List RelAction := [
      f sFields (.fixFields spec.id spec.fields spec.counts resolved),
      f sGroups (.fixGroups mp k.1.contexts),
      f sBodies (.fixBodies mp spec.id spec.msgFields k.2.1),
      f sMessages (.fixMessages mp spec.id spec.msgFields k.2.1),
      ⟨sApp ++ sPy, sem.genMode, [.fixApp o.app (clientSession spec.version)]⟩ ]
    let initAct : RelAction := ⟨sInit ++ sPy, sem.genMode, [.fixInit mp]⟩
    (st', k.2.2, .ok ⟨false, if o.init then acts ++ [initAct] else acts,
      [mp ++ sFields, mp ++ sGroups, mp ++ sBodies, mp ++ sMessages, sApp]⟩)

/-- `Parser.parse(spec_file, override_messages)` -/
def parseSoup (sem : Semantics) (st : ProcState) (spec : SoupSpec) (override : Bool) : ProcState × Except Err (List Nat) :=
  let tbl0 := if sem.resetFieldDefs then [] else st.fieldDefs
  let tbl := match spec.root with
    | some r => r
    | none => tbl0
  let st' := { st with fieldDefs := tbl }
  match resolveAll tbl spec.uses with
  | .error e => (st', .error e)
  | .ok resolved =>
    if !override && dupKey (msgKeys 0 spec.msgs) then (st', .error .value) else (st', .ok resolved)

/-- `Generator(definitions, impl, app_name, op_dir, template, prefix, generate_init_file).generate(…)` -/
def renderSoup (sem : Semantics) (impl : Impl) (spec : SoupSpec) (resolved : List Nat) (o : GenOpts) : RelPlan :=
  let modName := prefix_ o.pfx ++ impl.str ++ sUnderscore ++ o.app
  let modAct : RelAction := ⟨modName ++ sPy, sem.genMode, [.soupModule impl o.app spec.id spec.msgs (shownTypes spec.msgs resolved)]⟩
  let initAct : RelAction := ⟨sInit ++ sPy, sem.genMode, [.initLine modName]⟩
  ⟨false, if o.init then [modAct, initAct] else [modAct], [modName]⟩

/-! ## parsed objects, events, world -/

/-- what is parsed: the spec and the parse-time options (`--fix-version` is `FixSpec.version`) -/
inductive PSpec where
  | fix (spec : FixSpec)
  | soup (spec : SoupSpec) (override : Bool)
  deriving Repr, Inhabited

/-- the object `parse()` / `Parser.parse()` returned -/
inductive Parsed where
  /-- `rendered`: what the `Group` objects of the dictionary remember (always `none` unless `memo`) -/
  | fix (spec : FixSpec) (resolved : List GenFix.TyCls) (rendered : Option (List (Nm × Nat)))
  | soup (spec : SoupSpec) (override : Bool) (resolved : List Nat)
  deriving Repr, Inhabited

/-- the whole invocation a generator constructed on parsed object `p` with protocol `impl` (soup-app only) and options `o`
    stands for: the spec and parse-time options of `p`, everything else from `o` -/
def Parsed.inv (p : Parsed) (impl : Impl) (o : GenOpts) : Inv :=
  match p with
  | .fix spec _ _ => .fix spec o
  | .soup spec ov _ => .soup impl spec { o with override := ov }

def PSpec.inv (p : PSpec) (impl : Impl) (o : GenOpts) : Inv :=
  match p with
  | .fix spec => .fix spec o
  | .soup spec ov => .soup impl spec { o with override := ov }

inductive REv where
  /-- an event of Model/GenHistory.lean (whole invocations, `construct` = parse + generator object, `generate`, process end) -/
  | old (e : Ev)
  /-- `parse()` alone: the parsed object gets the number `j` -/
  | parse (j : Nat) (p : PSpec)
  /-- generator object `k` constructed on parsed object `j` (no parse) -/
  | constructOn (k j : Nat) (impl : Impl) (o : GenOpts)
  deriving Repr, Inhabited

structure RWorld where
  w : World
  /-- the live parsed objects, by the number the history gives them -/
  parsed : List (Nat × Parsed)
  deriving Repr, Inhabited

def rw0 : RWorld := ⟨w0, []⟩

def getP : List (Nat × Parsed) → Nat → Option Parsed
  | [], _ => none
  | (j, p) :: rest, k => if j = k then some p else getP rest k

def setP : List (Nat × Parsed) → Nat → Parsed → List (Nat × Parsed)
  | [], k, p => [(k, p)]
  | (j, q) :: rest, k, p => if j = k then (j, p) :: rest else (j, q) :: setP rest k p

/-- `parse()`; a failure leaves no object -/
def parseR (sem : Semantics) (rw : RWorld) (j : Nat) : PSpec → RWorld × Except Err Unit
  | .fix spec =>
    match (parseFix sem rw.w.st spec).2 with
    | .ok resolved => (⟨⟨(parseFix sem rw.w.st spec).1, rw.w.fs⟩, setP rw.parsed j (.fix spec resolved none)⟩, .ok ())
    | .error e => (⟨⟨(parseFix sem rw.w.st spec).1, rw.w.fs⟩, rw.parsed⟩, .error e)
  | .soup spec ov =>
    match (parseSoup sem rw.w.st spec ov).2 with
    | .ok resolved => (⟨⟨(parseSoup sem rw.w.st spec ov).1, rw.w.fs⟩, setP rw.parsed j (.soup spec ov resolved)⟩, .ok ())
    | .error e => (⟨⟨(parseSoup sem rw.w.st spec ov).1, rw.w.fs⟩, rw.parsed⟩, .error e)

/-- the generator object a successful construction stores -/
def objOf (sem : Semantics) (i : Inv) (rp : RelPlan) : GenObj := ⟨i.dir, rp.acts, rp.modules, sharedGroupsOf sem i⟩

/-- generator object `k` constructed on parsed object `j` (`Err.state`: no such object — its parse failed or it belongs to
    another process).  Nothing is written. -/
def constructOn (sem : Semantics) (memo : Bool) (rw : RWorld) (k j : Nat) (impl : Impl) (o : GenOpts) :
    RWorld × Except Err Unit :=
  match getP rw.parsed j with
  | none => (rw, .error .state)
  | some (.soup spec ov resolved) =>
    let rp := renderSoup sem impl spec resolved o
    (⟨⟨{ rw.w.st with gens := setGen rw.w.st.gens k (objOf sem (.soup impl spec { o with override := ov }) rp) }, rw.w.fs⟩,
      rw.parsed⟩, .ok ())
  | some (.fix spec resolved rendered) =>
    let r := renderFix sem memo rw.w.st spec resolved rendered o
    let parsed' := setP rw.parsed j (.fix spec resolved r.2.1)
    match r.2.2 with
    | .error e => (⟨⟨r.1, rw.w.fs⟩, parsed'⟩, .error e)
    | .ok rp => (⟨⟨{ r.1 with gens := setGen r.1.gens k (objOf sem (.fix spec o) rp) }, rw.w.fs⟩, parsed'⟩, .ok ())

/-- the parsed objects die with the process -/
def stepOld (sem : Semantics) (rw : RWorld) (e : Ev) : RWorld :=
  ⟨step sem rw.w e, match e with | .newProcess => [] | _ => rw.parsed⟩

def stepR (sem : Semantics) (memo : Bool) (rw : RWorld) : REv → RWorld
  | .old e => stepOld sem rw e
  | .parse j p => (parseR sem rw j p).1
  | .constructOn k j impl o => (constructOn sem memo rw k j impl o).1

def runR (sem : Semantics) (memo : Bool) (rw : RWorld) (evs : List REv) : RWorld := evs.foldl (stepR sem memo) rw

/-- `generate()` of generator object `k` (as in Model/GenHistory.lean; the parsed objects are not touched: the FIX generator
    rendered its context when it was constructed, the soup-app definitions never change) -/
def generateR (sem : Semantics) (rw : RWorld) (k : Nat) : RWorld × Except Err Unit :=
  (⟨(generate sem rw.w k).1, rw.parsed⟩, (generate sem rw.w k).2)

end NasdaqModel.GenReuse
