import NasdaqModel.Py.Basic
/-
Model of the message-id registries (property C19), transcribed from

  common/message/structures.py   CommonMessage.__init_subclass__ (duplicate check + registration), from_bytes,
                                 get_msg_classes / get_msg_cls_by_name / get_msg_cls_by_indicator
  itch/core.py, ouch/core.py, sqf/core.py
                                 the id classes (what their equality/hash look at) and Message.__init_subclass__
                                 (protocol default app name, which keyword arguments produce a `msg_id`)
  common/message/templates/message_soup_app.mustache
                                 the application base class of generated code: `__init_subclass__` demands `indicator`
                                 and forces `kwargs['app_name']`

`CommonMessage.MsgIdToClsMap` is `app name -> {id object -> class}`; it is flattened here to an association list in
insertion order.  A class statement that raises leaves the registry as it was (the program goes on with the old state).
-/
namespace NasdaqModel.Registry
open NasdaqModel

inductive Proto where
  | itch | ouch | sqf
  deriving Repr, DecidableEq, Inhabited

/-- the `direction` keyword: the two values the generators emit, and anything else -/
inductive Dir where
  | outgoing | incoming | other
  deriving Repr, DecidableEq, Inhabited

/-- What an id object is as a dictionary key (attrs `eq`/`hash`):
    `ItchMessageId(indicator)`; `OuchMessageId(indicator, direction)` — both fields compared;
    `SqfMessageId(indicator, direction)` — `direction` declared `eq=False, hash=False`.
    Objects of different id classes are never equal (attrs compares `__class__`). -/
structure Key where
  proto : Proto
  ind : Nat
  dir : Option Dir      -- `some` exactly for OUCH
  deriving Repr, DecidableEq, Inhabited

def mkKey (p : Proto) (ind : Nat) (d : Dir) : Key :=
  { proto := p, ind := ind, dir := if p = .ouch then some d else none }

/-- `XMessageId.from_bytes`: one byte, built with the default direction (`OuchMessageId(indicator)` = 'outgoing') -/
def decodeKey (p : Proto) (byte : Nat) : Key := mkKey p byte .outgoing

/-- application names are numbered by the harness; 0, 1, 2 are the protocol defaults 'ITCH', 'OUCH', 'SQF' -/
def protoDefault : Proto → Nat
  | .itch => 0 | .ouch => 1 | .sqf => 2

/-- how the class a message derives from treats `app_name` -/
inductive Style where
  | protoBase    -- `itch.Message` / `ouch.Message` / `sqf.Message` itself
  | plain        -- `class Base(itch.Message, app_name='x')` with no `__init_subclass__` of its own
  | generated    -- the generated / test-suite way: `__init_subclass__` demands `indicator`, forces `kwargs['app_name']`
  deriving Repr, DecidableEq, Inhabited

/-- a class messages derive from and bytes are decoded through; `app` is its `AppName` attribute -/
structure Base where
  proto : Proto
  app : Nat
  style : Style
  deriving Repr, DecidableEq, Inhabited

/-- one class statement `class <name>(<base>, indicator=…, direction=…, app_name=…)` -/
structure Decl where
  cid : Nat               -- identity of the class object the statement creates
  name : Nat              -- `__name__` (numbered)
  base : Base
  ind : Option Nat        -- `indicator=`
  dir : Option Dir        -- `direction=`
  appKw : Option Nat      -- `app_name=` written on the message class itself
  deriving Repr, DecidableEq, Inhabited

structure Entry where
  app : Nat
  key : Key
  cls : Nat
  deriving Repr, DecidableEq, Inhabited

structure Reg where
  ids : List Entry                   -- MsgIdToClsMap (all namespaces, insertion order)
  names : List (Nat × Nat × Nat)     -- MsgNameToMsgMap: (app, __name__, class)
  deriving Repr, DecidableEq, Inhabited

def Reg.empty : Reg := { ids := [], names := [] }

/-- `MsgIdToClsMap[app].get(id)` -/
def lookupId (r : Reg) (a : Nat) (k : Key) : Option Nat :=
  (r.ids.find? (fun e => e.app == a && e.key == k)).map (·.cls)

/-- `MsgNameToMsgMap[app][name] = cls` (an existing name keeps its position) -/
def setName : List (Nat × Nat × Nat) → Nat → Nat → Nat → List (Nat × Nat × Nat)
  | [], a, n, c => [(a, n, c)]
  | (a', n', c') :: rest, a, n, c =>
    if a' = a ∧ n' = n then (a, n, c) :: rest else (a', n', c') :: setName rest a n c

/-- the `app_name` that reaches `CommonMessage.__init_subclass__`:
    forced by a generated-style base; else the keyword on the class statement; else the protocol default
    (`if 'app_name' not in kwargs: kwargs['app_name'] = APP_NAME`) — NOT the `AppName` of a plain base. -/
def namespaceOf (d : Decl) : Nat :=
  match d.base.style with
  | .generated => d.base.app
  | _ => d.appKw.getD (protoDefault d.base.proto)

/-- the `msg_id` keyword the protocol-level `__init_subclass__` adds, if it adds one:
    ITCH needs `indicator`; OUCH and SQF need both `direction` and `indicator` -/
def msgIdOf (d : Decl) : Option Key :=
  match d.base.proto with
  | .itch => d.ind.map (fun i => mkKey .itch i .outgoing)
  | p =>
    match d.ind, d.dir with
    | some i, some dr => some (mkKey p i dr)
    | _, _ => none

/-- What reaches `CommonMessage.__init_subclass__` from a class statement:
    an exception before it (generated base: "expected indicator"), no `msg_id` (nothing will be registered),
    or the namespace and id to register under. -/
def resolve (d : Decl) : Except Err (Option (Nat × Key)) :=
  if d.base.style = .generated ∧ d.ind = none then .error .value
  else .ok ((msgIdOf d).map (fun k => (namespaceOf d, k)))

/-- `CommonMessage.__init_subclass__` with all of app_name / msg_id_cls / msg_id present:
      if cls.MsgId in MsgIdToClsMap[cls.AppName] and MsgIdToClsMap[cls.AppName][cls.MsgId] != cls: raise Duplicate…
      MsgIdToClsMap[cls.AppName][cls.MsgId] = cls ; MsgNameToMsgMap[cls.AppName][cls.__name__] = cls            -/
def register (r : Reg) (a : Nat) (k : Key) (name cid : Nat) : Except Err Reg :=
  match lookupId r a k with
  | some c =>
    if c != cid then .error .dup                                   -- DuplicateMessageException
    else .ok { r with names := setName r.names a name cid }        -- same class again: values re-assigned
  | none => .ok { ids := r.ids ++ [{ app := a, key := k, cls := cid }], names := setName r.names a name cid }

/-- the class statement, as far as the registries are concerned -/
def defineMsg (r : Reg) (d : Decl) : Except Err Reg :=
  match resolve d with
  | .error e => .error e
  | .ok none => .ok r            -- not all of app_name / msg_id_cls / msg_id present: nothing is registered
  | .ok (some (a, k)) => register r a k d.name d.cid

/-- a program keeps running with the old registry when a class statement raises -/
def step (r : Reg) (d : Decl) : Reg :=
  match defineMsg r d with
  | .ok r' => r'
  | .error _ => r

def run (r : Reg) (ds : List Decl) : Reg := ds.foldl step r

/-- per-statement outcomes, for the correspondence -/
def outcomes : Reg → List Decl → List (Option Err)
  | _, [] => []
  | r, d :: rest =>
    match defineMsg r d with
    | .ok r' => none :: outcomes r' rest
    | .error e => some e :: outcomes r rest

/-- `Base.from_bytes(bytes([byte]) + body)`: which class is instantiated, or KeyError -/
def decode (r : Reg) (b : Base) (byte : Nat) : Except Err Nat :=
  match lookupId r b.app (decodeKey b.proto byte) with
  | some c => .ok c
  | none => .error .key

/-- `Base.get_msg_cls_by_indicator(id)` -/
def byIndicator (r : Reg) (a : Nat) (k : Key) : Except Err Nat :=
  match lookupId r a k with
  | some c => .ok c
  | none => .error .key

/-- `Base.get_msg_cls_by_name(name)` -/
def byName (r : Reg) (a n : Nat) : Except Err Nat :=
  match r.names.find? (fun e => e.1 == a && e.2.1 == n) with
  | some e => .ok e.2.2
  | none => .error .key

/-- `list(Base.get_msg_classes())` -/
def classes (r : Reg) (a : Nat) : List Nat := (r.ids.filter (fun e => e.app == a)).map (·.cls)

/-! ### Where a class statement stands (seeded change C19i: "module reload support")

Everything Python knows about a class object *besides its identity*: the module it was defined in, the syntactic form of
the definition (which fixes `__qualname__`), and what the module namespace binds its name to at that moment.
`CommonMessage.__init_subclass__` reads NONE of it (`MsgIdToClsMap[app][id] != cls` is an identity test): `stepAt` carries
the site along, keeps the module namespaces the way Python does, and hands only the `Decl` to `defineMsg`.
`Props/C19Names.lean` states the independence as theorems. -/

/-- how the class is created -/
inductive Form where
  | bare        -- class statement executed in a namespace that is no module (`__module__` = 'builtins')
  | topLevel    -- top-level class statement of a module: `__qualname__ = __name__`, binds the module attribute
  | factory     -- class statement inside a function of the module: `__qualname__ = make_X.<locals>.X`
  | metaCall    -- `type(Base)(name, bases, ns, **kw)` in the module: `__qualname__ = __name__`
  deriving Repr, DecidableEq, Inhabited

structure Site where
  modl : Nat            -- `__module__` (modules numbered by the harness)
  form : Form
  bind : Bool           -- on success the statement assigns the new class to the module attribute `__name__`
  unbind : Bool         -- … and the attribute is deleted again afterwards
  deriving Repr, DecidableEq, Inhabited

/-- a class statement together with the place it is written at -/
structure SDecl where
  decl : Decl
  site : Site
  deriving Repr, DecidableEq, Inhabited

/-- the module namespaces, as far as class names go: ((module, name), class bound) -/
abbrev Binds := List ((Nat × Nat) × Nat)

def bindGet (b : Binds) (m n : Nat) : Option Nat := (b.find? (fun e => e.1 == (m, n))).map (·.2)
def bindDel (b : Binds) (m n : Nat) : Binds := b.filter (fun e => e.1 != (m, n))
def bindSet (b : Binds) (m n c : Nat) : Binds := ((m, n), c) :: bindDel b m n

/-- does the statement bind a module attribute when it succeeds -/
def Site.binds (s : Site) : Bool :=
  match s.form with
  | .bare => false
  | .topLevel => true
  | _ => s.bind

structure World where
  reg : Reg
  binds : Binds
  deriving Repr, DecidableEq, Inhabited

def World.empty : World := { reg := Reg.empty, binds := [] }

/-- one class statement at its site.  A statement that raises binds nothing (the old class stays bound). -/
def stepAt (w : World) (sd : SDecl) : World :=
  match defineMsg w.reg sd.decl with
  | .error _ => w
  | .ok r' =>
    let b1 := if sd.site.binds then bindSet w.binds sd.site.modl sd.decl.name sd.decl.cid else w.binds
    let b2 := if sd.site.unbind && sd.site.form != .bare then bindDel b1 sd.site.modl sd.decl.name else b1
    { reg := r', binds := b2 }

def runAt (w : World) (sds : List SDecl) : World := sds.foldl stepAt w

/-- what the "reload" test of the seeded change would look at when `sd` is defined while class `existing` (defined at
    `site0` under `name0`) holds the id: same module, same qualified name, module attribute still bound to `existing` -/
def looksLikeReload (w : World) (name0 : Nat) (site0 : Site) (existing : Nat) (sd : SDecl) : Bool :=
  site0.modl == sd.site.modl && name0 == sd.decl.name && site0.form == sd.site.form &&
  (sd.site.form == .topLevel || sd.site.form == .metaCall) &&
  bindGet w.binds sd.site.modl sd.decl.name == some existing

end NasdaqModel.Registry
