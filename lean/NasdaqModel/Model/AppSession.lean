import NasdaqModel.Py.Basic
import NasdaqModel.Model.Session
/-
The application-session layer — `itch/session.py`, `ouch/session.py`, `sqf/session.py`, `asn1_app/soup_session.py`
(`ClientSession` / `Asn1SoupClientSession`) — composed with the session machine of `Model/Session.lean`, which is used
unchanged as the *inner* machine (the SoupBinTCP client session the application session wraps).

The four classes are the same code up to names, the `decode` they call and `send_message` (ouch, sqf):

    __attrs_post_init__   _message_queue = DispatchableMessageQueue(id, on_msg_coro)      second queue `q2`, dispatcher `D2` iff a callback
                          soup_session.set_handlers(_on_soup_message, _on_soup_close); soup_session.start_dispatching()
    receive_message()     await _message_queue.get()                                       helper task `V2`
    close()               if _close_event or closed: return
                          _close_event = Event()
                          if _message_queue.is_dispatcher_current_task(): await soup_session.close(); return     (the repair of
                              C05-app-close-from-message-callback: called from the message callback, i.e. by `D2` itself)
                          soup_session.initiate_close(); await _close_event.wait()
    _on_soup_message(m)   if isinstance(m, SequencedData): await _message_queue.put(decode(m.data)[1])
    _on_soup_close()      await _message_queue.stop(); closed = True; await on_close_coro(); if _close_event: _close_event.set()
    send_message(msg)     soup_session.send_unseq_data(bytes)        (= the inner event `callSend`)

* The inner configuration is what the application session installs (`innerCfg`): a message callback that never suspends
  (`ret`, or `raise` when `decode` raises — the inner dispatcher logs and goes on) and a close callback.  The inner close
  callback is `_on_soup_close`; the inner machine sees it as `await 0` ("suspends, comes back once"): while the closer sits in
  the inner stage `cb t 0 c`, the product machine runs the application-level close sequence (`CPc`) on the closer's steps and
  lets the inner step (`cbExit`, continuation) happen in the very step in which `_on_soup_close` returns.
* Every product event is mapped to zero, one or two inner events, so the inner component is always a state reached by a legal
  inner event sequence: every theorem about `Sess` holds for it.
* `decode` is the parameter `dec : Nat → Dec` on message tokens: `skip` (not a `SequencedData` packet), `fail` (decode raises),
  `val v` (decoded value `v`; for ASN.1 a `DecodeError` yields the falsy value `{}`, which is just another value here).
* As in the inner model, where the real code goes on within the same step (the dispatcher taking the next message after a handler
  returned) the model ends the step and sets `imm2`; the driver runs `D2` again at once.
* User callbacks of the application layer: message callback `ret | await k | raise | close` (awaits `app.close()`) | `awaitClose k`
  (works, then awaits `app.close()`: more messages may be queued behind it) | `awaitCC k` (awaits; its cancellation clean-up awaits
  `app.close()`); close callback `ret | await k | close`.
* `ACfg.closedFirst`: the order inside `_on_soup_close`.  `true` = the code as it is (/repo 7eb8348: `closed = True`, then
  `await queue.stop()`); `false` = the order up to 35c133f (`stop()` first), kept as the subject of
  `Witness.C05App.C05App_witness_cleanup_close_deadlock`.
* **`close()` from the message callback** (body or cancellation clean-up) is carried out by the calling task, the second dispatcher
  `D2`: past the guard it creates the event and awaits `soup_session.close()`.  If the soup session is already closed or closing
  (`_closed`), that returns at once and so does `close()` — exactly what `AsyncSession.close()` does for a close requested from the
  soup session's own message callback while another task is in the close body.  Otherwise `D2` *is* the closer of the soup session:
  in the inner machine it is the user task `U d2u` (`d2u = 0`, an identifier the product machine reserves: inner events of the
  user that name it are refused), entered with the inner event `callClose d2u`; `D2` has the status `inSoup` and its steps
  (`run D2`) are the inner steps `run (U d2u)`.  Inside `_on_soup_close`, `queue.stop()` skips the current task
  (`stop_task`: `task is asyncio.current_task()`), i.e. `D2` when `D2` is the closer; when `_on_soup_close` and with it
  `soup_session.close()` have returned, `close()` returns to the callback, the callback returns and the dispatcher loop ends
  (`while not self._closed`) in the same step (`d2Return`).  Nobody can cancel `D2` meanwhile: the only `cancel()` of the
  dispatcher is the one in `queue.stop()`.
  Before the repair the callback waited for the event and was cancelled by `queue.stop()`: `Witness/C05AppOld.lean` keeps that
  transition and the recorded history.
* The application session is constructed in the step in which `login()` returned an active session (what `<kind>.connect_async`
  does); before that the soup session has no callbacks.  The inner step out of the callback stage happens in the very step in
  which `_on_soup_close` returns (`finishClose`), so every product event is zero, one or two inner events.
-/
namespace NasdaqModel.App
open NasdaqModel

/-- what `_on_soup_message` does with the inner message `n` -/
inductive Dec where
  | skip | fail | val (v : Nat)
  deriving DecidableEq, Repr, Inhabited

/-- application-level tasks: second dispatcher, second receive helper, user tasks calling the application session -/
inductive ATid where
  | D2 | V2
  | W (u : Nat)
  deriving DecidableEq, Repr, Inhabited

/-- behaviour of the user's application-level callbacks -/
inductive ABeh where
  | ret
  | await (k : Nat)    -- awaits k+1 times, then returns
  | close              -- `await app.close()`, then returns
  | raise              -- raises (message callback only)
  | awaitCC (k : Nat)  -- message callback only: awaits k+1 times, then returns; if it is cancelled meanwhile its clean-up
                       -- does `await app.close()` before it lets the cancellation through
  | awaitClose (k : Nat)  -- message callback only: awaits k+1 times, then `await app.close()`, then returns
  deriving DecidableEq, Repr, Inhabited

inductive AStatus where
  | absent
  | ready
  | cancelled      -- runnable; `CancelledError` is delivered at its current await
  | waitQ          -- suspended in `queue.get()` on the empty second queue
  | waitV          -- a `receive_message()` caller awaiting the helper task `V2`
  | waitE          -- suspended in `_close_event.wait()`
  | inSoup         -- `D2` only: inside `await soup_session.close()` called from the message callback; it runs as the inner task `U d2u`
  | done
  deriving DecidableEq, Repr, Inhabited

inductive AProg where
  | idle
  | dispLoop
  | handler (v k : Nat)      -- inside the user's message callback for `v`, `k` more awaits to go
  | handlerClose (v : Nat)   -- inside the user's message callback for `v`, inside `await app.close()` (status `inSoup`)
  | handlerCC (v k : Nat)    -- inside an `awaitCC` message callback for `v`, `k` more awaits to go
  | cleanupClose (v : Nat)   -- the cancelled `awaitCC` callback for `v` is inside the `await app.close()` of its clean-up (status `inSoup`)
  | vget
  | recvWait (u : Nat)
  | closeWait (u : Nat)
  deriving DecidableEq, Repr, Inhabited

/-- who called `app.close()` -/
inductive Caller where
  | user (u : Nat)       -- user task `W u`
  | handler (v : Nat)    -- the user's message callback for `v`
  | closeCb              -- the user's close callback
  deriving DecidableEq, Repr, Inhabited

/-- application-level observables -/
inductive AObs where
  | msgEnter (v : Nat) | msgExit (v : Nat) | msgAbandon (v : Nat) | msgRaise (v : Nat)
  | cbEnter | cbExit
  | ret (u : Nat) (r : Sess.Res)                 -- `receive_message()` of user task `W u` returned / raised
  | closeRet (c : Caller) (r : Sess.Res)         -- an `await app.close()` returned (`ok`) / raised `CancelledError` (`cancelled`)
  deriving DecidableEq, Repr, Inhabited

/-- one entry of the merged observable trace -/
inductive PObs where
  | inner (o : Sess.Obs)
  | app (o : AObs)
  deriving DecidableEq, Repr, Inhabited

/-- where the closer is inside `_on_soup_close` -/
inductive CPc where
  | idle               -- `_on_soup_close` has not been entered
  | waitD2             -- in `queue.stop()`: awaiting the cancelled second dispatcher
  | waitV2             -- in `queue.stop()`: awaiting the cancelled second receive helper
  | user (k : Nat)     -- `closed = True` done; inside the user's close callback, `k` more awaits to go
  | finished           -- event set (if there is one); `_on_soup_close` has returned
  | aborted            -- the user cancelled the closer inside the user's close callback: the event is never set
  deriving DecidableEq, Repr, Inhabited

structure ACfg where
  dec : Nat → Dec
  hasMsgCb : Bool          -- an application `on_msg_coro` is configured (callback mode); else pull mode
  msgBeh : Nat → ABeh      -- behaviour of the application message callback per decoded value
  hasCb : Bool             -- an application `on_close_coro` is configured
  cbBeh : ABeh             -- `ret | await k | close`
  closedFirst : Bool       -- `_on_soup_close` sets `closed = True` *before* `await _message_queue.stop()` (the repaired order);
                           -- `false`: after it, as in the code up to commit 35c133f (kept for `Witness/C05App.lean`)
  deriving Inhabited

/-- the configuration the application session installs on the soup session -/
def innerCfg (a : ACfg) : Sess.Cfg :=
  { msgBeh := fun n => match a.dec n with
      | .fail => .raise
      | _ => .ret
    cbBeh := .await 0
    hasCb := true
    dispatchOnConnect := false
    hasMsgCb := true
    fixLogin := false }

structure St where
  inner : Sess.St := {}
  built : Bool := false            -- the application session has been constructed (in the step in which `login()` returned)
  q2 : List Nat := []              -- `_message_queue._msg_queue`
  q2Closed : Bool := false         -- `_message_queue._closed`
  disp2Set : Bool := false         -- `_message_queue._dispatcher_task is not None`
  vres2 : Option Nat := none       -- value taken off `q2` for a pending `receive_message()`, not yet handed over
  rcv2Busy : Bool := false
  evt : Option Bool := none        -- `_close_event`: `none` | created (`some false`) | set (`some true`)
  appClosed : Bool := false        -- `closed`
  cpc : CPc := .idle
  astatus : ATid → AStatus := fun _ => .absent
  aprog : ATid → AProg := fun _ => .idle
  imm2 : Bool := false             -- `D2` continues within the same real step
  tr : List PObs := []             -- merged observable trace, oldest first
  -- ghost state (never read by the transitions)
  fed : List Nat := []             -- decoded values put on `q2`, in order
  gone2 : List (Nat × Bool) := []  -- values that left `q2` for good: `(v, true)` handed to the application consumer;
                                   -- `(v, false)` (dropped) is produced by no transition any more (it was the late cancel of
                                   -- `receive_message()` before the repair of C04-late-cancel-loses-message): `lost2 = []` always
  deriving Inhabited

inductive Ev where
  | inner (e : Sess.Ev)            -- any event of the soup session (`callSend` is also `send_message`)
  | run (t : ATid)
  | appClose (u : Nat)             -- user task `W u`: `await app.close()`
  | appRecv (u : Nat)              -- user task `W u`: `await app.receive_message()`
  | appCancel (u : Nat)            -- the user cancels task `W u`
  deriving DecidableEq, Repr, Inhabited

def PObs.appOf : PObs → Option AObs
  | .app a => some a
  | .inner _ => none

def PObs.innerOf : PObs → Option Sess.Obs
  | .inner o => some o
  | .app _ => none

/-- application-level observables, in order -/
def St.trace2 (s : St) : List AObs := s.tr.filterMap PObs.appOf

def St.taken2 (s : St) : List Nat := (s.gone2.filter (·.2)).map (·.1)
def St.lost2 (s : St) : List Nat := (s.gone2.filter (fun p => !p.2)).map (·.1)

/-! ### small state algebra -/

def St.setA (s : St) (t : ATid) (x : AStatus) : St :=
  { s with astatus := fun t' => if t' = t then x else s.astatus t' }

def St.setP (s : St) (t : ATid) (p : AProg) : St :=
  { s with aprog := fun t' => if t' = t then p else s.aprog t' }

def St.emit2 (s : St) (o : AObs) : St := { s with tr := s.tr ++ [.app o] }

def St.spawn2 (s : St) (t : ATid) (p : AProg) : St := (s.setA t .ready).setP t p

def alive2 (x : AStatus) : Bool :=
  match x with
  | .absent => false
  | .done => false
  | _ => true

/-- task `t` finishes; a `receive_message()` caller awaiting the helper becomes runnable (the closer awaiting `D2` / `V2` is
    tracked by `cpc`: it is runnable as soon as the awaited task is no longer alive) -/
def St.finish2 (s : St) (t : ATid) : St :=
  { s with astatus := fun t' =>
      if t' = t then .done
      else if t = .V2 ∧ s.astatus t' = .waitV then .ready else s.astatus t' }

/-- `task.cancel()` on an application-level task -/
def St.cancel2 (s : St) (t : ATid) : St :=
  match s.astatus t with
  | .ready => s.setA t .cancelled
  | .waitQ => s.setA t .cancelled
  | .waitE => s.setA t .cancelled
  | .waitV =>
      -- cancelling a caller that awaits the helper cancels the helper; the caller is woken when the helper ends
      match s.astatus .V2 with
      | .ready => s.setA .V2 .cancelled
      | .waitQ => s.setA .V2 .cancelled
      | _ => s
  | _ => s

def St.wake2 (s : St) (t : ATid) : St :=
  if s.astatus t = .waitQ then s.setA t .ready else s

/-- `_message_queue.put(v)` -/
def St.put2 (s : St) (v : Nat) : St :=
  (({ s with q2 := s.q2 ++ [v], fed := s.fed ++ [v] } : St).wake2 .D2).wake2 .V2

/-- `_close_event.set()` (if there is an event): every waiter becomes runnable -/
def St.setEvent (s : St) : St :=
  match s.evt with
  | some false => { s with evt := some true,
                           astatus := fun t => if s.astatus t = .waitE then .ready else s.astatus t }
  | _ => s

def runnable2 (s : St) (t : ATid) : Bool :=
  s.astatus t == .ready || s.astatus t == .cancelled

/-- the inner task that is inside `_on_soup_close` (inner stage `cb t _ _`), if any -/
def closerOf (i : Sess.St) : Option Sess.Tid :=
  match i.cstage with
  | .cb t _ _ => some t
  | _ => none

/-- is the closer suspended inside `queue.stop()` on a task that has not ended yet -/
def closerBlocked (s : St) : Bool :=
  match s.cpc with
  | .waitD2 => alive2 (s.astatus .D2)
  | .waitV2 => alive2 (s.astatus .V2)
  | _ => false

/-- can the inner task `t` take a step in the product machine -/
def runnableI (s : St) (t : Sess.Tid) : Bool :=
  Sess.runnable s.inner t && !(closerOf s.inner == some t && closerBlocked s)

/-! ### one inner event, and what the application layer does in the same step -/

/-- the message callbacks entered in a piece of inner trace -/
def entered (l : List Sess.Obs) : List Nat := l.filterMap fun o => match o with
  | .msgEnter n => some n
  | _ => none

/-- `_on_soup_message` for the inner message `n`: decode and put (nothing for a packet that is not `SequencedData`; when `decode`
    raises nothing is put and the inner dispatcher logs the exception — the inner machine's `msgRaise`) -/
def feed1 (a : ACfg) (s : St) (n : Nat) : St :=
  match a.dec n with
  | .val v => s.put2 v
  | _ => s

/-- `_on_soup_message` for the inner messages whose callback was entered -/
def feed (a : ACfg) (s : St) (ns : List Nat) : St := ns.foldl (feed1 a) s

/-- run the inner event `e`; append what it emitted to the merged trace; `_on_soup_message` (decode and put) for every inner
    message callback the step entered -/
def innerStep (a : ACfg) (s : St) (e : Sess.Ev) : St :=
  let i' := Sess.step (innerCfg a) s.inner e
  let d := i'.trace.drop s.inner.trace.length
  feed a { s with inner := i', tr := s.tr ++ d.map .inner } (entered d)

/-- the inner user task that stands for `D2` while it carries out `soup_session.close()` (reserved: see `reservedEv`) -/
def d2u : Nat := 0

/-- `soup_session.close()` has returned to the `close()` the message callback awaits (`D2` is `inSoup`): `close()` returns; from the
    body of the callback: the callback returns and the dispatcher loop tests `while not self._closed`; from the cancellation
    clean-up: the cancellation goes on, the dispatcher loop breaks -/
def d2Return (s : St) : St :=
  if s.astatus .D2 = .inSoup then
    match s.aprog .D2 with
    | .handlerClose v =>
        if s.q2Closed then ((s.emit2 (.closeRet (.handler v) .ok)).emit2 (.msgExit v)).finish2 .D2
        else { ((((s.emit2 (.closeRet (.handler v) .ok)).emit2 (.msgExit v)).setA .D2 .ready).setP .D2 .dispLoop) with imm2 := true }
    | .cleanupClose v => ((s.emit2 (.closeRet (.handler v) .ok)).emit2 (.msgAbandon v)).finish2 .D2
    | _ => s
  else s

/-- `_on_soup_close` returns to `AsyncSession.close()`: the inner step of the closer happens now; if the closer is `D2` (the close
    was requested from the message callback) the callback goes on in the same step -/
def finishClose (a : ACfg) (s : St) (t : Sess.Tid) : St :=
  d2Return (innerStep a { s with cpc := .finished } (.run t))

/-- the end of the user's close callback: `cbExit`, `_close_event.set()`, return -/
def endCb (a : ACfg) (s : St) (t : Sess.Tid) : St :=
  finishClose a (s.emit2 .cbExit).setEvent t

/-- after `queue.stop()`: `closed = True`, the user's close callback -/
def afterStop (a : ACfg) (s : St) (t : Sess.Tid) : St :=
  let s := { s with appClosed := true }
  if !a.hasCb then finishClose a s.setEvent t
  else
    let s := s.emit2 .cbEnter
    match a.cbBeh with
    | .await k => { s with cpc := .user k }
    | .close => endCb a (s.emit2 (.closeRet .closeCb .ok)) t     -- `app.close()` returns at once because `closed` is already true
    | _ => endCb a s t

/-- `stop_task(_recv_task)` -/
def stopV2 (a : ACfg) (s : St) (t : Sess.Tid) : St :=
  if alive2 (s.astatus .V2) then { (s.cancel2 .V2) with cpc := .waitV2 } else afterStop a s t

/-- `stop_task(_dispatcher_task)`; `_dispatcher_task = None` once it has ended.  `stop_task` skips the current task: `D2` is the
    running task exactly when it is the closer, i.e. `inSoup` -/
def stopD2 (a : ACfg) (s : St) (t : Sess.Tid) : St :=
  if s.disp2Set && alive2 (s.astatus .D2) && s.astatus .D2 != .inSoup then { (s.cancel2 .D2) with cpc := .waitD2 }
  else stopV2 a { s with disp2Set := false } t

/-- `_on_soup_close` from its beginning, run by the inner closer `t` in the step in which the transport was closed.
    Before the application session exists there is no close callback on the soup session. -/
def onSoupClose (a : ACfg) (s : St) (t : Sess.Tid) : St :=
  if !s.built then finishClose a s t
  else
    let s := if a.closedFirst then { s with appClosed := true } else s
    if s.q2Closed then afterStop a s t
    else stopD2 a { s with q2Closed := true } t

/-- the closer `t` resumes inside `_on_soup_close` -/
def resumeSoupClose (a : ACfg) (s : St) (t : Sess.Tid) : St :=
  match s.cpc with
  | .waitD2 => stopV2 a { s with disp2Set := false } t
  | .waitV2 => afterStop a s t
  | .user k =>
      if s.inner.status t = .cancelled then
        -- the user cancelled the task inside the user's close callback: it propagates out of `_on_soup_close` and `close()`
        innerStep a { s with cpc := .aborted } (.run t)
      else match k with
        | 0 => endCb a s t
        | k + 1 => { s with cpc := .user k }
  | _ => s

/-- the application session is constructed in the step in which `login()` returned the session (an active one: `set_handlers`
    raises `StateError` on a session that is closed or closing) -/
def construct (a : ACfg) (s : St) : St :=
  if !s.built && s.inner.status .D != .absent && !s.inner.closed && !s.inner.closingTask then
    let s := { s with built := true }
    if a.hasMsgCb then ({ s with disp2Set := true }).spawn2 .D2 .dispLoop else s
  else s

/-- an inner event that is not intercepted: the inner step (with `_on_soup_message` for every inner message callback it
    entered), construction, and — if the step entered the inner close callback — `_on_soup_close` up to its first suspension -/
def passInner (a : ACfg) (s : St) (e : Sess.Ev) : St :=
  let s := innerStep a s e
  let s := construct a s
  match closerOf s.inner, s.cpc with
  | some t, .idle => onSoupClose a s t
  | _, _ => s

def stepInner (a : ACfg) (s : St) (e : Sess.Ev) : St :=
  match e with
  | .run t =>
      if closerOf s.inner = some t ∧ s.cpc ≠ .idle then
        if runnableI s t then resumeSoupClose a s t else s
      else passInner a s e
  | .cancel u =>
      -- a cancellation that reaches the closer while it awaits `D2` / `V2` inside `stop_task` is passed on to the awaited
      -- task and swallowed by `stop_task`
      if closerOf s.inner = some (.U u) ∧ s.cpc = .waitD2 then s.cancel2 .D2
      else if closerOf s.inner = some (.U u) ∧ s.cpc = .waitV2 then s.cancel2 .V2
      else passInner a s e
  | _ => passInner a s e

/-- inner events of the user that name the reserved task `U d2u` are refused -/
def reservedEv : Sess.Ev → Bool
  | .run (.U u) => u == d2u
  | .callClose u => u == d2u
  | .callRecv u => u == d2u
  | .callLogin u => u == d2u
  | .cancel u => u == d2u
  | _ => false

/-! ### application-level steps -/

/-- `await app.close()` after its guard, by the application task `t` (program `p` while it waits) -/
def startClose (a : ACfg) (s : St) (t : ATid) (p : AProg) : St :=
  let s := innerStep a { s with evt := some false } .callInitiateClose
  (s.setA t .waitE).setP t p

/-- `await app.close()` after its guard, called from the message callback (by `D2`, the dispatcher task of the second queue; `p` says
    from where: `handlerClose v` the body, `cleanupClose v` the cancellation clean-up): the event is created and
    `await self.soup_session.close()` is carried out by `D2` itself — at once if the soup session is already closed or closing -/
def closeOnD2 (a : ACfg) (s : St) (p : AProg) : St :=
  let s := (({ s with evt := some false } : St).setA .D2 .inSoup).setP .D2 p
  if s.inner.closed then d2Return s else passInner a s (.callClose d2u)

/-- the second dispatcher has taken `v` and entered the user's message callback -/
def dispHandle2 (a : ACfg) (s : St) (v : Nat) : St :=
  match a.msgBeh v with
  | .ret => { (s.emit2 (.msgExit v)) with imm2 := true }
  | .await k => s.setP .D2 (.handler v k)
  | .raise => { (s.emit2 (.msgRaise v)) with imm2 := true }
  | .close =>
      if s.evt.isSome || s.appClosed then { ((s.emit2 (.closeRet (.handler v) .ok)).emit2 (.msgExit v)) with imm2 := true }
      else closeOnD2 a s (.handlerClose v)
  | .awaitCC k => s.setP .D2 (.handlerCC v k)
  | .awaitClose k => s.setP .D2 (.handler v k)

/-- the awaits of the message callback for `v` (run by `t` = `D2`) are over: an `awaitClose` callback now closes the session from
    inside, any other returns -/
def handlerDone (a : ACfg) (s : St) (t : ATid) (v : Nat) : St :=
  match a.msgBeh v with
  | .awaitClose _ =>
      if s.evt.isSome || s.appClosed then
        { (((s.emit2 (.closeRet (.handler v) .ok)).emit2 (.msgExit v)).setP t .dispLoop) with imm2 := true }
      else closeOnD2 a s (.handlerClose v)
  | _ => { ((s.emit2 (.msgExit v)).setP t .dispLoop) with imm2 := true }

def stepDisp2 (a : ACfg) (s : St) : St :=
  if s.q2Closed then s.finish2 .D2
  else if s.rcv2Busy || s.vres2.isSome then s
  else match s.q2 with
    | [] => s.setA .D2 .waitQ
    | v :: q => dispHandle2 a (({ s with q2 := q, gone2 := s.gone2 ++ [(v, true)] }).emit2 (.msgEnter v)) v

def stepRun2 (a : ACfg) (s : St) (t : ATid) : St :=
  let s := { s with imm2 := false }
  match s.astatus t with
  | .cancelled =>
    match s.aprog t with
    | .handler v _ => (s.emit2 (.msgAbandon v)).finish2 t          -- raised into the user's handler; the dispatcher breaks
    | .handlerCC v _ =>
        -- the clean-up of the cancelled callback: `await app.close()`, then the cancellation goes on
        if s.evt.isSome || s.appClosed then ((s.emit2 (.closeRet (.handler v) .ok)).emit2 (.msgAbandon v)).finish2 t
        else closeOnD2 a s (.cleanupClose v)
    | .recvWait u =>
        -- late cancel (`vres2 = some v`): the value goes to the stash `_unclaimed` of the second queue, modelled as `q2` with the
        -- value re-inserted at its head (same argument as in `Sess.stepRun`: `V2` has ended, `D2` is not suspended on `q2` while
        -- a receive is pending, the stash holds at most one value)
        let s := { s with vres2 := none, rcv2Busy := false, q2 := s.vres2.toList ++ s.q2 }
        if s.q2Closed then (s.emit2 (.ret u .eoq)).finish2 t else (s.emit2 (.ret u .cancelled)).finish2 t
    | .closeWait u => (s.emit2 (.closeRet (.user u) .cancelled)).finish2 t
    | _ => s.finish2 t
  | .ready =>
    match s.aprog t with
    | .dispLoop => if t = .D2 then stepDisp2 a s else s
    | .handler v k =>
        match k with
        | 0 => handlerDone a s t v
        | k + 1 => s.setP t (.handler v k)
    | .handlerCC v k =>
        match k with
        | 0 => { ((s.emit2 (.msgExit v)).setP t .dispLoop) with imm2 := true }
        | k + 1 => s.setP t (.handlerCC v k)
    | .vget =>
        match s.q2 with
        | [] => s.setA t .waitQ
        | v :: q => if s.vres2.isSome then s else ({ s with q2 := q, vres2 := some v }).finish2 t
    | .recvWait u =>
        match s.vres2 with
        | some v => ({ s with vres2 := none, rcv2Busy := false, gone2 := s.gone2 ++ [(v, true)] }.emit2 (.ret u (.msg v))).finish2 t
        | none =>
            if s.q2Closed then ({ s with rcv2Busy := false }.emit2 (.ret u .eoq)).finish2 t
            else ({ s with rcv2Busy := false }.emit2 (.ret u .cancelled)).finish2 t
    | .closeWait u => (s.emit2 (.closeRet (.user u) .ok)).finish2 t
    | _ => s       -- `idle`; `handlerClose` / `cleanupClose` go with the status `inSoup`, which is not runnable here
  | _ => s

/-- `await app.receive_message()` by user task `W u` -/
def startRecv2 (s : St) (u : Nat) : St :=
  if s.rcv2Busy || s.vres2.isSome || alive2 (s.astatus .V2) then s    -- two concurrent receives: API misuse, outside the model
  else if s.disp2Set then (s.emit2 (.ret u .state)).setA (.W u) .done
  else match s.q2 with
    | v :: q => (({ s with q2 := q, gone2 := s.gone2 ++ [(v, true)] } : St).emit2 (.ret u (.msg v))).setA (.W u) .done
    | [] =>
        if s.q2Closed then (s.emit2 (.ret u .eoq)).setA (.W u) .done
        else
          let s := ({ s with rcv2Busy := true }).spawn2 .V2 .vget
          (s.setA (.W u) .waitV).setP (.W u) (.recvWait u)

def step (a : ACfg) (s : St) : Ev → St
  | .inner e => if reservedEv e then s else stepInner a s e
  | .run t =>
      if runnable2 s t then stepRun2 a s t
      else if t = .D2 ∧ s.astatus .D2 = .inSoup then stepInner a { s with imm2 := false } (.run (.U d2u))   -- `D2` inside `soup_session.close()`
      else s
  | .appClose u =>
      if s.astatus (.W u) != .absent || !s.built then s
      else if s.evt.isSome || s.appClosed then (s.emit2 (.closeRet (.user u) .ok)).setA (.W u) .done
      else startClose a s (.W u) (.closeWait u)
  | .appRecv u => if s.astatus (.W u) != .absent || !s.built then s else startRecv2 s u
  | .appCancel u => s.cancel2 (.W u)

def runEvs (a : ACfg) (s : St) (evs : List Ev) : St := evs.foldl (step a) s

end NasdaqModel.App
