import NasdaqModel.Py.Basic
import NasdaqModel.Model.GenFix
/-
Model for C17 — histories of code-generator invocations, at the granularity of the generator API.

World = process state (the class-level registries that survive between two invocations in one interpreter, the FIX type tables
        as far as they are shared between calls, and the generator objects that were constructed and are still alive)
      × abstract file system (path ↦ list of chunks; one chunk = the text one `op.write(rendered template)` produced).

An invocation of an entry point is `construct` (parse the spec, build the generator object — the FIX generator evaluates its
template context right there, the ASN.1 generator empties its output directory) followed by `generate` (render and write);
both halves are events of their own (`Ev.construct k i`, `Ev.generate k`), so histories interleave the halves of several
generators as a build script that prepares all generators and then writes them does.

Transcribed from
  common/message/parser.py     `Parser.parse` (class-level `FieldDef.Definitions`, replaced only at a `fielddef-root`)
  common/message/codegen.py    `Generator.__attrs_post_init__`, `generate`, `_generate`  (open(op_file, 'a'))
  fix/parser/definitions.py    `Group.get_codegen_context` (class-level `Group.Contexts`, `Group.UniqueNameCounter`),
                               `Definitions.get_codegen_context`, `_client_session`
  fix/parser/generator.py      `Generator.__attrs_post_init__`, `generate`, `_generate`  (open(op_file, 'a'))
  fix/parser/version_types.py  `get_supported_types` and the four table builders (tables themselves: Model/GenFix.lean)
  fix/parser/parser.py         `parse`: `get_supported_types(version)`, then `types[field.get('type')]` per declared field
  asn1_app/codegen.py          `Ans1Generator.__attrs_post_init__` (shutil.rmtree(op_dir)), `generate`, `_copy_asn1_files`
  tools/new_project.py         `create`, `_write_app_xml` (kept when it exists), `_write_pyproject`, `_write_tox` ('a')

What a template renders is NOT modelled (that is C15/C16): a chunk is the free symbolic application
`template(values the template reads)` — exactly the parts of the spec, of the options and of the *process state* the rendered
text depends on.  Any concrete rendering `Chunk → text` factors through it, so equalities proved here hold for the real text.

The places where the code's behaviour is a defect are switchable through `Semantics` (file-open mode, reset of the class-level
state); `actual` is the code as it is, `fixed` the repaired behaviour (/verif/fixes/C17-*.md), `current` the one the
correspondence check compares the library with.  Import-free (only Py.Basic), executable, structurally recursive.
-/
namespace NasdaqModel.GenHistory
open NasdaqModel

/-- abstract identifier of a field / group name (`f3`, `F3`, `NoG3` in the harness' spec families) -/
abbrev Nm := Nat

/-! ## text helpers (file and module names are real strings: lists of code points) -/

def sInit : Str := [95, 95, 105, 110, 105, 116, 95, 95]          -- "__init__"
def sPy : Str := [46, 112, 121]                                   -- ".py"
def sUnderscore : Str := [95]                                     -- "_"
def sFix : Str := [102, 105, 120, 95]                             -- "fix_"
def sFields : Str := [95, 102, 105, 101, 108, 100, 115]           -- "_fields"
def sGroups : Str := [95, 103, 114, 111, 117, 112, 115]           -- "_groups"
def sBodies : Str := [95, 98, 111, 100, 105, 101, 115]            -- "_bodies"
def sMessages : Str := [95, 109, 101, 115, 115, 97, 103, 101, 115] -- "_messages"
def sApp : Str := [97, 112, 112]                                  -- "app"
def sSpecDir : Str := [115, 112, 101, 99, 47]                     -- "spec/"
def sPyproject : Str := [112, 121, 112, 114, 111, 106, 101, 99, 116, 46, 116, 111, 109, 108]  -- "pyproject.toml"
def sTox : Str := [116, 111, 120, 46, 105, 110, 105]              -- "tox.ini"
def sXml : Str := [46, 120, 109, 108]                             -- ".xml"

inductive Impl where
  | itch | ouch | sqf
  deriving DecidableEq, Repr, Inhabited

def Impl.str : Impl → Str
  | .itch => [105, 116, 99, 104] | .ouch => [111, 117, 99, 104] | .sqf => [115, 113, 102]

/-- `prefix = f'{self.prefix}_' if self.prefix else ''` -/
def prefix_ (p : Str) : Str := if p = [] then [] else p ++ sUnderscore

/-- `name.replace('-', '_')` -/
def srcName (name : Str) : Str := name.map fun c => if c = 45 then 95 else c

/-! ## directories, paths, file system -/

/-- directories.  `out n` is a plain output directory; the other three are the tree `new_project` creates:
    `<target t>/<name>`, `…/src/<name.replace('-','_')>` and `…/src/<…>/<app>`. -/
inductive Dir where
  | out (n : Nat)
  | proj (t : Nat) (name : Str)
  | pkg (t : Nat) (name : Str)
  | app (t : Nat) (name : Str) (app : Str)
  deriving DecidableEq, Repr, Inhabited

/-- `d'` is `d` or lies inside it (what `shutil.rmtree(d)` removes) -/
def Dir.under (d' d : Dir) : Bool :=
  d' = d ||
  match d, d' with
  | .proj t n, .pkg t' n' => t = t' && n = n'
  | .proj t n, .app t' n' _ => t = t' && n = n'
  | .pkg t n, .app t' n' _ => t = t' && n = n'
  | _, _ => false

abbrev Path := Dir × Str

/-- one group class of the FIX groups module, as `Group.Contexts` holds it -/
inductive GEntry where
  | field (n : Nm)                   -- `fix.Entry(fields.F<n>, …)`
  | group (name : Nm) (u : Nat)      -- `fix.Entry(NoG<name>_<u>_List, …)`
  deriving DecidableEq, Repr, Inhabited

structure GCtx where
  name : Nm
  u : Nat                            -- `unique_name = f'{name}_{u}'`
  entries : List GEntry
  deriving DecidableEq, Repr, Inhabited

/-- What one `op.write(chevron.render(template, context))` produced: the template and exactly the context values it reads. -/
inductive Chunk where
  /-- message_soup_app.mustache: impl, app_name, the spec (everything but its field-definition table is a function of `specId`),
      and the datatypes the `def=` references were *resolved to* through `FieldDef.Definitions` -/
  | soupModule (impl : Impl) (app : Str) (specId : Nat) (msgs : List Nat) (resolved : List Nat)
  /-- init.mustache of common/message and of asn1_app: `from .<module> import *` -/
  | initLine (module : Str)
  /-- fields.mustache: every declared field with the class its type name was *resolved to* through the version's type table -/
  | fixFields (specId : Nat) (fields : List Nm) (counts : List Nm) (types : List GenFix.TyCls)
  /-- groups.mustache: module_prefix and **the whole of `Group.Contexts`** -/
  | fixGroups (modPrefix : Str) (ctxs : List GCtx)
  /-- bodies.mustache / messages.mustache: module_prefix, the message, and the unique names handed to its top-level groups -/
  | fixBodies (modPrefix : Str) (specId : Nat) (fields : List Nm) (top : List (Nm × Nat))
  | fixMessages (modPrefix : Str) (specId : Nat) (fields : List Nm) (top : List (Nm × Nat))
  | fixApp (app : Str) (session : Nat)         -- app.mustache: app_name, client_session (Fix44Session / Fix50Session)
  | fixInit (modPrefix : Str)
  | asn1Module (app pdu package : Str)
  | asn1File (content : Nat)                     -- `shutil.copy2` of an input file
  | pyproject (name : Str)
  | tox (src : Str) (apps : List (Str × Impl))
  | appXml
  | userText (n : Nat)                           -- something the user wrote into a file between two runs
  deriving DecidableEq, Repr, Inhabited

/-- path ↦ chunks, in creation order -/
abbrev FS := List (Path × List Chunk)

def read : FS → Path → Option (List Chunk)
  | [], _ => none
  | (q, v) :: rest, p => if q = p then some v else read rest p

def set : FS → Path → List Chunk → FS
  | [], p, v => [(p, v)]
  | (q, w) :: rest, p, v => if q = p then (q, v) :: rest else (q, w) :: set rest p v

/-- `shutil.rmtree(d)` (the directory itself is re-created empty right after) -/
def wipe (fs : FS) (d : Dir) : FS := fs.filter fun e => !(e.1.1.under d)

/-- how a file is opened for writing -/
inductive Mode where
  | append      -- `open(f, 'a')`: previous content kept, new text added at the end
  | truncate    -- `open(f, 'w')`
  | ifAbsent    -- `if f.exists(): return` … `open(f, 'w')`;  also `Path.touch()` (with no chunk)
  deriving DecidableEq, Repr, Inhabited

def write (m : Mode) (fs : FS) (p : Path) (cs : List Chunk) : FS :=
  match m, read fs p with
  | .append, some old => set fs p (old ++ cs)
  | .append, none => set fs p cs
  | .truncate, _ => set fs p cs
  | .ifAbsent, some _ => fs
  | .ifAbsent, none => set fs p cs

/-- the files of directory `d` by name -/
def dirView (fs : FS) (d : Dir) : Str → Option (List Chunk) := fun n => read fs (d, n)

/-- every file that exists in `d` has one of the given names (decidable form of "the directory holds at most a previous
    output of the same target") -/
def dirOnly (fs : FS) (d : Dir) (names : List Str) : Bool :=
  fs.all fun e => !(e.1.1 = d) || names.contains e.1.2

/-! ## the switchable behaviours -/

structure Semantics where
  /-- mode of `Generator._generate` / `Ans1Generator._generate` (three copies of the same function) -/
  genMode : Mode
  /-- `Parser.parse` starts from an empty `FieldDef.Definitions` -/
  resetFieldDefs : Bool
  /-- `Group.Contexts` emptied when a FIX generation starts -/
  resetContexts : Bool
  /-- `Group.UniqueNameCounter` cleared when a FIX generation starts -/
  resetCounter : Bool
  /-- `_write_pyproject` -/
  pyprojMode : Mode
  /-- `_write_tox` -/
  toxMode : Mode
  /-- how `Group.Contexts` is emptied (when `resetContexts`): `true` = `Group.Contexts = []` binds the class attribute to a NEW
      list, so the list a generator object captured in its context (`'groups': Group.Contexts`) is never touched again;
      `false` = `Group.Contexts.clear()` empties the one list every generator object constructed in the process refers to -/
  rebindContexts : Bool
  /-- the four builders of version_types.py make a new dict on every call (`false`: they are `functools.cache`d, and the
      4.4 / 5.0 / 5.0SP2 builders `.update()` the one cached 4.2 dict in place) -/
  freshTypeTables : Bool
  deriving DecidableEq, Repr, Inhabited

/-- the code as it was before a5da5b2 / 6c43d46 / 388f25f (and as `new_project` still is): the one `Group.Contexts` list is
    never emptied nor rebound; the type tables were always built per call -/
def actual : Semantics := ⟨.append, false, false, false, .append, .append, false, true⟩
/-- the repaired behaviour proposed in /verif/fixes/C17-*.md -/
def fixed : Semantics := ⟨.truncate, true, true, true, .ifAbsent, .truncate, true, true⟩
/-- the three generators repaired, `new_project` left as it is (if that one stays a known finding) -/
def fixedGen : Semantics := { fixed with pyprojMode := .append, toxMode := .append }
/-- **the one-line switch**: what the library is claimed to do today (compared with it on every run) -/
def current : Semantics := fixedGen

/-- the generators write their files from scratch and start from clean class-level state -/
def pureGen (s : Semantics) : Bool :=
  s.genMode = .truncate && s.resetFieldDefs && s.resetContexts && s.resetCounter && s.rebindContexts && s.freshTypeTables

def pureProj (s : Semantics) : Bool := s.pyprojMode = .ifAbsent && s.toxMode = .truncate

/-! ## specs and invocations -/

structure SoupSpec where
  id : Nat
  /-- the `fielddef-root` element when the spec has one: (name, datatype) in document order -/
  root : Option (List (Nm × Nat))
  /-- the `def=` references of the fields, in document order -/
  uses : List Nm
  /-- message ids -/
  msgs : List Nat
  deriving DecidableEq, Repr, Inhabited

/-- a `<group>` of the dictionary: its field entries, then its nested groups -/
inductive GTree where
  | mk (name : Nm) (fields : List Nm) (kids : List GTree)
  deriving Repr, Inhabited

structure FixSpec where
  id : Nat
  /-- 42, 44, 50, 502 (`--fix-version`) -/
  version : Nat
  /-- the `F<n>` fields of the dictionary -/
  fields : List Nm
  /-- fields of the message -/
  msgFields : List Nm
  /-- the groups of the message, in order -/
  groups : List GTree
  /-- the NUMINGROUP fields of the dictionary -/
  counts : List Nm
  deriving Repr, Inhabited

structure Asn1Spec where
  /-- input directory: (file name, content id) -/
  files : List (Str × Nat)
  deriving DecidableEq, Repr, Inhabited

/-- the options `app-name`, `prefix`, `init-file` / `no-init-file`, `op-dir`, and (ITCH / OUCH / SQF entry points only; the
    others ignore it) `override-messages` / `no-override-messages` (`true` is the entry points' default).
    `--fix-version` is `FixSpec.version`; `--pdu-name` and `--package-name` are arguments of `Inv.asn1`. -/
structure GenOpts where
  app : Str
  pfx : Str
  init : Bool
  dir : Dir
  override : Bool
  deriving DecidableEq, Repr, Inhabited

inductive Inv where
  | soup (impl : Impl) (spec : SoupSpec) (o : GenOpts)
  | fix (spec : FixSpec) (o : GenOpts)
  | asn1 (spec : Asn1Spec) (pdu package : Str) (o : GenOpts)
  | newProject (t : Nat) (name : Str) (apps : List (Str × Impl))
  | userEdit (p : Path) (n : Nat)
  deriving Repr, Inhabited

/-- one of the three generators (not the project tool, not a user edit) -/
def Inv.isGen : Inv → Bool
  | .soup .. | .fix .. | .asn1 .. => true
  | _ => false

def Inv.dir : Inv → Dir
  | .soup _ _ o | .fix _ o | .asn1 _ _ _ o => o.dir
  | .newProject t name _ => .proj t name
  | .userEdit p _ => p.1

/-- the same invocation into another output directory -/
def Inv.retarget (d : Dir) : Inv → Inv
  | .soup i s o => .soup i s { o with dir := d }
  | .fix s o => .fix s { o with dir := d }
  | .asn1 s pdu pk o => .asn1 s pdu pk { o with dir := d }
  | i => i

inductive Ev where
  | inv (i : Inv)
  | newProcess            -- the following invocations run in a fresh interpreter (file system kept)
  /-- first half of an entry point: parse the spec and construct generator object number `k` (nothing is written) -/
  | construct (k : Nat) (i : Inv)
  /-- second half: `generate()` of generator object `k` -/
  | generate (k : Nat)
  deriving Repr, Inhabited

/-! ## plans: what an invocation writes -/

structure Action where
  path : Path
  mode : Mode
  chunks : List Chunk
  deriving DecidableEq, Repr, Inhabited

structure Plan where
  /-- `shutil.rmtree` executed before anything is written -/
  wipe : Option Dir
  acts : List Action
  /-- the python modules written (for the import check), in generation order -/
  modules : List Str
  deriving DecidableEq, Repr, Inhabited

def applyActs (fs : FS) (acts : List Action) : FS :=
  acts.foldl (fun fs a => write a.mode fs a.path a.chunks) fs

def applyPlan (fs : FS) (pl : Plan) : FS :=
  applyActs (match pl.wipe with | some d => wipe fs d | none => fs) pl.acts

/-- what a generator writes, relative to its output directory (`--op-dir` appears nowhere in it) -/
structure RelAction where
  name : Str
  mode : Mode
  chunks : List Chunk
  deriving DecidableEq, Repr, Inhabited

structure RelPlan where
  /-- `shutil.rmtree(op_dir)` first (ASN.1) -/
  wipe : Bool
  acts : List RelAction
  modules : List Str
  deriving DecidableEq, Repr, Inhabited

def RelAction.at (d : Dir) (a : RelAction) : Action := ⟨(d, a.name), a.mode, a.chunks⟩

def RelPlan.at (d : Dir) (rp : RelPlan) : Plan :=
  ⟨if rp.wipe then some d else none, rp.acts.map (RelAction.at d), rp.modules⟩

/-- the chunks of the last action on file `n` -/
def lastByName : List RelAction → Str → Option (List Chunk)
  | [], _ => none
  | a :: rest, n =>
    match lastByName rest n with
    | some cs => some cs
    | none => if a.name = n then some a.chunks else none

/-! ## process state -/

/-- `fix/parser/version_types.py` when its builders are `functools.cache`d: there is then ONE dict object — the one the
    cached `_fix_42_version_types()` returned — which the 4.4 / 5.0 / 5.0SP2 builders update in place the first (only) time
    each of them runs, and which all four hand out from then on.  (Unused when the builders make a new dict per call.) -/
structure TCache where
  /-- the content of that dict object; `none`: `_fix_42_version_types()` has not run yet -/
  dict : Option GenFix.TypeTable
  /-- `_fix_44_version_types()` / `_fix_50_version_types()` / `_fix_502_version_types()` ran (their result is cached) -/
  done44 : Bool
  done50 : Bool
  done502 : Bool
  deriving DecidableEq, Repr, Inhabited

/-- a generator object that was constructed and not yet garbage: what its `generate()` will write -/
structure GenObj where
  /-- `self.op_dir` -/
  dir : Dir
  /-- the files `generate()` writes, with the context captured at construction -/
  acts : List RelAction
  modules : List Str
  /-- FIX only.  `self._context['groups']` is *the list object* `Group.Contexts` was bound to when the generator was constructed.
      `none`: nothing refers to that object but this generator (the class attribute was bound to a new list since, or will be
      before anything is appended), its content is what `acts` holds.  `some mp`: it is still the class attribute's list —
      `generate()` renders the groups module (`mp`_groups.py) from whatever `Group.Contexts` holds at that moment. -/
  sharedGroups : Option Str
  deriving DecidableEq, Repr, Inhabited

structure ProcState where
  /-- `FieldDef.Definitions` (common/message/parser.py:47): name ↦ datatype, in dict insertion order -/
  fieldDefs : List (Nm × Nat)
  /-- `Group.Contexts` (fix/parser/definitions.py:92) -/
  contexts : List GCtx
  /-- `Group.UniqueNameCounter` (definitions.py:93): name ↦ how many unique names were handed out -/
  counter : List (Nm × Nat)
  /-- the cached FIX type tables -/
  types : TCache
  /-- the live generator objects, by the number the history gives them -/
  gens : List (Nat × GenObj)
  deriving DecidableEq, Repr, Inhabited

/-- a fresh interpreter -/
def st0 : ProcState := ⟨[], [], [], ⟨none, false, false, false⟩, []⟩

structure World where
  st : ProcState
  fs : FS
  deriving DecidableEq, Repr, Inhabited

def w0 : World := ⟨st0, []⟩

def getGen : List (Nat × GenObj) → Nat → Option GenObj
  | [], _ => none
  | (j, g) :: rest, k => if j = k then some g else getGen rest k

def setGen : List (Nat × GenObj) → Nat → GenObj → List (Nat × GenObj)
  | [], k, g => [(k, g)]
  | (j, h) :: rest, k, g => if j = k then (j, g) :: rest else (j, h) :: setGen rest k g

/-- `dict[name]` on a dict built by `{f.name: f for f in fields}` (a later duplicate wins) -/
def lookupLast : List (Nm × Nat) → Nm → Except Err Nat
  | [], _ => .error .key
  | (k, v) :: rest, n =>
    match lookupLast rest n with
    | .ok v' => .ok v'
    | .error _ => if k = n then .ok v else .error .key

def resolveAll (tbl : List (Nm × Nat)) : List Nm → Except Err (List Nat)
  | [] => .ok []
  | n :: rest =>
    match lookupLast tbl n with
    | .error e => .error e
    | .ok v =>
      match resolveAll tbl rest with
      | .error e => .error e
      | .ok vs => .ok (v :: vs)

/-- the `key = f'{msg.id}-{msg.group}-{msg.direction}'` of the k-th, (k+1)-th … message of the harness' spec family: the id and
    the direction (`incoming` for even k, `outgoing` for odd k) -/
def msgKeys : Nat → List Nat → List (Nat × Nat)
  | _, [] => []
  | k, i :: rest => (i, k % 2) :: msgKeys (k + 1) rest

/-- some key occurs twice -/
def dupKey : List (Nat × Nat) → Bool
  | [] => false
  | a :: rest => rest.contains a || dupKey rest

/-- the keys of `messages = {}; messages[key] = msg …` in dict order (a repeated key keeps its first position) -/
def dictKeys : List (Nat × Nat) → List (Nat × Nat) → List (Nat × Nat)
  | seen, [] => seen
  | seen, a :: rest => if seen.contains a then dictKeys seen rest else dictKeys (seen ++ [a]) rest

/-- the `def=` references of the spec family sit in the FIRST message: when a later message has the same key
    (`override_messages`: it replaces the first one in the dict), the module shows none of the resolved datatypes -/
def shownTypes (msgs : List Nat) (resolved : List Nat) : List Nat :=
  match msgKeys 0 msgs with
  | k0 :: rest => if rest.contains k0 then [] else resolved
  | [] => resolved

/-- ITCH / OUCH / SQF: `Parser.parse(spec_file, override_messages)` then `Generator(...).generate()` -/
def planSoup (sem : Semantics) (st : ProcState) (impl : Impl) (spec : SoupSpec) (o : GenOpts) :
    ProcState × Except Err RelPlan :=
  -- Parser.parse: `FieldDef.Definitions` is a class attribute; it is assigned only `elif element.tag == 'fielddef-root'`
  let tbl0 := if sem.resetFieldDefs then [] else st.fieldDefs
  let tbl := match spec.root with
    | some r => r
    | none => tbl0
  let st' := { st with fieldDefs := tbl }
  -- `_parse_field`: `copy.deepcopy(FieldDef.Definitions[element.get('def')])`  → KeyError
  match resolveAll tbl spec.uses with
  | .error e => (st', .error e)
  | .ok resolved =>
    -- `_parse_messages`: `if key in messages and not override_messages: raise ValueError` (messages-root comes after the
    -- field definitions, records and enums in the spec files; with `override_messages` the later declaration wins)
    if !o.override && dupKey (msgKeys 0 spec.msgs) then (st', .error .value) else
    let modName := prefix_ o.pfx ++ impl.str ++ sUnderscore ++ o.app
    let modAct : RelAction := ⟨modName ++ sPy, sem.genMode, [.soupModule impl o.app spec.id spec.msgs (shownTypes spec.msgs resolved)]⟩
    let initAct : RelAction := ⟨sInit ++ sPy, sem.genMode, [.initLine modName]⟩
    (st', .ok ⟨false, if o.init then [modAct, initAct] else [modAct], [modName]⟩)

/-- the class-level state of `fix.parser.definitions.Group` -/
structure FixState where
  contexts : List GCtx
  counter : List (Nm × Nat)
  deriving DecidableEq, Repr, Inhabited

/-- `next(Group.UniqueNameCounter[name])` with `defaultdict(lambda: count(1))` -/
def nextU : List (Nm × Nat) → Nm → Nat × List (Nm × Nat)
  | [], n => (1, [(n, 1)])
  | (k, c) :: rest, n =>
    if k = n then (c + 1, (k, c + 1) :: rest)
    else
      let r := nextU rest n
      (r.1, (k, c) :: r.2)

mutual
/-- `Group.get_codegen_context`: a unique name is taken, the nested entries are evaluated **twice** (once for the returned
    context, once for the dict appended to `Group.Contexts`), so every nested group is given two names and two classes. -/
def ctxGroup (s : FixState) : GTree → FixState × (Nm × Nat)
  | .mk name fields kids =>
    let r := nextU s.counter name
    let s1 : FixState := { s with counter := r.2 }
    let k1 := ctxKids s1 kids                    -- 'entries' of group_context
    let k2 := ctxKids k1.1 kids                  -- 'entries' of the dict appended to Group.Contexts
    let ctx : GCtx := ⟨name, r.1, fields.map .field ++ k2.2.map fun x => .group x.1 x.2⟩
    ({ k2.1 with contexts := k2.1.contexts ++ [ctx] }, (name, r.1))
def ctxKids (s : FixState) : List GTree → FixState × List (Nm × Nat)
  | [] => (s, [])
  | g :: rest =>
    let a := ctxGroup s g
    let b := ctxKids a.1 rest
    (b.1, a.2 :: b.2)
end

/-- `Definitions._client_session` knows 4.2 (since b154f58), 4.4, 5.0, 5.0SP2 and raises ValueError for anything else
    (the CLI offers nothing else) -/
def versionOk (v : Nat) : Bool := v = 42 || v = 44 || v = 50 || v = 502

/-- `'Fix42Session'` / `'Fix44Session'` / `'Fix50Session'` -/
def clientSession (v : Nat) : Nat := if v = 42 then 42 else if v = 44 then 44 else 50

/-! ### `version_types.py` -/

abbrev TypeTable := GenFix.TypeTable

/-- what `_fix_44_version_types` / `_fix_50_version_types` / `_fix_502_version_types` `.update()` the table they start from with -/
def upd44 : TypeTable := [(GenFix.lit "SEQNUM", .FixInt), (GenFix.lit "NUMINGROUP", .FixInt)]
def upd50 : TypeTable :=
  [(GenFix.lit "FIXSTRING", .FixString), (GenFix.lit "MULTIPLECHARVALUE", .FixString), (GenFix.lit "NUMINGROUP", .FixInt), (GenFix.lit "SEQNUM", .FixInt)]
def upd502 : TypeTable :=
  [(GenFix.lit "LOCALMKTDATE", .FixLocalMktDate), (GenFix.lit "TZTIMEONLY", .FixTzTimeonly), (GenFix.lit "MULTIPLESTRINGVALUE", .FixMultipleValueString)]

/-- `@cache def _fix_42_version_types()`: builds the dict once, returns that object ever after -/
def cached42 (c : TCache) : TCache × TypeTable :=
  match c.dict with
  | some d => (c, d)
  | none => ({ c with dict := some GenFix.types42 }, GenFix.types42)

/-- `@cache def _fix_44_version_types()`: the first call updates the (cached) 4.2 dict in place and returns it -/
def cached44 (c : TCache) : TCache × TypeTable :=
  if c.done44 then cached42 c
  else
    let r := cached42 c
    let d := GenFix.updateAll r.2 upd44
    ({ r.1 with dict := some d, done44 := true }, d)

def cached50 (c : TCache) : TCache × TypeTable :=
  if c.done50 then cached42 c
  else
    let r := cached42 c
    let d := GenFix.updateAll r.2 upd50
    ({ r.1 with dict := some d, done50 := true }, d)

/-- `_fix_502_version_types` starts from `_fix_50_version_types()` -/
def cached502 (c : TCache) : TCache × TypeTable :=
  if c.done502 then cached42 c
  else
    let r := cached50 c
    let d := GenFix.updateAll r.2 upd502
    ({ r.1 with dict := some d, done502 := true }, d)

/-- the documented table of a version (a new dict per call: `GenFix.supportedTypes`) -/
def tableOf (v : Nat) : Except Err TypeTable :=
  if v = 42 then .ok GenFix.types42 else if v = 44 then .ok GenFix.types44 else if v = 50 then .ok GenFix.types50
  else if v = 502 then .ok GenFix.types502 else .error .value

/-- `get_supported_types(version)`: ValueError for a version it does not know -/
def typesFor (sem : Semantics) (c : TCache) (v : Nat) : TCache × Except Err TypeTable :=
  if sem.freshTypeTables then (c, tableOf v)
  else if v = 42 then ((cached42 c).1, .ok (cached42 c).2)
  else if v = 44 then ((cached44 c).1, .ok (cached44 c).2)
  else if v = 50 then ((cached50 c).1, .ok (cached50 c).2)
  else if v = 502 then ((cached502 c).1, .ok (cached502 c).2)
  else (c, .error .value)

/-- every FIX type name of version_types.py, in the order of the 5.0SP2 table -/
def allTypeNames : List Str := GenFix.types502.map (·.1)

/-- the `type=` attribute of the dictionary field `F<n>` in the harness' spec family: INT / STRING by parity below 10, from
    10 on the (n-10)-th type name (mod 29) — every name occurs, documented for the version or not -/
def declTy (n : Nm) : Str :=
  if n < 10 then (if n % 2 = 1 then GenFix.lit "INT" else GenFix.lit "STRING")
  else allTypeNames.getD ((n - 10) % allTypeNames.length) []

/-- `types[field.get('type')]` for the declared fields in document order; KeyError at the first unknown name -/
def resolveTypes (tbl : TypeTable) : List Str → Except Err (List GenFix.TyCls)
  | [] => .ok []
  | t :: rest =>
    match GenFix.aget t tbl with
    | none => .error .key
    | some c =>
      match resolveTypes tbl rest with
      | .error e => .error e
      | .ok cs => .ok (c :: cs)

/-- the type names of the `<fields>` section that are not the same in every spec: the `F<n>` fields, then the group count
    fields (NUMINGROUP — which the 4.2 table does not have).  (BeginString, BodyLength, MsgType, CheckSum, Own<id> are STRING /
    LENGTH / INT, known to every version.) -/
def declared (spec : FixSpec) : List Str := spec.fields.map declTy ++ spec.counts.map fun _ => GenFix.lit "NUMINGROUP"

/-- FIX: `parse(spec_file, version)` — `get_supported_types(version)`, then the declared field types are looked up — then
    `Generator(...)`, whose `__attrs_post_init__` already evaluates `definitions.get_codegen_context()`, then `.generate()` -/
def planFix (sem : Semantics) (st : ProcState) (spec : FixSpec) (o : GenOpts) : ProcState × Except Err RelPlan :=
  let t := typesFor sem st.types spec.version
  let st := { st with types := t.1 }
  match t.2 with
  | .error e => (st, .error e)
  | .ok tbl =>
  match resolveTypes tbl (declared spec) with
  | .error e => (st, .error e)
  | .ok resolved =>
  let s0 : FixState := ⟨if sem.resetContexts then [] else st.contexts, if sem.resetCounter then [] else st.counter⟩
  -- `message_context = [message.get_codegen_context(self) …]` is evaluated first and mutates Group.Contexts / the counters
  let k := ctxKids s0 spec.groups
  let st' := { st with contexts := k.1.contexts, counter := k.1.counter }
  -- `'client_session': self._client_session()` raises ValueError for an unknown version — after the mutation
  if !versionOk spec.version then (st', .error .value)
  else
    let mp := prefix_ o.pfx ++ sFix ++ o.app
    let f (suffix : Str) (c : Chunk) : RelAction := ⟨mp ++ suffix ++ sPy, sem.genMode, [c]⟩
    let acts : List RelAction := [
      f sFields (.fixFields spec.id spec.fields spec.counts resolved),
      f sGroups (.fixGroups mp k.1.contexts),                 -- `'groups': Group.Contexts`
      f sBodies (.fixBodies mp spec.id spec.msgFields k.2),
      f sMessages (.fixMessages mp spec.id spec.msgFields k.2),
      ⟨sApp ++ sPy, sem.genMode, [.fixApp o.app (clientSession spec.version)]⟩ ]
    let initAct : RelAction := ⟨sInit ++ sPy, sem.genMode, [.fixInit mp]⟩
    (st', .ok ⟨false, if o.init then acts ++ [initAct] else acts,
      [mp ++ sFields, mp ++ sGroups, mp ++ sBodies, mp ++ sMessages, sApp]⟩)

/-- ASN.1: `Ans1Generator.__attrs_post_init__` removes the output directory, `generate` writes the module, the init file
    and copies the input files to `<op_dir>/spec/` -/
def planAsn1 (sem : Semantics) (st : ProcState) (spec : Asn1Spec) (pdu package : Str) (o : GenOpts) :
    ProcState × Except Err RelPlan :=
  let modName := prefix_ o.pfx ++ o.app
  let modAct : RelAction := ⟨modName ++ sPy, sem.genMode, [.asn1Module o.app pdu package]⟩
  let initAct : RelAction := ⟨sInit ++ sPy, sem.genMode, [.initLine modName]⟩
  let copies : List RelAction := spec.files.map fun f => ⟨sSpecDir ++ f.1, .truncate, [.asn1File f.2]⟩
  (st, .ok ⟨true, (if o.init then [modAct, initAct] else [modAct]) ++ copies, [modName]⟩)

/-- `_validate_applications`: an application name given twice is rejected -/
def dupApps : List (Str × Impl) → Bool
  | [] => false
  | a :: rest => rest.any (fun b => b.1 = a.1) || dupApps rest

/-- `nasdaq-protocols-create-new-project` -/
def planNewProject (sem : Semantics) (st : ProcState) (t : Nat) (name : Str) (apps : List (Str × Impl)) :
    ProcState × Except Err Plan :=
  if dupApps apps then (st, .error .other)        -- click.ClickException
  else
    -- `_write_app_xml`: `if app_info.app_xml.exists(): return` … `open(app_xml, 'w')`
    let xmls : List Action := apps.map fun a => ⟨(.app t name a.1, a.1 ++ sXml), .ifAbsent, [.appXml]⟩
    -- `Path(project_module_dir / '__init__.py').touch()`
    let touch : Action := ⟨(.pkg t name, sInit ++ sPy), .ifAbsent, []⟩
    let pyproj : Action := ⟨(.proj t name, sPyproject), sem.pyprojMode, [.pyproject name]⟩
    let tox : Action := ⟨(.proj t name, sTox), sem.toxMode, [.tox (srcName name) apps]⟩
    (st, .ok ⟨none, xmls ++ [touch, pyproj, tox], []⟩)

/-- the three generators, relative to the output directory (for the other invocations: nothing) -/
def planGen (sem : Semantics) (st : ProcState) : Inv → ProcState × Except Err RelPlan
  | .soup impl spec o => planSoup sem st impl spec o
  | .fix spec o => planFix sem st spec o
  | .asn1 spec pdu package o => planAsn1 sem st spec pdu package o
  | _ => (st, .ok ⟨false, [], []⟩)

def plan (sem : Semantics) (st : ProcState) : Inv → ProcState × Except Err Plan
  | .newProject t name apps => planNewProject sem st t name apps
  | .userEdit p n => (st, .ok ⟨none, [⟨p, .truncate, [.userText n]⟩], []⟩)
  | i =>
    let r := planGen sem st i
    match r.2 with
    | .ok rp => (r.1, .ok (rp.at i.dir))
    | .error e => (r.1, .error e)

/-- one invocation: the new world and the outcome (`ok` or the exception class that escaped; nothing is written then,
    because every failure modelled here happens before the first `open`) -/
def invoke (sem : Semantics) (w : World) (i : Inv) : World × Except Err Unit :=
  let r := plan sem w.st i
  match r.2 with
  | .ok pl => (⟨r.1, applyPlan w.fs pl⟩, .ok ())
  | .error e => (⟨r.1, w.fs⟩, .error e)

/-! ### the two halves of an invocation -/

/-- does the FIX generator's context keep referring to the class attribute's list?  Not when every generation starts by
    binding `Group.Contexts` to a new list (`resetContexts` and `rebindContexts`): then the captured list is the generator's own. -/
def sharedGroupsOf (sem : Semantics) : Inv → Option Str
  | .fix _ o => if sem.resetContexts && sem.rebindContexts then none else some (prefix_ o.pfx ++ sFix ++ o.app)
  | _ => none

/-- the entry point up to (not including) its call of `generate()`: the spec is parsed and generator object `k` constructed.
    Everything that can fail in the modelled spec families fails here; the ASN.1 generator's constructor empties `op_dir`;
    nothing is written. -/
def construct (sem : Semantics) (w : World) (k : Nat) (i : Inv) : World × Except Err Unit :=
  match (planGen sem w.st i).2 with
  | .error e => (⟨(planGen sem w.st i).1, w.fs⟩, .error e)
  | .ok rp =>
    (⟨{ (planGen sem w.st i).1 with
          gens := setGen (planGen sem w.st i).1.gens k ⟨i.dir, rp.acts, rp.modules, sharedGroupsOf sem i⟩ },
      if rp.wipe then wipe w.fs i.dir else w.fs⟩, .ok ())

/-- what `generate()` of a generator object writes *now*: the captured context, except for a groups list that is shared -/
def GenObj.actsNow (obj : GenObj) (st : ProcState) : List RelAction :=
  match obj.sharedGroups with
  | none => obj.acts
  | some mp => obj.acts.map fun a =>
      if a.name = mp ++ sGroups ++ sPy then { a with chunks := [.fixGroups mp st.contexts] } else a

/-- `generate()` of generator object `k` (`Err.state`: there is no such object — its construction failed or it belongs to
    another process) -/
def generate (_sem : Semantics) (w : World) (k : Nat) : World × Except Err Unit :=
  match getGen w.st.gens k with
  | none => (w, .error .state)
  | some obj => (⟨w.st, applyActs w.fs ((obj.actsNow w.st).map (RelAction.at obj.dir))⟩, .ok ())

def step (sem : Semantics) (w : World) : Ev → World
  | .inv i => (invoke sem w i).1
  | .newProcess => ⟨st0, w.fs⟩
  | .construct k i => (construct sem w k i).1
  | .generate k => (generate sem w k).1

def run (sem : Semantics) (w : World) (evs : List Ev) : World := evs.foldl (step sem) w

/-- the names an invocation writes in its own directory (state independent) -/
def targetNames : Inv → List Str
  | .soup impl _ o =>
    let m := prefix_ o.pfx ++ impl.str ++ sUnderscore ++ o.app
    if o.init then [m ++ sPy, sInit ++ sPy] else [m ++ sPy]
  | .fix _ o =>
    let mp := prefix_ o.pfx ++ sFix ++ o.app
    [mp ++ sFields ++ sPy, mp ++ sGroups ++ sPy, mp ++ sBodies ++ sPy, mp ++ sMessages ++ sPy, sApp ++ sPy]
      ++ (if o.init then [sInit ++ sPy] else [])
  | .asn1 spec _ _ o =>
    let m := prefix_ o.pfx ++ o.app
    (if o.init then [m ++ sPy, sInit ++ sPy] else [m ++ sPy]) ++ spec.files.map fun f => sSpecDir ++ f.1
  | .newProject .. => [sPyproject, sTox]
  | .userEdit p _ => [p.2]

/-! ## importing a generated package -/

/-- names bound in / looked up from a module namespace -/
inductive Sym where
  | fld (n : Nm)            -- field class `F<n>`
  | cnt (g : Nm)            -- NUMINGROUP field class `NoG<g>`
  | grp (g : Nm) (u : Nat)  -- `NoG<g>_<u>_List` (defined right after `NoG<g>_<u>`)
  deriving DecidableEq, Repr, Inhabited

/-- registrations that are checked for duplicates when a class statement executes -/
inductive Reg where
  /-- `CommonMessage.MsgIdToClsMap[app][msg_id]`; ids of different protocols never compare equal; an OUCH id is
      (indicator, direction), an ITCH / SQF id is the indicator alone (`dir` is 0 for them) -/
  | msg (impl : Impl) (app : Str) (id : Nat) (dir : Nat)
  | asn1 (app : Str)                           -- `Asn1Spec.SpecMap[spec_name]`
  deriving DecidableEq, Repr, Inhabited

/-- one class statement (or import statement) of a module body -/
inductive Stmt where
  | imp (m : Str)                      -- `from .m import *` / `from . import m as …`
  | need (m : Str) (s : Sym)           -- evaluates `<alias of m>.<s>`      (AttributeError when missing)
  | needLocal (s : Sym)                -- evaluates a global of this module (NameError when missing)
  | define (s : Sym)
  | register (r : Reg)                 -- DuplicateMessageException when already registered (a re-executed class statement
                                       -- creates a new class object, which is `!=` the registered one)
  deriving DecidableEq, Repr, Inhabited

/-- the registrations of the message classes of a soup-app module: the k-th message of the harness' spec family is
    `incoming` for even k and `outgoing` for odd k -/
def msgRegs (impl : Impl) (app : Str) (k : Nat) (msgs : List Nat) : List Stmt :=
  -- the module holds one class per *key* (`override_messages`: a repeated key replaced the earlier message)
  (dictKeys [] (msgKeys k msgs)).map fun x => .register (.msg impl app x.1 (if impl = .ouch then x.2 else 0))

def ctxStmts (mp : Str) (c : GCtx) : List Stmt :=
  (c.entries.map fun e => match e with
    | .field n => Stmt.need (mp ++ sFields) (.fld n)
    | .group g u => Stmt.needLocal (.grp g u))
  ++ [.need (mp ++ sFields) (.cnt c.name), .define (.grp c.name c.u)]

/-- what executing a chunk does, as far as importing is concerned -/
def stmts : Chunk → List Stmt
  | .soupModule impl app _ msgs _ => msgRegs impl app 0 msgs
  | .initLine m => [.imp m]
  | .fixFields _ fields counts _ => fields.map (fun n => .define (.fld n)) ++ counts.map fun g => .define (.cnt g)
  | .fixGroups mp ctxs => .imp (mp ++ sFields) :: ctxs.flatMap (ctxStmts mp)
  | .fixBodies mp _ fields top =>
    [.imp (mp ++ sFields), .imp (mp ++ sGroups)] ++ fields.map (fun n => .need (mp ++ sFields) (.fld n))
      ++ top.map fun x => .need (mp ++ sGroups) (.grp x.1 x.2)
  | .fixMessages mp _ _ _ => [.imp (mp ++ sGroups), .imp (mp ++ sBodies), .imp sApp]
  | .fixApp _ _ => []
  | .fixInit mp => [.imp (mp ++ sFields), .imp (mp ++ sGroups), .imp (mp ++ sBodies), .imp (mp ++ sMessages), .imp sApp]
  | .asn1Module app _ _ => [.register (.asn1 app)]
  | _ => []

structure IState where
  loaded : List Str
  defs : List (Str × Sym)
  regs : List Reg
  deriving DecidableEq, Repr, Inhabited

/-- `import <package>.<m>` with the files of the package given by `view`; `fuel` bounds the import depth -/
def importModule : Nat → (Str → Option (List Chunk)) → IState → Str → Except Err IState
  | 0, _, _, _ => .error .other
  | fuel + 1, view, s, m =>
    if s.loaded.contains m then .ok s
    else
      match view (m ++ sPy) with
      | none => .error .other                                   -- ModuleNotFoundError
      | some chunks =>
        (chunks.flatMap stmts).foldlM (init := { s with loaded := m :: s.loaded }) fun s st =>
          match st with
          | .imp m' => importModule fuel view s m'
          | .need m' y => if s.defs.contains (m', y) then .ok s else .error .attr
          | .needLocal y => if s.defs.contains (m, y) then .ok s else .error .other     -- NameError
          | .define y => .ok { s with defs := (m, y) :: s.defs }
          | .register r => if s.regs.contains r then .error .dup else .ok { s with regs := r :: s.regs }

/-- import the package (when it has an `__init__.py`; the package is "module" `__init__`), then the given modules -/
def importPkg (view : Str → Option (List Chunk)) (modules : List Str) : Except Err Unit :=
  let order := (if (view (sInit ++ sPy)).isSome then [sInit] else []) ++ modules
  match order.foldlM (importModule 8 view) (⟨[], [], []⟩ : IState) with
  | .ok _ => .ok ()
  | .error e => .error e

/-- the observable "import of the resulting package" right after invocation `i` ran in world `w` giving `w'`:
    the package of `i`'s directory, then the modules `i` generated -/
def importAfter (sem : Semantics) (w : World) (i : Inv) : Except Err Unit :=
  match (plan sem w.st i).2 with
  | .ok pl => importPkg (dirView (invoke sem w i).1.fs i.dir) pl.modules
  | .error e => .error e

/-- the same observable right after `generate()` of generator object `k` -/
def importAfterGenerate (sem : Semantics) (w : World) (k : Nat) : Except Err Unit :=
  match getGen w.st.gens k with
  | none => .error .state
  | some obj => importPkg (dirView (generate sem w k).1.fs obj.dir) obj.modules

/-- a configuration file (pyproject.toml, tox.ini) parses iff it is not the concatenation of several renderings
    (each rendering opens the `[project]` / `[tox]` section again) -/
def configValid (f : Option (List Chunk)) : Bool :=
  match f with
  | some cs => cs.length ≤ 1
  | none => true

end NasdaqModel.GenHistory
