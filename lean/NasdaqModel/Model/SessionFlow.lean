import NasdaqModel.Model.Session
/-
The session machine of Model/Session.lean on a transport that exercises WRITE flow control (C05, seeded change C05l) — import-free,
executable.

An asyncio socket transport calls `protocol.pause_writing()` once what the peer has not read exceeds its high-water mark and
`protocol.resume_writing()` once the peer has read it down again; when it does so is decided by the peer: for the session these are
external events at arbitrary positions of a history.  What the code under verification does with them (transcribed):

  common/session.py   `class AsyncSession(asyncio.Protocol, …)` defines neither `pause_writing` nor `resume_writing`
                      (asyncio/protocols.py `BaseProtocol`: both bodies are a docstring only);
  soup/session.py     `SoupSession.send_msg` writes unconditionally; `logout()` = `send_msg(LogoutRequest())` then
                      `initiate_close()`, `SoupServerSession.end_session()` = `send_msg(EndOfSession())` then `initiate_close()`:
                      the farewell message goes out BEFORE the close is initiated, so anything that made that send raise would keep
                      the close from ever starting;
  `close()`, `initiate_close()`, `connection_lost()`, the monitors and the reader never look at the transport's write side.

`FSt` adds the transport's `_protocol_paused` flag to `Sess.St`; no transition of the session reads it.
-/
namespace NasdaqModel.SessFlow
open NasdaqModel.Sess

structure FSt where
  s : St
  writingPaused : Bool := false      -- the transport's `_protocol_paused`
  deriving Inhabited

inductive FEv where
  | base (e : Ev)        -- an event of Model/Session.lean
  | pauseWriting         -- the transport calls `protocol.pause_writing()`
  | resumeWriting        -- the transport calls `protocol.resume_writing()`
  deriving DecidableEq, Repr, Inhabited

def FSt.step (cfg : Cfg) (x : FSt) : FEv → FSt
  | .pauseWriting => { x with writingPaused := true }        -- `BaseProtocol.pause_writing`: no body
  | .resumeWriting => { x with writingPaused := false }      -- `BaseProtocol.resume_writing`: no body
  | .base e => { x with s := Sess.step cfg x.s e }                -- the session does not consult the flag

def FSt.run (cfg : Cfg) (x : FSt) (evs : List FEv) : FSt := evs.foldl (FSt.step cfg) x

/-- the history as the session's own transitions see it: without the transport's callbacks -/
def baseOnly : List FEv → List Ev
  | [] => []
  | .base e :: rest => e :: baseOnly rest
  | _ :: rest => baseOnly rest

/-! ### NOT the code: sends refused while the transport is paused

A back-pressure feature is tempted to refuse application sends while the transport is paused (raise instead of growing a backlog).
`logout()` / `end_session()` are "send the farewell, then `initiate_close()`": with such a refusal the call raises before the close is
initiated.  `stepRefusing` is that design — what `C05Flow_logout_initiates_close` is sensitive to. -/
def FSt.stepRefusing (cfg : Cfg) (x : FSt) : FEv → FSt
  | .pauseWriting => { x with writingPaused := true }
  | .resumeWriting => { x with writingPaused := false }
  | .base Ev.callLogout => if x.writingPaused then x else { x with s := Sess.step cfg x.s .callLogout }      -- raises: nothing happened
  | .base Ev.callSend => if x.writingPaused then x else { x with s := Sess.step cfg x.s .callSend }
  | .base e => { x with s := Sess.step cfg x.s e }

def FSt.runRefusing (cfg : Cfg) (x : FSt) (evs : List FEv) : FSt := evs.foldl (FSt.stepRefusing cfg) x

end NasdaqModel.SessFlow
