import NasdaqModel.Model.SeqSeg
import NasdaqModel.Model.SeqMulti
/-
`FixSession.send_msg` on message OBJECTS (property C10).

In Model/Seq.lean and Model/SeqSeg.lean a message is a VALUE: every send hands `send_msg` a fresh `FixMsg` / `SegMsg`.  The library's
messages are mutable objects and `send_msg` writes into the one it is given:

      msg.validate(segments=[BODY])                     -- ValueError: nothing touched, neither the session nor the object
      msg.Header.SenderSubID = …; TargetCompID; SenderCompID
      seq_num = next(self.sequence)
      msg.Header.MsgSeqNum = seq_num                    -- the number STAYS on the object after the call, whatever happens next
      msg.Header.SendingTime = …
      try:    data = self._prepare_complete_msg(msg)
      except: self.sequence = count(seq_num); raise     -- the number saved in the LOCAL `seq_num` is given back
      self._transport.write(data)

So an application that sends the same object again, sends a message it got from the reader (its header carries the PEER's MsgSeqNum),
or sets `msg.Header.MsgSeqNum` itself hands `send_msg` an object whose header already holds a number that has nothing to do with the
session's counter.  This file adds object identity to the operation language: a heap of message objects (id = position), each with the
number its header carries (`stamp`) and what `send_msg` can observe of it segment by segment (`SegMsg`); operations name objects.

  send i          `send_msg(obj_i)`
  login i         `login(obj_i)` up to its first await: `_initialize_session(obj_i)` reads `obj_i.Header.MsgSeqNum`, then `send_msg(obj_i)`
  heartbeat m     `send_heartbeat()`: a message object built for this one send
  mutate i m      the application changes object i in place (a mandatory body field removed / put back, `msg.Body` replaced, a text that
                  cannot be serialised put into / taken out of the header, the body or the trailer): what `send_msg` observes is now `m`;
                  the header keeps the number it carries
  setStamp i n    `obj_i.Header.MsgSeqNum = n` (`some n`: set by the application, or object i is now a message the reader decoded from a
                  frame numbered n) / the field removed, `msg.Header` replaced (`none`)

`objSendR` is the code as it is.  `objSendStale` is NOT the code: the rollback after a failed send reads the number back from the
object (`if 'MsgSeqNum' in msg.Header: self.sequence = count(msg.Header.MsgSeqNum)` in one `except` around validation, stamping and
serialisation) — right when serialisation fails (the header holds the number just drawn), wrong when validation refuses an object that
carries a number from earlier.  `Witness/C10Obj.lean` decides the histories on which it repeats numbers.
-/
namespace NasdaqModel.SeqNum
open NasdaqModel

/-- a message object -/
structure Obj where
  stamp : Option Int      -- `msg.Header.MsgSeqNum` when `'MsgSeqNum' in msg.Header`
  msg : SegMsg            -- what `send_msg` observes of the object as it is now
  deriving Repr, DecidableEq, Inhabited

/-- the message objects the application holds; the object id is the position -/
abbrev Heap := List Obj

structure OSt where
  sess : FixSt
  heap : Heap
  deriving Repr, DecidableEq

inductive ObjOp where
  | send (i : Nat)
  | login (i : Nat)
  | heartbeat (m : SegMsg)
  | mutate (i : Nat) (m : SegMsg)
  | setStamp (i : Nat) (n : Option Int)
  deriving Repr, DecidableEq

def ObjOp.isLogin : ObjOp → Bool
  | .login _ => true
  | _ => false

/-- `send_msg(obj)`, the code as it is: new session state, the object afterwards, what the caller observes -/
def objSendR (s : FixSt) (o : Obj) : FixSt × Obj × FixOut :=
  if !o.msg.bodyValid then (s, o, .rejected)
  else match s.next with
    | none => (s, o, .notLoggedIn)                             -- TypeError at the first header assignment (comp ids are None)
    | some n =>
      if o.msg.toMsg.encodable then
        ({ next := some (n + 1), frames := s.frames ++ [n] }, { o with stamp := some n }, .written n)
      else ({ s with next := some n }, { o with stamp := some n }, .encodeError)      -- `self.sequence = count(seq_num)`

/-- in-place update of object `i` (a heap without position `i` is left alone) -/
def updObj (h : Heap) (i : Nat) (f : Obj → Obj) : Heap :=
  match h[i]? with
  | some o => h.set i (f o)
  | none => h

/-- one operation; `none` = no send took place (an edit of an object, or no such object — never generated) -/
def objStepWith (send : FixSt → Obj → FixSt × Obj × FixOut) (st : OSt) : ObjOp → OSt × Option FixOut
  | .send i =>
    match st.heap[i]? with
    | none => (st, none)
    | some o => let r := send st.sess o; ({ sess := r.1, heap := st.heap.set i r.2.1 }, some r.2.2)
  | .login i =>
    match st.heap[i]? with
    | none => (st, none)
    | some o =>
      let r := send { st.sess with next := some (logonSeq o.stamp) } o       -- `self.sequence = count(logon_msg.Header.MsgSeqNum)`
      ({ sess := r.1, heap := st.heap.set i r.2.1 }, some r.2.2)
  | .heartbeat m => let r := send st.sess { stamp := none, msg := m }; ({ st with sess := r.1 }, some r.2.2)
  | .mutate i m => ({ st with heap := updObj st.heap i (fun o => { o with msg := m }) }, none)
  | .setStamp i n => ({ st with heap := updObj st.heap i (fun o => { o with stamp := n }) }, none)

def objStepR (st : OSt) (op : ObjOp) : OSt × Option FixOut := objStepWith objSendR st op

def objRunR (st : OSt) (ops : List ObjOp) : OSt := ops.foldl (fun s op => (objStepR s op).1) st

/-- per operation that is a send: (outcome, counter afterwards) — for the correspondence -/
def objTraceWith (send : FixSt → Obj → FixSt × Obj × FixOut) : OSt → List ObjOp → List (FixOut × Option Int)
  | _, [] => []
  | st, op :: rest =>
    let r := objStepWith send st op
    match r.2 with
    | some out => (out, r.1.sess.next) :: objTraceWith send r.1 rest
    | none => objTraceWith send r.1 rest

def objTraceR (st : OSt) (ops : List ObjOp) : List (FixOut × Option Int) := objTraceWith objSendR st ops

/-- the value-level history (Model/Seq `FixOp`) a history on objects amounts to: every send with what the object looked like at that
    moment, a logon with the number its object carried at that moment -/
def objValueOps : OSt → List ObjOp → List FixOp
  | _, [] => []
  | st, op :: rest =>
    (match op with
      | .send i => (match st.heap[i]? with | some o => [FixOp.send o.msg.toMsg] | none => [])
      | .login i => (match st.heap[i]? with | some o => [FixOp.login (logonSeq o.stamp) o.msg.toMsg] | none => [])
      | .heartbeat m => [FixOp.heartbeat m.toMsg]
      | _ => [])
    ++ objValueOps (objStepR st op).1 rest

/-! ### a variant that is NOT the code: the rollback reads the number back from the object -/

/-- `_release_seq_num(msg)`: `if 'MsgSeqNum' in msg.Header: self.sequence = count(msg.Header.MsgSeqNum)` -/
def releaseFrom (s : FixSt) (o : Obj) : FixSt :=
  match o.stamp with
  | some k => { s with next := some k }
  | none => s

def objSendStale (s : FixSt) (o : Obj) : FixSt × Obj × FixOut :=
  if !o.msg.bodyValid then (releaseFrom s o, o, .rejected)                 -- no number was drawn: `o.stamp` is from earlier
  else match s.next with
    | none => (releaseFrom s o, o, .notLoggedIn)
    | some n =>
      let o' : Obj := { o with stamp := some n }
      if o.msg.toMsg.encodable then ({ next := some (n + 1), frames := s.frames ++ [n] }, o', .written n)
      else (releaseFrom { s with next := some (n + 1) } o', o', .encodeError)   -- the header holds the number just drawn: correct

def objStepStale (st : OSt) (op : ObjOp) : OSt × Option FixOut := objStepWith objSendStale st op

def objRunStale (st : OSt) (ops : List ObjOp) : OSt := ops.foldl (fun s op => (objStepStale s op).1) st

def okMsg : SegMsg := ⟨true, true, true, true⟩

/-- logon (its header states 20), order M, order N; M loses a mandatory body field and is sent again (refused), N again -/
def witnessResend : Heap × List ObjOp :=
  ([⟨some 20, okMsg⟩, ⟨none, okMsg⟩, ⟨none, okMsg⟩],
   [.login 0, .send 1, .send 2, .mutate 1 ⟨false, true, true, true⟩, .send 1, .send 2])

/-- logon 20, two orders, then a message the reader decoded from a frame of the peer (numbered 3) whose body lacks a mandatory field
    is sent (refused), then an order -/
def witnessDecoded : Heap × List ObjOp :=
  ([⟨some 20, okMsg⟩, ⟨none, okMsg⟩, ⟨some 3, ⟨false, true, true, true⟩⟩],
   [.login 0, .send 1, .send 1, .send 2, .send 1])

/-- logon 20, an order; the application sets MsgSeqNum 500 on an order that is incomplete, the send is refused; an order -/
def witnessPreset : Heap × List ObjOp :=
  ([⟨some 20, okMsg⟩, ⟨none, okMsg⟩, ⟨none, ⟨false, true, true, true⟩⟩],
   [.login 0, .send 1, .setStamp 2 (some 500), .send 2, .send 1])

end NasdaqModel.SeqNum
