import NasdaqModel.Model.Soup
/-
Model of the decode ENTRY POINTS of `nasdaq_protocols/soup/core.py`.

`from_bytes` is a classmethod defined once on `SoupMessage` and inherited by the ten packet classes, so the library offers eleven
spellings of "decode these bytes": `SoupMessage.from_bytes(b)` and `<Class>.from_bytes(b)`.  The body looks the class up in
`SoupMessage.ClassByIndicator` by the type character `chr(b[2])` and calls THAT class's `unpack`; the receiver `cls` is not consulted.
The per-class `unpack` methods are transcribed separately (`unpackAs`): they are the second stage of the dispatch and — this is what
makes the dispatch load-bearing — most of them never look at the type character themselves.
-/
namespace NasdaqModel.Soup
open NasdaqModel Py

/-- the ten registered packet classes -/
inductive Kind where
  | loginReq | loginAcc | loginRej | seqData | unseqData | debug | clientHb | serverHb | endOfSession | logoutReq
  deriving Repr, DecidableEq, Inhabited

/-- class attribute `Indicator` -/
def Kind.ind : Kind → Nat
  | .loginReq => 76 | .loginAcc => 65 | .loginRej => 74 | .seqData => 83 | .unseqData => 85 | .debug => 43
  | .clientHb => 82 | .serverHb => 72 | .endOfSession => 90 | .logoutReq => 79

def Kind.all : List Kind :=
  [.loginReq, .loginAcc, .loginRej, .seqData, .unseqData, .debug, .clientHb, .serverHb, .endOfSession, .logoutReq]

/-- the class of a packet value -/
def Pkt.kind : Pkt → Kind
  | .loginReq .. => .loginReq | .loginAcc .. => .loginAcc | .loginRej .. => .loginRej | .seqData .. => .seqData
  | .unseqData .. => .unseqData | .debug .. => .debug | .clientHb => .clientHb | .serverHb => .serverHb
  | .endOfSession => .endOfSession | .logoutReq => .logoutReq

/-- `SoupMessage.ClassByIndicator.get(chr(t))` -/
def classByIndicator (t : Nat) : Option Kind :=
  if t = 76 then some .loginReq else if t = 65 then some .loginAcc else if t = 74 then some .loginRej
  else if t = 83 then some .seqData else if t = 85 then some .unseqData else if t = 43 then some .debug
  else if t = 82 then some .clientHb else if t = 72 then some .serverHb else if t = 90 then some .endOfSession
  else if t = 79 then some .logoutReq else none

/-- `_unpack_length(bytes_)` = `struct.unpack('!H c', bytes_[:3])[0]`: needs three bytes -/
def unpackLength (b : Bytes) : Except Err Int :=
  if b.length < 3 then .error .struct else .ok (lenField b)

/-- `<Class>.unpack(bytes_)` for each of the ten classes, line by line.  Only the exact-size structs of the login packets and the
    three-byte base `unpack` constrain the input; NONE of them compares `bytes_[2]` with the class's own indicator. -/
def unpackAs : Kind → Bytes → Except Err Pkt
  | .loginReq, b => do
      exactSize b 49
      let u ← unpackString (sliceRange b 3 9)
      let p ← unpackString (sliceRange b 9 19)
      let s ← unpackString (sliceRange b 19 29)
      let q ← unpackInt (sliceRange b 29 49)
      pure (.loginReq u p s (intStr q))
  | .loginAcc, b => do
      exactSize b 33
      let s ← unpackString (sliceRange b 3 13)
      let q ← unpackInt (sliceRange b 13 33)
      pure (.loginAcc s q)
  | .loginRej, b => do
      exactSize b 4
      let r ← unpackString (sliceRange b 3 4)
      if r = [65] then pure (.loginRej 65)
      else if r = [83] then pure (.loginRej 83)
      else .error .value
  | .seqData, b => do
      let n ← unpackLength b
      pure (.seqData (if n > 1 then b.drop 3 else []))
  | .unseqData, b => do
      let n ← unpackLength b
      pure (.unseqData (if n > 1 then b.drop 3 else []))
  | .debug, b => do
      let n ← unpackLength b
      if n > 1 then do
        let s ← decodeAscii (b.drop 3)
        pure (.debug s)
      else pure (.debug [])
  -- the base `unpack`: `struct.unpack('!h c', bytes_)` (exactly three bytes; struct.error → InvalidSoupMessage), then `cls()`
  | .clientHb, b => if b.length = 3 then pure .clientHb else .error .invalidSoup
  | .serverHb, b => if b.length = 3 then pure .serverHb else .error .invalidSoup
  | .endOfSession, b => if b.length = 3 then pure .endOfSession else .error .invalidSoup
  | .logoutReq, b => if b.length = 3 then pure .logoutReq else .error .invalidSoup

/-- `Cls.from_bytes(bytes_)[1]`, `cls = none` for `SoupMessage` itself, `some k` for a packet class.  The classmethod is inherited
    unchanged: it dispatches on the type character whatever the receiver is. -/
def decodeVia (_cls : Option Kind) (b : Bytes) : Except Err Pkt :=
  match b[2]? with
  | none => .error .invalidSoup                      -- IndexError → InvalidSoupMessage
  | some t =>
    match classByIndicator t with
    | none => .error .invalidSoup                    -- KeyError → InvalidSoupMessage
    | some k => unpackAs k b

/-- A DIFFERENT semantics, not the library's: "typed decode" — a concrete receiver unpacks the bytes as itself.  Kept only as the
    subject of the counterexample in `Witness/C12Via.lean` (a seeded change introduced it). -/
def decodeTyped (cls : Option Kind) (b : Bytes) : Except Err Pkt :=
  match cls with
  | none => decodeVia none b
  | some k =>
    match b[2]? with
    | none => .error .invalidSoup
    | some _ => unpackAs k b

end NasdaqModel.Soup
