import NasdaqModel.Model.HeapD
/-
C18 — decoding SHORT frames: one more operation on top of `Model/HeapD.lean` (hence on top of `Model/Heap.lean`).

The histories of `Model/Heap.lean` decode only what `mkbuf` produced: complete encodings.  A peer (an earlier version of the
layout, a cut connection, a hostile sender) hands `from_bytes` frames that END EARLY.  What the library does with them
(common/message/types.py, structures.py — probed, every cut point of every frame):

  * an integer field is `int.from_bytes(bytes_[:size], endian, signed=…)`: a short slice is a shorter number, an empty slice is 0,
    and the field still counts `size` bytes (`decInt` of `Model/Heap.lean` is written that way);
  * an array field reads its count like that (`0` from an exhausted buffer) and then builds a NEW list, element by element;
  * a record field is decoded field by field from whatever is left;
so a frame cut at ANY byte decodes to a message (only an empty frame, whose id byte reads as message id 0, is `KeyError`), and
everything it holds is built by the decoder for this one message.  The decoder of `Model/Heap.lean` (`parseInst`, then `allocTree`
with the new instance as owner) already is this function on every byte string; what was missing is a way to HAVE a short byte
string in a history:

    cut b n      `bytearray(buffer_b[:n])` — a new buffer of the caller holding the first `n` bytes of buffer `b`

`decode c b'` of such a buffer is the unchanged `Op.decode`.  The seeded change C18k (`Array.from_bytes` returns the class-level
`Array.default_value` list when no byte is left for the field) is the variant `decodeShared` below: NOT what the library does;
it is the subject of `Witness/C18Short.lean`.
-/
namespace NasdaqModel.HeapCut
open NasdaqModel Py Heap HeapD

inductive OpC where
  | op (o : Op)                    -- an operation of `Model/Heap.lean` (with declared defaults: `HeapD.stepD`)
  | cut (b n : Nat)                -- `bytearray(buffer_b[:n])`
  deriving Repr, Inhabited

/-- one operation; an exception leaves the heap as it was -/
def stepC (S : Schema) (D : Defaults) (H : Heap) : OpC → Except Err Heap
  | .op o => stepD S D H o
  | .cut b n =>
    match H.bufs[b]? with
    | none => .error .key
    | some ba =>
      match H.cells[ba]? with
      | some ⟨_, .buf bs⟩ => .ok (addBuf H (bs.take n))
      | _ => .error .other

def stepKC (S : Schema) (D : Defaults) (H : Heap) (op : OpC) : Heap :=
  match stepC S D H op with
  | .ok H' => H'
  | .error _ => H

def runC (S : Schema) (D : Defaults) (H : Heap) (ops : List OpC) : Heap := ops.foldl (stepKC S D) H

/-- the instance an operation is about; a cut is about nobody (no instance may change) -/
def OpC.target (H : Heap) : OpC → Nat
  | .op o => o.target H
  | .cut _ _ => H.insts.length

/-! ### the seeded variant: a trailing array of a short frame is the class-level list

`Array.from_bytes(b'')` returning `(0, Array.default_value)`: in the tree the decoder builds, an array field for which NO byte
is left is not a new list but a reference to the class-level cell 0.  Only top-level fields of the body record are treated (that
is enough for the witness); everything else is `parseInst`. -/

/-- the decoded tree allocated with the array fields from index `k` on that start at or behind the end of the frame replaced by
    the class-level list -/
def shareTrailing (fs : List FTy) (avail : Nat) : Nat → List Nat → List Val → List Val
  | _, _, [] => []
  | k, offs, v :: vs =>
    let here := offs.headD 0
    let v' := match fs[k]? with
      | some (.arr _ _) => if avail ≤ here then Val.ref 0 else v
      | _ => v
    v' :: shareTrailing fs avail (k + 1) offs.tail vs

/-- byte offset (inside the body, after the id byte) at which each top-level field of a decoded body starts, given the tree the
    decoder built (an int field counts its width, an array its count and elements, a record its fields — all of int fields here) -/
def fieldWidth : FTy → Tree → Nat
  | .int t _, _ => t.w
  | .arr (.int t) cnt, .list xs => cnt.w + t.w * xs.length
  | .arr _ cnt, _ => cnt.w
  | .recd _, _ => 0

def fieldOffsets : Nat → List FTy → List Tree → List Nat
  | _, [], _ => []
  | off, f :: fs, t :: ts => off :: fieldOffsets (off + fieldWidth f t) fs ts
  | off, _ :: fs, [] => off :: fieldOffsets off fs []

/-- `decode` as seeded change C18k has it, for a message class whose body holds int fields and arrays of ints -/
def decodeShared (S : Schema) (H : Heap) (c b : Nat) : Except Err Heap :=
  match H.bufs[b]? with
  | none => .error .key
  | some ba =>
    match H.cells[ba]? with
    | some ⟨_, .buf bs⟩ => do
      let ct ← parseInst S c bs
      match ct.2, S.classes[ct.1]? with
      | .obj cls ks ts, some (.binRec _ fs) =>
        let r := allocList (.inst H.insts.length) ts H.cells
        let vals := shareTrailing fs (bs.length - 1) 0 (fieldOffsets 0 fs ts) r.2
        .ok { H with cells := r.1 ++ [⟨.inst H.insts.length, .obj cls (ks.zip vals)⟩],
                     insts := H.insts ++ [(ct.1, r.1.length)] }
      | _, _ => .error .other
    | _ => .error .other

end NasdaqModel.HeapCut
