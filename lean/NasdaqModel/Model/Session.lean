import NasdaqModel.Py.Basic
/-
`SessionMachine`: a task-level model of `common/session.py` (AsyncSession, Reader, HeartbeatMonitor),
`common/message_queue.py` (DispatchableMessageQueue) and `common/utils.py` (stop_task), as they are after the
fix: commits 88ac483 / f00cdb5 / 74ae72f / 47a8e34 / 3767366 / f58394d, plus the login procedures of soup/fix client sessions,
and with the repair of C04-late-cancel-loses-message (`DispatchableMessageQueue._unclaimed`: the message held by the helper task of a
receive that is cancelled late is kept for the next reader — `get_nowait()` and the dispatcher loop read it before the asyncio queue).

* One *event* = one atomic piece of work: an external event (bytes arrive, peer disconnects, a user call starts,
  a user cancels a pending call) or `run t` — task `t` runs from its current await to its next real suspension.
  That is asyncio's atomicity guarantee; nothing else about the scheduler is assumed: any runnable task may run
  next, timers may fire at any time (a sleeping task is simply `ready`).
* Data are tokens: an inbound frame is `msg n | hb | logout | bad`, a queued message is a number
  (`0` stands for the login acceptance).
* Where the real code continues *in the same step* (dispatcher taking the next message after a handler returned),
  the model ends the step and records the task in `imm`; the driver then runs that task again at once.  For the
  theorems this is an over-approximation (other tasks may interleave there).
-/
namespace NasdaqModel.Sess

/-- tasks: reader, dispatcher, local monitor, remote monitor, closing task, receive helper, user tasks -/
inductive Tid where
  | R | D | L | M | C | V
  | U (i : Nat)
  deriving DecidableEq, Repr, Inhabited

inductive Frame where
  | msg (n : Nat) | hb | logout | bad
  deriving DecidableEq, Repr, Inhabited

/-- behaviour of a user-supplied callback -/
inductive Beh where
  | ret                 -- returns at once
  | await (k : Nat)     -- awaits k+1 times (turns / timers), then returns
  | close               -- `await session.close()`, then returns
  | iclose              -- `session.initiate_close()`, then returns
  | raise               -- raises (message handlers only)
  | accept              -- server `_handle_login`: send the acceptance, start heartbeats, return
  | reject              -- server `_handle_login`: send the rejection, `await self.close()`
  deriving DecidableEq, Repr, Inhabited

inductive WKind where
  | login | hb | logout | data | reply
  deriving DecidableEq, Repr, Inhabited

/-- result of a user call -/
inductive Res where
  | ok | msg (n : Nat) | none | eoq | cancelled | state | refused
  deriving DecidableEq, Repr, Inhabited

inductive Obs where
  | write (k : WKind)
  | tclose
  | cbEnter | cbExit
  | msgEnter (n : Nat) | msgExit (n : Nat) | msgAbandon (n : Nat) | msgRaise (n : Nat)
  | ret (u : Nat) (r : Res)
  | loginReply (n : Nat)        -- `login()` consumed message `n` as the reply to its request
  deriving DecidableEq, Repr, Inhabited

/-- how a user call that ran the close body ends -/
inductive CRes where
  | ok | refused | cancelled
  deriving DecidableEq, Repr, Inhabited

def CRes.toRes : CRes → Res
  | .ok => .ok | .refused => .refused | .cancelled => .cancelled

/-- what the closer does once `close()` returns to it -/
inductive Cont where
  | readerTail               -- Reader.stop tail: `_stopped = True`, back to the poll loop
  | handlerTail (n : Nat)    -- rest of the message handler, back to the dispatcher loop
  | monitorTail              -- remote monitor: `break`
  | closingTail              -- the closing task ends
  | userTail (u : Nat) (r : CRes)  -- a user call returns / raises `r`
  deriving DecidableEq, Repr, Inhabited

inductive Status where
  | absent        -- never created
  | ready         -- runnable (fresh, woken, or sleeping on a timer that may fire)
  | cancelled     -- runnable; `CancelledError` is delivered at its current await
  | waitQ         -- suspended in `queue.get()` on an empty queue
  | waitT (t : Tid)  -- suspended awaiting task `t`
  | done
  deriving DecidableEq, Repr, Inhabited

/-- where a task is in its code -/
inductive Prog where
  | idle
  | readerLoop
  | dispLoop
  | handler (n k : Nat)          -- inside the message handler for `n`, `k` more awaits to go
  | monStart                     -- a monitor task before its first `sleep`
  | monLoop
  | closeEntry (c : Cont)        -- about to call `close()`
  | inClose                      -- running `AsyncSession.close()`'s body: position is in `St.cstage`
  | vget
  | recvWait (u : Nat)
  | loginWait (u : Nat)
  deriving DecidableEq, Repr, Inhabited

/-- progress of the one and only execution of the close body (guarded by `_closed`) -/
inductive CStage where
  | idle                                   -- `_closed` is false
  | body (t : Tid) (pc : Nat) (c : Cont)   -- task `t` is in the body, about to run / resume at stage `pc`
  | cb (t : Tid) (k : Nat) (c : Cont)      -- transport closed; `t` is inside the user's close callback, `k` more awaits to go
  | finished                               -- the close callback has returned (or there is none)
  | aborted                                -- the *user* cancelled the task while it was inside the user's close callback
  deriving DecidableEq, Repr, Inhabited

structure Cfg where
  msgBeh : Nat → Beh      -- behaviour of the message callback per message
  cbBeh : Beh             -- behaviour of the close callback (`ret | await k | close | iclose`)
  hasCb : Bool            -- an on_close callback is configured
  dispatchOnConnect : Bool
  hasMsgCb : Bool         -- an on_msg callback is configured (start_dispatching does nothing without one)
  fixLogin : Bool         -- FIX login (`except EndOfQueue: await self.close()`), else soup
  deriving Inhabited

structure St where
  closed : Bool := false          -- AsyncSession._closed
  closingTask : Bool := false     -- AsyncSession._closing_task is not None
  qClosed : Bool := false         -- DispatchableMessageQueue._closed
  rStopped : Bool := false        -- Reader._stopped
  dispSet : Bool := false         -- queue._dispatcher_task is not None
  pingL : Bool := true            -- local monitor `_pinged`
  pingM : Bool := true
  buf : List Frame := []          -- complete frames in the reader buffer
  queue : List Nat := []          -- asyncio.Queue content
  vres : Option Nat := none       -- message taken off the queue for a pending receive, not yet handed to the caller
  rcvBusy : Bool := false         -- a `receive_msg()` / `login()` call has started and not yet returned
  status : Tid → Status := fun _ => .absent
  prog : Tid → Prog := fun _ => .idle
  imm : Option Tid := none        -- task that continues within the same real step
  trace : List Obs := []          -- observable events, oldest first
  cstage : CStage := .idle
  -- ghost state (never read by the transitions)
  wire : List Frame := []         -- every complete frame received so far
  consumed : List Frame := []     -- frames the reader has taken out of its buffer
  recvd : List Nat := []          -- messages the reader has put on the queue
  gone : List (Nat × Bool) := []  -- messages that left the queue for good, in order: `(n, true)` handed to a consumer (message
                                  -- callback entered, receive returned, login reply consumed).  `(n, false)` = dropped: no
                                  -- transition produces it any more (`St.lost = []` is an invariant, `InvG.lost` in `Lemmas/SessionLemmas3.lean`);
                                  -- it was the late cancel of a receive before the repair (`Witness/C04Late.lean` keeps that
                                  -- transition as a regression witness)
  deriving Inhabited

inductive Ev where
  | connect                        -- connection_made
  | data (fs : List Frame)         -- data_received completing these frames (may be none)
  | eof                            -- connection_lost
  | run (t : Tid)
  | callClose (u : Nat)            -- user task u: `await session.close()`
  | callInitiateClose              -- `session.initiate_close()` (sync)
  | callLogout                     -- `logout()` / `end_session()`: write, then initiate_close
  | callRecv (u : Nat)             -- user task u: `await session.receive_msg()`
  | callRecvNowait (u : Nat)
  | callLogin (u : Nat)            -- user task u: `await session.login(...)`
  | callSend                       -- user: send an application message
  | cancel (u : Nat)               -- the user cancels task u
  deriving DecidableEq, Repr, Inhabited

/-- messages handed to a consumer, in order -/
def St.taken (s : St) : List Nat := (s.gone.filter (·.2)).map (·.1)
/-- messages dropped (by the late cancel of a receive, before the repair): always empty now -/
def St.lost (s : St) : List Nat := (s.gone.filter (fun p => !p.2)).map (·.1)

/-! ### small state algebra -/

def St.setStatus (s : St) (t : Tid) (x : Status) : St :=
  { s with status := fun t' => if t' = t then x else s.status t' }

def St.setProg (s : St) (t : Tid) (p : Prog) : St :=
  { s with prog := fun t' => if t' = t then p else s.prog t' }

def St.emit (s : St) (o : Obs) : St := { s with trace := s.trace ++ [o] }

/-- spawn a task: runnable at the start of program `p` -/
def St.spawn (s : St) (t : Tid) (p : Prog) : St := (s.setStatus t .ready).setProg t p

def wakeList : List Tid := [.R, .D, .L, .M, .C, .V]

/-- task `t` finishes: everybody awaiting it becomes runnable -/
def St.finish (s : St) (t : Tid) : St :=
  { s with status := fun t' =>
      if t' = t then .done
      else if s.status t' = .waitT t then .ready else s.status t' }

/-- `task.cancel()` (rule 2 of DESIGN Appendix A).  The closer is never a target (`stop_task` skips the current task). -/
def St.cancelTask (s : St) (t : Tid) : St :=
  match s.status t with
  | .ready => s.setStatus t .cancelled
  | .waitQ => s.setStatus t .cancelled
  | .waitT w =>
      -- cancelling a task that awaits `w` cancels `w`; the task itself is woken when `w` ends
      match s.status w with
      | .ready => s.setStatus w .cancelled
      | .waitQ => s.setStatus w .cancelled
      | _ => s
  | _ => s

def alive (x : Status) : Bool :=
  match x with
  | .absent => false
  | .done => false
  | _ => true

/-- wake task `t` if it is suspended in `queue.get()` -/
def St.wakeGetter (s : St) (t : Tid) : St :=
  if s.status t = .waitQ then s.setStatus t .ready else s

/-- `queue.put(m)`: append and wake a waiting getter -/
def St.put (s : St) (m : Nat) : St :=
  (({ s with queue := s.queue ++ [m] } : St).wakeGetter .D).wakeGetter .V

/-- `initiate_close()` -/
def St.initiateClose (s : St) : St :=
  if s.closed || s.closingTask then s
  else ({ s with closingTask := true }).spawn .C (.closeEntry .closingTail)

/-- `start_dispatching()` -/
def St.startDispatching (s : St) (cfg : Cfg) : St :=
  if cfg.hasMsgCb && !s.dispSet then ({ s with dispSet := true }).spawn .D .dispLoop else s

/-- `start_heartbeats()` -/
def St.startHeartbeats (s : St) : St :=
  (({ s with pingL := true, pingM := true }).spawn .L .monStart).spawn .M .monStart

/-! ### the close body (`AsyncSession.close` after the guard), run by task `t` -/

/-- the task that `closeBody pc` has to stop -/
def stopTarget : Nat → Option Tid
  | 0 => some .D
  | 1 => some .V
  | 2 => some .L
  | 3 => some .M
  | 4 => some .R
  | _ => none

/-- continue after `close()` has returned to task `t` -/
def runCont (s : St) (t : Tid) : Cont → St
  | .readerTail =>
      -- `_stopped = True`; `_process_1` returns; `await asyncio.sleep(…)`
      ({ s with rStopped := true }.setStatus t .ready).setProg t .readerLoop
  | .handlerTail n =>
      -- the handler returns; the dispatcher loop re-tests `while not self._closed`
      { ((s.emit (.msgExit n)).setStatus t .ready).setProg t .dispLoop with imm := some t }
  | .monitorTail => s.finish t
  | .closingTail => s.finish t
  | .userTail u r => (s.emit (.ret u r.toRes)).finish t

/-- the end of the close body: `transport.close()`, then the user's close callback -/
def closeTail (cfg : Cfg) (s : St) (t : Tid) (c : Cont) : St :=
  let s := s.emit .tclose
  if !cfg.hasCb then runCont { s with cstage := .finished } t c
  else
    let s := s.emit .cbEnter
    match cfg.cbBeh with
    | .await k => { (s.setStatus t .ready).setProg t .inClose with cstage := .cb t k c }
    | _ => runCont { (s.emit .cbExit) with cstage := .finished } t c   -- `close()` / `initiate_close()` inside the callback: guards → nothing

/-- the state in which the closer `t` is suspended awaiting the cancelled task `x` (it resumes at stage `pc + 1`) -/
def suspendOn (s : St) (t x : Tid) (pc : Nat) (c : Cont) : St :=
  { ((s.cancelTask x).setStatus t (.waitT x)).setProg t .inClose with cstage := .body t (pc + 1) c }

/-- one stop-stage of the close body: `stop_task(x)` — nothing to wait for if `x` is the current task, was never
    started or has finished; otherwise cancel it and suspend until it ends (the body resumes at stage `j + 1`) -/
def stopStage (s : St) (t : Tid) (c : Cont) (j : Nat) (x : Tid) (next : St → St) : St :=
  if x = t || !(alive (s.status x)) then next s else suspendOn s t x j c

/-! the stages of the close body, last first -/
def ec6 (cfg : Cfg) (t : Tid) (c : Cont) (s : St) : St := closeTail cfg s t c
/-- resumed after awaiting the reader task: nested on_close → close(): guard; `_stopped = True` -/
def ec5 (cfg : Cfg) (t : Tid) (c : Cont) (s : St) : St := ec6 cfg t c { s with rStopped := true }
/-- `Reader.stop()` -/
def ec4 (cfg : Cfg) (t : Tid) (c : Cont) (s : St) : St :=
  if s.rStopped then ec6 cfg t c s else stopStage s t c 4 .R (ec5 cfg t c)
def ec3 (cfg : Cfg) (t : Tid) (c : Cont) (s : St) : St := stopStage s t c 3 .M (ec4 cfg t c)
def ec2 (cfg : Cfg) (t : Tid) (c : Cont) (s : St) : St := stopStage s t c 2 .L (ec3 cfg t c)
def ec1 (cfg : Cfg) (t : Tid) (c : Cont) (s : St) : St := stopStage s t c 1 .V (ec2 cfg t c)
/-- `queue.stop()`: the dispatcher first; `_dispatcher_task = None` once it has ended -/
def ec0 (cfg : Cfg) (t : Tid) (c : Cont) (s : St) : St :=
  stopStage s t c 0 .D (fun s => ec1 cfg t c { s with dispSet := false })

/-- run the close body from stage `pc` until the next suspension -/
def execClose (cfg : Cfg) (s : St) (t : Tid) (c : Cont) (pc : Nat) : St :=
  match pc with
  | 0 => ec0 cfg t c s
  | 1 => ec1 cfg t c s
  | 2 => ec2 cfg t c s
  | 3 => ec3 cfg t c s
  | 4 => ec4 cfg t c s
  | 5 => ec5 cfg t c s
  | _ => ec6 cfg t c s

/-- resuming the close body at stage `pc` after the awaited task finished: stage bookkeeping, then go on -/
def resumeClose (cfg : Cfg) (s : St) (t : Tid) (pc : Nat) (c : Cont) : St :=
  let s := if pc = 1 then { s with dispSet := false } else s
  execClose cfg s t c pc

/-- `await self.close()` called by task `t` -/
def enterClose (cfg : Cfg) (s : St) (t : Tid) (c : Cont) : St :=
  if s.closed then runCont s t c
  else
    -- `_closed = True`; `queue.stop()` sets the queue's own flag in the same atomic step
    execClose cfg { s with closed := true, qClosed := true, cstage := .body t 0 c } t c 0

/-- task `t`, whose program is `inClose`, runs (`cancelledNow`: a user cancelled it meanwhile) -/
def stepInClose (cfg : Cfg) (s : St) (t : Tid) (cancelledNow : Bool) : St :=
  match s.cstage with
  | .body t' pc c =>
      -- resumed after the awaited task ended; a user's cancellation landing here is swallowed by
      -- `stop_task` (`except CancelledError: pass`)
      if t' = t then resumeClose cfg (s.setStatus t .ready) t pc c else s
  | .cb t' k c =>
      if t' = t then
        if cancelledNow then
          -- cancelled inside the user's own close callback: the cancellation propagates out of `close()`
          match c with
          | .userTail u _ => ({ s with cstage := .aborted }.emit (.ret u .cancelled)).finish t
          | _ => { s with cstage := .aborted }.finish t
        else match k with
          | 0 => runCont { (s.emit .cbExit) with cstage := .finished } t c
          | k + 1 => { s with cstage := .cb t k c }
      else s
  | _ => s

/-! ### task steps -/

/-- one iteration of the reader loop (woken from its sleep) -/
def stepReader (cfg : Cfg) (s : St) : St :=
  if s.rStopped then s.finish .R
  else match s.buf with
    | [] => s
    | f :: rest =>
      let s := { s with buf := rest, consumed := s.consumed ++ [f] }
      match f with
      | .msg n => { s with recvd := s.recvd ++ [n] }.put n
      | .hb => s
      | .logout => enterClose cfg s .R .readerTail
      | .bad => enterClose cfg s .R .readerTail

/-- the dispatcher has taken message `n` and entered the message callback -/
def dispHandle (cfg : Cfg) (s : St) (n : Nat) : St :=
  match cfg.msgBeh n with
  | .ret => { (s.emit (.msgExit n)) with imm := some .D }
  | .await k => s.setProg .D (.handler n k)
  | .close => enterClose cfg s .D (.handlerTail n)
  | .iclose => { ((s.initiateClose).emit (.msgExit n)) with imm := some .D }
  | .raise => { (s.emit (.msgRaise n)) with imm := some .D }
  | .accept => { (((s.emit (.write .reply)).startHeartbeats).emit (.msgExit n)) with imm := some .D }
  | .reject => enterClose cfg (s.emit (.write .reply)) .D (.handlerTail n)

/-- the dispatcher takes one message (or suspends / ends) -/
def stepDisp (cfg : Cfg) (s : St) : St :=
  if s.qClosed then s.finish .D
  else if s.rcvBusy || s.vres.isSome then s     -- a dispatcher next to a pending receive: API misuse, outside the model
  else match s.queue with
    | [] => s.setStatus .D .waitQ
    | n :: q => dispHandle cfg (({ s with queue := q, gone := s.gone ++ [(n, true)] }).emit (.msgEnter n)) n

/-- a heartbeat monitor tick -/
def stepMon (cfg : Cfg) (s : St) (isLocal : Bool) : St :=
  if isLocal then
    if s.pingL then { s with pingL := false }
    else s.emit (.write .hb)                       -- `send_heartbeat`; a heartbeat does not ping
  else
    if s.pingM then { s with pingM := false }
    else enterClose cfg s .M .monitorTail          -- on_no_activity = `self.close`

/-- `login()` resumes after its receive: the reply (or the failure of the receive) is examined -/
def loginResume (cfg : Cfg) (s : St) (t : Tid) (u : Nat) : St :=
  match s.vres with
  | some n =>
      let s := ({ s with vres := none, rcvBusy := false, gone := s.gone ++ [(n, true)] } : St).emit (.loginReply n)
      if n = 0 && !(s.closed || s.closingTask) then
        -- accepted: heartbeats, dispatching, return the session
        (((s.startHeartbeats).startDispatching cfg).emit (.ret u .ok)).finish t
      else
        -- rejected, or the session was closed / is closing while the reply was delivered (f58394d)
        enterClose cfg s t (.userTail u .refused)
  | none =>
      if s.qClosed then
        -- EndOfQueue: soup lets it propagate (connect_async maps it), FIX closes first (guard: already closed)
        ({ s with rcvBusy := false }.emit (.ret u .refused)).finish t
      else enterClose cfg { s with rcvBusy := false } t (.userTail u .cancelled)    -- the caller was cancelled: close, then re-raise

def stepRun (cfg : Cfg) (s : St) (t : Tid) : St :=
  let s := { s with imm := none }
  match s.status t with
  | .cancelled =>
    -- CancelledError delivered at the task's current await
    match s.prog t with
    | .handler n _ => (s.emit (.msgAbandon n)).finish t      -- raised into the user's handler; dispatcher breaks
    | .vget => s.finish t                                    -- the helper task ends cancelled, holding nothing
    | .recvWait u =>
        -- `except CancelledError` in `_blocking_read`: EndOfQueue if the queue was stopped meanwhile, else re-raise.
        -- Late cancel (the helper already holds a message, `vres = some n`): the caller gets the cancellation (or
        -- EndOfQueue) and the message is appended to `_unclaimed`, the stash that `get_nowait()` and the dispatcher
        -- loop read *before* the asyncio queue (repair of C04-late-cancel-loses-message).  The stash is modelled as
        -- the queue with the message re-inserted at its head.  The two are observationally the same because nothing
        -- else can be suspended on the asyncio queue at this moment (proved for open sessions: `Lemmas/SessionDrainInv.lean`, `stash_no_getter`, via the invariant `JB`; on a stopped queue the dispatcher loop has ended and `get_nowait()` is the only reader):
        --  * the helper `V` of this receive has ended (it is what filled `vres`) or never existed (`get_nowait` path);
        --    a second helper needs a second receive, which cannot start while `rcvBusy` (single consumer);
        --  * the dispatcher is not suspended in `queue.get()`: a receive only starts while `_dispatcher_task is None`,
        --    and a dispatcher created next to the pending receive (API misuse) takes no step while `rcvBusy`;
        --  * `_unclaimed` never holds more than one message (a blocking read starts only when `get_nowait` found both
        --    the stash and the queue empty), so "append to the stash" = "insert at the head of stash ++ queue".
        -- The caller's clean-up (`finally: stop_task(helper)`) does not suspend on a finished helper, so no other
        -- task runs between the stash and the end of the call.
        if s.qClosed then ({ s with vres := none, rcvBusy := false, queue := s.vres.toList ++ s.queue }.emit (.ret u .eoq)).finish t
        else ({ s with vres := none, rcvBusy := false, queue := s.vres.toList ++ s.queue }.emit (.ret u .cancelled)).finish t
    | .loginWait u =>
        if s.qClosed then ({ s with vres := none, rcvBusy := false, queue := s.vres.toList ++ s.queue }.emit (.ret u .refused)).finish t
        else
          -- `login()`: `except CancelledError: await self.close(); raise`
          enterClose cfg ({ s with vres := none, rcvBusy := false, queue := s.vres.toList ++ s.queue }.setStatus t .ready) t (.userTail u .cancelled)
    | .inClose => stepInClose cfg s t true
    | _ => s.finish t                                          -- reader / dispatcher / monitors end
  | .ready =>
    match s.prog t with
    | .readerLoop => if t = .R then stepReader cfg s else s
    | .dispLoop => if t = .D then stepDisp cfg s else s
    | .handler n k =>
        match k with
        | 0 => { ((s.emit (.msgExit n)).setProg t .dispLoop) with imm := some t }
        | k + 1 => s.setProg t (.handler n k)
    | .monStart => s.setProg t .monLoop
    | .monLoop => if t = .L then stepMon cfg s true else if t = .M then stepMon cfg s false else s
    | .closeEntry c => enterClose cfg s t c
    | .inClose => stepInClose cfg s t false
    | .vget =>
        match s.queue with
        | [] => s.setStatus t .waitQ
        | n :: q =>
            if s.vres.isSome then s      -- unreachable (one receive at a time); keeps the message-flow invariant local
            else ({ s with queue := q, vres := some n }).finish t
    | .recvWait u =>
        -- woken because the helper task finished
        match s.vres with
        | some n => ({ s with vres := none, rcvBusy := false, gone := s.gone ++ [(n, true)] }.emit (.ret u (.msg n))).finish t
        | none =>
            -- the helper was cancelled: by `queue.stop()` (→ EndOfQueue) or because the caller was
            if s.qClosed then ({ s with rcvBusy := false }.emit (.ret u .eoq)).finish t
            else ({ s with rcvBusy := false }.emit (.ret u .cancelled)).finish t
    | .loginWait u => loginResume cfg s t u
    | .idle => s
  | _ => s

/-- is `run t` possible? -/
def runnable (s : St) (t : Tid) : Bool :=
  s.status t == .ready || s.status t == .cancelled

/-- `receive_msg()` / the receive inside `login()` started by user task `u` -/
def startRecv (s : St) (u : Nat) (isLogin : Bool) : St :=
  if s.rcvBusy || s.vres.isSome || alive (s.status .V) then s   -- a receive is already pending: two concurrent receives are API misuse, outside the model
  else if s.dispSet then (s.emit (.ret u .state)).setStatus (.U u) .done
  else match s.queue with
    | n :: q =>
        -- get_nowait succeeds: no helper task
        let s := { s with queue := q, vres := some n, rcvBusy := true, imm := some (.U u) }
        (s.setStatus (.U u) .ready).setProg (.U u) (if isLogin then .loginWait u else .recvWait u)
    | [] =>
        if s.qClosed then
          if isLogin then (s.emit (.ret u .refused)).setStatus (.U u) .done
          else (s.emit (.ret u .eoq)).setStatus (.U u) .done
        else
          let s := ({ s with rcvBusy := true }).spawn .V .vget
          (s.setStatus (.U u) (.waitT .V)).setProg (.U u) (if isLogin then .loginWait u else .recvWait u)

def step (cfg : Cfg) (s : St) : Ev → St
  | .connect =>
      if s.status .R != .absent || s.closed then s      -- a transport connects once
      else
        let s := s.spawn .R .readerLoop
        if cfg.dispatchOnConnect then s.startDispatching cfg else s
  | .data fs => { s with buf := s.buf ++ fs, wire := s.wire ++ fs, pingM := true }
  | .eof => s.initiateClose
  | .run t => if runnable s t then stepRun cfg s t else s
  | .callClose u =>
      if s.status (.U u) != .absent then s      -- every user call runs in a fresh task
      else enterClose cfg ((s.setStatus (.U u) .ready).setProg (.U u) .idle) (.U u) (.userTail u .ok)
  | .callInitiateClose => s.initiateClose
  | .callLogout => ({ (s.emit (.write .logout)) with pingL := true }).initiateClose
  | .callRecv u => if s.status (.U u) != .absent then s else startRecv s u false
  | .callRecvNowait u =>
      if s.rcvBusy || s.vres.isSome then s        -- `receive_msg_nowait()` next to a pending receive: API misuse, outside the model
      else if s.dispSet then s.emit (.ret u .state)
      else match s.queue with
        | n :: q => { s with queue := q, gone := s.gone ++ [(n, true)] }.emit (.ret u (.msg n))
        | [] => if s.qClosed then s.emit (.ret u .eoq) else s.emit (.ret u .none)
  | .callLogin u =>
      if s.status (.U u) != .absent || s.rcvBusy || alive (s.status .V) then s
      else startRecv ({ (s.emit (.write .login)) with pingL := true }) u true
  | .callSend => { (s.emit (.write .data)) with pingL := true }
  | .cancel u => s.cancelTask (.U u)

def runEvs (cfg : Cfg) (s : St) (evs : List Ev) : St := evs.foldl (step cfg) s

end NasdaqModel.Sess
