import NasdaqModel.Model.BinCodec
/-
An ITCH / OUCH / SQF message *object* over time (`common/message/structures.py`).

A message holds one body record; a record holds a `values` dict; a record-typed field holds a reference to another record
instance, an array field a reference to a Python list (of scalars or of record instances).  All of them are mutable, and a
program changes them IN PLACE through the typed attributes after the message has been encoded:

    msg.leg.price = 7          a field of a nested record         (path [leg],      `set price 7`)
    msg.note.text = 'x'        an optional record becomes present (path [note],     `set text 'x'`)
    msg.sizes.append(255)      a list grows                       (path [sizes],    `append 255`)
    msg.legs[0].symbol = 'Z'   a field of a record in a list      (path [legs, 0],  `set symbol 'Z'`)
    msg.seq = 8                a field of the body itself         (path [],         `set seq 8`)

`CommonMessage.to_bytes()` walks the body record every time it is called and reads every value through the references the
parents hold; the message object carries no other state.  This file transcribes exactly that: the state of a message object is
the value tree of its body record (`BinCodec.Val`), an in-place change rewrites the node the path leads to and nothing else,
and `to_bytes` is `BinCodec.encodeMsg` of the tree as it is now.

`runCached` is the variant a message that REMEMBERS its encoding would give when only assignments on the body record itself
are noticed (subject of `Witness/C01Reenc.lean`).
-/
namespace NasdaqModel.BinObj
open NasdaqModel Py BinCodec

/-- `values[k] = v` on a Python dict: an existing key keeps its position, a new key goes to the end -/
def setStore : Store → Nat → Val → Store
  | [], k, v => [(k, v)]
  | (k', x) :: r, k, v => if k' = k then (k', v) :: r else (k', x) :: setStore r k v

/-- what is done to the object a path leads to -/
inductive Mut where
  | set (name : Nat) (v : Val)        -- `rec.f<name> = v` (`_Record.__setattr__`: `values[name] = v`; an Enum member's `.value`)
  | append (v : Val)                  -- `lst.append(v)`
  | setItem (i : Nat) (v : Val)       -- `lst[i] = v`
  | insert (i : Nat) (v : Val)        -- `lst.insert(i, v)`  (an index past the end appends)
  | delItem (i : Nat)                 -- `del lst[i]`
  | clear                             -- `lst.clear()`
  | extend (vs : List Val)            -- `lst.extend(vs)` / `lst += vs`
  | assign (vs : List Val)            -- `lst[:] = vs`
  deriving Inhabited

/-- the object after the change; `none` = not an operation of this kind of object / index out of range (outside the model) -/
def applyMut : Val → Mut → Option Val
  | .recd st, .set k v => some (.recd (setStore st k v))
  | .list xs, .append v => some (.list (xs ++ [v]))
  | .list xs, .setItem i v => if i < xs.length then some (.list (xs.set i v)) else none
  | .list xs, .insert i v => some (.list (xs.take i ++ v :: xs.drop i))
  | .list xs, .delItem i => if i < xs.length then some (.list (xs.eraseIdx i)) else none
  | .list _, .clear => some (.list [])
  | .list xs, .extend vs => some (.list (xs ++ vs))
  | .list _, .assign vs => some (.list vs)
  | _, _ => none

/-- follow the references the objects HOLD (`values[name]` of a record, item `i` of a list) along a path and rewrite the object
    at its end; every object on the way is the same object as before with that one reference's target changed.  `none`: the path
    does not lead to an object (an unset field is read as a default COPY, `None` has no attributes: outside the model) -/
def updateAt (f : Val → Option Val) : List Step → Val → Option Val
  | [], v => f v
  | .field k :: p, .recd st =>
      match lookup st k with
      | some x => (updateAt f p x).map fun x' => .recd (setStore st k x')
      | none => none
  | .idx i :: p, .list xs =>
      match xs[i]? with
      | some x => (updateAt f p x).map fun x' => .list (xs.set i x')
      | none => none
  | _ :: _, _ => none

inductive Op where
  | toBytes
  | change (path : List Step) (m : Mut)
  deriving Inhabited

/-- the body record of the message after one operation (`to_bytes` changes nothing; a change outside the model is skipped) -/
def step (v : Val) : Op → Val
  | .toBytes => v
  | .change p m => (updateAt (fun x => applyMut x m) p v).getD v

/-- the body record at every `to_bytes()` call of a history, in order -/
def atEncodes : Val → List Op → List Val
  | _, [] => []
  | v, .toBytes :: r => v :: atEncodes v r
  | v, .change p mu :: r => atEncodes (step v (.change p mu)) r

/-- what the `to_bytes()` calls of a history return, in order -/
def run (m : MsgDef) : Val → List Op → List (Except Err (Nat × Bytes))
  | _, [] => []
  | v, .toBytes :: r => encodeMsg m v :: run m v r
  | v, .change p mu :: r => run m (step v (.change p mu)) r

/-! ### the variant that remembers its encoding (subject of `Witness/C01Reenc.lean`)

`to_bytes` keeps `(snapshot of the body's values dict, bytes)` and packs again only when the dict differs from the snapshot.
The snapshot is a shallow copy: it holds the SAME record / list objects as the live dict, so a change made inside one of them
is a change of both and compares equal; only an assignment on the body record itself (path `[]`) makes the two differ. -/

/-- does the operation make the body's own `values` dict differ from a snapshot of it -/
def noticed : Op → Bool
  | .change [] (.set _ _) => true
  | _ => false

/-- `to_bytes()` of the remembering variant: (result, remembered encoding afterwards - kept only when packing succeeded -,
    "the dict differs from the snapshot" afterwards) -/
def cachedToBytes (m : MsgDef) (v : Val) (cache : Option (Nat × Bytes)) (dirty : Bool) :
    Except Err (Nat × Bytes) × Option (Nat × Bytes) × Bool :=
  match cache, dirty with
  | some bs, false => (.ok bs, cache, false)
  | _, _ =>
    match encodeMsg m v with
    | .ok bs => (.ok bs, some bs, false)
    | .error e => (.error e, cache, dirty)

/-- state: body record, remembered encoding, "the dict differs from the snapshot" -/
def runCached (m : MsgDef) : Val → Option (Nat × Bytes) → Bool → List Op → List (Except Err (Nat × Bytes))
  | _, _, _, [] => []
  | v, cache, dirty, .toBytes :: r =>
      (cachedToBytes m v cache dirty).1 :: runCached m v (cachedToBytes m v cache dirty).2.1 (cachedToBytes m v cache dirty).2.2 r
  | v, cache, dirty, .change p mu :: r => runCached m (step v (.change p mu)) cache (dirty || noticed (.change p mu)) r

end NasdaqModel.BinObj
