import NasdaqModel.Py.Dec
/-
Model of `nasdaq_protocols/soup/core.py`: the ten SoupBinTCP packet kinds, `to_bytes` and
`SoupMessage.from_bytes`.  Transcribed line by line, including what `struct.pack` does to
over-long `Ns` fields (truncation) and which exception classes escape.
-/
namespace NasdaqModel.Soup
open NasdaqModel Py

inductive Pkt where
  | loginReq (user pass sess seq : Str)     -- `sequence` is a `str` attribute
  | loginAcc (sess : Str) (seq : Int)
  | loginRej (reason : Nat)                 -- LoginRejectReason value: 'A' (65) or 'S' (83)
  | seqData (d : Bytes)
  | unseqData (d : Bytes)
  | debug (text : Str)
  | clientHb | serverHb | endOfSession | logoutReq
  deriving Repr, DecidableEq, Inhabited

/-- the class attribute `Indicator` -/
def Pkt.ty : Pkt → Nat
  | .loginReq .. => 76 | .loginAcc .. => 65 | .loginRej .. => 74 | .seqData .. => 83
  | .unseqData .. => 85 | .debug .. => 43 | .clientHb => 82 | .serverHb => 72
  | .endOfSession => 90 | .logoutReq => 79

def Pkt.isHeartbeat : Pkt → Bool
  | .clientHb | .serverHb => true
  | _ => false

def Pkt.isLogout : Pkt → Bool
  | .endOfSession | .logoutReq => true
  | _ => false

def Pkt.isSequenced : Pkt → Bool
  | .seqData .. => true
  | _ => false

/-- `_pack(data, n)` = `data.ljust(n).encode('ascii')` -/
def pack (s : Str) (n : Nat) : Except Err Bytes := encodeAscii (ljust s n)

/-- `struct.pack('!h c', len, ind)` -/
def header (len : Int) (ind : Nat) : Except Err Bytes := do
  let l ← packBE16s len
  pure (l ++ [ind])

/-- `to_bytes` (second component; the first is `len` of it) -/
def encode : Pkt → Except Err Bytes
  | .loginReq u p s q => do
      let h ← header 47 76
      let u' ← pack u 6
      let p' ← pack p 10
      let s' ← pack s 10
      let q' ← pack q 20        -- `str(self.sequence)` is the identity on a `str`
      pure (h ++ packNs 6 u' ++ packNs 10 p' ++ packNs 10 s' ++ packNs 20 q')
  | .loginAcc s q => do
      let h ← header 31 65
      let s' ← pack s 10
      let q' ← pack (intStr q) 20
      pure (h ++ packNs 10 s' ++ packNs 20 q')
  | .loginRej r => do
      let h ← header 2 74
      let r' ← encodeAscii [r]
      pure (h ++ r')
  | .seqData d => do
      let h ← header ((d.length : Int) + 1) 83
      pure (h ++ d)
  | .unseqData d => do
      let h ← header ((d.length : Int) + 1) 85
      pure (h ++ d)
  | .debug t => do
      let h ← header ((t.length : Int) + 1) 43
      let t' ← encodeAscii t
      pure (h ++ t')
  | .clientHb => header 1 82
  | .serverHb => header 1 72
  | .endOfSession => header 1 90
  | .logoutReq => header 1 79

/-- `_unpack_string` -/
def unpackString (b : Bytes) : Except Err Str := do
  let s ← decodeAscii b
  pure (strip s)

/-- `_unpack_int` -/
def unpackInt (b : Bytes) : Except Err Int := parseIntBytes (stripSpNul b)

/-- `struct.unpack(fmt, b)` demands the exact size -/
def exactSize (b : Bytes) (n : Nat) : Except Err Unit :=
  if b.length = n then .ok () else .error .struct

def sliceRange (b : Bytes) (i j : Nat) : Bytes := (b.take j).drop i

/-- the length field read by `_unpack_length`: `struct.unpack('!H c', bytes_[:3])[0]` — unsigned since the repair of the
    mis-decoding of received packets of 32767 bytes and more (before: `'!h c'`, `unpackBE16s`) -/
def lenField (b : Bytes) : Int := ((b.getD 0 0 * 256 + b.getD 1 0 : Nat) : Int)

/-- `SoupMessage.from_bytes(bytes_)[1]` -/
def decode (b : Bytes) : Except Err Pkt :=
  match b[2]? with
  | none => .error .invalidSoup                      -- IndexError → InvalidSoupMessage
  | some t =>
    if t = 76 then do
      exactSize b 49
      let u ← unpackString (sliceRange b 3 9)
      let p ← unpackString (sliceRange b 9 19)
      let s ← unpackString (sliceRange b 19 29)
      let q ← unpackInt (sliceRange b 29 49)
      pure (.loginReq u p s (intStr q))
    else if t = 65 then do
      exactSize b 33
      let s ← unpackString (sliceRange b 3 13)
      let q ← unpackInt (sliceRange b 13 33)
      pure (.loginAcc s q)
    else if t = 74 then do
      exactSize b 4
      let r ← unpackString (sliceRange b 3 4)
      if r = [65] then pure (.loginRej 65)
      else if r = [83] then pure (.loginRej 83)
      else .error .value
    else if t = 83 then
      pure (.seqData (if lenField b > 1 then b.drop 3 else []))
    else if t = 85 then
      pure (.unseqData (if lenField b > 1 then b.drop 3 else []))
    else if t = 43 then
      if lenField b > 1 then do
        let s ← decodeAscii (b.drop 3)
        pure (.debug s)
      else pure (.debug [])
    else if t = 82 ∨ t = 72 ∨ t = 90 ∨ t = 79 then
      -- base `unpack`: struct.error is caught and re-raised as InvalidSoupMessage
      if b.length = 3 then
        pure (if t = 82 then .clientHb else if t = 72 then .serverHb
              else if t = 90 then .endOfSession else .logoutReq)
      else .error .invalidSoup
    else .error .invalidSoup                         -- KeyError → InvalidSoupMessage

end NasdaqModel.Soup
