import NasdaqModel.Py.Dec
/-
Model of `nasdaq_protocols/fix/core.py` + `fix/types.py`: the FIX tag=value codec.

  * dictionary: `Entry` (a `Field` subclass with its `FieldType`, or a `GroupContainer` subclass = count tag + the `Entries`
    of its `GroupCls`), `MsgDef` (a `Message` subclass: Name, Type, Header/Body/Trailer segment classes);
  * values: a `DataSegment`/`Group` instance is its `values` OrderedDict = an association list in *insertion order*;
  * `checkVal`/`setItem`/`buildSeg`  — `from_value` / `DataSegment.__setitem__` / `DataSegment.from_value` (type checks, KeyError);
  * `encEntry`/`encSeg`/`encMsg`     — `Field.to_bytes`, `GroupContainer.to_bytes`, `Group.to_bytes` (dictionary order),
                                        `DataSegment.to_bytes` (insertion order), `Message.to_bytes`;
  * `fieldFromBytes`/`segLoop`/`containerFromBytes`/`msgFromBytes`/`getMsgType`/`decodeMsg` — the `from_bytes` family,
    with the `find`-based splitting, "stop at an unknown or repeated tag", the count check, the first `35=`;
  * `pyEq` — `Message.__eq__` (OrderedDict equality: order sensitive), `pyEqDict` — the same with plain-dict comparison of
    group instances (the repaired behaviour proposed in fixes/C13-group-eq-order.md).

FIX floats are opaque text tokens (`Val.flt tok`): `str(x)` on the way out, the ASCII text on the way in
(`float(repr(x)) == x` is trusted, DESIGN §3).
Restriction: tags inside one segment / group dictionary are assumed pairwise distinct (`IndexedEntries` is a dict; with a
duplicated tag the later class wins in Python, the first in `lookupE`); the harness only builds such dictionaries.
-/
namespace NasdaqModel.Fix
open NasdaqModel Py

/-- `FieldType` of a field class (`FixInt`, `FixFloat`, `FixBool`, `FixChar`, `FixString`; the other type names are subclasses) -/
inductive FTy where
  | int | float | bool | char | string
  deriving Repr, DecidableEq, Inhabited

/-- one `Entry(entry_def, required)` of a segment: a field class or a group container class -/
inductive Entry where
  | field (tag : Nat) (ty : FTy) (req : Bool)
  | group (tag : Nat) (sub : List Entry) (req : Bool)      -- CountCls.Tag, GroupCls.Entries
  deriving Repr, Inhabited

/-- Python values held by fields; `grp` = `GroupContainer.groups`, each instance its `values` in insertion order -/
inductive Val where
  | int (i : Int)
  | flt (tok : Str)
  | bool (b : Bool)
  | str (s : Str)
  | grp (insts : List (List (Nat × Val)))
  deriving Repr, Inhabited

abbrev Seg := List (Nat × Val)

structure MsgDef where
  name : Str
  type : Str
  hdr : List Entry
  body : List Entry
  trl : List Entry
  deriving Repr, Inhabited

/-- `Message.data` -/
structure Msg where
  hdr : Seg
  body : Seg
  trl : Seg
  deriving Repr, Inhabited

def Entry.tag : Entry → Nat
  | .field t _ _ => t
  | .group t _ _ => t

def Entry.req : Entry → Bool
  | .field _ _ r => r
  | .group _ _ r => r

/-- `IndexedEntries[tag]` -/
def lookupE : List Entry → Nat → Option Entry
  | [], _ => none
  | e :: es, t => if e.tag = t then some e else lookupE es t

/-- `values[tag]` / `tag in values` -/
def lookupV : Seg → Nat → Option Val
  | [], _ => none
  | (k, v) :: s, t => if k = t then some v else lookupV s t

def hasKey (s : Seg) (t : Nat) : Bool := (lookupV s t).isSome

/-- `values[tag] = v` on an (Ordered)dict: an existing key keeps its position -/
def upsert : Seg → Nat → Val → Seg
  | [], t, v => [(t, v)]
  | (k, w) :: s, t, v => if k = t then (k, v) :: s else (k, w) :: upsert s t v

def SOH : Nat := 1
def EQ : Nat := 61

/-- `SOH.join(parts)` -/
def joinSOH : List Bytes → Bytes
  | [] => []
  | [a] => a
  | a :: b :: rest => a ++ 1 :: joinSOH (b :: rest)

/-- `Except` version of `List.mapM` (own definition: structural, easy to unfold) -/
def mapE {α β : Type} (f : α → Except Err β) : List α → Except Err (List β)
  | [] => .ok []
  | a :: as => do
      let b ← f a
      let bs ← mapE f as
      pure (b :: bs)

/-! ### building values: `from_value`, `__setitem__` -/

/-- `Field.from_value`: `isinstance(value, FieldType.type_cls)`; note `isinstance(True, int)` -/
def checkPrim : FTy → Val → Except Err Val
  | .int, .int i => .ok (.int i)
  | .int, .bool b => .ok (.bool b)
  | .float, .flt t => .ok (.flt t)
  | .bool, .bool b => .ok (.bool b)
  | .char, .str s => .ok (.str s)
  | .string, .str s => .ok (.str s)
  | _, _ => .error .type

mutual
/-- `IndexedEntries[key].from_value(value)` -/
def checkVal : Entry → Val → Except Err Val
  | .field _ ty _, v => checkPrim ty v
  | .group _ sub _, .grp insts => do
      let is ← checkInsts sub insts
      pure (.grp is)
  | .group .., _ => .error .type
/-- `[GroupCls.from_value(_) for _ in value]` -/
def checkInsts : List Entry → List (List (Nat × Val)) → Except Err (List Seg)
  | _, [] => pure []
  | sub, i :: is => do
      let s ← buildSeg sub [] i
      let r ← checkInsts sub is
      pure (s :: r)
/-- `DataSegment.from_value(dict)`: `for key, value in dict.items(): container[key] = value` -/
def buildSeg : List Entry → Seg → List (Nat × Val) → Except Err Seg
  | _, acc, [] => pure acc
  | es, acc, (t, v) :: rest =>
      match lookupE es t with
      | none => .error .key
      | some e => do
          let v' ← checkVal e v
          buildSeg es (upsert acc t v') rest
end

/-- `segment[key] = value` -/
def setItem (es : List Entry) (s : Seg) (t : Nat) (v : Val) : Except Err Seg :=
  match lookupE es t with
  | none => .error .key
  | some e => do
      let v' ← checkVal e v
      pure (upsert s t v')

/-- a message built by assigning `(tag, value)` pairs, in the given order, to its three segments -/
def buildMsg (d : MsgDef) (h b t : List (Nat × Val)) : Except Err Msg := do
  let h' ← buildSeg d.hdr [] h
  let b' ← buildSeg d.body [] b
  let t' ← buildSeg d.trl [] t
  pure { hdr := h', body := b', trl := t' }

/-! ### encoding -/

/-- `FieldType.to_bytes(value)[1]` -/
def tyToBytes : FTy → Val → Except Err Bytes
  | .int, .int i => encodeAscii (intStr i)
  | .int, .bool b => encodeAscii (if b then [84, 114, 117, 101] else [70, 97, 108, 115, 101])   -- str(True)
  | .float, .flt t => encodeAscii t
  | .bool, .bool b => .ok (if b then [89] else [78])
  | .char, .str s => encodeAscii s
  | .string, .str s => encodeAscii s
  | _, _ => .error .type          -- not constructible through `__setitem__`

/-- `f'{Tag}='.encode('ascii') + value bytes` -/
def fieldBytes (t : Nat) (v : Bytes) : Bytes := natDigits t ++ 61 :: v

mutual
/-- `Field.to_bytes()[1]` / `GroupContainer.to_bytes()[1]` -/
def encEntry : Entry → Val → Except Err Bytes
  | .field t ty _, v => do
      let b ← tyToBytes ty v
      pure (fieldBytes t b)
  | .group t sub _, .grp insts => do
      let gs ← mapE (fun inst => do
                      let fs ← encGroupFields sub inst
                      pure (joinSOH fs)) insts
      pure (joinSOH (fieldBytes t (intStr (insts.length : Int)) :: gs))
  | .group .., _ => .error .type
/-- `Group.to_bytes`: `[values[e.Tag].to_bytes()[1] for e in Entries if e.Tag in values]` — dictionary order -/
def encGroupFields : List Entry → Seg → Except Err (List Bytes)
  | [], _ => pure []
  | e :: es, inst =>
      match lookupV inst e.tag with
      | some v => do
          let b ← encEntry e v
          let r ← encGroupFields es inst
          pure (b :: r)
      | none => encGroupFields es inst
end

/-- `DataSegment.to_bytes`: `SOH.join(v.to_bytes()[1] for v in values.values())` — insertion order -/
def encSegFields (es : List Entry) (s : Seg) : Except Err (List Bytes) :=
  mapE (fun p => match lookupE es p.1 with
                 | some e => encEntry e p.2
                 | none => .error .key) s        -- not constructible through `__setitem__`

def encSeg (es : List Entry) (s : Seg) : Except Err Bytes := do
  let fs ← encSegFields es s
  pure (joinSOH fs)

def endsWithSOH (b : Bytes) : Bool := b.getLast? == some 1

/-- `Message.to_bytes()[1]` -/
def encMsg (d : MsgDef) (m : Msg) : Except Err Bytes := do
  let h ← encSeg d.hdr m.hdr
  let b ← encSeg d.body m.body
  let t ← encSeg d.trl m.trl
  let bs := joinSOH ([h, b, t].filter (fun x => !x.isEmpty))
  pure (if endsWithSOH bs then bs else bs ++ [1])

/-! ### decoding -/

/-- `bytes.find(pat)` (`none` = -1) -/
def findSub (pat : Bytes) : Bytes → Option Nat
  | [] => if pat.isEmpty then some 0 else none
  | b :: bs => if pat.isPrefixOf (b :: bs) then some 0 else (findSub pat bs).map (· + 1)

/-- `bytes.find(pat, start)` for `start ≥ 0` -/
def findFrom (pat : Bytes) (bs : Bytes) (start : Nat) : Option Nat :=
  if start > bs.length then none else (findSub pat (bs.drop start)).map (· + start)

/-- `int(text)` for a `str` that was decoded from ASCII bytes.  CPython turns only *non-ASCII* Unicode white space into
    blanks before parsing and then skips C `isspace` characters, so for ASCII text the stripped set is TAB..CR and
    space — not U+001C..U+001F, although `str.strip()` removes those (`int('12\x1d')` raises) -/
def parseIntAscii (s : Str) : Except Err Int := parseIntWith isAsciiSpace s

/-- `FieldType.from_bytes(data)[1]` -/
def tyFromBytes : FTy → Bytes → Except Err Val
  | .int, b => do
      let s ← decodeAscii b
      let i ← parseIntAscii s
      pure (.int i)
  | .float, b => do
      let s ← decodeAscii b
      pure (.flt s)                     -- `float(text)`: opaque
  | .bool, b => pure (.bool (b == [89]))
  | .char, b => do
      let s ← decodeAscii b
      pure (.str s)
  | .string, b => do
      let s ← decodeAscii b
      pure (.str s)

/-- `Field.from_bytes`: `(bytes consumed, value)` -/
def fieldFromBytes (ty : FTy) (bs : Bytes) : Except Err (Nat × Val) :=
  match findSub [61] bs with
  | none => .error .value
  | some vs =>
    let ve := match findSub [1] bs with
      | some e => e
      | none => bs.length
    let total := match findSub [1] bs with
      | some e => e + 1
      | none => bs.length
    do
      let v ← tyFromBytes ty ((bs.take ve).drop (vs + 1))
      pure (total, v)

abbrev Dec := Bytes → Except Err (Nat × Val)
/-- `IndexedEntries` seen from `from_bytes`: tag ↦ the class's `from_bytes` -/
abbrev Table := List (Nat × Dec)

def lookupT : Table → Int → Option Dec
  | [], _ => none
  | (k, d) :: tbl, t => if (k : Int) = t then some d else lookupT tbl t

/-- the `while` loop of `DataSegment.from_bytes`.  `fuel` bounds the number of iterations (every iteration consumes at
    least one byte, the callers pass `len + 1`); running out of it is reported as `other` and never happens -/
def segLoop (tbl : Table) : Nat → Bytes → Nat → Seg → Except Err (Nat × Seg)
  | 0, _, _, _ => .error .other
  | fuel + 1, bs, cnt, acc =>
    if bs.isEmpty then .ok (cnt, acc)
    else
      let tagBytes := match findSub [61] bs with
        | some p => bs.take p
        | none => bs.dropLast                       -- `bytes_[0:-1]`
      do
        let s ← decodeAscii tagBytes
        let tag ← parseIntAscii s
        if 0 ≤ tag ∧ hasKey acc tag.toNat then .ok (cnt, acc)          -- `if tag in deserialized: break`
        else
          match lookupT tbl tag with
          | none => .ok (cnt, acc)                                    -- `except KeyError: break`
          | some dec => do
              let r ← dec bs
              segLoop tbl fuel (bs.drop r.1) (cnt + r.1) (acc ++ [(tag.toNat, r.2)])

def segFromBytes (tbl : Table) (bs : Bytes) : Except Err (Nat × Seg) :=
  segLoop tbl (bs.length + 1) bs 0 []

/-- the `while len(bytes_) != 0 and len(deserialized) < count.value` loop; first argument = `count - len(deserialized)` -/
def grpLoop (tbl : Table) : Nat → Bytes → Nat → List Seg → Except Err (Nat × List Seg)
  | 0, _, cnt, acc => .ok (cnt, acc)
  | k + 1, bs, cnt, acc =>
    if bs.isEmpty then .ok (cnt, acc)
    else do
      let r ← segFromBytes tbl bs
      if r.1 = 0 then .ok (cnt, acc)                 -- `if end == 0: break` (what follows is not an instance of this group)
      else grpLoop tbl k (bs.drop r.1) (cnt + r.1) (acc ++ [r.2])

/-- `GroupContainer.from_bytes` (the count field class has `FieldType` int) -/
def containerFromBytes (tbl : Table) (bs : Bytes) : Except Err (Nat × Val) := do
  let c ← fieldFromBytes .int bs
  match c.2 with
  | .int n => do
      let r ← grpLoop tbl n.toNat (bs.drop c.1) c.1 []
      if (r.2.length : Int) ≠ n then .error .value
      else pure (r.1, .grp r.2)
  | _ => .error .other

mutual
/-- `IndexedEntries[tag].from_bytes` -/
def entryDec : Entry → Bytes → Except Err (Nat × Val)
  | .field _ ty _, bs => fieldFromBytes ty bs
  | .group _ sub _, bs => containerFromBytes (tableOf sub) bs
def tableOf : List Entry → Table
  | [] => []
  | e :: es => (e.tag, fun bs => entryDec e bs) :: tableOf es
end

/-- `cls.from_bytes(bytes_)` of a `Message` subclass -/
def msgFromBytes (d : MsgDef) (bs : Bytes) : Except Err (Nat × Msg) := do
  let h ← segFromBytes (tableOf d.hdr) bs
  let bs1 := bs.drop h.1
  let b ← segFromBytes (tableOf d.body) bs1
  let bs2 := bs1.drop b.1
  let t ← segFromBytes (tableOf d.trl) bs2
  pure (h.1 + b.1 + t.1, { hdr := h.2, body := b.2, trl := t.2 })

/-- `Message.get_msg_type` (after a2cfe01: `35=` counts only at the start of the bytes or right after a SOH) -/
def getMsgType (bs : Bytes) : Except Err Str :=
  let start :=
    if [51, 53, 61].isPrefixOf bs then 2          -- bytes_.startswith(b'35=')
    else match findSub [1, 51, 53, 61] bs with    -- bytes_.find(SOH + b'35=') + 3
      | some p => p + 3
      | none => 2                                 -- -1 + 3
  let stop := match findFrom [1] bs start with
    | some e => e
    | none => bs.length - 1                       -- `[..:-1]`
  decodeAscii ((bs.take stop).drop (start + 1))

/-- `Message.Def[key]`: classes register under their Name and their Type, later registrations win -/
def lookupReg : List MsgDef → Str → Option MsgDef
  | [], _ => none
  | d :: ds, k =>
      match lookupReg ds k with
      | some d' => some d'
      | none => if d.name = k ∨ d.type = k then some d else none

/-- `Message.from_bytes(bytes_)` on the base class: (consumed, class, message) -/
def decodeMsg (reg : List MsgDef) (bs : Bytes) : Except Err (Nat × MsgDef × Msg) := do
  let ty ← getMsgType bs
  match lookupReg reg ty with
  | none => .error .key
  | some d => do
      let r ← msgFromBytes d bs
      pure (r.1, d, r.2)

/-! ### equality: `Message.__eq__` -/

/-- `Field.__eq__` on two instances of the same field class: Python `==` on the values (`True == 1`) -/
def primEq : Val → Val → Bool
  | .int a, .int b => a == b
  | .int a, .bool b => a == (if b then 1 else 0)
  | .bool a, .int b => b == (if a then 1 else 0)
  | .bool a, .bool b => a == b
  | .flt a, .flt b => a == b
  | .str a, .str b => a == b
  | _, _ => false

mutual
/-- `Field.__eq__` / `GroupContainer.__eq__` (list equality of the instances) -/
def valEq : Val → Val → Bool
  | .grp a, .grp b => instsEq a b
  | .grp _, _ => false
  | a, b => primEq a b
def instsEq : List (List (Nat × Val)) → List (List (Nat × Val)) → Bool
  | [], [] => true
  | a :: as, b :: bs => segEq a b && instsEq as bs
  | _, _ => false
/-- `OrderedDict.__eq__`: same keys in the same order with equal values -/
def segEq : List (Nat × Val) → List (Nat × Val) → Bool
  | [], [] => true
  | (k, v) :: s, (k', v') :: s' => k == k' && valEq v v' && segEq s s'
  | _, _ => false
end

/-- `Message.__eq__` for two instances of the same class -/
def pyEq (a b : Msg) : Bool := segEq a.hdr b.hdr && segEq a.body b.body && segEq a.trl b.trl

mutual
/-- equality with group instances compared as plain dicts (the code since /repo 02aab28, fixes/C13-group-eq-order.md) -/
def valEqD : Val → Val → Bool
  | .grp a, .grp b => instsEqD a b
  | .grp _, _ => false
  | a, b => primEq a b
def instsEqD : List (List (Nat × Val)) → List (List (Nat × Val)) → Bool
  | [], [] => true
  | a :: as, b :: bs => decide (a.length = b.length) && subDictD a b && instsEqD as bs
  | _, _ => false
/-- every item of the first dict is in the second with an equal value (with equal sizes and distinct keys: dict equality) -/
def subDictD : List (Nat × Val) → List (Nat × Val) → Bool
  | [], _ => true
  | (k, v) :: s, b => (match lookupV b k with
                       | some w => valEqDAux v w
                       | none => false) && subDictD s b
/-- `valEqD` again (second value not structurally smaller: compared through this copy) -/
def valEqDAux : Val → Val → Bool
  | .grp a, .grp b => instsEqD a b
  | .grp _, _ => false
  | a, b => primEq a b
end

/-- `Message.__eq__` of the code as it is (after /repo 02aab28): top-level segments still compare as OrderedDicts, group instances as dicts -/
def segEqTop : List (Nat × Val) → List (Nat × Val) → Bool
  | [], [] => true
  | (k, v) :: s, (k', v') :: s' => k == k' && valEqD v v' && segEqTop s s'
  | _, _ => false

def pyEqDict (a b : Msg) : Bool := segEqTop a.hdr b.hdr && segEqTop a.body b.body && segEqTop a.trl b.trl

/-- `DataSegment.validate`: required tags missing from `values` → ValueError -/
def validateSeg (es : List Entry) (s : Seg) : Except Err Unit :=
  if es.all (fun e => !e.req || hasKey s e.tag) then .ok () else .error .value

/-! ### the concrete case used by `Witness/C13.lean` (and printed by the driver's `fix.witness`, replayed on the implementation) -/

/-- one message class: header = MsgType, body = one repeating group (count tag 100; fields 101 int, 102 string) -/
def witnessDef : MsgDef :=
  { name := [87], type := [87], hdr := [.field 35 .string true],
    body := [.group 100 [.field 101 .int true, .field 102 .string false] false], trl := [] }

/-- the group instance was assigned `102` first, then `101` (not the dictionary order) -/
def witnessMsg : Msg :=
  { hdr := [(35, .str [87])], body := [(100, .grp [[(102, .str [97]), (101, .int 1)]])], trl := [] }

end NasdaqModel.Fix
