/-
Heartbeat monitors of a logged-in session (C08, C09) — import-free, executable.

Transcribed from
  common/session.py  HeartbeatMonitor (`_pinged`, `_start_monitor`), AsyncSession.start_heartbeats, data_received
  soup/session.py    SoupSession.send_msg, SoupClientSession.login, SoupServerSession._handle_login  (the `start_heartbeats(…)` call sites)
  fix/session.py     FixSession.send_msg, FixSession.login

Time is a grid of natural numbers (one unit = any duration finer than every interval).  Login (the instant
`start_heartbeats` is called) is time 0.  One `adv` event lets one grid unit pass: it wakes every monitor whose
`asyncio.sleep(interval)` expires at the new instant (local monitor first, then the remote one) *before* any
external event that carries the same time stamp.  Steps of the library take no time (virtual time, no drift).
-/
namespace NasdaqModel.Monitor

/-- `HeartbeatMonitor` (common/session.py).  `missed` is the number of values the `count(1)` iterator
    `missed_heartbeats` has handed out since it was last re-created; `left` the grid units until the pending
    `asyncio.sleep(self.interval)` returns; `running` = the monitor task is alive. -/
structure Mon where
  interval : Nat
  tol : Nat
  stopWhenNoActivity : Bool
  pinged : Bool
  missed : Nat
  left : Nat
  running : Bool
  deriving Repr, DecidableEq, Inhabited

/-- `HeartbeatMonitor(…)`: `_pinged = True`, task created, first `sleep(interval)` pending -/
def Mon.start (interval tol : Nat) (stop : Bool) : Mon :=
  { interval := interval, tol := tol, stopWhenNoActivity := stop,
    pinged := true, missed := 0, left := interval, running := true }

/-- `ping()` -/
def Mon.ping (m : Mon) : Mon := { m with pinged := true }

/-- `stop()` (task cancelled) -/
def Mon.stop (m : Mon) : Mon := { m with running := false }

/-- body of the `while True` loop after `await asyncio.sleep(self.interval)` returned (l.78-88).
    The flag says that `on_no_activity_coro()` was awaited. -/
def Mon.wake (m : Mon) : Mon × Bool :=
  if m.pinged then
    -- `self._pinged = False; missed_heartbeats = count(1); continue`
    ({ m with pinged := false, missed := 0, left := m.interval }, false)
  else
    let k := m.missed + 1                              -- `next(missed_heartbeats)`
    if k ≥ m.tol then                                  -- `>= self.tolerate_missed_heartbeats`
      if m.stopWhenNoActivity then
        ({ m with missed := k, running := false }, true)            -- `break`
      else
        ({ m with missed := k, left := m.interval }, true)          -- loop: the counter is *not* re-created
    else
      ({ m with missed := k, left := m.interval }, false)

/-- one grid unit passes for this monitor -/
def Mon.adv (m : Mon) : Mon × Bool :=
  if m.running then
    if m.left ≤ 1 then m.wake else ({ m with left := m.left - 1 }, false)
  else (m, false)

/-! ### a monitor on its own (`mon.run` of the driver; used to validate tolerance / stop handling) -/

inductive MEv where
  | adv      -- one grid unit passes
  | ping
  deriving Repr, DecidableEq, Inhabited

/-- monitor, current time, times at which `on_no_activity_coro` was awaited (newest first) -/
structure MSt where
  mon : Mon
  now : Nat
  trips : List Nat
  deriving Repr, DecidableEq, Inhabited

def MSt.init (interval tol : Nat) (stop : Bool) : MSt := { mon := Mon.start interval tol stop, now := 0, trips := [] }

def MSt.step (s : MSt) : MEv → MSt
  | .ping => { s with mon := s.mon.ping }
  | .adv =>
    let r := s.mon.adv
    { mon := r.1, now := s.now + 1, trips := if r.2 then (s.now + 1) :: s.trips else s.trips }

def MSt.run (s : MSt) (evs : List MEv) : MSt := evs.foldl MSt.step s

/-! ### the session: two monitors, the transport, the closed flag -/

/-- who caused a `transport.write` and with what -/
inductive Origin where
  | app      -- the application called `send_msg` with a non-heartbeat message
  | appHb    -- the application called `send_msg` with a heartbeat message
  | mon      -- the local monitor awaited `send_heartbeat()`
  deriving Repr, DecidableEq, Inhabited

def Origin.isHb : Origin → Bool
  | .app => false
  | _ => true

/-- what the bytes handed to `data_received` are (the session does not look) -/
inductive RecvKind where
  | hb       -- a complete heartbeat packet
  | msg      -- a complete non-heartbeat message
  | frag     -- part of a frame
  deriving Repr, DecidableEq, Inhabited

/-- one `transport.write`: time, origin, and whether the session was still open (`not _closed`) -/
structure Write where
  t : Nat
  origin : Origin
  live : Bool
  deriving Repr, DecidableEq, Inhabited

structure Sess where
  now : Nat
  loc : Mon                 -- `_local_hb_monitor`  (trip action: `send_heartbeat`, never stops itself)
  rem : Mon                 -- `_remote_hb_monitor` (trip action: `close`)
  closed : Bool             -- `_closed`
  closeT : Nat              -- instant `close()` ran (meaningful when `closed`)
  closedByMon : Bool        -- it was the remote monitor that called `close()`
  writes : List Write       -- newest first
  recvs : List (Nat × RecvKind)   -- `data_received` calls, newest first
  deriving Repr, DecidableEq, Inhabited

/-- `start_heartbeats(local, remote)` with explicit tolerances -/
def startWith (l r tolL tolR : Nat) : Sess :=
  { now := 0, loc := Mon.start l tolL false, rem := Mon.start r tolR true,
    closed := false, closeT := 0, closedByMon := false, writes := [], recvs := [] }

/-- `start_heartbeats(local, remote)`: both monitors use the default `tolerate_missed_heartbeats = 1` -/
def startHeartbeats (l r : Nat) : Sess := startWith l r 1 1

/-- `close()`: guard on `_closed`; stops both monitors (and everything else), closes the transport -/
def Sess.close (s : Sess) (byMon : Bool) : Sess :=
  if s.closed then s
  else { s with closed := true, closeT := s.now, closedByMon := byMon, loc := s.loc.stop, rem := s.rem.stop }

/-- `send_msg(msg)`: `transport.write`, then `if not msg.is_heartbeat(): local monitor ping`
    (SoupSession.send_msg, FixSession.send_msg; no test of `_closed`) -/
def Sess.sendMsg (s : Sess) (o : Origin) : Sess :=
  { s with writes := { t := s.now, origin := o, live := !s.closed } :: s.writes,
           loc := if o.isHb then s.loc else s.loc.ping }

/-- `data_received(data)`: remote monitor ping, then the bytes go to the reader (l.326-332) -/
def Sess.dataReceived (s : Sess) (k : RecvKind) : Sess :=
  { s with rem := s.rem.ping, recvs := (s.now, k) :: s.recvs }

/-- the local monitor's timer at the current instant; trip ⇒ `send_heartbeat()` = `send_msg(heartbeat)` -/
def Sess.tickLocal (s : Sess) : Sess :=
  let r := s.loc.adv
  let s1 := { s with loc := r.1 }
  if r.2 then s1.sendMsg .mon else s1

/-- the remote monitor's timer at the current instant; trip ⇒ `close()` -/
def Sess.tickRemote (s : Sess) : Sess :=
  let r := s.rem.adv
  let s1 := { s with rem := r.1 }
  if r.2 then s1.close true else s1

def Sess.bump (s : Sess) : Sess := { s with now := s.now + 1 }

inductive Ev where
  | adv                      -- one grid unit passes
  | send                     -- application sends a non-heartbeat message
  | sendHb                   -- application sends a heartbeat message itself
  | recv (k : RecvKind)      -- bytes arrive from the peer
  | close                    -- application closes the session
  | sendFailed               -- application calls `send_msg` and the call raises before the write (see `Sess.step`)
  deriving Repr, DecidableEq, Inhabited

/-- `sendFailed`: a `send_msg(msg)` call that raises before `transport.write` — FixSession.send_msg: `msg.validate(BODY)` raises
    `ValueError` (mandatory body field missing) or `_prepare_complete_msg` raises while encoding (the sequence number is given
    back, 9c458df); SoupSession.send_msg: `msg.to_bytes()` raises (text that is not ASCII, payload longer than a packet).
    The write and the `ping()` of the local monitor both come *after* the statement that raises: nothing is written and no
    monitor is touched. -/
def Sess.step (s : Sess) : Ev → Sess
  | .adv => s.bump.tickLocal.tickRemote
  | .send => s.sendMsg .app
  | .sendHb => s.sendMsg .appHb
  | .sendFailed => s
  | .recv k => s.dataReceived k
  | .close => s.close false

def Sess.run (s : Sess) (evs : List Ev) : Sess := evs.foldl Sess.step s

/-- end of the session's life so far: the close instant, or now -/
def Sess.life (s : Sess) : Nat := if s.closed then s.closeT else s.now

/-! ### which configured interval goes where (the call sites of `start_heartbeats`) -/

inductive Role where
  | soupClient
  | soupServer
  | fix          -- FixSession is a client-side session
  deriving Repr, DecidableEq, Inhabited

structure Cfg where
  clientI : Nat     -- `client_heartbeat_interval`
  serverI : Nat     -- `server_heartbeat_interval`
  deriving Repr, DecidableEq, Inhabited

/-- `(local_hb_interval, remote_hb_interval)` as passed by the code -/
def sessionIntervals : Role → Cfg → Nat × Nat
  | .soupClient, c => (c.clientI, c.serverI)   -- SoupClientSession.login:           start_heartbeats(client, server)
  | .soupServer, c => (c.serverI, c.clientI)   -- SoupServerSession._handle_login:   start_heartbeats(server, client)   (since 757e1aa)
  | .fix, c => (c.clientI, c.serverI)          -- FixSession.login:                  start_heartbeats(client, server)

/-- the session right after a successful login -/
def login (role : Role) (c : Cfg) : Sess :=
  startHeartbeats (sessionIntervals role c).1 (sessionIntervals role c).2

/-- the interval of the session's own role / of its peer's role (what the property statements refer to) -/
def ownInterval : Role → Cfg → Nat
  | .soupServer, c => c.serverI
  | _, c => c.clientI

def peerInterval : Role → Cfg → Nat
  | .soupServer, c => c.clientI
  | _, c => c.serverI

end NasdaqModel.Monitor
