import NasdaqModel.Model.Soup
/-
A SoupBinTCP packet *object* over time.  The packet classes of `soup/core.py` are mutable attrs classes
(`@attrs.define(slots=False, auto_attribs=True)`, not frozen): a program may assign a field of a packet it has already
encoded (or change a `bytearray` payload in place) and encode it again.  `to_bytes()` reads the fields every time it is
called; the object carries no other state.  This file transcribes exactly that: the state of an object is its fields,
an assignment replaces one field, `to_bytes` is `Soup.encode` of the fields as they are now.
-/
namespace NasdaqModel.SoupObj
open NasdaqModel Py Soup

/-- the attrs attributes of the packet classes -/
inductive Field where
  | user | password | session | sequence | sessionId | reason | data | msg
  deriving Repr, DecidableEq, Inhabited

/-- what is assigned (the harness assigns values of the attribute's declared type only) -/
inductive Val where
  | text (s : Str)        -- `str` attributes
  | int (i : Int)         -- `LoginAccepted.sequence`
  | reason (r : Nat)      -- `LoginRejected.reason` (through the attrs converter `LoginRejectReason.get`)
  | bytes (b : Bytes)     -- `data`: `bytes`, or the present content of a `bytearray` after an in-place change
  deriving Repr, DecidableEq, Inhabited

/-- `obj.<field> = value`: replaces that field and nothing else; `none` = not an attribute of this class / not its type
    (outside what is modelled) -/
def assign : Pkt → Field → Val → Option Pkt
  | .loginReq _ p s q, .user, .text v => some (.loginReq v p s q)
  | .loginReq u _ s q, .password, .text v => some (.loginReq u v s q)
  | .loginReq u p _ q, .session, .text v => some (.loginReq u p v q)
  | .loginReq u p s _, .sequence, .text v => some (.loginReq u p s v)
  | .loginAcc _ q, .sessionId, .text v => some (.loginAcc v q)
  | .loginAcc s _, .sequence, .int v => some (.loginAcc s v)
  | .loginRej _, .reason, .reason v => some (.loginRej v)
  | .seqData _, .data, .bytes v => some (.seqData v)
  | .unseqData _, .data, .bytes v => some (.unseqData v)
  | .debug _, .msg, .text v => some (.debug v)
  | _, _, _ => none

inductive Op where
  | set (f : Field) (v : Val)
  | toBytes
  deriving Repr, DecidableEq, Inhabited

/-- the fields of the object after one operation (`to_bytes` changes nothing; an assignment outside the model is skipped) -/
def step (p : Pkt) : Op → Pkt
  | .set f v => (assign p f v).getD p
  | .toBytes => p

/-- the fields of the object at every `to_bytes()` call of a history, in order -/
def atEncodes : Pkt → List Op → List Pkt
  | _, [] => []
  | p, .toBytes :: r => p :: atEncodes p r
  | p, op :: r => atEncodes (step p op) r

/-- what the `to_bytes()` calls of a history return, in order -/
def run : Pkt → List Op → List (Except Err Bytes)
  | _, [] => []
  | p, .toBytes :: r => encode p :: run p r
  | p, op :: r => run (step p op) r

end NasdaqModel.SoupObj
