import NasdaqModel.Model.Soup
/-
Model of stream framing (C03): `common/session.py: Reader` (`on_data`, `_process`, `_process_1`, `stop`) and the two
`deserialize()` implementations, `soup/_reader.py: SoupMessageReader` and `fix/_reader.py: FixMessageReader`.

Transcribed line by line.  One model `tick` is one iteration of `Reader._process` that finds a non-empty buffer, i.e. exactly
one call of `deserialize()`; a `data seg` is one call of `on_data(seg)`.  An exception escaping `deserialize()` is caught by
`_process_1`, which stops the reader exactly as a logout does (`await self.stop()`: close signal, `_stopped`), leaving the
buffer untouched; `failed` records the exception class.  After a stop the buffer is still extended by `on_data` but never
looked at again.  (`on_msg_coro` raising — also answered by `stop()` — is outside this model: the property's callbacks return.)
-/
namespace NasdaqModel.Framing
open NasdaqModel Py

/-! ### Python helpers: `bytes.find`, slicing with possibly negative bounds -/

/-- scan `b` (whose first element has absolute index `off`) for the first occurrence of `needle` -/
def findAux (needle : Bytes) : Bytes → Nat → Option Nat
  | [], off => if needle.isEmpty then some off else none
  | x :: xs, off => if needle.isPrefixOf (x :: xs) then some off else findAux needle xs (off + 1)

/-- `b.find(needle, start)` for `start ≥ 0`; `none` is Python's `-1` -/
def find (b needle : Bytes) (start : Nat) : Option Nat :=
  if start ≤ b.length then findAux needle (b.drop start) start else none

/-- a slice bound as Python normalises it against a sequence of length `n` -/
def normIdx (n : Nat) (i : Int) : Nat :=
  if i < 0 then (n + i).toNat else min i.toNat n

/-- `b[i:j]` for arbitrary (possibly negative) integer bounds -/
def pySlice (b : List α) (i j : Int) : List α :=
  (b.take (normIdx b.length j)).drop (normIdx b.length i)

/-- `b[:j]` -/
def pySliceTo (b : List α) (j : Int) : List α := b.take (normIdx b.length j)

/-- `b[i:]` -/
def pySliceFrom (b : List α) (i : Int) : List α := b.drop (normIdx b.length i)

/-! ### the two `deserialize()` functions

Result `ok none` is `empty_response` (need more bytes, buffer untouched); `ok (some (m, rest))` means message `m` was
produced and `_buffer` was replaced by `rest`; `error e` means an exception was raised (buffer untouched). -/

/-- `SoupMessageReader.deserialize` -/
def soupDeser (buf : Bytes) : Except Err (Option (Soup.Pkt × Bytes)) :=
  match buf with
  | b0 :: b1 :: _ =>                                    -- `buff_len < 2` → empty_response otherwise
    let siz := b0 * 256 + b1                            -- int.from_bytes(self._buffer[:2], 'big')
    if siz + 2 > buf.length then .ok none
    else do
      let msg ← Soup.decode (buf.take (siz + 2))        -- SoupMessage.from_bytes(self._buffer[:siz + 2])
      pure (some (msg, buf.drop (siz + 2)))             -- self._buffer = self._buffer[siz + 2:]
  | _ => .ok none

def tag35 : Bytes := [51, 53, 61]     -- b'35='
def SOH : Nat := 1
def EQ : Nat := 61                    -- b'='

/-- `FixMessageReader.deserialize` up to (not including) the field-level decoding done by `Message.from_bytes`:
    a FIX frame is kept as its byte slice -/
def fixDeser (buf : Bytes) : Except Err (Option (Bytes × Bytes)) :=
  match find buf tag35 0 with
  | none => .ok none                                    -- `self._buffer.find(b'35=') != -1` is false
  | some _ =>
    match find buf [EQ] 2 with                          -- start = self._buffer.find(b'=', SKIP_FIRST_EQ_POS)
    | none => .ok none
    | some start =>
      match find buf [SOH] start with                   -- end = self._buffer.find(SOH, start)
      | none => .ok none
      | some end_ => do
        let n ← parseIntBytes (pySlice buf ((start : Int) + 1) end_)   -- int(self._buffer[start+1:end])
        if n < 0 then .error .value else                                -- `if body_length < 0: raise ValueError` (repair of the schedule-dependent cut)
        let msgLen : Int := ((end_ : Int) + 1) + n + 7                  -- calc_msg_len(end+1, body_length)
        if (buf.length : Int) < msgLen then pure none
        else pure (some (pySliceTo buf msgLen, pySliceFrom buf msgLen))

/-- `Message.get_msg_type(bytes_)` before `.decode('ascii')` (after a2cfe01: the search is anchored at the start of a field) -/
def getMsgType (b : Bytes) : Bytes :=
  let start : Nat :=
    if tag35.isPrefixOf b then 2                         -- bytes_.startswith(b'35=')
    else match find b (SOH :: tag35) 0 with              -- bytes_.find(SOH + b'35=') + 3
      | some i => i + 3
      | none => 2                                        -- -1 + 3
  let end_ : Int := match find b [SOH] start with
    | some e => (e : Int)
    | none => -1
  pySlice b ((start : Int) + 1) end_

/-- `msg.is_heartbeat()` of the class `Message.Def[get_msg_type(frame)]`: `Type == '0'` -/
def fixIsHeartbeat (f : Bytes) : Bool := getMsgType f == [48]
/-- `msg.is_logout()`: `Type == '5'` -/
def fixIsLogout (f : Bytes) : Bool := getMsgType f == [53]

/-! ### well-formed FIX frames (the hypothesis of the FIX theorems; executable so that the harness can evaluate it on its inputs) -/

/-- `8=ver␁9=ds␁` -/
def fixHeader (ver ds : Bytes) : Bytes := [56, 61] ++ ver ++ [1, 57, 61] ++ ds ++ [1]

/-- the parts `(ver, ds, body)` of a byte string of the shape `8=ver␁9=ds␁body` (`ver`, `ds` free of SOH) -/
def fixParts (f : Bytes) : Option (Bytes × Bytes × Bytes) :=
  match f with
  | 56 :: 61 :: r =>
    match r.dropWhile (· != 1) with
    | 1 :: 57 :: 61 :: r2 =>
      match r2.dropWhile (· != 1) with
      | 1 :: body => some (r.takeWhile (· != 1), r2.takeWhile (· != 1), body)
      | _ => none
    | _ => none
  | _ => none

/-- **well-formed FIX frame** (as far as framing is concerned): `8=ver␁9=n␁` followed by exactly `n` bytes that start with
    `35=` and 7 more bytes (the `10=xxx␁` trailer); `ver` contains no `=`; `n` is written in (at most 4300) decimal digits.  (That the first
    `35=` of such a frame is its MsgType field is a consequence: `find_header_none`.) -/
def wfFixFrame (f : Bytes) : Bool :=
  match fixParts f with
  | some (ver, ds, body) =>
      ver.all (· != 61) && !ds.isEmpty && ds.all isDigit && tag35.isPrefixOf body
      && body.length == digitsVal ds + 7
      && decide (ds.length ≤ 4300)        -- beyond that CPython's `int()` refuses the text (int_max_str_digits); not modelled
  | none => false

/-! ### the reader machine -/

/-- what a concrete reader supplies: `deserialize()` and the `(stop, skip)` classification of its result -/
structure Proto (μ : Type) where
  deser : Bytes → Except Err (Option (μ × Bytes))
  isLogout : μ → Bool
  isHeartbeat : μ → Bool

def soupProto : Proto Soup.Pkt := ⟨soupDeser, Soup.Pkt.isLogout, Soup.Pkt.isHeartbeat⟩
def fixProto : Proto Bytes := ⟨fixDeser, fixIsLogout, fixIsHeartbeat⟩

inductive Ev where
  | data (seg : Bytes)      -- `reader.on_data(seg)`
  | tick                    -- one wake-up of `_process` (one `deserialize()` if the buffer is non-empty)
  deriving Repr, DecidableEq, Inhabited

structure R (μ : Type) where
  buf : Bytes := []               -- `_buffer`
  stopped : Bool := false         -- `_stopped`
  failed : Option Err := none     -- exception class caught around `deserialize()` (the reader then stopped)
  out : List μ := []              -- arguments of the `on_msg_coro` calls, in order
  closeSignals : Nat := 0         -- number of `on_close_coro` calls

/-- what one event did (for the event-by-event comparison with the implementation) -/
inductive Obs (μ : Type) where
  | nothing               -- no `deserialize()` call (data event, stopped reader, or empty buffer)
  | needMore              -- `deserialize()` returned `empty_response`
  | emit (m : μ)          -- `on_msg_coro(m)`
  | skip (m : μ)          -- heartbeat consumed
  | stop (m : μ)          -- logout consumed: `on_close_coro()`, `_stopped = True`
  | crash (e : Err)       -- `deserialize()` raised: `on_close_coro()`, `_stopped = True`

def stepObs (P : Proto μ) (r : R μ) : Ev → R μ × Obs μ
  | .data seg =>
    if seg.length = 0 then (r, .nothing)                       -- `if len(data) == 0: return`
    else ({ r with buf := r.buf ++ seg }, .nothing)            -- `self._buffer.extend(data)`
  | .tick =>
    if r.stopped then (r, .nothing)                            -- `while not self._stopped` left
    else if r.buf.length = 0 then (r, .nothing)                -- `if len(self._buffer) > 0`
    else match P.deser r.buf with
      | .error e =>                                             -- `except Exception: await self.stop(); return`
        ({ r with stopped := true, closeSignals := r.closeSignals + 1, failed := some e }, .crash e)
      | .ok none => (r, .needMore)
      | .ok (some (m, rest)) =>
        if P.isLogout m then                                    -- `if stop: await self.stop(); return`
          ({ r with buf := rest, stopped := true, closeSignals := r.closeSignals + 1 }, .stop m)
        else if P.isHeartbeat m then                            -- `if msg is None or skip: return`
          ({ r with buf := rest }, .skip m)
        else ({ r with buf := rest, out := r.out ++ [m] }, .emit m)   -- `await self.on_msg_coro(msg)`

def step (P : Proto μ) (r : R μ) (ev : Ev) : R μ := (stepObs P r ev).1

def run (P : Proto μ) (evs : List Ev) : R μ := evs.foldl (step P) {}

/-- the per-event observations of a run, in order, and the final state -/
def runTrace (P : Proto μ) (evs : List Ev) : R μ × List (Obs μ) :=
  evs.foldl (fun (acc : R μ × List (Obs μ)) ev =>
    let (r', o) := stepObs P acc.1 ev
    (r', acc.2 ++ [o])) ({}, [])

end NasdaqModel.Framing
