import NasdaqModel.Model.Seq
/-
`FixSession.send_msg`, the message seen segment by segment.

`_prepare_complete_msg(msg)` calls `Message.to_bytes()`, which serialises Header, Body and Trailer in turn; each of them can
raise (non-ASCII text in a string field — an application-set header field such as TargetSubID / OnBehalfOfCompID, a header
group instance, a body field, a body group instance, a trailer field).  `Seq.FixMsg.encodable` is the conjunction; this file
makes the three parts explicit, so that "a send that cannot be serialised" visibly covers every segment, and transcribes a
tempting but wrong variant of the repair (check only the BODY before the number is taken).
-/
namespace NasdaqModel.SeqNum
open NasdaqModel

/-- what `send_msg` can observe of a message, per segment -/
structure SegMsg where
  bodyValid : Bool     -- `msg.validate(segments=[BODY])` passes
  hdrEnc : Bool        -- `msg.Header.to_bytes()` succeeds once the session has stamped comp ids, MsgSeqNum, SendingTime
  bodyEnc : Bool       -- `msg.Body.to_bytes()` succeeds
  trlEnc : Bool        -- `msg.Trailer.to_bytes()` succeeds
  deriving Repr, DecidableEq, Inhabited

/-- `Message.to_bytes` = header ++ body ++ trailer: it succeeds iff all three do -/
def SegMsg.toMsg (m : SegMsg) : FixMsg :=
  { bodyValid := m.bodyValid, encodable := m.hdrEnc && m.bodyEnc && m.trlEnc }

inductive SegOp where
  | login (seq : Int) (m : SegMsg)
  | send (m : SegMsg)
  | heartbeat (m : SegMsg)
  deriving Repr, DecidableEq

def SegOp.toOp : SegOp → FixOp
  | .login q m => .login q m.toMsg
  | .send m => .send m.toMsg
  | .heartbeat m => .heartbeat m.toMsg

def SegOp.msg : SegOp → SegMsg
  | .login _ m => m
  | .send m => m
  | .heartbeat m => m

/-- the code as it is (repaired `send_msg`, /repo 9c458df) on segment-wise histories -/
def segRunR (s : FixSt) (ops : List SegOp) : FixSt := fixRunR s (ops.map SegOp.toOp)
def segTraceR (s : FixSt) (ops : List SegOp) : List (FixOut × Option Int) := fixTraceR s (ops.map SegOp.toOp)

/-! ### a variant that is NOT the code: pre-check of the body only

      msg.validate(segments=[BODY]); msg.Body.to_bytes()      -- reject while nothing has been touched
      … stamp the header …
      msg.Header.MsgSeqNum = next(self.sequence)               -- number taken
      data = self._prepare_complete_msg(msg)                   -- header / trailer may still raise: the number is gone

It looks like a simplification of the give-back (`self.sequence = count(seq_num)` in an `except`) and behaves the same on
every message whose header and trailer serialise.  `Witness/C10Seg.lean` decides the gap it leaves. -/
def fixSendBodyCheck (s : FixSt) (m : SegMsg) : FixSt × FixOut :=
  if !m.bodyValid then (s, .rejected)
  else if !m.bodyEnc then (s, .encodeError)
  else match s.next with
    | none => (s, .notLoggedIn)
    | some n =>
      if m.hdrEnc && m.trlEnc then ({ next := some (n + 1), frames := s.frames ++ [n] }, .written n)
      else ({ s with next := some (n + 1) }, .encodeError)

def segStepBodyCheck (s : FixSt) : SegOp → FixSt × FixOut
  | .login q m => fixSendBodyCheck { s with next := some q } m
  | .send m => fixSendBodyCheck s m
  | .heartbeat m => fixSendBodyCheck s m

def segRunBodyCheck (s : FixSt) (ops : List SegOp) : FixSt := ops.foldl (fun st op => (segStepBodyCheck st op).1) s

/-- logon with MsgSeqNum 5, a send whose body is fine and whose HEADER cannot be serialised, a good send -/
def witnessHeaderGap : List SegOp :=
  [.login 5 ⟨true, true, true, true⟩, .send ⟨true, false, true, true⟩, .send ⟨true, true, true, true⟩]

/-- the same with the TRAILER -/
def witnessTrailerGap : List SegOp :=
  [.login 5 ⟨true, true, true, true⟩, .send ⟨true, true, true, false⟩, .send ⟨true, true, true, true⟩]

end NasdaqModel.SeqNum
