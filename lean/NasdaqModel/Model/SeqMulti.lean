import NasdaqModel.Model.Seq
/-
Several sessions alive in one process (property C10, the multi-session part).

Every session object owns its state: `SoupSession.sequence` is an `int` attribute of the instance; `FixSession.sequence` is
REPLACED by a fresh `itertools.count(..)` in `_initialize_session` and in the give-back of a failed serialisation
(`send_msg`, the `except` around `_prepare_complete_msg`), the class-level default is the immutable int `1`; every session writes to its own transport.  No function
of soup/session.py or fix/session.py reads or writes the state of another session object.  So the state of a process with several
sessions is the PRODUCT of the per-session states of Model/Seq.lean, indexed by a session id (position in the list), and an operation
on session `a` is the per-session step applied at position `a`.

A history is a list of (session id, operation) pairs: application sends of every kind, explicit and timer-driven heartbeats, logons,
closes — of all sessions, in the order in which they happened in the process.

`Props/C10Multi.lean` proves that every session's final state is a function of its own sub-history alone (so the k-th-frame and
counter theorems of `Props/C10.lean` hold per session under every interleaving with other sessions), and `Witness/C10Multi.lean`
decides that a semantics with ONE counter shared by the sessions (a default `itertools.count` evaluated once, at class definition)
is not such a product.
-/
namespace NasdaqModel.SeqNum
open NasdaqModel Soup

/-- `logon_msg.Header.MsgSeqNum` of a logon: the stated number, or — when the header does not carry the field —
    `FixInt.default_value()` = 0 (fix/core.py `DataSegment.__getitem__`) -/
def logonSeq : Option Int → Int
  | some q => q
  | none => 0

/-- one session object: a soup session (server or client, Model/Seq `SoupSt`) or a FIX session of any version (`FixSt`;
    `FixSession(sequence=…)` leaves no trace: the argument is overwritten by the logon and unusable before it) -/
inductive Sess where
  | soup (s : SoupSt)
  | fix (s : FixSt)
  deriving Repr, DecidableEq

/-- one operation on one session -/
inductive MOp where
  | soup (op : SoupOp)                                   -- any operation of a soup history
  | soupLogin (req : Pkt) (replies : List Bytes)         -- `SoupClientSession.login(req)` with the reply frames arriving afterwards
  | fix (op : FixOp)                                     -- any operation of a FIX history (code as it is: repaired `send_msg`)
  deriving Repr, DecidableEq

/-- what the caller of an operation observes -/
inductive MOut where
  | soup (e : Option Err)
  | soupLogin (e : Option Err) (accepted : Bool)
  | fix (o : FixOut)
  | noSuch                -- no such session / an operation of the other protocol: nothing happens (never generated)
  deriving Repr, DecidableEq

def sessStep : Sess → MOp → Sess × MOut
  | .soup s, .soup op => let r := soupStep s op; (.soup r.1, .soup r.2)
  | .soup s, .soupLogin req replies => let r := clientLogin s req replies; (.soup r.1, .soupLogin r.2.1 r.2.2)
  | .fix s, .fix op => let r := fixStepR s op; (.fix r.1, .fix r.2)
  | s, _ => (s, .noSuch)

def sessRun (s : Sess) (ops : List MOp) : Sess := ops.foldl (fun st op => (sessStep st op).1) s

def sessOuts : Sess → List MOp → List MOut
  | _, [] => []
  | s, op :: rest => let r := sessStep s op; r.2 :: sessOuts r.1 rest

/-- the sessions of the process; the session id is the position -/
abbrev World := List Sess

/-- an event of the process: (session id, operation) -/
abbrev Ev := Nat × MOp

/-- apply `f` to the session at position `i` (other positions, and a world without position `i`, are left alone) -/
def modifyAt (f : Sess → Sess) : World → Nat → World
  | [], _ => []
  | s :: rest, 0 => f s :: rest
  | s :: rest, i + 1 => s :: modifyAt f rest i

def worldStep (w : World) (ev : Ev) : World := modifyAt (fun s => (sessStep s ev.2).1) w ev.1

def worldOut (w : World) (ev : Ev) : MOut :=
  match w[ev.1]? with
  | some s => (sessStep s ev.2).2
  | none => .noSuch

def worldRun (w : World) (evs : List Ev) : World := evs.foldl worldStep w

/-- per event: (session id, what its caller observed, the world afterwards) — for the correspondence -/
def worldTrace : World → List Ev → List (Nat × MOut × World)
  | _, [] => []
  | w, ev :: rest => let w' := worldStep w ev; (ev.1, worldOut w ev, w') :: worldTrace w' rest

/-- the sub-history of session `a`: its own operations, in order -/
def sub (a : Nat) (evs : List Ev) : List MOp := (evs.filter (fun ev => ev.1 == a)).map (·.2)

/-- the number a session would use next: soup `self.sequence`; FIX what `self.sequence` yields next (`none` before the logon) -/
def Sess.counter : Sess → Option Int
  | .soup s => some s.seq
  | .fix s => s.next

/-! ### a semantics that is NOT the code: one default counter shared by the sessions

      sequence: Iterator[int] = attrs.field(default=count(1), converter=_as_counter, kw_only=True)    -- ONE object, made at class definition
      …
      def _initialize_session(self, logon_msg):
          if 'MsgSeqNum' in logon_msg.Header:
              self.sequence = count(logon_msg.Header.MsgSeqNum)           -- private counter only when the logon states a number

It reads like "make the documented `sequence=` parameter work".  A session created without `sequence=` whose logon states no number
draws from the iterator every such session draws from.  `Witness/C10Multi.lean` decides a two-session history on which this
semantics breaks the k-th-frame statement (and the product property), while every single-session history stays contiguous. -/

/-- where a session's `self.sequence` points: the class-level default object, or a counter of its own -/
inductive Ctr where
  | shared
  | own (next : Int)
  deriving Repr, DecidableEq

structure ShSess where
  ctr : Ctr
  loggedOn : Bool           -- comp ids set (`_initialize_session` ran)
  frames : List Int
  deriving Repr, DecidableEq

structure ShWorld where
  shared : Int              -- what the class-level `count(1)` yields next
  sess : List ShSess
  deriving Repr, DecidableEq

inductive ShOp where
  | login (q : Option Int) (m : FixMsg)      -- `none`: the logon header carries no MsgSeqNum
  | send (m : FixMsg)
  | heartbeat (m : FixMsg)
  deriving Repr, DecidableEq

/-- a session created with `sequence=n` (`some n`: the converter wraps it in a counter of its own) or without -/
def shNew : Option Int → ShSess
  | some n => { ctr := .own n, loggedOn := false, frames := [] }
  | none => { ctr := .shared, loggedOn := false, frames := [] }

def shSend (shared : Int) (s : ShSess) (m : FixMsg) : Int × ShSess :=
  if !m.bodyValid then (shared, s)
  else if !s.loggedOn then (shared, s)                       -- TypeError: comp ids are None
  else
    let n := match s.ctr with | .shared => shared | .own k => k
    let shared' := match s.ctr with | .shared => shared + 1 | .own _ => shared      -- `next(self.sequence)`
    if m.encodable then
      (shared', { s with ctr := (match s.ctr with | .shared => .shared | .own k => .own (k + 1)), frames := s.frames ++ [n] })
    else (shared', { s with ctr := .own n })                 -- give-back: `self.sequence = count(seq_num)`

def shStep (shared : Int) (s : ShSess) : ShOp → Int × ShSess
  | .login (some q) m => shSend shared { s with ctr := .own q, loggedOn := true } m
  | .login none m => shSend shared { s with loggedOn := true } m
  | .send m => shSend shared s m
  | .heartbeat m => shSend shared s m

def shModify (f : ShSess → Int × ShSess) (shared : Int) : List ShSess → Nat → Int × List ShSess
  | [], _ => (shared, [])
  | s :: rest, 0 => let r := f s; (r.1, r.2 :: rest)
  | s :: rest, i + 1 => let r := shModify f shared rest i; (r.1, s :: r.2)

def shWorldStep (w : ShWorld) (ev : Nat × ShOp) : ShWorld :=
  let r := shModify (fun s => shStep w.shared s ev.2) w.shared w.sess ev.1
  { shared := r.1, sess := r.2 }

def shWorldRun (w : ShWorld) (evs : List (Nat × ShOp)) : ShWorld := evs.foldl shWorldStep w

/-- the same history on the code as it is: session `i` of the product world, a logon without a number reads 0 -/
def ShOp.toOp : ShOp → MOp
  | .login q m => .fix (.login (logonSeq q) m)
  | .send m => .fix (.send m)
  | .heartbeat m => .fix (.heartbeat m)

/-- two sessions created without `sequence=`, both log on without stating a number, then send alternately -/
def witnessShared : List (Nat × ShOp) :=
  [(0, .login none ⟨true, true⟩), (1, .login none ⟨true, true⟩), (0, .send ⟨true, true⟩), (1, .send ⟨true, true⟩),
   (0, .heartbeat ⟨true, true⟩)]

end NasdaqModel.SeqNum
