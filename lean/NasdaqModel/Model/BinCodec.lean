import NasdaqModel.Py.Basic
/-
Model of the binary message codec of `nasdaq_protocols.common.message`:

  * `types.py`       — `_int_packer_fac/_int_unpacker_fac`, `Boolean`, `CharAscii/CharIso8599`, `_str_pack_fac/_str_unpack_fac`,
                       `FixedAsciiString/FixedIsoString`
  * `structures.py`  — `_Record.get_field_value`, `Record.to_bytes/from_bytes`, `RecordWithPresentBit.to_bytes/from_bytes`,
                       `Array.__attrs_post_init__/to_bytes/from_bytes`, `CommonMessage.to_bytes/from_bytes`
  * `itch|ouch|sqf/core.py` — the message id is `Byte.to_bytes(indicator)` / `Byte.from_bytes`

Transcribed line by line, quirks included:
  reported length and produced bytes are separate results; a fixed string is padded and truncated to its width; a char is
  `x[:1].ljust(1)`; a fixed string is read back through `strip(' ')`;
  a variable string writes `len` through the *signed* 2-byte little-endian packer; decoding slices and never raises on short
  input (Python slice semantics incl. negative indices, which a negative string length produces); an optional record is absent
  when the value is `None` *or* its store is empty; an array whose element type is an optional record uses the plain record
  packer (`super(RecordWithPresentBit, type)`); a record with no fields encodes to zero bytes without touching the value;
  a record store is a partial map and reads fall back to the field default, then the type default.

Outside the model (never produced by the correspondence harness): two fields of one record with the same name (the code resolves the
default through `IndexedFields`, i.e. the last such field), a record instance of a *different* class stored in a record-typed
slot, float values.  `int` sizes are ≥ 1 in the library (for size 0 the signed range below is empty).
-/
namespace NasdaqModel.BinCodec
open NasdaqModel Py

/-- Python values that can sit in a record store / be passed to a `to_bytes` -/
inductive Val where
  | int (i : Int)
  | bool (b : Bool)
  | str (cs : Str)
  | recd (store : List (Nat × Val))      -- a `_Record` instance: its `values` dict (field name ↦ value), names are numbers
  | none
  | list (xs : List Val)
  deriving Repr, Inhabited

abbrev Store := List (Nat × Val)

mutual
/-- field types (`TypeDefinition` classes / instances) -/
inductive Ty where
  | int (size : Nat) (signed be : Bool)
  | bool
  | char (iso : Bool)
  | str (iso : Bool)
  | fixed (iso : Bool) (n : Nat) (rjust : Bool)
  | record (fs : Flds)                   -- subclass of `Record`
  | optrec (fs : Flds)                   -- subclass of `RecordWithPresentBit`
  | arr (elem : Ty) (csize : Nat) (csigned cbe : Bool)   -- `Array(elem, length_type)`; `length_type` an integer type
/-- `Fields`, in declaration order: name, type, `default_value` (`Val.none` = Python `None` = no field default) -/
inductive Flds where
  | nil
  | cons (name : Nat) (ty : Ty) (dflt : Val) (rest : Flds)
end

instance : Inhabited Ty := ⟨.bool⟩
instance : Inhabited Flds := ⟨.nil⟩

def Flds.isNil : Flds → Bool
  | .nil => true
  | _ => false

def Flds.hasName : Flds → Nat → Bool
  | .nil, _ => false
  | .cons n _ _ rest, k => n == k || rest.hasName k

/-! ### Python slices with integer (possibly negative) indices -/

/-- normalise a slice index against a length: negative counts from the end, then clamp to `[0, len]` -/
def pyIdx (len : Nat) (i : Int) : Nat :=
  if i < 0 then (len + i).toNat else min i.toNat len

/-- `l[a:]` -/
def sliceFromI {α : Type} (l : List α) (a : Int) : List α := l.drop (pyIdx l.length a)

/-- `l[a:b]` -/
def sliceI {α : Type} (l : List α) (a b : Int) : List α := (l.take (pyIdx l.length b)).drop (pyIdx l.length a)

/-! ### integers: `int.to_bytes` / `int.from_bytes` -/

/-- `size` little-endian base-256 digits of `u` -/
def leBytes : Nat → Nat → Bytes
  | 0, _ => []
  | n + 1, u => (u % 256) :: leBytes n (u / 256)

/-- value of little-endian base-256 digits -/
def leVal : Bytes → Nat
  | [] => 0
  | b :: r => b + 256 * leVal r

/-- the values `int.to_bytes(size, _, signed=signed)` accepts (anything else: OverflowError) -/
def intInRange (size : Nat) (signed : Bool) (v : Int) : Bool :=
  if signed then decide (-((256 ^ size / 2 : Nat) : Int) ≤ v ∧ v < ((256 ^ size / 2 : Nat) : Int))
  else decide (0 ≤ v ∧ v < ((256 ^ size : Nat) : Int))

/-- `v.to_bytes(size, endian, signed=signed)` -/
def intToBytes (size : Nat) (signed be : Bool) (v : Int) : Except Err Bytes :=
  if intInRange size signed v then
    let u : Nat := (v % ((256 ^ size : Nat) : Int)).toNat
    .ok (if be then (leBytes size u).reverse else leBytes size u)
  else .error .overflow

/-- `int.from_bytes(bs, endian, signed=signed)` for a byte string of any length -/
def intFromBytes (signed be : Bool) (bs : Bytes) : Int :=
  let u := leVal (if be then bs.reverse else bs)
  if signed && decide (256 ^ bs.length ≤ 2 * u) then (u : Int) - ((256 ^ bs.length : Nat) : Int) else (u : Int)

/-! ### text -/

/-- `s.encode(charset)` -/
def encodeCs (iso : Bool) (s : Str) : Except Err Bytes := if iso then encodeIso s else encodeAscii s
/-- `b.decode(charset)` -/
def decodeCs (iso : Bool) (b : Bytes) : Except Err Str := if iso then decodeIso b else decodeAscii b

/-! ### leaf encoders (`to_bytes` of the scalar types) applied to an arbitrary Python value -/

/-- `_int_packer_fac(endian, signed, size, value)`; a `bool` is an `int`; other objects have no usable `to_bytes` -/
def encInt (size : Nat) (signed be : Bool) : Val → Except Err (Nat × Bytes)
  | .int i => do
      let b ← intToBytes size signed be i
      pure (size, b)
  | .bool t => do
      let b ← intToBytes size signed be (if t then 1 else 0)
      pure (size, b)
  | .recd _ => .error .type
  | _ => .error .attr

/-- Python truthiness (`b'\x01' if x else b'\x00'`) -/
def truthy : Val → Bool
  | .int i => i != 0
  | .bool b => b
  | .str cs => !cs.isEmpty
  | .recd _ => true
  | .none => false
  | .list xs => !xs.isEmpty

/-- `CharAscii.to_bytes` / `CharIso8599.to_bytes`: `(1, x[:1].ljust(1).encode(cs))` -/
def encChar (iso : Bool) : Val → Except Err (Nat × Bytes)
  | .str cs => do
      let b ← encodeCs iso (ljust (cs.take 1) 1)
      pure (1, b)
  | .list _ => .error .attr
  | _ => .error .type

/-- `_str_pack_fac`: `Short.to_bytes(len(s))` first, then `s.encode` -/
def encStr (iso : Bool) : Val → Except Err (Nat × Bytes)
  | .str cs => do
      let lb ← intToBytes 2 true false (cs.length : Int)
      let b ← encodeCs iso cs
      pure (2 + cs.length, lb ++ b)
  | .list xs => do
      let _ ← intToBytes 2 true false (xs.length : Int)
      .error .attr
  | _ => .error .type

/-- `FixedAsciiString.to_bytes` / `FixedIsoString.to_bytes`: pad, then `value[:self.length]`, report `self.length` -/
def encFixed (iso : Bool) (n : Nat) (rj : Bool) : Val → Except Err (Nat × Bytes)
  | .str cs => do
      let b ← encodeCs iso ((if rj then rjust cs n else ljust cs n).take n)
      pure (n, b)
  | .recd _ => .error .key
  | _ => .error .attr

/-! ### records -/

/-- `dict` lookup -/
def lookup : Store → Nat → Option Val
  | [], _ => none
  | (k, v) :: rest, key => if k = key then some v else lookup rest key

/-- `TypeDefinition.default_value` of each type -/
def typeDefault : Ty → Val
  | .int .. => .int 0
  | .bool => .bool false
  | .char _ => .str [32]
  | .str _ => .str []
  | .fixed .. => .str []
  | .record _ => .none
  | .optrec _ => .none
  | .arr .. => .list []

/-- `_Record.get_field_value`: the store, else the field default unless it `is None`, else the type default -/
def getField (st : Store) (name : Nat) (ty : Ty) (dflt : Val) : Val :=
  match lookup st name with
  | some v => v
  | none =>
    match dflt with
    | .none => typeDefault ty
    | d => d

/-- what `Record.to_bytes(cls, record)` needs of `record`: with no fields the record is never touched (`if not segments:
    return 0, b''`); otherwise `record.get_field_value` must exist -/
def asStore (noFields : Bool) : Val → Except Err Store
  | v =>
    if noFields then .ok []
    else match v with
      | .recd st => .ok st
      | _ => .error .attr

/-- a generator of `(len, bytes)` pairs, zipped and summed / joined -/
def encItems (f : Val → Except Err (Nat × Bytes)) : List Val → Except Err (Nat × Bytes)
  | [] => pure (0, [])
  | x :: xs => do
      let r1 ← f x
      let r2 ← encItems f xs
      pure (r1.1 + r2.1, r1.2 ++ r2.2)

/-- `Array.to_bytes`: `len(list_)`, the count through `length_type.to_bytes`, then the items in order.
    (A `str` is iterable: its items are its one-character strings.) -/
def encArr (f : Val → Except Err (Nat × Bytes)) (cs : Nat) (csg cbe : Bool) : Val → Except Err (Nat × Bytes)
  | .list xs => do
      let c ← encInt cs csg cbe (.int xs.length)
      let r ← encItems f xs
      pure (c.1 + r.1, c.2 ++ r.2)
  | .str s => do
      let c ← encInt cs csg cbe (.int s.length)
      let r ← encItems f (s.map fun ch => .str [ch])
      pure (c.1 + r.1, c.2 ++ r.2)
  | _ => .error .type

mutual
/-- `ty.to_bytes(value)` : `(reported length, bytes)` -/
def encode : Ty → Val → Except Err (Nat × Bytes)
  | .int s sg be, v => encInt s sg be v
  | .bool, v => pure (1, [if truthy v then 1 else 0])
  | .char iso, v => encChar iso v
  | .str iso, v => encStr iso v
  | .fixed iso n rj, v => encFixed iso n rj v
  | .record fs, v => do
      let st ← asStore fs.isNil v
      encFields fs st
  | .optrec fs, v =>
      match v with
      | .none => pure (1, [0])                      -- `record is None`
      | .recd [] => pure (1, [0])                   -- `len(record.values) == 0`
      | .recd st => do
          let st ← asStore fs.isNil (.recd st)
          let r ← encFields fs st
          pure (1 + r.1, 1 :: r.2)
      | _ => .error .attr                           -- no attribute `values`
  -- `Array.__attrs_post_init__`: for an element type that is a RecordWithPresentBit the packer is `Record.to_bytes` on that class
  | .arr (.optrec fs) cs csg cbe, v =>
      encArr (fun x => do
        let st ← asStore fs.isNil x
        encFields fs st) cs csg cbe v
  | .arr elem cs csg cbe, v => encArr (fun x => encode elem x) cs csg cbe v
/-- the body of `Record.to_bytes`: every field in declaration order, value through `get_field_value` -/
def encFields : Flds → Store → Except Err (Nat × Bytes)
  | .nil, _ => pure (0, [])
  | .cons name ty d rest, st => do
      let r1 ← encode ty (getField st name ty d)
      let r2 ← encFields rest st
      pure (r1.1 + r2.1, r1.2 ++ r2.2)
end

/-- `_str_unpack_fac`: `offset, len_ = Short.from_bytes(data)`; `(offset+len_, data[offset:offset+len_].decode(cs))` -/
def decStr (iso : Bool) (b : Bytes) : Except Err (Int × Val) := do
  let len := intFromBytes true false (b.take 2)
  let s ← decodeCs iso (sliceI b 2 (2 + len))
  pure (2 + len, .str s)

/-- the loop of `Array.from_bytes`: `value = unpacker(bytes_[offset:]); offset += offset1` -/
def decItemsAt (f : Bytes → Except Err (Int × Val)) : Nat → Bytes → Int → Except Err (Int × List Val)
  | 0, _, off => pure (off, [])
  | k + 1, b, off => do
      let r ← f (sliceFromI b off)
      let rs ← decItemsAt f k b (off + r.1)
      pure (rs.1, r.2 :: rs.2)

mutual
/-- `ty.from_bytes(data)` : `(consumed, value)` -/
def decode : Ty → Bytes → Except Err (Int × Val)
  | .int s sg be, b => pure ((s : Int), .int (intFromBytes sg be (b.take s)))
  | .bool, b => pure (1, .bool (b.take 1 == [1]))
  | .char iso, b => do
      let s ← decodeCs iso (b.take 1)
      pure (1, .str s)
  | .str iso, b => decStr iso b
  | .fixed iso n _, b => do
      let s ← decodeCs iso (b.take n)
      pure ((n : Int), .str (stripBy (fun c => c == 32) s))      -- `.strip(' ')`
  | .record fs, b => do
      let r ← decFieldsAt fs b 0
      pure (r.1, .recd r.2)
  | .optrec fs, b =>
      if b.take 1 == [1] then do
        let r ← decFieldsAt fs (sliceFromI b 1) 0
        pure (1 + r.1, .recd r.2)
      else pure (1, .none)
  | .arr (.optrec fs) cs csg cbe, b => do
      let cnt := intFromBytes csg cbe (b.take cs)
      let r ← decItemsAt (fun x => do
                  let r ← decFieldsAt fs x 0
                  pure (r.1, .recd r.2)) cnt.toNat b (cs : Int)
      pure (r.1, .list r.2)
  | .arr elem cs csg cbe, b => do
      let cnt := intFromBytes csg cbe (b.take cs)
      let r ← decItemsAt (fun x => decode elem x) cnt.toNat b (cs : Int)      -- `range(len_)` is empty for negative `len_`
      pure (r.1, .list r.2)
/-- the loop of `Record.from_bytes`: `field.type.from_bytes(bytes_[offset:])`, offsets accumulated against the original buffer -/
def decFieldsAt : Flds → Bytes → Int → Except Err (Int × Store)
  | .nil, _, off => pure (off, [])
  | .cons name ty _ rest, b, off => do
      let r ← decode ty (sliceFromI b off)
      let rs ← decFieldsAt rest b (off + r.1)
      pure (rs.1, (name, r.2) :: rs.2)
end

/-- the type whose packer/unpacker an `Array` uses for its items -/
def elemTy : Ty → Ty
  | .optrec fs => .record fs
  | t => t

/-- `Array(type, …)` can be constructed: `issubclass(self.type, …)` needs a class, and fixed strings / arrays are instances -/
def arrElemOk : Ty → Bool
  | .fixed .. => false
  | .arr .. => false
  | _ => true

mutual
/-- the schema can be built as Python classes at all -/
def constructible : Ty → Bool
  | .record fs => constructibleF fs
  | .optrec fs => constructibleF fs
  | .arr elem _ _ _ => arrElemOk elem && constructible elem
  | _ => true
def constructibleF : Flds → Bool
  | .nil => true
  | .cons _ ty _ rest => constructible ty && constructibleF rest
end

/-! ### messages (`CommonMessage` + `ItchMessageId` / `OuchMessageId` / `SqfMessageId`) -/

/-- a registered message class: indicator, class tag, body fields -/
structure MsgDef where
  ind : Nat
  cls : Nat
  fs : Flds

/-- `msg.to_bytes()`: `MsgId.to_bytes()[1] + BodyRecord.to_bytes(self.record)[1]`, length recomputed with `len` -/
def encodeMsg (m : MsgDef) (record : Val) : Except Err (Nat × Bytes) := do
  let i ← encInt 1 false false (.int m.ind)          -- `Byte.to_bytes(self.indicator)`
  let r ← encode (.record m.fs) record
  pure ((i.2 ++ r.2).length, i.2 ++ r.2)

/-- `MsgIdToClsMap[app][msg_id]` -/
def findMsg : List MsgDef → Int → Option MsgDef
  | [], _ => none
  | m :: rest, i => if (m.ind : Int) = i then some m else findMsg rest i

/-- `Message.from_bytes(bytes_)`: `(consumed, class, record)`; an unregistered id raises KeyError -/
def decodeMsg (reg : List MsgDef) (b : Bytes) : Except Err (Int × Nat × Val) :=
  let i := intFromBytes false false (b.take 1)        -- `Byte.from_bytes(bytes_)[1]`, reported length 1
  match findMsg reg i with
  | none => .error .key
  | some m => do
      let r ← decode (.record m.fs) (sliceFromI b 1)
      pure (1 + r.1, m.cls, r.2)

/-! ### what a decoded value looks like, and reads through the typed attributes -/

mutual
/-- the value `from_bytes(to_bytes(v))` yields: defaults filled in, every field present, an absent optional record is `None`,
    a `bool` stored in an integer field comes back as the integer -/
def norm : Ty → Val → Val
  | .int _ _ _, v => match v with
      | .bool b => .int (if b then 1 else 0)
      | v => v
  | .bool, v => .bool (truthy v)
  | .char _, v => v
  | .str _, v => v
  | .fixed _ _ _, v => v
  | .record fs, v => match v with
      | .recd st => .recd (normFields fs st)
      | v => v
  | .optrec fs, v => match v with
      | .recd [] => .none
      | .recd st => .recd (normFields fs st)
      | v => v
  | .arr (.optrec fs) _ _ _, v => match v with
      | .list xs => .list (xs.map fun x => match x with
                                   | .recd st => .recd (normFields fs st)
                                   | x => x)
      | v => v
  | .arr elem _ _ _, v => match v with
      | .list xs => .list (xs.map fun x => norm elem x)
      | v => v
def normFields : Flds → Store → Store
  | .nil, _ => []
  | .cons name ty d rest, st => (name, norm ty (getField st name ty d)) :: normFields rest st
end

/-- one step of an attribute path: `.name` or `[i]` -/
inductive Step where
  | field (name : Nat)
  | idx (i : Nat)
  deriving Repr, DecidableEq

/-- what a read observes -/
inductive Obs where
  | int (i : Int)          -- integer fields compare with `==`, so `True` is observed as `1`
  | bool (b : Bool)
  | text (cs : Str)
  | absent                 -- an optional record that is not there (`None`, or an instance nothing was assigned to)
  | isRecord
  | len (n : Nat)
  | invalid                -- no such field / index, or a value of the wrong shape
  deriving Repr, DecidableEq, Inhabited

mutual
/-- `value.<path>` read through `get_field_value` (defaults included) -/
def read : Ty → Val → List Step → Obs
  | .int _ _ _, v, p => match v, p with
      | .int i, [] => .int i
      | .bool b, [] => .int (if b then 1 else 0)
      | _, _ => .invalid
  | .bool, v, p => match v, p with
      | .bool b, [] => .bool b
      | _, _ => .invalid
  | .char _, v, p => match v, p with
      | .str cs, [] => .text cs
      | _, _ => .invalid
  | .str _, v, p => match v, p with
      | .str cs, [] => .text cs
      | _, _ => .invalid
  | .fixed _ _ _, v, p => match v, p with
      | .str cs, [] => .text cs
      | _, _ => .invalid
  | .record fs, v, p => match v, p with
      | .recd _, [] => .isRecord
      | .recd st, .field k :: p => readField fs st k p
      | _, _ => .invalid
  | .optrec fs, v, p => match v, p with
      | .none, _ => .absent
      | .recd [], _ => .absent
      | .recd _, [] => .isRecord
      | .recd st, .field k :: p => readField fs st k p
      | _, _ => .invalid
  | .arr (.optrec fs) _ _ _, v, p => match v, p with
      | .list xs, [] => .len xs.length
      | .list xs, .idx i :: p =>
          match xs[i]?, p with
          | some (.recd _), [] => .isRecord
          | some (.recd st), .field k :: p => readField fs st k p
          | _, _ => .invalid
      | _, _ => .invalid
  | .arr elem _ _ _, v, p => match v, p with
      | .list xs, [] => .len xs.length
      | .list xs, .idx i :: p =>
          match xs[i]? with
          | some x => read elem x p
          | none => .invalid
      | _, _ => .invalid
def readField : Flds → Store → Nat → List Step → Obs
  | .nil, _, _, _ => .invalid
  | .cons name ty d rest, st, k, p =>
      if name = k then read ty (getField st name ty d) p else readField rest st k p
end

/-! ### the domain of the round-trip property -/

/-- no pad character (space) at either end: those cannot survive a space-padded field (`strip(' ')` removes them) -/
def edgeClean (cs : Str) : Bool :=
  cs.head?.all (fun c => !(c == 32)) && cs.getLast?.all (fun c => !(c == 32))

def inCharset (iso : Bool) (cs : Str) : Bool := cs.all (fun c => decide (c < (if iso then 256 else 128)))

mutual
/-- values of a type that the typed attributes accept and that the codec is meant to carry unchanged -/
def wf : Ty → Val → Bool
  | .int s sg _, v => match v with
      | .int i => intInRange s sg i
      | .bool b => intInRange s sg (if b then 1 else 0)
      | _ => false
  | .bool, v => match v with
      | .bool _ => true
      | _ => false
  | .char iso, v => match v with
      | .str cs => decide (cs.length = 1) && inCharset iso cs
      | _ => false
  | .str iso, v => match v with
      | .str cs => decide (cs.length ≤ 32767) && inCharset iso cs
      | _ => false
  | .fixed iso n _, v => match v with
      | .str cs => decide (cs.length ≤ n) && inCharset iso cs && edgeClean cs
      | _ => false
  | .record fs, v => match v with
      | .recd st => wfFields fs st
      | _ => false
  | .optrec fs, v => match v with
      | .none => true
      | .recd [] => true
      -- a non-empty store belongs to a class that has fields (nothing can be assigned to a class without fields)
      | .recd st => !fs.isNil && wfFields fs st
      | _ => false
  | .arr (.optrec fs) cs csg _, v => match v with
      | .list xs => intInRange cs csg (xs.length : Int) &&
          xs.all fun x => match x with
                  | .recd st => wfFields fs st
                  | _ => false
      | _ => false
  | .arr elem cs csg _, v => match v with
      | .list xs => intInRange cs csg (xs.length : Int) && xs.all fun x => wf elem x
      | _ => false
/-- every field's effective value is well formed; field names are distinct -/
def wfFields : Flds → Store → Bool
  | .nil, _ => true
  | .cons name ty d rest, st => wf ty (getField st name ty d) && !rest.hasName name && wfFields rest st
end

/-- a message the registry resolves: indicator fits the id byte, body well formed -/
def wfMsg (m : MsgDef) (record : Val) : Bool := decide (m.ind < 256) && wf (.record m.fs) record

/-! ### `parser.py`: the count type of an array field -/

/-- `FieldDef._field_context`: `endian = 'uint_2_be' if self.endian == 'big' else 'uint_2'` (the type id looked up in
    `TypeDefinition.Definitions`); `none` = the attribute is missing -/
def arrayCountType (endianAttr : Option String) : String :=
  if endianAttr = some "big" then "uint_2_be" else "uint_2"

end NasdaqModel.BinCodec
