import NasdaqModel.Model.BinCodec
/-
Model of `FieldDef._field_context` (`common/message/parser.py`) for fields of a plain DATATYPE: which type expression the code
generator writes for a `<field type=… array=… endian=…/>` declaration.  Transcribed from the code:

    type_  = TypeDefinition.Definitions[self.type].__name__          -- the declared DATATYPE, nothing else
    endian = 'uint_2_be' if self.endian == 'big' else 'uint_2'
    if self.array is not None:
        type_ = f'Array({type_}, {endian})'
        if self.array == 'double':
            type_ = f'Array({type_}, {endian})'
-/
namespace NasdaqModel.ParserDecl
open NasdaqModel BinCodec

/-- the attributes of a field declaration that select its type -/
structure FieldDecl where
  type : String                 -- `type=`: a DATATYPE id
  array : Option String         -- `array=`: missing, or "true" / "single" / "double" / anything else
  endian : Option String        -- `endian=`
  deriving Repr, DecidableEq

/-- the generated type expression, with type ids in place of class names -/
inductive TyExpr where
  | prim (id : String)
  | array (elem : TyExpr) (count : String)
  deriving Repr, DecidableEq

def fieldType (d : FieldDecl) : TyExpr :=
  let count := arrayCountType d.endian
  match d.array with
  | none => .prim d.type
  | some a =>
    let t := TyExpr.array (.prim d.type) count
    if a = "double" then .array t count else t

/-- the DATATYPE id at the bottom of a type expression (the elements of the array, or the field itself) -/
def TyExpr.elem : TyExpr → String
  | .prim id => id
  | .array e _ => e.elem

/-- the count types of the array levels, outermost first -/
def TyExpr.counts : TyExpr → List String
  | .prim _ => []
  | .array e c => c :: e.counts

end NasdaqModel.ParserDecl
