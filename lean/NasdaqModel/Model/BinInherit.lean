import NasdaqModel.Model.BinCodec
/-
Message classes declared by INHERITANCE (`class ReplaceOrder(EnterOrder, indicator=ord('U'))`): what `CommonMessage.__init_subclass__`
and Python's class-attribute lookup make of a sequence of class statements.

A class statement names an id, optionally an earlier message class as its parent, and how its `BodyRecord` comes about:
`own` (a body record of its own), `extend` (`Fields = Parent.BodyRecord.Fields + [...]`, whether or not the body record class itself
derives from the parent's), `same` (no `BodyRecord` in the class body: the attribute is found on the parent).  After the statements
have run, the registry `MsgIdToClsMap[app]` maps every id to its class; `cls.MsgId` and `cls.BodyRecord` are plain class attributes,
set on (or resolved for) every class separately.  That is all inheritance does: the registry below is an ordinary `List MsgDef`, and
`encodeMsg` / `decodeMsg` of `Model/BinCodec.lean` apply to it unchanged.
-/
namespace NasdaqModel.BinInherit
open NasdaqModel BinCodec

inductive Mode where
  | own | extend | same
  deriving DecidableEq, Repr

/-- one class statement -/
structure Decl where
  ind : Nat
  parent : Option Nat      -- index of an EARLIER statement (a class derives from a class that exists)
  mode : Mode
  own : Flds

def appendF : Flds → Flds → Flds
  | .nil, g => g
  | .cons n t d r, g => .cons n t d (appendF r g)

def names : Flds → List Nat
  | .nil => []
  | .cons n _ _ r => n :: names r

/-- `cls.BodyRecord.Fields` of a new class, given the resolved field lists of the classes declared before it -/
def bodyOf (done : List Flds) (d : Decl) : Flds :=
  match d.parent, d.mode with
  | none, _ => d.own
  | some _, .own => d.own
  | some p, .extend => appendF (done.getD p .nil) d.own
  | some p, .same => done.getD p .nil

/-- the class statements run in order; `k` numbers the classes -/
def regAux : List Decl → List Flds → Nat → List MsgDef
  | [], _, _ => []
  | d :: ds, done, k =>
    let fs := bodyOf done d
    { ind := d.ind, cls := k, fs := fs } :: regAux ds (done ++ [fs]) (k + 1)

/-- `MsgIdToClsMap[app]` after all statements -/
def registry (ds : List Decl) : List MsgDef := regAux ds [] 0

/-! ### the variant a per-class cache read through the MRO would give (subject of `Witness/C01Inherit.lean`) -/

/-- the message classes on the MRO of class `k`: itself, its parent, … (`fuel` ≥ depth of the hierarchy) -/
def mro (ds : List Decl) : Nat → Nat → List Nat
  | 0, k => [k]
  | fuel + 1, k =>
    match ds[k]? with
    | some d => match d.parent with
      | some p => k :: mro ds fuel p
      | none => [k]
    | none => [k]

/-- `try: return cls.MsgIdBytes / except AttributeError: cls.MsgIdBytes = …`: the id a class writes when the serialised id is
    kept as a class attribute and READ through the MRO; `cache` = classes that have stored theirs -/
def cachedId (ds : List Decl) (cache : List Nat) (k : Nat) : Nat × List Nat :=
  match (mro ds ds.length k).find? (fun c => cache.contains c) with
  | some c => ((ds.getD c ⟨0, none, .own, .nil⟩).ind, cache)
  | none => ((ds.getD k ⟨0, none, .own, .nil⟩).ind, k :: cache)

/-- the id bytes written by a history of encodings (class indices) under that variant -/
def runCached (ds : List Decl) : List Nat → List Nat → List Nat
  | [], _ => []
  | k :: ks, cache => let r := cachedId ds cache k; r.1 :: runCached ds ks r.2

end NasdaqModel.BinInherit
