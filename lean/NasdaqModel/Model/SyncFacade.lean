/-
Model of the synchronous facade (C20): `common/sync_executor.py` (`SyncExecutor`) and
`soup/session.py` (`SoupClientSessionSync`), transcribed as a transition system.

Threads: any number of *caller* threads (each with a program = list of facade calls and a program counter
through the Python statements of the call) and the executor's *loop thread* (its close procedure has a program
counter through `AsyncSession.close` and the injected `on_close_coro`).  One transition = one atomic step of one
thread; which enabled transition happens next is not determined (any interleaving).  Import-free, executable.

Source lines (src/nasdaq_protocols):
  common/sync_executor.py   execute, execute_sync, stop, join, _wait_for (result in slices; StateError once the thread
                            is gone), _must_be_active
  soup/session.py           SoupClientSessionSync (on_close_coro — takes NO lock —, receive, send_msg, send_unseq_data,
                            logout/close = _shutdown: lock; if not set: try execute_sync except StateError: pass; wait; join)
  (state of /repo after the fixes 86c1975, 1753c2b, 564383d)
  common/session.py         initiate_close 245-256, close 258-273
  common/message_queue.py   get / get_nowait / _blocking_read / stop   (single `_recv_task` slot)

`close_lock` is an RLock; only caller threads take it (once per close()/logout(); the bridged coroutine runs on the
*loop* thread, which never touches the lock), no thread acquires it twice, so the model keeps only the owner —
`C20_lock_discipline` shows an acquire is attempted only by a thread that does not hold it.
The peer script is what the peer will still do; after EndOfSession / disconnect / having received a LogoutRequest it does
nothing more.

What is *not* modelled: the OS scheduler and fairness (every interleaving is allowed, nothing is assumed fair),
message contents (the queue is a counter), heartbeats (intervals are taken long).  One job = one atomic loop step
(asyncio needs 2-3 loop iterations); the only ordering of asyncio's FIFO ready queue that is relied upon is
"a coroutine submitted before `AsyncSession.close` began runs before it begins" (guard of `closeStep` at `spawned`).
-/
namespace NasdaqModel.SyncFacade

/-- calls on the blocking client (and one on the executor beneath it) -/
inductive Op where
  | recv        -- SoupClientSessionSync.receive()            = bridge.execute(session.receive_msg())
  | send        -- send_msg / send_debug                      = bridge.execute_sync(session.send_msg, m)
  | sendUnseq   -- send_unseq_data                            = bridge.execute_sync(session.send_unseq_data, d)
  | close       -- close()
  | logout      -- logout()
  | execTimed   -- bridge.execute(<coroutine that does not finish>, timeout=t): the executor's timeout path
  deriving DecidableEq, Repr, Inhabited

/-- how a call ends: returned value class or exception class -/
inductive Outcome where
  | ok          -- returned None
  | msg         -- returned a message
  | eoq         -- EndOfQueue
  | state       -- StateError
  | cancelled   -- CancelledError (receive kicked out by another receive's `finally: stop_task(self._recv_task)`)
  | timeout     -- asyncio.TimeoutError
  deriving DecidableEq, Repr, Inhabited

def Outcome.name : Outcome → String
  | .ok => "ok" | .msg => "msg" | .eoq => "eoq" | .state => "state" | .cancelled => "cancelled" | .timeout => "timeout"

/-- what was handed to `run_coroutine_threadsafe` -/
inductive JobKind where
  | recv | send | initClose | logout | slow
  deriving DecidableEq, Repr, Inhabited

/-- the concurrent future of a caller and the coroutine behind it -/
inductive Job where
  | none
  | submitted (k : JobKind)     -- handed to the loop, not yet run
  | blocked (ticket : Nat)      -- receive_msg waiting in `_blocking_read` (ticket = arrival order of the queue getter)
  | running                     -- a coroutine that never finishes by itself
  | done (o : Outcome)          -- result / exception stored in the future
  deriving DecidableEq, Repr, Inhabited

/-- program counter of a caller thread inside the current call -/
inductive Pc where
  | idle      -- between calls
  | acq       -- `with self.close_lock:` about to acquire
  | chkEvt    -- `if not self.closed_event.is_set():`
  | chk1      -- execute_sync: `self._must_be_active()`
  | chk2      -- execute: `self._must_be_active()`
  | submit    -- `asyncio.run_coroutine_threadsafe(...)`
  | wait      -- `self._wait_for(future, timeout)`: result in slices, StateError when the thread is gone
  | rel       -- leaving the `with` block (a StateError of execute_sync was swallowed inside it)
  | waitEvt   -- `self.closed_event.wait()`
  | join      -- `self.bridge.join()`
  deriving DecidableEq, Repr, Inhabited

inductive Tid where
  | caller (i : Nat)
  | loop
  deriving DecidableEq, Repr, Inhabited

/-- progress of the close procedure on the loop thread -/
inductive ClosePc where
  | idle         -- nothing closing
  | spawned      -- `AsyncSession.close()` invoked on the loop (closing task created / reader saw the end), not begun
  | begun        -- `_closed = True`, queue/monitors/reader stopped, transport closed; about to call on_close_coro
  | inCb         -- inside on_close_coro (no await in it), at `if not self.closed_event.is_set()`
  | stopCalled   -- `self.bridge.stop(join=False)` done (loop.stop scheduled), before `closed_event.set()`
  | done         -- `closed_event.set()` done, on_close_coro returned
  deriving DecidableEq, Repr, Inhabited

inductive PeerEv where
  | reply | endOfSession | disconnect
  deriving DecidableEq, Repr, Inhabited

structure Caller where
  prog : List Op                  -- remaining calls; the head is the current one when `pc ≠ idle`
  pc : Pc
  job : Job
  hist : List (Op × Outcome)      -- finished calls, most recent first
  deriving DecidableEq, Repr, Inhabited

structure St where
  callers : List Caller
  loopAlive : Bool                -- `_thread.is_alive()`
  stopReq : Bool                  -- `loop.call_soon_threadsafe(loop.stop)` has been called
  closePc : ClosePc
  lock : Option Tid               -- owner of `close_lock`
  closedEvent : Bool              -- `closed_event.is_set()`
  queue : Nat                     -- messages received and not yet taken
  recvTask : Option Nat           -- `DispatchableMessageQueue._recv_task`: the caller whose getter task is in the slot
  nextTicket : Nat
  peer : List PeerEv              -- what the peer will still do, in order
  deriving DecidableEq, Repr, Inhabited

inductive Label where
  | caller (i : Nat)     -- caller thread i performs its next statement
  | job (i : Nat)        -- the loop runs the coroutine submitted by caller i
  | close                -- the loop thread performs the next step of the close procedure
  | stop                 -- the loop runs the `loop.stop` callback: run_forever returns, the thread exits
  | peer                 -- the next peer event reaches the loop
  deriving DecidableEq, Repr, Inhabited

/-! ### small state algebra -/

def updAt : List Caller → Nat → (Caller → Caller) → List Caller
  | [], _, _ => []
  | c :: cs, 0, f => f c :: cs
  | c :: cs, i + 1, f => c :: updAt cs i f

def setJob (j : Job) (c : Caller) : Caller := { c with job := j }

/-- a blocked receive is completed with `o`; any other job is left alone -/
def resolveBlocked (o : Outcome) (c : Caller) : Caller :=
  match c.job with
  | .blocked _ => { c with job := .done o }
  | _ => c

def isSubmitted (c : Caller) : Bool :=
  match c.job with
  | .submitted _ => true
  | _ => false

/-- the blocked receiver whose queue getter is first in line: (index, ticket) -/
def minBlocked : List Caller → Option (Nat × Nat)
  | [] => none
  | c :: cs =>
    match c.job, minBlocked cs with
    | .blocked t, some (j, t') => if t ≤ t' then some (0, t) else some (j + 1, t')
    | .blocked t, none => some (0, t)
    | _, some (j, t') => some (j + 1, t')
    | _, none => none

/-- the loop thread is inside `on_close_coro` (which has no await): it runs nothing else -/
def ClosePc.busy : ClosePc → Bool
  | .inCb | .stopCalled => true
  | _ => false

/-- `AsyncSession._closed` -/
def ClosePc.sessClosed : ClosePc → Bool
  | .idle | .spawned => false
  | _ => true

def St.sessClosed (s : St) : Bool := s.closePc.sessClosed

def Op.isClose : Op → Bool
  | .close | .logout => true
  | _ => false

def Op.jobKind : Op → JobKind
  | .recv => .recv | .send => .send | .sendUnseq => .send
  | .close => .initClose | .logout => .logout | .execTimed => .slow

/-- the call returns / raises: record it, go to the next call -/
def finish (c : Caller) (op : Op) (o : Outcome) : Caller :=
  { prog := c.prog.tail, pc := .idle, job := .none, hist := (op, o) :: c.hist }

/-! ### one statement of a caller thread

Returns the new caller record and the new lock owner; `none` = the thread is blocked (or has finished). -/
def callerStep (lock : Option Tid) (closedEvent loopAlive : Bool) (i : Nat) (c : Caller) :
    Option (Caller × Option Tid) :=
  match c.prog with
  | [] => none
  | op :: _ =>
    match c.pc with
    | .idle =>
      match op with
      | .recv | .execTimed => some ({ c with pc := .chk2 }, lock)
      | .send | .sendUnseq => some ({ c with pc := .chk1 }, lock)
      | .close | .logout => some ({ c with pc := .acq }, lock)
    | .acq =>
      match lock with
      | none => some ({ c with pc := .chkEvt }, some (.caller i))
      | some _ => none
    | .chkEvt =>
      if closedEvent then some ({ c with pc := .rel }, lock) else some ({ c with pc := .chk1 }, lock)
    | .chk1 =>
      if loopAlive then some ({ c with pc := .chk2 }, lock)
      else if op.isClose then some ({ c with pc := .rel }, lock)     -- _shutdown: `except StateError: pass`
      else some (finish c op .state, lock)
    | .chk2 =>
      if loopAlive then some ({ c with pc := .submit }, lock)
      else if op.isClose then some ({ c with pc := .rel }, lock)
      else some (finish c op .state, lock)
    | .submit => some ({ c with pc := .wait, job := .submitted op.jobKind }, lock)
    | .wait =>
      match op with
      | .execTimed => some (finish c op .timeout, lock)      -- result(timeout) expires; future.cancel(); TimeoutError
      | _ =>
        match c.job with
        | .done o => if op.isClose then some ({ c with pc := .rel, job := .none }, lock) else some (finish c op o, lock)
        | _ =>
          -- _wait_for: the future is not done; once the loop thread is gone: future.cancel(); raise StateError
          if loopAlive then none
          else if op.isClose then some ({ c with pc := .rel, job := .none }, lock)
          else some (finish c op .state, lock)
    | .rel => some ({ c with pc := .waitEvt }, none)
    | .waitEvt => if closedEvent then some ({ c with pc := .join }, lock) else none
    | .join => if loopAlive then none else some (finish c op .ok, lock)

def stepCaller (s : St) (i : Nat) : Option St :=
  match s.callers[i]? with
  | none => none
  | some c =>
    match callerStep s.lock s.closedEvent s.loopAlive i c with
    | none => none
    | some (c', lk) => some { s with callers := updAt s.callers i (fun _ => c'), lock := lk }

/-! ### the loop thread -/

/-- `initiate_close()`: `if self._closed or self._closing_task: return` -/
def ClosePc.initiate : ClosePc → ClosePc
  | .idle => .spawned
  | p => p

/-- the loop runs the coroutine of caller `i` (one atomic step) -/
def stepJob (s : St) (i : Nat) : Option St :=
  if s.loopAlive && !s.closePc.busy then
    match s.callers[i]? with
    | none => none
    | some c =>
      match c.job with
      | .submitted .recv =>
        if 0 < s.queue then
          some { s with callers := updAt s.callers i (setJob (.done .msg)), queue := s.queue - 1 }
        else if s.sessClosed then
          some { s with callers := updAt s.callers i (setJob (.done .eoq)) }
        else
          some { s with callers := updAt s.callers i (setJob (.blocked s.nextTicket)),
                        recvTask := some i, nextTicket := s.nextTicket + 1 }
      | .submitted .send => some { s with callers := updAt s.callers i (setJob (.done .ok)) }
      | .submitted .initClose =>
        some { s with callers := updAt s.callers i (setJob (.done .ok)), closePc := s.closePc.initiate }
      | .submitted .logout =>
        -- session.logout(): LogoutRequest is written, then initiate_close(); a peer that gets the logout request
        -- ends the conversation: nothing it might still have wanted to send arrives
        some { s with callers := updAt s.callers i (setJob (.done .ok)), closePc := s.closePc.initiate, peer := [] }
      | .submitted .slow => some { s with callers := updAt s.callers i (setJob .running) }
      | _ => none
  else none

/-- next step of `AsyncSession.close` + `on_close_coro` on the loop thread -/
def stepClose (s : St) : Option St :=
  match s.closePc with
  | .idle => none
  | .spawned =>
    -- close() begins: `_closed = True`; queue.stop() cancels `_recv_task` only
    if s.callers.any isSubmitted then none
    else
      let cs := match s.recvTask with
        | some j => updAt s.callers j (resolveBlocked .eoq)
        | none => s.callers
      some { s with callers := cs, recvTask := none, closePc := .begun }
  | .begun => some { s with closePc := .inCb }
  | .inCb =>
    if s.closedEvent then some { s with closePc := .done }
    else some { s with closePc := .stopCalled, stopReq := true }
  | .stopCalled => some { s with closePc := .done, closedEvent := true }
  | .done => none

def stepStop (s : St) : Option St :=
  if s.stopReq && s.loopAlive && !s.closePc.busy then some { s with loopAlive := false } else none

def stepPeer (s : St) : Option St :=
  match s.peer with
  | [] => none
  | ev :: rest =>
    if s.closePc.busy then none
    else if !s.loopAlive then                                           -- nobody reads the socket any more
      some { s with peer := match ev with | .reply => rest | _ => [] }
    else
      match ev with
      | .reply =>
        if s.sessClosed then some { s with peer := rest }               -- reader stopped, transport closed
        else
          match minBlocked s.callers with
          | some (h, _) =>
            let cs1 := updAt s.callers h (setJob (.done .msg))
            let cs2 := match s.recvTask with
              | some j => if j = h then cs1 else updAt cs1 j (resolveBlocked .cancelled)
              | none => cs1
            some { s with callers := cs2, recvTask := none, peer := rest }
          | none => some { s with queue := s.queue + 1, peer := rest }
      | .endOfSession | .disconnect =>
        -- reader sees EndOfSession -> close() / connection_lost -> initiate_close(); the peer is gone afterwards:
        -- nothing it might still have wanted to send arrives
        some { s with closePc := s.closePc.initiate, peer := [] }

def step (s : St) : Label → Option St
  | .caller i => stepCaller s i
  | .job i => stepJob s i
  | .close => stepClose s
  | .stop => stepStop s
  | .peer => stepPeer s

def exec (s : St) : List Label → Option St
  | [] => some s
  | l :: ls =>
    match step s l with
    | none => none
    | some s' => exec s' ls

/-- a configuration: the programs of the caller threads and what the peer does -/
structure Cfg where
  progs : List (List Op)
  peer : List PeerEv
  deriving DecidableEq, Repr, Inhabited

def initCaller (p : List Op) : Caller := { prog := p, pc := .idle, job := .none, hist := [] }

/-- the state right after `soup.connect` returned the session -/
def init (cfg : Cfg) : St :=
  { callers := cfg.progs.map initCaller, loopAlive := true, stopReq := false, closePc := .idle, lock := none,
    closedEvent := false, queue := 0, recvTask := none, nextTicket := 0, peer := cfg.peer }

def allLabels (s : St) : List Label :=
  (List.range s.callers.length).flatMap (fun i => [Label.caller i, Label.job i]) ++ [.close, .stop, .peer]

def enabledLabels (s : St) : List Label := (allLabels s).filter fun l => (step s l).isSome

/-- no transition is enabled -/
def terminal (s : St) : Bool := (allLabels s).all fun l => (step s l).isNone

/-- the thread has executed all its calls -/
def Caller.finished (c : Caller) : Bool := c.prog.isEmpty && c.pc == .idle

/-- blocked in `receive()` on an open session with a live loop: waiting for the peer (not a hang) -/
def legitWait (s : St) (c : Caller) : Bool :=
  match c.job with
  | .blocked _ => c.pc == .wait && !s.sessClosed && s.loopAlive
  | _ => false

/-! ### `okStep`: a step that does not put a second `receive_msg` to wait while one is already waiting

Since the library fixes no run of the model hangs any more and the no-hang theorems need no such hypothesis.  The
predicate only serves the `safe` walk of the driver and the theorem that, inside it, a blocked receive is always the one
in the queue's single `_recv_task` slot (so closing answers it with EndOfQueue rather than StateError). -/
def anyBlocked (cs : List Caller) : Bool :=
  cs.any fun c => match c.job with | .blocked _ => true | _ => false

def okStep (s : St) : Label → Bool
  | .job i =>
    match s.callers[i]? with
    | some c => !(c.job == .submitted .recv && s.queue == 0 && !s.sessClosed && anyBlocked s.callers)
    | none => true
  | _ => true

/-- `exec` restricted to steps outside the excluded region -/
def execOk (s : St) : List Label → Option St
  | [] => some s
  | l :: ls =>
    if okStep s l then
      match step s l with
      | none => none
      | some s' => execOk s' ls
    else none

/-! ### `soup.connect` (one caller, no interleaving): outcome and whether the executor thread is left running -/
inductive LoginEv where
  | accepted | rejected | connRefused | peerClosed
  deriving DecidableEq, Repr, Inhabited

/-- `connect`: `execute(connect_async(...))`; on any exception `sync_executor.stop()` (join=True) and re-raise.
Returns (raised?, executor thread still alive afterwards). -/
def connect : LoginEv → Bool × Bool
  | .accepted => (false, true)
  | .rejected => (true, false)       -- ConnectionRefusedError(str(reply))
  | .connRefused => (true, false)    -- OSError from create_connection
  | .peerClosed => (true, false)     -- EndOfQueue → ConnectionRefusedError("Connection closed by peer.")

/-! ### `soup.connect` and a peer that ends the session right behind its acceptance

Steps of the executor's loop thread (each atomic): `loginReturns` — `connect_async()` returns the logged-in session;
`install` — the blocking wrapper is constructed and installs its close callback (`on_close_coro`: stop the executor, set
`closed_event`); `loginAndInstall` — both in ONE step (`soup.connect` since the fix: the wrapper is built inside the
coroutine that awaited the login, so nothing can run in between); `sessionCloses` — the peer's disconnect is processed:
`AsyncSession.close()` runs to its end and awaits the callback it finds installed at that moment.
A later `close()` / `logout()` of the facade waits for `closed_event`: it returns iff the event gets set. -/
inductive ConnEv where
  | loginReturns | install | loginAndInstall | sessionCloses
  deriving DecidableEq, Repr, Inhabited

structure ConnSt where
  loggedIn : Bool := false
  installed : Bool := false
  sessionClosed : Bool := false    -- `AsyncSession.close()` has run (its one and only time)
  eventSet : Bool := false         -- `closed_event` (set by the installed callback when the close runs)
  deriving DecidableEq, Repr, Inhabited

def connStep (s : ConnSt) : ConnEv → ConnSt
  | .loginReturns => { s with loggedIn := true }
  | .install => if s.loggedIn then { s with installed := true } else s
  | .loginAndInstall => { s with loggedIn := true, installed := true }
  | .sessionCloses =>
      -- before the login returned this is the `peerClosed` outcome of `connect` (login raises): not a state of this machine
      if s.loggedIn && !s.sessionClosed then { s with sessionClosed := true, eventSet := s.installed } else s

def connRun (evs : List ConnEv) : ConnSt := evs.foldl connStep {}

/-- the facade's `close()` once the wrapper exists: if the session has not closed yet, `close()` itself initiates the close,
which then finds the callback; if it has, `close()` can only wait for the event -/
def closeReturns (s : ConnSt) : Bool := s.installed && (s.eventSet || !s.sessionClosed)

/-- a schedule of the repaired `connect`: login and installation are one step -/
def fixedSchedule (evs : List ConnEv) : Bool := evs.all fun e => e == .loginAndInstall || e == .sessionCloses

/-! ### `SyncExecutor.execute` / `execute_sync` / `_wait_for` when the coroutine itself ends with an exception

The transition system above keeps `_wait_for` as ONE statement (`Pc.wait`) and its coroutines never raise by themselves.
This part is the loop inside that statement, line by line, for a coroutine that finishes with *any* outcome:

    deadline = None if timeout is None else time.monotonic() + timeout
    while True:
        wait = self._POLL if deadline is None else min(self._POLL, max(0.0, deadline - time.monotonic()))
        try:
            return future.result(timeout=wait)
        except concurrent.futures.TimeoutError:
            if future.done():
                return future.result()      # since /repo ea90e75 (before: `raise`, see Witness/C20Raise.lean)
            if deadline is not None and time.monotonic() >= deadline:
                raise
            if not self._thread.is_alive() and not future.done():
                future.cancel()
                raise StateError(...)

On Python >= 3.11 `concurrent.futures.TimeoutError is asyncio.TimeoutError is TimeoutError` (and `socket.timeout`): the
`except` clause also catches a TimeoutError that `future.result()` re-raises because the COROUTINE ended with it
(`asyncio.wait_for(session.receive_msg(), t)` against a silent peer).  `future.done()` is then true and the handler hands out
the finished future's own outcome with one more `future.result()` (a finished future never waits): the coroutine's value, or
its own exception - which, raised inside the handler, leaves `_wait_for`; never the expiry of the slice.  What the environment
contributes to one pass of the loop is a `Pass` record; the thread scheduler, the clock and the loop thread are not
modelled, every sequence of `Pass` records is allowed. -/

/-- exception classes, as far as the two `except` clauses and the caller can tell them apart -/
inductive Exc where
  | timeout       -- the coroutine's own TimeoutError (builtin = asyncio = concurrent.futures = socket.timeout: one class)
  | timeoutSub    -- the coroutine's own exception of a SUBCLASS of TimeoutError (OSError(ETIMEDOUT), user classes)
  | expiry        -- a TimeoutError made by `future.result(timeout)` / `execute` because a wait expired (never the coroutine's)
  | cancelled     -- CancelledError: the coroutine was cancelled / raised it (the concurrent future is cancelled)
  | state         -- StateError
  | eoq           -- EndOfQueue
  | value         -- ValueError
  | other         -- any other Exception subclass
  | base          -- a BaseException subclass that is no Exception
  deriving DecidableEq, Repr, Inhabited

/-- `isinstance(e, concurrent.futures.TimeoutError)` -/
def Exc.isTimeout : Exc → Bool
  | .timeout | .timeoutSub | .expiry => true
  | _ => false

def Exc.name : Exc → String
  | .timeout => "timeout" | .timeoutSub => "timeoutSub" | .expiry => "expiry" | .cancelled => "cancelled"
  | .state => "state" | .eoq => "eoq" | .value => "value" | .other => "other" | .base => "base"

/-- how the coroutine (hence the future) ends -/
inductive Fin where
  | returned
  | raised (e : Exc)
  deriving DecidableEq, Repr, Inhabited

/-- how the call on the executor ends -/
inductive Res where
  | returned            -- the coroutine's value
  | raised (e : Exc)
  deriving DecidableEq, Repr, Inhabited

/-- `future.result()` of a finished future -/
def deliver : Fin → Res
  | .returned => .returned
  | .raised e => .raised e

/-- what one pass of the `while True:` observes -/
structure Pass where
  completes : Bool      -- the future is done by the end of this slice: `result(timeout=wait)` hands out its outcome
  doneAtCheck : Bool    -- else the slice expired; `future.done()` in the handler (it may have completed in between)
  deadline : Bool       -- `deadline is not None and time.monotonic() >= deadline`
  alive : Bool          -- `self._thread.is_alive()`
  doneAtCheck2 : Bool   -- the second `future.done()`, in `not alive and not future.done()`
  deriving DecidableEq, Repr, Inhabited

/-- one pass: `some r` = the loop is left with `r`; `none` = next pass -/
def passStep (fin : Fin) (p : Pass) : Option Res :=
  -- try: return future.result(timeout=wait)
  let r : Res := if p.completes then deliver fin else .raised .expiry
  match r with
  | .returned => some .returned
  | .raised e =>
    if e.isTimeout then
      -- except concurrent.futures.TimeoutError:   (the slice's expiry OR the coroutine's own TimeoutError)
      if p.completes || p.doneAtCheck then some (deliver fin)                      -- if future.done(): return future.result()
      else if p.deadline then some (.raised e)                                     -- deadline reached: raise  (e = the expiry)
      else if !p.alive && !p.doneAtCheck2 then some (.raised .state)               -- future.cancel(); raise StateError
      else none
    else some (.raised e)                                                          -- any other exception: not caught here

/-- `future.result` calls made in one pass: the sliced one, and one more when the handler finds the future done -/
def pollsIn (fin : Fin) (p : Pass) : Nat :=
  let r : Res := if p.completes then deliver fin else .raised .expiry
  match r with
  | .returned => 1
  | .raised e => if e.isTimeout && (p.completes || p.doneAtCheck) then 2 else 1

/-- this pass ends the loop, whatever the coroutine's outcome is (`Props/C20Raise.C20_wait_continues_iff`) -/
def Pass.ends (p : Pass) : Bool := p.completes || p.doneAtCheck || p.deadline || (!p.alive && !p.doneAtCheck2)

/-- a pass in which nothing happens: the slice expires, the future is not done, no deadline reached, thread alive -/
def Pass.quiet (p : Pass) : Bool := !p.ends

/-- `_wait_for` over the passes the environment provides; `none` = still inside the loop after all of them -/
def waitFor (fin : Fin) : List Pass → Option Res
  | [] => none
  | p :: ps =>
    match passStep fin p with
    | some r => some r
    | none => waitFor fin ps

/-- number of passes `_wait_for` makes before it leaves the loop (all of them if it does not) -/
def passesUsed (fin : Fin) : List Pass → Nat
  | [] => 0
  | p :: ps =>
    match passStep fin p with
    | some _ => 1
    | none => 1 + passesUsed fin ps

/-- `future.result` calls `_wait_for` makes until it leaves the loop (or the passes run out) -/
def pollsUsed (fin : Fin) : List Pass → Nat
  | [] => 0
  | p :: ps =>
    match passStep fin p with
    | some _ => pollsIn fin p
    | none => pollsIn fin p + pollsUsed fin ps

/-- `execute(underlying, timeout)`:
      self._must_be_active();  if not iscoroutine(underlying): raise ValueError
      future = run_coroutine_threadsafe(...)
      try: return self._wait_for(future, timeout)
      except concurrent.futures.TimeoutError:
          if future.done(): raise            # raised by the coroutine itself
          future.cancel();  raise asyncio.TimeoutError(...)                                           -/
def execute (aliveAtCall isCoroutine : Bool) (fin : Fin) (passes : List Pass) (doneAtHandler : Bool) : Option Res :=
  if !aliveAtCall then some (.raised .state)
  else if !isCoroutine then some (.raised .value)
  else
    match waitFor fin passes with
    | none => none
    | some .returned => some .returned
    | some (.raised e) =>
      if e.isTimeout then (if doneAtHandler then some (.raised e) else some (.raised .expiry))
      else some (.raised e)

/-- `execute_sync(underlying, *args)`: `_must_be_active()`, `callable(underlying)` else ValueError, then
    `execute(self._bridge(underlying, …))` (the second `_must_be_active` sees `aliveAtCall2`) -/
def executeSync (aliveAtCall isCallable aliveAtCall2 : Bool) (fin : Fin) (passes : List Pass) (doneAtHandler : Bool) :
    Option Res :=
  if !aliveAtCall then some (.raised .state)
  else if !isCallable then some (.raised .value)
  else execute aliveAtCall2 true fin passes doneAtHandler

/-! ### deterministic pseudo-random walk (for the driver: schedules are generated from the model) -/
def lcg (x : Nat) : Nat := (x * 6364136223846793005 + 1442695040888963407) % 18446744073709551616

/-- scheduling preference of the `safe` walk -/
def prefer (s : St) (l : Label) : Bool := okStep s l

/-- a maximal run: repeatedly take a pseudo-randomly chosen enabled label
(`safe`: a preferred label whenever one is enabled) -/
def walk (safe : Bool) : Nat → Nat → St → List Label
  | 0, _, _ => []
  | fuel + 1, seed, s =>
    let en := enabledLabels s
    let pr := en.filter (prefer s)
    let en := if safe && !pr.isEmpty then pr else en
    match en with
    | [] => []
    | l0 :: _ =>
      let seed' := lcg seed
      let l := (en[(seed' / 4294967296) % en.length]?).getD l0
      match step s l with
      | none => []
      | some s' => l :: walk safe fuel seed' s'

end NasdaqModel.SyncFacade
