import NasdaqModel.Driver.Sexp
/-
Generic request loop of a model driver: one request per line on stdin (`<op> <sexp>*`), one canonical response line
on stdout.  Unknown / unparsable requests answer `bad-request` (never a default value).
-/
namespace NasdaqModel.Driver
open NasdaqModel

abbrev Handler := String → List Sexp → Option String

def respond (hs : List Handler) (line : String) : String :=
  match Sexp.parseLine line with
  | some (.atom op :: args) =>
    match hs.findSome? (fun h => h op args) with
    | some r => r
    | none => "bad-request"
  | _ => "bad-request"

partial def loop (hs : List Handler) (hin hout : IO.FS.Stream) : IO Unit := do
  let line ← hin.getLine
  if line.isEmpty then return ()
  hout.putStrLn (respond hs line)
  loop hs hin hout

def mainLoop (hs : List Handler) : IO Unit := do
  let hin ← IO.getStdin
  let hout ← IO.getStdout
  loop hs hin hout
  hout.flush

end NasdaqModel.Driver
