import NasdaqModel.Driver.Sexp
import NasdaqModel.Model.GenSoupApp
/-
Line protocol for the `__all__` list of the soup-app generator's text model (Model/GenSoupApp.lean, the C15 model), used by the
C17 check: the names a generated ITCH / OUCH / SQF module exports, IN THE ORDER the model renders them — for every specification the
parser accepts, in particular for specifications in which a name occurs twice among the enum / record / message definitions
(Props/C17Names.lean).  An addition to Driver/GenHistory.lean for `drv_C17`; it shares nothing with Driver/GenSoupApp.lean but
the request syntax of a specification (copied, so that the two drivers build independently).

Text is a list of code points `(99 112 …)`; an absent attribute is the atom `none`.

  spec  := (spec (ENUM*) (FIELD*) (REC*) (MSG*))
  ENUM  := (enum <name> <type|none> ((<member name> <value>)*))
  FIELD := (f <name|none> <def|none> <type|none> <ref|none> <array|none> <length|none> <default|none> <endian|none>)
  REC   := (rec <name> (FIELD*))
  MSG   := (msg <name> <message-id> <group|none> <direction|none> (FIELD*))

  gen.exports <impl> <app> <override> spec  →  ok (<name>*) | err <Err>
-/
namespace NasdaqModel.Driver.GenNamesD
open NasdaqModel Sexp GenSoupApp

def strOf (s : Sexp) : Option Str := asNats s

def optStrOf : Sexp → Option (Option Str)
  | .atom "none" => some none
  | s => (asNats s).map some

def boolOf : Sexp → Option Bool
  | .atom "true" => some true
  | .atom "false" => some false
  | _ => none

def implOf : Sexp → Option Impl
  | .atom "itch" => some .itch
  | .atom "ouch" => some .ouch
  | .atom "sqf" => some .sqf
  | _ => none

def fieldOf : Sexp → Option FieldEl
  | .list [.atom "f", n, d, t, r, a, l, dv, e] => do
      some ⟨← optStrOf n, ← optStrOf d, ← optStrOf t, ← optStrOf r, ← optStrOf a, ← optStrOf l, ← optStrOf dv, ← optStrOf e⟩
  | _ => none

def enumValOf : Sexp → Option EnumVal
  | .list [n, v] => do some ⟨← strOf n, ← strOf v⟩
  | _ => none

def enumOf : Sexp → Option EnumEl
  | .list [.atom "enum", n, t, .list vs] => do some ⟨← strOf n, ← optStrOf t, ← vs.mapM enumValOf⟩
  | _ => none

def recOf : Sexp → Option RecordEl
  | .list [.atom "rec", n, .list fs] => do some ⟨← strOf n, ← fs.mapM fieldOf⟩
  | _ => none

def msgOf : Sexp → Option MessageEl
  | .list [.atom "msg", n, i, g, d, .list fs] => do
      some ⟨← strOf n, ← strOf i, ← optStrOf g, ← optStrOf d, ← fs.mapM fieldOf⟩
  | _ => none

def specOf : Sexp → Option Spec
  | .list [.atom "spec", .list es, .list ds, .list rs, .list ms] => do
      some ⟨← es.mapM enumOf, ← ds.mapM fieldOf, ← rs.mapM recOf, ← ms.mapM msgOf⟩
  | _ => none

def handle (op : String) (args : List Sexp) : Option String :=
  match op, args with
  | "gen.exports", [i, a, o, s] => do
      let impl ← implOf i
      let app ← strOf a
      let ovr ← boolOf o
      let spec ← specOf s
      match gen impl app ovr spec with
      | .ok m => some s!"ok {(Sexp.list (m.exports.map ofNats)).toStr}"
      | .error e => some s!"err {e.name}"
  | _, _ => none

end NasdaqModel.Driver.GenNamesD
