import NasdaqModel.Driver.Sexp
import NasdaqModel.Model.Session
namespace NasdaqModel.Driver.SessD
open NasdaqModel Sexp Sess

def behOf : Sexp → Option Beh
  | .atom "ret" => some .ret
  | .atom "close" => some .close
  | .atom "iclose" => some .iclose
  | .atom "raise" => some .raise
  | .atom "accept" => some .accept
  | .atom "reject" => some .reject
  | .list [.atom "await", k] => do some (.await (← asNat k))
  | _ => none

def boolOf : Sexp → Option Bool
  | .atom "true" => some true
  | .atom "false" => some false
  | _ => none

/-- `(cfg (msgbeh <default> (n beh)*) <cbBeh> hasCb dispatchOnConnect hasMsgCb fixLogin)` -/
def cfgOf : Sexp → Option Cfg
  | .list [.atom "cfg", .list (.atom "msgbeh" :: dflt :: pairs), cb, hasCb, doc, hasMsg, fixL] => do
      let d ← behOf dflt
      let ps ← pairs.mapM fun p => match p with
        | .list [n, b] => do some ((← asNat n), (← behOf b))
        | _ => none
      some { msgBeh := fun n => (ps.lookup n).getD d, cbBeh := (← behOf cb), hasCb := (← boolOf hasCb),
             dispatchOnConnect := (← boolOf doc), hasMsgCb := (← boolOf hasMsg), fixLogin := (← boolOf fixL) }
  | _ => none

def tidOf (s : String) : Option Tid :=
  match s with
  | "R" => some .R | "D" => some .D | "L" => some .L | "M" => some .M | "C" => some .C | "V" => some .V
  | _ => if s.startsWith "U" then (s.drop 1).toNat?.map .U else none

def tidStr : Tid → String
  | .R => "R" | .D => "D" | .L => "L" | .M => "M" | .C => "C" | .V => "V" | .U i => s!"U{i}"

def frameOf : Sexp → Option Frame
  | .atom "hb" => some .hb
  | .atom "logout" => some .logout
  | .atom "bad" => some .bad
  | .list [.atom "msg", n] => do some (.msg (← asNat n))
  | _ => none

def evOf : Sexp → Option Ev
  | .atom "connect" => some .connect
  | .atom "eof" => some .eof
  | .atom "iclose" => some .callInitiateClose
  | .atom "logout" => some .callLogout
  | .atom "send" => some .callSend
  | .list (.atom "data" :: fs) => do some (.data (← fs.mapM frameOf))
  | .list [.atom "run", .atom t] => do some (.run (← tidOf t))
  | .list [.atom "close", u] => do some (.callClose (← asNat u))
  | .list [.atom "recv", u] => do some (.callRecv (← asNat u))
  | .list [.atom "recvnw", u] => do some (.callRecvNowait (← asNat u))
  | .list [.atom "login", u] => do some (.callLogin (← asNat u))
  | .list [.atom "cancel", u] => do some (.cancel (← asNat u))
  | _ => none

def resStr : Res → String
  | .ok => "ok" | .msg n => s!"(msg {n})" | .none => "none" | .eoq => "eoq" | .cancelled => "cancelled"
  | .state => "state" | .refused => "refused"

def wStr : WKind → String
  | .login => "login" | .hb => "hb" | .logout => "logout" | .data => "data" | .reply => "reply"

def obsStr : Obs → String
  | .write k => s!"(w {wStr k})" | .tclose => "tclose" | .cbEnter => "cbEnter" | .cbExit => "cbExit"
  | .msgEnter n => s!"(msgEnter {n})" | .msgExit n => s!"(msgExit {n})" | .msgAbandon n => s!"(msgAbandon {n})"
  | .msgRaise n => s!"(msgRaise {n})" | .ret u r => s!"(ret {u} {resStr r})" | .loginReply n => s!"(loginReply {n})"

/-- run the task recorded in `imm` again, as the real code continues within the same step -/
def settle (cfg : Cfg) : Nat → St → St
  | 0, s => s
  | fuel + 1, s =>
    match s.imm with
    | some t => if runnable s t then settle cfg fuel (step cfg s (.run t)) else { s with imm := none }
    | none => s

def libTasks : List Tid := [.R, .D, .L, .M, .C, .V]

def handle (op : String) (args : List Sexp) : Option String :=
  match op, args with
  | "sess.run", cfgS :: evsS => do
      let cfg ← cfgOf cfgS
      let evs ← evsS.mapM evOf
      let (s, outs) := evs.foldl (fun (acc : St × Array String) ev =>
        let (s, outs) := acc
        let enabled := match ev with
          | .run t => runnable s t
          | _ => true
        if !enabled then (s, outs.push "disabled")
        else
          let n0 := s.trace.length
          let s' := settle cfg 10000 (step cfg s ev)
          let news := (s'.trace.drop n0).map obsStr
          (s', outs.push ("(" ++ " ".intercalate news ++ ")"))) (({} : St), #[])
      let aliveL := (libTasks.filter fun t => alive (s.status t)).map tidStr
      let runnableL := (libTasks.filter fun t => runnable s t).map tidStr
      some (" ".intercalate outs.toList ++
        s!" (final (closed {s.closed}) (alive {" ".intercalate aliveL}) (runnable {" ".intercalate runnableL}) (queue {" ".intercalate (s.queue.map toString)}) (buf {s.buf.length}))")
  | _, _ => none

end NasdaqModel.Driver.SessD
