import NasdaqModel.Driver.Soup
import NasdaqModel.Model.SoupVia
namespace NasdaqModel.Driver.SoupViaD
open NasdaqModel Sexp Soup

def kindOfAtom : String → Option (Option Kind)
  | "SoupMessage" => some none
  | "LoginRequest" => some (some .loginReq) | "LoginAccepted" => some (some .loginAcc) | "LoginRejected" => some (some .loginRej)
  | "SequencedData" => some (some .seqData) | "UnSequencedData" => some (some .unseqData) | "Debug" => some (some .debug)
  | "ClientHeartbeat" => some (some .clientHb) | "ServerHeartbeat" => some (some .serverHb)
  | "EndOfSession" => some (some .endOfSession) | "LogoutRequest" => some (some .logoutReq)
  | _ => none

def outcome (r : Except Err Pkt) : String :=
  match r with
  | .ok p => s!"ok {(SoupD.pktToSexp p).toStr}"
  | .error e => s!"err {e.name}"

/-- `soup.decvia (<Class>…) <bytes>`: the outcome of `<Class>.from_bytes(bytes)` for every listed class, `|`-separated;
    `soup.unpack (<Class>…) <bytes>`: the outcome of `<Class>.unpack(bytes)` for every listed packet class -/
def handle (op : String) (args : List Sexp) : Option String :=
  match op, args with
  | "soup.decvia", [.list cs, b] => do
      let b ← asBytes b
      let ks ← cs.mapM fun c => match c with
        | .atom a => kindOfAtom a
        | _ => none
      some (" | ".intercalate (ks.map fun k => outcome (decodeVia k b)))
  | "soup.unpack", [.list cs, b] => do
      let b ← asBytes b
      let ks ← cs.mapM fun c => match c with
        | .atom a => kindOfAtom a
        | _ => none
      let outs ← ks.mapM fun k => match k with
        | none => none                                  -- SoupMessage.unpack builds a bare SoupMessage: not a packet, not modelled
        | some k => some (outcome (unpackAs k b))
      some (" | ".intercalate outs)
  | _, _ => none

end NasdaqModel.Driver.SoupViaD
