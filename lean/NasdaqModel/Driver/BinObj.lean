import NasdaqModel.Driver.BinCodec
import NasdaqModel.Model.BinObj
/-
Line-protocol handler for message objects over time (`Model/BinObj.lean`).

  bin.obj ((<ind> <cls> (<field>*))*) <cls> <val> (<op>*) x<tail>
      op    (t)                                   `to_bytes()`, then decode the bytes followed by <tail>, re-encode the decoded message
            (c (<step>*) <mut>)                   an in-place change of the object the path leads to; steps (f <name>) | (i <index>)
      mut   (set <name> <val>) | (append <val>) | (setitem <i> <val>) | (insert <i> <val>) | (del <i>) | (clear)
            | (extend <val>*) | (assign <val>*)
    → one entry per op, joined by " ; ":
            c <body val after the change> | c skip                       (skip: outside the model, body unchanged)
            t enc-err <class> | t ok <n> <byteLen> dec-err <class>
            | t ok <n> <byteLen> <consumed> <cls> <val'> reenc-err <class> | t ok <n> <byteLen> <consumed> <cls> <val'> <sameBytes>
-/
namespace NasdaqModel.Driver.BinObjD
open NasdaqModel Sexp BinCodec BinObj NasdaqModel.Driver.BinCodecD

def mutOfSexp : Sexp → Option Mut
  | .list [.atom "set", n, v] => do some (.set (← asNat n) (← valOfSexp v))
  | .list [.atom "append", v] => do some (.append (← valOfSexp v))
  | .list [.atom "setitem", i, v] => do some (.setItem (← asNat i) (← valOfSexp v))
  | .list [.atom "insert", i, v] => do some (.insert (← asNat i) (← valOfSexp v))
  | .list [.atom "del", i] => do some (.delItem (← asNat i))
  | .list [.atom "clear"] => some .clear
  | .list (.atom "extend" :: vs) => do some (.extend (← vs.mapM valOfSexp))
  | .list (.atom "assign" :: vs) => do some (.assign (← vs.mapM valOfSexp))
  | _ => none

def opOfSexp : Sexp → Option Op
  | .list [.atom "t"] => some .toBytes
  | .list [.atom "c", .list p, mu] => do some (.change (← p.mapM stepOfSexp) (← mutOfSexp mu))
  | _ => none

/-- what one `to_bytes()` of the message gives, and what becomes of its bytes -/
def encEntry (reg : List MsgDef) (m : MsgDef) (v : Val) (tail : Bytes) : String :=
  match encodeMsg m v with
  | .error e => s!"t enc-err {e.name}"
  | .ok (n, bs) =>
    match decodeMsg reg (bs ++ tail) with
    | .error e => s!"t ok {n} {bs.length} dec-err {e.name}"
    | .ok (k, c, v') =>
      match (reg.find? (fun d => d.cls == c)).map (fun d => encodeMsg d v') with
      | some (.ok (n2, bs2)) => s!"t ok {n} {bs.length} {k} {c} {(valToSexp v').toStr} {decide (bs2 = bs ∧ n2 = n)}"
      | some (.error e) => s!"t ok {n} {bs.length} {k} {c} {(valToSexp v').toStr} reenc-err {e.name}"
      | none => s!"t ok {n} {bs.length} {k} {c} {(valToSexp v').toStr} reenc-err key"

def entries (reg : List MsgDef) (m : MsgDef) (tail : Bytes) : Val → List Op → List String
  | _, [] => []
  | v, .toBytes :: r => encEntry reg m v tail :: entries reg m tail v r
  | v, .change p mu :: r =>
    match updateAt (fun x => applyMut x mu) p v with
    | some _ => s!"c {(valToSexp (step v (.change p mu))).toStr}" :: entries reg m tail (step v (.change p mu)) r
    | none => "c skip" :: entries reg m tail (step v (.change p mu)) r

def handle (op : String) (args : List Sexp) : Option String :=
  match op, args with
  | "bin.obj", [reg, c, v, .list ops, tail] => do
      let reg ← regOfSexp reg
      let c ← asNat c
      let v ← valOfSexp v
      let ops ← ops.mapM opOfSexp
      let tail ← asBytes tail
      let m ← reg.find? (fun m => m.cls == c)
      some (" ; ".intercalate (entries reg m tail v ops))
  | _, _ => none

end NasdaqModel.Driver.BinObjD
