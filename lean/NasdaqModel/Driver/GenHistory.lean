import NasdaqModel.Driver.Sexp
import NasdaqModel.Model.GenHistory
import NasdaqModel.Witness.C17
import NasdaqModel.Witness.C17Opts
import NasdaqModel.Witness.C17Phases
/-
Line protocol for Model/GenHistory.lean.

  gen.hist <current|actual|fixed> <event>*
     event  = newproc
            | (soup <itch|ouch|sqf> (<id> <none | ((name tok)*)> (<use>*) (<msgid>*)) <opts> [<true|false>])
                                                   -- the optional last element: `--override-messages` / `--no-override-messages` given
            | (construct <k> <soup, fix or asn1 event>)          -- the entry point up to its call of generate(): generator object k
            | (generate <k>)                                     -- generate() of generator object k
            | (fix (<id> <version> (<field>*) (<msgfield>*) (<tree>*) (<count>*)) <opts>)      tree = (<name> (<field>*) (<tree>*))
            | (asn1 ((<fname> <content>)*) <pdu> <package> <opts>)
            | (newproj <t> <name> ((<app> <proto>)*))
            | (edit <dir> <fname> <n>)
     opts   = (<app> <prefix> <true|false> <dir>)
     dir    = (out n) | (proj t name) | (pkg t name) | (app t name app)          strings are code-point lists
  answer: ok <step>*      step = newproc | (<ok | err-E | na-noobject> <ok | err-E | na> <cfg-ok|cfg-bad|na> ((<dir> <fname> (<chunk>*))*))
  where the last component is the whole file system after the step and every chunk is printed injectively.
-/
namespace NasdaqModel.Driver.GenHistoryD
open NasdaqModel Sexp GenHistory

def asBool : Sexp → Option Bool
  | .atom "true" => some true
  | .atom "false" => some false
  | _ => none

def dirOf : Sexp → Option Dir
  | .list [.atom "out", n] => do some (.out (← asNat n))
  | .list [.atom "proj", t, name] => do some (.proj (← asNat t) (← asNats name))
  | .list [.atom "pkg", t, name] => do some (.pkg (← asNat t) (← asNats name))
  | .list [.atom "app", t, name, a] => do some (.app (← asNat t) (← asNats name) (← asNats a))
  | _ => none

def implOf : Sexp → Option Impl
  | .atom "itch" => some .itch
  | .atom "ouch" => some .ouch
  | .atom "sqf" => some .sqf
  | _ => none

def optsOf (override : Bool) : Sexp → Option GenOpts
  | .list [a, p, i, d] => do some ⟨← asNats a, ← asNats p, ← asBool i, ← dirOf d, override⟩
  | _ => none

def pairOf : Sexp → Option (Nat × Nat)
  | .list [a, b] => do some (← asNat a, ← asNat b)
  | _ => none

def soupSpecOf : Sexp → Option SoupSpec
  | .list [i, r, u, m] => do
    let root ← match r with
      | .atom "none" => some none
      | .list xs => (xs.mapM pairOf).map some
      | _ => none
    some ⟨← asNat i, root, ← asNats u, ← asNats m⟩
  | _ => none

partial def treeOf : Sexp → Option GTree
  | .list [n, f, .list ks] => do some (.mk (← asNat n) (← asNats f) (← ks.mapM treeOf))
  | _ => none

def fixSpecOf : Sexp → Option FixSpec
  | .list [i, v, f, mf, .list g, c] => do
    some ⟨← asNat i, ← asNat v, ← asNats f, ← asNats mf, ← g.mapM treeOf, ← asNats c⟩
  | _ => none

def invOf : Sexp → Option Inv
  -- the entry points' default is `--override-messages`
  | .list [.atom "soup", impl, spec, o] => do some (.soup (← implOf impl) (← soupSpecOf spec) (← optsOf true o))
  | .list [.atom "soup", impl, spec, o, ov] => do some (.soup (← implOf impl) (← soupSpecOf spec) (← optsOf (← asBool ov) o))
  | .list [.atom "fix", spec, o] => do some (.fix (← fixSpecOf spec) (← optsOf true o))
  | .list [.atom "asn1", .list files, pdu, pk, o] => do
    let fs ← files.mapM fun f => match f with
      | .list [n, c] => do some (← asNats n, ← asNat c)
      | _ => none
    some (.asn1 ⟨fs⟩ (← asNats pdu) (← asNats pk) (← optsOf true o))
  | .list [.atom "newproj", t, name, .list apps] => do
    let as ← apps.mapM fun a => match a with
      | .list [n, p] => do some (← asNats n, ← implOf p)
      | _ => none
    some (.newProject (← asNat t) (← asNats name) as)
  | .list [.atom "edit", d, f, n] => do some (.userEdit (← dirOf d, ← asNats f) (← asNat n))
  | _ => none

def evOf : Sexp → Option Ev
  | .atom "newproc" => some .newProcess
  | .list [.atom "construct", k, i] => do
    let i ← invOf i
    if i.isGen then some (.construct (← asNat k) i) else none
  | .list [.atom "generate", k] => do some (.generate (← asNat k))
  | e => do some (.inv (← invOf e))

def semOf : Sexp → Option Semantics
  | .atom "current" => some current
  | .atom "actual" => some actual
  | .atom "fixed" => some fixed
  | .atom "fixedGen" => some fixedGen
  -- the library with one of the two "optimisations" the model can exhibit (for trying a patched checkout)
  | .atom "clearInPlace" => some { current with rebindContexts := false }
  | .atom "cachedTypes" => some { current with freshTypeTables := false }
  | _ => none

/-! printing -/
def nat (n : Nat) : Sexp := .atom (toString n)
def dirTo : Dir → Sexp
  | .out n => .list [.atom "out", nat n]
  | .proj t n => .list [.atom "proj", nat t, ofNats n]
  | .pkg t n => .list [.atom "pkg", nat t, ofNats n]
  | .app t n a => .list [.atom "app", nat t, ofNats n, ofNats a]

def implTo : Impl → Sexp
  | .itch => .atom "itch" | .ouch => .atom "ouch" | .sqf => .atom "sqf"

def pairsTo (xs : List (Nat × Nat)) : Sexp := .list (xs.map fun x => .list [nat x.1, nat x.2])

def ctxTo (c : GCtx) : Sexp :=
  .list [nat c.name, nat c.u, .list (c.entries.map fun e => match e with
    | .field n => .list [.atom "f", nat n]
    | .group g u => .list [.atom "g", nat g, nat u])]

def chunkTo : Chunk → Sexp
  | .soupModule impl app sid msgs res => .list [.atom "soupModule", implTo impl, ofNats app, nat sid, ofNats msgs, ofNats res]
  | .initLine m => .list [.atom "initLine", ofNats m]
  | .fixFields sid f c ts => .list [.atom "fixFields", nat sid, ofNats f, ofNats c, .list (ts.map fun t => .atom (toString (repr t)))]
  | .fixGroups mp ctxs => .list [.atom "fixGroups", ofNats mp, .list (ctxs.map ctxTo)]
  | .fixBodies mp sid f top => .list [.atom "fixBodies", ofNats mp, nat sid, ofNats f, pairsTo top]
  | .fixMessages mp sid f top => .list [.atom "fixMessages", ofNats mp, nat sid, ofNats f, pairsTo top]
  | .fixApp app v => .list [.atom "fixApp", ofNats app, nat v]
  | .fixInit mp => .list [.atom "fixInit", ofNats mp]
  | .asn1Module app pdu pk => .list [.atom "asn1Module", ofNats app, ofNats pdu, ofNats pk]
  | .asn1File c => .list [.atom "asn1File", nat c]
  | .pyproject n => .list [.atom "pyproject", ofNats n]
  | .tox src apps => .list [.atom "tox", ofNats src, .list (apps.map fun a => .list [ofNats a.1, implTo a.2])]
  | .appXml => .atom "appXml"
  | .userText n => .list [.atom "userText", nat n]

def fsTo (fs : FS) : Sexp :=
  .list (fs.map fun e => .list [dirTo e.1.1, ofNats e.1.2, .list (e.2.map chunkTo)])

/-! events back to the request syntax (for `witness C17`) -/
def boolTo (b : Bool) : Sexp := .atom (if b then "true" else "false")
def optsTo (o : GenOpts) : Sexp := .list [ofNats o.app, ofNats o.pfx, boolTo o.init, dirTo o.dir]
partial def treeTo : GTree → Sexp
  | .mk n f ks => .list [nat n, ofNats f, .list (ks.map treeTo)]
def invTo : Inv → Sexp
  | .soup impl s o =>
    .list ([.atom "soup", implTo impl, .list [nat s.id, (match s.root with | none => .atom "none" | some r => pairsTo r),
      ofNats s.uses, ofNats s.msgs], optsTo o] ++ (if o.override then [] else [boolTo false]))
  | .fix s o =>
    .list [.atom "fix", .list [nat s.id, nat s.version, ofNats s.fields, ofNats s.msgFields, .list (s.groups.map treeTo),
      ofNats s.counts], optsTo o]
  | .asn1 s pdu pk o =>
    .list [.atom "asn1", .list (s.files.map fun f => .list [ofNats f.1, nat f.2]), ofNats pdu, ofNats pk, optsTo o]
  | .newProject t name apps =>
    .list [.atom "newproj", nat t, ofNats name, .list (apps.map fun a => .list [ofNats a.1, implTo a.2])]
  | .userEdit p n => .list [.atom "edit", dirTo p.1, ofNats p.2, nat n]

def evTo : Ev → Sexp
  | .newProcess => .atom "newproc"
  | .inv i => invTo i
  | .construct k i => .list [.atom "construct", nat k, invTo i]
  | .generate k => .list [.atom "generate", nat k]

def outcomeTo : Except Err Unit → Sexp
  | .ok _ => .atom "ok"
  | .error e => .atom ("err-" ++ e.name)

def stepOut (sem : Semantics) (w : World) : Ev → World × Sexp
  | .newProcess => (step sem w .newProcess, .atom "newproc")
  | .construct k i =>
    let r := construct sem w k i
    (r.1, .list [outcomeTo r.2, .atom "na", .atom "na", fsTo r.1.fs])
  | .generate k =>
    let r := generate sem w k
    match r.2 with
    | .ok _ => (r.1, .list [.atom "ok", outcomeTo (importAfterGenerate sem w k), .atom "na", fsTo r.1.fs])
    | .error _ => (r.1, .list [.atom "na-noobject", .atom "na", .atom "na", fsTo r.1.fs])
  | .inv i =>
    let r := invoke sem w i
    let imp : Sexp := match i.isGen, r.2 with
      | true, .ok _ => outcomeTo (importAfter sem w i)
      | _, _ => .atom "na"
    let cfg : Sexp := match i with
      | .newProject t name _ =>
        if configValid (read r.1.fs (.proj t name, sPyproject)) && configValid (read r.1.fs (.proj t name, sTox))
        then .atom "cfg-ok" else .atom "cfg-bad"
      | _ => .atom "na"
    (r.1, .list [outcomeTo r.2, imp, cfg, fsTo r.1.fs])

def runOut (sem : Semantics) : World → List Ev → List Sexp
  | _, [] => []
  | w, e :: rest =>
    let r := stepOut sem w e
    r.2 :: runOut sem r.1 rest

def handle (op : String) (args : List Sexp) : Option String :=
  match op, args with
  | "gen.hist", sem :: evs => do
    let sem ← semOf sem
    let evs ← evs.mapM evOf
    some ("ok " ++ " ".intercalate ((runOut sem w0 evs).map Sexp.toStr))
  | "witness", [.atom "C17"] =>
    some (" ".intercalate ((Witness.C17.histories ++ Witness.C17Opts.histories ++ Witness.C17Phases.histories).map fun h =>
      (Sexp.list (.atom h.1 :: h.2.map evTo)).toStr))
  | "gen.flags", [sem] => do
    let s ← semOf sem
    let m : Mode → String := fun m => match m with | .append => "append" | .truncate => "truncate" | .ifAbsent => "ifAbsent"
    some s!"genMode={m s.genMode} resetFieldDefs={s.resetFieldDefs} resetContexts={s.resetContexts} resetCounter={s.resetCounter} pyprojMode={m s.pyprojMode} toxMode={m s.toxMode} rebindContexts={s.rebindContexts} freshTypeTables={s.freshTypeTables}"
  | "gen.current", [] =>
    some (if current = actual then "actual" else if current = fixed then "fixed" else if current = fixedGen then "fixedGen" else "other")
  | _, _ => none

end NasdaqModel.Driver.GenHistoryD
