import NasdaqModel.Driver.SeqMulti
import NasdaqModel.Model.SeqObj
/-
Line protocol for Model/SeqObj.lean (property C10, histories on message OBJECTS).

  seq.obj <repaired|stale> (<object>*) (<op>*)
        object = (<n|none: the number the header carries> <valid> <hdr> <body> <trl encodable>)        the object id is the position
        op     = (send <i>) | (login <i>) | (hb <valid> <hdr> <body> <trl>) | (mutate <i> <valid> <hdr> <body> <trl>)
               | (stamp <i> <n|none>)
        repaired = the code as it is (`objSendR`); stale = the rollback that reads the number back from the object (`objSendStale`)
     -> ok ((<rej|type|enc|w n> <next|none>)*) (<tag 34 of the frames written>*)          one trace entry per send / login / hb
  witness C10Obj -> the three histories of Witness/C10Obj.lean, each as ((<object>*) (<op>*))
-/
namespace NasdaqModel.Driver.SeqObjD
open NasdaqModel Sexp SeqNum NasdaqModel.Driver.SeqD NasdaqModel.Driver.SeqMultiD

def objOf : Sexp → Option Obj
  | .list [n, v, h, b, t] => do some { stamp := (← optIntOf n), msg := (← segMsgOf v h b t) }
  | _ => none

def objOpOf : Sexp → Option ObjOp
  | .list [.atom "send", i] => do some (.send (← asNat i))
  | .list [.atom "login", i] => do some (.login (← asNat i))
  | .list [.atom "hb", v, h, b, t] => do some (.heartbeat (← segMsgOf v h b t))
  | .list [.atom "mutate", i, v, h, b, t] => do some (.mutate (← asNat i) (← segMsgOf v h b t))
  | .list [.atom "stamp", i, n] => do some (.setStamp (← asNat i) (← optIntOf n))
  | _ => none

def segStr (m : SegMsg) : String := s!"{m.bodyValid} {m.hdrEnc} {m.bodyEnc} {m.trlEnc}"

def objStr (o : Obj) : String := s!"({optIntStr o.stamp} {segStr o.msg})"

def objOpStr : ObjOp → String
  | .send i => s!"(send {i})"
  | .login i => s!"(login {i})"
  | .heartbeat m => s!"(hb {segStr m})"
  | .mutate i m => s!"(mutate {i} {segStr m})"
  | .setStamp i n => s!"(stamp {i} {optIntStr n})"

def histStr (w : Heap × List ObjOp) : String :=
  "((" ++ " ".intercalate (w.1.map objStr) ++ ") (" ++ " ".intercalate (w.2.map objOpStr) ++ "))"

def handle (op : String) (args : List Sexp) : Option String :=
  match op, args with
  | "seq.obj", [v, .list objs, .list ops] => do
      let repaired ← (match v with | .atom "stale" => some false | .atom "repaired" => some true | _ => none)
      let heap ← objs.mapM objOf
      let ops ← ops.mapM objOpOf
      let st : OSt := { sess := fixInit, heap := heap }
      let t := if repaired then objTraceR st ops else objTraceWith objSendStale st ops
      let fin := if repaired then objRunR st ops else objRunStale st ops
      let ts := "(" ++ " ".intercalate (t.map fun (o, n) => s!"({fixOutStr o} {optIntStr n})") ++ ")"
      let fs := "(" ++ " ".intercalate (fin.sess.frames.map toString) ++ ")"
      some s!"ok {ts} {fs}"
  | "witness", [.atom "C10Obj"] =>
      some (" ".intercalate [histStr witnessResend, histStr witnessDecoded, histStr witnessPreset])
  | _, _ => none

end NasdaqModel.Driver.SeqObjD
