import NasdaqModel.Driver.Soup
import NasdaqModel.Model.Framing
/-
Line protocol for Model/Framing.lean (C03).

  frame.run soup|fix <ev>*        ev = `(d x<hex>)` (on_data) | `t` (tick)
      → `ok <obs>* (final <stopped> <closeSignals> <failed|-> x<buf>)`
        obs = `-` nothing | `n` need more | `(m <msg>)` emitted | `(k <msg>)` heartbeat skipped | `(s <msg>)` logout: stop
              | `(c <err>)` deserialize raised: stop;   <msg> = packet s-expression (soup) | x<frame bytes> (fix)
  frame.deser soup|fix x<buf>     → `ok none` | `ok <msg> x<rest>` | `err <class>`
  fix.msgtype x<frame>            → x<type bytes>
  fix.wf x<frame>                 → `true` | `false`   (`wfFixFrame`, the hypothesis of the FIX theorems)
-/
namespace NasdaqModel.Driver.FramingD
open NasdaqModel Sexp Framing

def evOfSexp : Sexp → Option Ev
  | .atom "t" => some .tick
  | .list [.atom "d", b] => do some (.data (← asBytes b))
  | _ => none

def obsToSexp (f : μ → Sexp) : Obs μ → Sexp
  | .nothing => .atom "-"
  | .needMore => .atom "n"
  | .emit m => .list [.atom "m", f m]
  | .skip m => .list [.atom "k", f m]
  | .stop m => .list [.atom "s", f m]
  | .crash e => .list [.atom "c", .atom e.name]

def showRun (f : μ → Sexp) (res : R μ × List (Obs μ)) : String :=
  let (r, tr) := res
  let fin : Sexp := .list [.atom "final", .atom (if r.stopped then "true" else "false"), .atom (toString r.closeSignals),
    .atom (match r.failed with | some e => e.name | none => "-"), .atom (bytesToHex r.buf)]
  "ok " ++ " ".intercalate ((tr.map (fun o => (obsToSexp f o).toStr)) ++ [fin.toStr])

def showDeser (f : μ → Sexp) : Except Err (Option (μ × Bytes)) → String
  | .error e => s!"err {e.name}"
  | .ok none => "ok none"
  | .ok (some (m, rest)) => s!"ok {(f m).toStr} {bytesToHex rest}"

def fixMsg (b : Bytes) : Sexp := .atom (bytesToHex b)

def handle (op : String) (args : List Sexp) : Option String :=
  match op, args with
  | "frame.run", .atom "soup" :: evs => do
      let evs ← evs.mapM evOfSexp
      some (showRun SoupD.pktToSexp (runTrace soupProto evs))
  | "frame.run", .atom "fix" :: evs => do
      let evs ← evs.mapM evOfSexp
      some (showRun fixMsg (runTrace fixProto evs))
  | "frame.deser", [.atom "soup", b] => do
      some (showDeser SoupD.pktToSexp (soupDeser (← asBytes b)))
  | "frame.deser", [.atom "fix", b] => do
      some (showDeser fixMsg (fixDeser (← asBytes b)))
  | "fix.msgtype", [b] => do
      some (bytesToHex (getMsgType (← asBytes b)))
  | "fix.wf", [b] => do
      some (if wfFixFrame (← asBytes b) then "true" else "false")
  | _, _ => none

end NasdaqModel.Driver.FramingD
