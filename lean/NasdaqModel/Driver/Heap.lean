import NasdaqModel.Driver.Sexp
import NasdaqModel.Model.Heap
import NasdaqModel.Model.HeapD
/-
Line protocol of the C18 heap model.

  heap.run <schema> (<op>*)      →  (<result>*)         one result per operation
  heap.witness                   →  the history of Witness/C18.lean in request syntax, printed from the Lean terms

  schema  ::= (schema shared|fresh <class>*)     shared: unset array fields read as the class-level list (code as is);
                                                 fresh: as a new list each time (repaired get_field_value)
  class   ::= (rec <msgid|-> <fty>*) | (fmsg h b t) | (fseg g|s <entry>*)
  fty     ::= (int w s b <dflt|->) | (arr <ety> (w s b)) | (recd c)         s, b ∈ {0,1}
  ety     ::= (int w s b) | (recd c)
  entry   ::= (f tag int|str) | (g tag cls)
  tree    ::= <int> | (s cp*) | none | (l tree*) | (o cls (k tree)*)
  path    ::= (<step>*)        step ::= (f k) | (i n)
  op      ::= (new c) | (read a path) | (assign a path k tree) | (append a path tree) | (setidx a path i tree)
            | (encode a) | (mkbuf a) | (decode c b) | (scribble b)
            | (copy b path_b k a path_a)      FIX: `obj = read b path_b; obj[k] = read a path_a` (the library copies deeply)
            | (clone a)                       FIX: a new message from `from_value` copies of a's three segments
  result  ::= (<ok|error name> <classSafe 0|1> <value read|-> (v <view> <x…|err-name>)*)     views of all instances after the op
  view    ::= <int> | (s cp*) | none | (l view*) | (o cls (k view)*) | x… | cut
             (object entries: declared keys in declaration order — assigned value or what the unassigned key reads as —
              then assigned undeclared keys in store order)
-/
namespace NasdaqModel.Driver.HeapD
open NasdaqModel Sexp Heap

def bit : Sexp → Option Bool
  | .atom "0" => some false
  | .atom "1" => some true
  | _ => none

def intTy : List Sexp → Option IntTy
  | [w, s, b] => do some ⟨← asNat w, ← bit s, ← bit b⟩
  | _ => none

def etyOf : Sexp → Option ETy
  | .list (.atom "int" :: r) => do some (.int (← intTy r))
  | .list [.atom "recd", c] => do some (.recd (← asNat c))
  | _ => none

def ftyOf : Sexp → Option FTy
  | .list [.atom "int", w, s, b, d] => do
    let t ← intTy [w, s, b]
    match d with
    | .atom "-" => some (.int t none)
    | d => do some (.int t (some (← asInt d)))
  | .list [.atom "arr", e, .list c] => do some (.arr (← etyOf e) (← intTy c))
  | .list [.atom "recd", c] => do some (.recd (← asNat c))
  | _ => none

def entryOf : Sexp → Option XEntry
  | .list [.atom "f", t, .atom "int"] => do some (.field (← asNat t) .int)
  | .list [.atom "f", t, .atom "str"] => do some (.field (← asNat t) .str)
  | .list [.atom "g", t, c] => do some (.group (← asNat t) (← asNat c))
  | _ => none

def classOf : Sexp → Option ClassDef
  | .list (.atom "rec" :: m :: fs) => do
    let fs ← fs.mapM ftyOf
    match m with
    | .atom "-" => some (.binRec none fs)
    | m => do some (.binRec (some (← asNat m)) fs)
  | .list [.atom "fmsg", h, b, t] => do some (.fixMsg (← asNat h) (← asNat b) (← asNat t))
  | .list (.atom "fseg" :: .atom g :: es) => do
    let es ← es.mapM entryOf
    some (.fixSeg (g == "g") es)
  | _ => none

def schemaOf : Sexp → Option Schema
  | .list (.atom "schema" :: .atom mode :: cs) => do
    let fresh ← (if mode == "fresh" then some true else if mode == "shared" then some false else none)
    some ⟨fresh, ← cs.mapM classOf⟩
  | _ => none

partial def treeOf : Sexp → Option Tree
  | .atom "none" => some .none
  | .atom a => do some (.int (← a.toInt?))
  | .list (.atom "s" :: cps) => do some (.str (← cps.mapM asNat))
  | .list (.atom "l" :: ts) => do some (.list (← ts.mapM treeOf))
  | .list (.atom "o" :: c :: kvs) => do
    let c ← asNat c
    let kvs ← kvs.mapM (fun kv => match kv with
      | .list [k, t] => do some ((← asNat k), (← treeOf t))
      | _ => none)
    some (.obj c (kvs.map (·.1)) (kvs.map (·.2)))
  | _ => none

def stepOf : Sexp → Option Step
  | .list [.atom "f", k] => do some (.fld (← asNat k))
  | .list [.atom "i", k] => do some (.idx (← asNat k))
  | _ => none

def pathOf : Sexp → Option (List Step)
  | .list ss => ss.mapM stepOf
  | _ => none

def opOf : Sexp → Option Op
  | .list [.atom "new", c] => do some (.new (← asNat c))
  | .list [.atom "read", a, p] => do some (.read (← asNat a) (← pathOf p))
  | .list [.atom "assign", a, p, k, t] => do some (.assign (← asNat a) (← pathOf p) (← asNat k) (← treeOf t))
  | .list [.atom "append", a, p, t] => do some (.append (← asNat a) (← pathOf p) (← treeOf t))
  | .list [.atom "setidx", a, p, i, t] => do some (.setIdx (← asNat a) (← pathOf p) (← asNat i) (← treeOf t))
  | .list [.atom "encode", a] => do some (.encode (← asNat a))
  | .list [.atom "mkbuf", a] => do some (.mkbuf (← asNat a))
  | .list [.atom "decode", c, b] => do some (.decode (← asNat c) (← asNat b))
  | .list [.atom "scribble", b] => do some (.scribble (← asNat b))
  | .list [.atom "copy", b, pb, k, a, pa] => do some (.copy (← asNat b) (← pathOf pb) (← asNat k) (← asNat a) (← pathOf pa))
  | .list [.atom "clone", a] => do some (.clone (← asNat a))
  | _ => none

def atomI (i : Int) : Sexp := .atom (toString i)
def atomN (n : Nat) : Sexp := .atom (toString n)

partial def dvalSx (S : Schema) : DVal → Sexp
  | .int i => atomI i
  | .str s => .list (.atom "s" :: s.map atomN)
  | .none => .atom "none"
  | .list xs => .list (.atom "l" :: xs.map (dvalSx S))
  | .bytes bs => .atom (bytesToHex bs)
  | .cut => .atom "cut"
  | .obj c sk sv dk dv =>
    let declared := (S.declared c).map (·.1)
    let get := fun (k : Key) => (lookup2 sk sv k).orElse (fun _ => lookup2 dk dv k)
    let first := declared.filterMap (fun k => (get k).map (fun d => Sexp.list [atomN k, dvalSx S d]))
    let rest := (sk.zip sv).filterMap (fun kd =>
      if declared.contains kd.1 then none else some (Sexp.list [atomN kd.1, dvalSx S kd.2]))
    .list (.atom "o" :: atomN c :: (first ++ rest))

def encSx (r : Except Err Bytes) : Sexp :=
  match r with
  | .ok bs => .atom (bytesToHex bs)
  | .error e => .atom ("err-" ++ e.name)

def instSx (S : Schema) (H : Heap) (i : Nat) : Sexp :=
  match view S (obsDepth S) H i with
  | some d => .list [.atom "v", dvalSx S d, encSx (encodeInst S H i)]
  | none => .atom "?"

def readSx (S : Schema) (H : Heap) : Op → Sexp
  | .read a p =>
    match getInst H a with
    | .ok cr =>
      match resolve S H.cells (.ref cr.2) p with
      | .ok v => dvalSx S (deref S (obsDepth S) H.cells v)
      | .error _ => .atom "-"
    | .error _ => .atom "-"
  | _ => .atom "-"

def runOps (S : Schema) : Heap → List Op → List Sexp
  | _, [] => []
  | H, op :: ops =>
    let safe := if classSafe S H op then "1" else "0"
    let rd := readSx S H op
    let (status, H') := match step S H op with
      | .ok H' => ("ok", H')
      | .error e => (e.name, H)
    let views := (List.range H'.insts.length).map (instSx S H')
    .list (.atom status :: .atom safe :: rd :: views) :: runOps S H' ops

/-! printers (request syntax), used to hand the witness history of Witness/C18.lean to the harness -/

def bitSx (b : Bool) : Sexp := .atom (if b then "1" else "0")
def intTySx (t : IntTy) : List Sexp := [atomN t.w, bitSx t.signed, bitSx t.be]

def etySx : ETy → Sexp
  | .int t => .list (.atom "int" :: intTySx t)
  | .recd c => .list [.atom "recd", atomN c]

def ftySx : FTy → Sexp
  | .int t d => .list (.atom "int" :: intTySx t ++ [match d with | some v => atomI v | none => .atom "-"])
  | .arr e c => .list [.atom "arr", etySx e, .list (intTySx c)]
  | .recd c => .list [.atom "recd", atomN c]

def entrySx : XEntry → Sexp
  | .field t .int => .list [.atom "f", atomN t, .atom "int"]
  | .field t .str => .list [.atom "f", atomN t, .atom "str"]
  | .group t g => .list [.atom "g", atomN t, atomN g]

def classSx : ClassDef → Sexp
  | .binRec m fs => .list (.atom "rec" :: (match m with | some v => atomN v | none => .atom "-") :: fs.map ftySx)
  | .fixMsg h b t => .list [.atom "fmsg", atomN h, atomN b, atomN t]
  | .fixSeg g es => .list (.atom "fseg" :: .atom (if g then "g" else "s") :: es.map entrySx)

def schemaSx (S : Schema) : Sexp :=
  .list (.atom "schema" :: .atom (if S.freshArrayDefault then "fresh" else "shared") :: S.classes.map classSx)

partial def treeSx : Tree → Sexp
  | .int i => atomI i
  | .str s => .list (.atom "s" :: s.map atomN)
  | .none => .atom "none"
  | .list xs => .list (.atom "l" :: xs.map treeSx)
  | .obj c ks ts => .list (.atom "o" :: atomN c :: (ks.zip ts).map (fun kt => Sexp.list [atomN kt.1, treeSx kt.2]))

def stepSx : Step → Sexp
  | .fld k => .list [.atom "f", atomN k]
  | .idx i => .list [.atom "i", atomN i]

def pathSx (p : List Step) : Sexp := .list (p.map stepSx)

def opSx : Op → Sexp
  | .new c => .list [.atom "new", atomN c]
  | .read a p => .list [.atom "read", atomN a, pathSx p]
  | .assign a p k t => .list [.atom "assign", atomN a, pathSx p, atomN k, treeSx t]
  | .append a p t => .list [.atom "append", atomN a, pathSx p, treeSx t]
  | .setIdx a p i t => .list [.atom "setidx", atomN a, pathSx p, atomN i, treeSx t]
  | .encode a => .list [.atom "encode", atomN a]
  | .mkbuf a => .list [.atom "mkbuf", atomN a]
  | .decode c b => .list [.atom "decode", atomN c, atomN b]
  | .scribble b => .list [.atom "scribble", atomN b]
  | .copy b pb k a pa => .list [.atom "copy", atomN b, pathSx pb, atomN k, atomN a, pathSx pa]
  | .clone a => .list [.atom "clone", atomN a]

def witnessText : String :=
  (schemaSx witnessSchema).toStr ++ " " ++ (Sexp.list (witnessOps.map opSx)).toStr

/-! ### `heapd.run`: the same with DECLARED defaults (Model/HeapD.lean)

  heapd.run <schema> (<op>*)  →  (<result>*)       same result syntax; the classSafe column is always 1
  fty ::= … | (arr <ety> (w s b) <tree>)      declared default of an array field (a list tree)
          | (recd c <tree>)                   declared default of a record-typed field: parsed and dropped, the library ignores it
-/

def ftyOfD : Sexp → Option (FTy × Option Tree)
  | .list [.atom "arr", e, .list c, d] => do some (.arr (← etyOf e) (← intTy c), some (← treeOf d))
  | .list [.atom "recd", c, _d] => do some (.recd (← asNat c), Option.none)
  | f => do some (← ftyOf f, Option.none)

def classOfD (ci : Nat) : Sexp → Option (ClassDef × List ((Nat × Key) × Tree))
  | .list (.atom "rec" :: m :: fs) => do
    let fds ← fs.mapM ftyOfD
    let mid ← (match m with
      | .atom "-" => some Option.none
      | m => do some (some (← asNat m)))
    let tbl := (enumFrom 0 fds).filterMap (fun p => p.2.2.map (fun t => ((ci, p.1), t)))
    some (.binRec mid (fds.map (·.1)), tbl)
  | c => do some (← classOf c, [])

def schemaOfD : Sexp → Option (Schema × HeapD.Defaults)
  | .list (.atom "schema" :: .atom mode :: cs) => do
    let fresh ← (if mode == "fresh" then some true else if mode == "shared" then some false else none)
    let cds ← (enumFrom 0 cs).mapM (fun p => classOfD p.1 p.2)
    some (⟨fresh, cds.map (·.1)⟩, ⟨cds.flatMap (·.2)⟩)
  | _ => none

def instSxD (S : Schema) (D : HeapD.Defaults) (H : Heap) (i : Nat) : Sexp :=
  match HeapD.viewD S D (obsDepth S) H i with
  | some d => .list [.atom "v", dvalSx S d, encSx (HeapD.encodeInstD S D H i)]
  | none => .atom "?"

def readSxD (S : Schema) (D : HeapD.Defaults) (H : Heap) : Op → Sexp
  | .read a p =>
    match HeapD.targetD S D H a p with
    | .ok (.heap v) => dvalSx S (HeapD.patch S D (obsDepth S) (deref S (obsDepth S) H.cells v))
    | .ok (.tmp t) => dvalSx S (HeapD.treeD S D (obsDepth S) t)
    | .error _ => .atom "-"
  | _ => .atom "-"

def runOpsD (S : Schema) (D : HeapD.Defaults) : Heap → List Op → List Sexp
  | _, [] => []
  | H, op :: ops =>
    let rd := readSxD S D H op
    let (status, H') := match HeapD.stepD S D H op with
      | .ok H' => ("ok", H')
      | .error e => (e.name, H)
    let views := (List.range H'.insts.length).map (instSxD S D H')
    .list (.atom status :: .atom "1" :: rd :: views) :: runOpsD S D H' ops

def handle (op : String) (args : List Sexp) : Option String :=
  match op, args with
  | "heap.run", [s, .list ops] => do
    let S ← schemaOf s
    let ops ← ops.mapM opOf
    some (Sexp.list (runOps S Heap.init ops)).toStr
  | "heapd.run", [s, .list ops] => do
    let SD ← schemaOfD s
    let ops ← ops.mapM opOf
    some (Sexp.list (runOpsD SD.1 SD.2 Heap.init ops)).toStr
  | "heap.witness", [] => some witnessText
  | _, _ => none

end NasdaqModel.Driver.HeapD
