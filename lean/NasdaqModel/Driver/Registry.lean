import NasdaqModel.Driver.Sexp
import NasdaqModel.Model.Registry
/-
Line protocol for Model/Registry.lean (property C19).

  reg.run (<decl>*) (<query>*)
      decl  = (<cid> <name> <itch|ouch|sqf> <base app> <proto|plain|gen> <ind|none> <outgoing|incoming|other|none> <app kw|none>
               [<module> <bare|top|factory|meta> <bind 0|1> <unbind 0|1>])         the site of the statement (default: bare)
      query = (sweep <proto> <app>)                all 256 id bytes through `Base.from_bytes`
            | (dec <proto> <app> <byte>)
            | (ind <app> <proto> <indicator> <dir>)  get_msg_cls_by_indicator
            | (name <app> <name>)                    get_msg_cls_by_name
            | (classes <app>)                        get_msg_classes
            | (bound <module> <name>)                what the module namespace binds the class name to (`key`: unbound)
   -> ok (<ok|dup|value|…>*) (<answer>*)      answer: class id, `key` for KeyError, or a list of those
-/
namespace NasdaqModel.Driver.RegistryD
open NasdaqModel Sexp Registry

def protoOf : Sexp → Option Proto
  | .atom "itch" => some .itch
  | .atom "ouch" => some .ouch
  | .atom "sqf" => some .sqf
  | _ => none

def styleOf : Sexp → Option Style
  | .atom "proto" => some .protoBase
  | .atom "plain" => some .plain
  | .atom "gen" => some .generated
  | _ => none

def dirOf : Sexp → Option Dir
  | .atom "outgoing" => some .outgoing
  | .atom "incoming" => some .incoming
  | .atom "other" => some .other
  | _ => none

def optOf (f : Sexp → Option α) : Sexp → Option (Option α)
  | .atom "none" => some none
  | s => (f s).map some

def declOf : Sexp → Option Decl
  | .list [c, n, p, a, st, i, d, k] => do
      some { cid := (← asNat c), name := (← asNat n),
             base := { proto := (← protoOf p), app := (← asNat a), style := (← styleOf st) },
             ind := (← optOf asNat i), dir := (← optOf dirOf d), appKw := (← optOf asNat k) }
  | _ => none

def formOf : Sexp → Option Form
  | .atom "bare" => some .bare
  | .atom "top" => some .topLevel
  | .atom "factory" => some .factory
  | .atom "meta" => some .metaCall
  | _ => none

def sdeclOf : Sexp → Option SDecl
  | .list [c, n, p, a, st, i, d, k] => do
      some { decl := (← declOf (.list [c, n, p, a, st, i, d, k])),
             site := { modl := 0, form := .bare, bind := false, unbind := false } }
  | .list [c, n, p, a, st, i, d, k, m, f, b, u] => do
      some { decl := (← declOf (.list [c, n, p, a, st, i, d, k])),
             site := { modl := (← asNat m), form := (← formOf f), bind := (← asNat b) != 0, unbind := (← asNat u) != 0 } }
  | _ => none

def resStr : Except Err Nat → String
  | .ok c => toString c
  | .error e => e.name

def answerReg (r : Reg) : Sexp → Option String
  | .list [.atom "sweep", p, a] => do
      let b : Base := { proto := (← protoOf p), app := (← asNat a), style := .plain }
      some ("(" ++ " ".intercalate ((List.range 256).map fun i => resStr (decode r b i)) ++ ")")
  | .list [.atom "dec", p, a, i] => do
      let b : Base := { proto := (← protoOf p), app := (← asNat a), style := .plain }
      some (resStr (decode r b (← asNat i)))
  | .list [.atom "ind", a, p, i, d] => do
      some (resStr (byIndicator r (← asNat a) (mkKey (← protoOf p) (← asNat i) (← dirOf d))))
  | .list [.atom "name", a, n] => do some (resStr (byName r (← asNat a) (← asNat n)))
  | .list [.atom "classes", a] => do
      some ("(" ++ " ".intercalate ((classes r (← asNat a)).map toString) ++ ")")
  | _ => none

def answer (w : World) : Sexp → Option String
  | .list [.atom "bound", m, n] => do
      some (match bindGet w.binds (← asNat m) (← asNat n) with | some c => toString c | none => "key")
  | q => answerReg w.reg q

def handle (op : String) (args : List Sexp) : Option String :=
  match op, args with
  | "reg.run", [.list ds, .list qs] => do
      let sds ← ds.mapM sdeclOf
      let w := runAt World.empty sds
      let outs := (outcomes Reg.empty (sds.map (·.decl))).map fun | none => "ok" | some e => e.name
      let ans ← qs.mapM (answer w)
      some s!"ok ({" ".intercalate outs}) ({" ".intercalate ans})"
  | _, _ => none

end NasdaqModel.Driver.RegistryD
