import NasdaqModel.Driver.Fix
import NasdaqModel.Model.FixObj
/-
Line protocol for message-object histories (C14, Model/FixObj.lean).

  fix.resend <ver> <md> (sess <sub> <target> <sender>) <msg> (<op>*)
      op   ::= (send <seq> (<cp>*))                          -- sequence number drawn, SendingTime read from the frame
             | (set <seg> <path> <tag> <val>) | (pop <seg> <path> <tag>)
             | (append <seg> <path> <tag> <inst>) | (insert <seg> <path> <tag> <idx> <inst>)
             | (replace <seg> <path> <tag> <idx> <inst>) | (delete <seg> <path> <tag> <idx>)
      seg  ::= hdr | body | trl          path ::= ((<group tag> <instance index>)*)          inst ::= <seg value>
    -> ok (<frame hex>*) <msg>          the frames of the sends, in order; what the object holds at the end
     | err <Err.name>                   the first operation that raised
  fix.resend.cached …  the same history under the semantics of the seeded change C14l (`FixObj.Cached`), for the witnesses
  fix.witness.resend   -> <ver> <md> <sess> <msg> (<op>*) (<op>*) …     the histories of Props/C14Resend.lean / Witness/C14Resend.lean
-/
namespace NasdaqModel.Driver.FixObjD
open NasdaqModel Sexp Fix FixFrame FixObj NasdaqModel.Driver.FixD

def segSelOf : Sexp → Option SegSel
  | .atom "hdr" => some .hdr | .atom "body" => some .body | .atom "trl" => some .trl | _ => none

def pathOf : Sexp → Option Path
  | .list xs => xs.mapM (fun x => match x with
      | .list [t, i] => do some ((← asNat t), (← asNat i))
      | _ => none)
  | _ => none

def opOf : Sexp → Option Op
  | .list [.atom "send", seq, time] => do some (.send (← asInt seq) (← asNats time))
  | .list [.atom "set", sg, p, t, v] => do some (.edit (← segSelOf sg) (← pathOf p) (.set (← asNat t) (← valOfSexp v)))
  | .list [.atom "pop", sg, p, t] => do some (.edit (← segSelOf sg) (← pathOf p) (.pop (← asNat t)))
  | .list [.atom "append", sg, p, t, g] => do some (.edit (← segSelOf sg) (← pathOf p) (.append (← asNat t) (← segOfSexp g)))
  | .list [.atom "insert", sg, p, t, i, g] => do
      some (.edit (← segSelOf sg) (← pathOf p) (.insert (← asNat t) (← asNat i) (← segOfSexp g)))
  | .list [.atom "replace", sg, p, t, i, g] => do
      some (.edit (← segSelOf sg) (← pathOf p) (.replace (← asNat t) (← asNat i) (← segOfSexp g)))
  | .list [.atom "delete", sg, p, t, i] => do some (.edit (← segSelOf sg) (← pathOf p) (.delete (← asNat t) (← asNat i)))
  | _ => none

def segSelTo : SegSel → Sexp
  | .hdr => .atom "hdr" | .body => .atom "body" | .trl => .atom "trl"

def pathTo (p : Path) : Sexp := .list (p.map fun x => .list [.atom (toString x.1), .atom (toString x.2)])

def opTo : Op → Sexp
  | .send seq time => .list [.atom "send", .atom (toString seq), ofNats time]
  | .edit sg p (.set t v) => .list [.atom "set", segSelTo sg, pathTo p, .atom (toString t), valToSexp v]
  | .edit sg p (.pop t) => .list [.atom "pop", segSelTo sg, pathTo p, .atom (toString t)]
  | .edit sg p (.append t g) => .list [.atom "append", segSelTo sg, pathTo p, .atom (toString t), segToSexp g]
  | .edit sg p (.insert t i g) => .list [.atom "insert", segSelTo sg, pathTo p, .atom (toString t), .atom (toString i), segToSexp g]
  | .edit sg p (.replace t i g) => .list [.atom "replace", segSelTo sg, pathTo p, .atom (toString t), .atom (toString i), segToSexp g]
  | .edit sg p (.delete t i) => .list [.atom "delete", segSelTo sg, pathTo p, .atom (toString t), .atom (toString i)]

def answer : Except Err (List Bytes × Msg) → String
  | .ok (fs, m) => s!"ok ({" ".intercalate (fs.map bytesToHex)}) {(msgToSexp m).toStr}"
  | .error e => errStr e

def handle (op : String) (args : List Sexp) : Option String :=
  match op, args with
  | "fix.resend", [ver, d, .list [.atom "sess", sub, tgt, snd], m, .list ops] => do
      let se : Sess := { senderSub := (← asNats sub), target := (← asNats tgt), sender := (← asNats snd) }
      some (answer (run (← asNats ver) (← mdOfSexp d) se (← msgOfSexp m) (← ops.mapM opOf)))
  | "fix.resend.cached", [ver, d, .list [.atom "sess", sub, tgt, snd], m, .list ops] => do
      let se : Sess := { senderSub := (← asNats sub), target := (← asNats tgt), sender := (← asNats snd) }
      some (answer (Cached.runC (← asNats ver) (← mdOfSexp d) se [] (← msgOfSexp m) (← ops.mapM opOf)))
  | "fix.witness.resend", [] =>
      let se := resendSess
      let hs := [resendMixed, resendNestedField, resendNestedList, resendOuterField]
      some (s!"{(ofNats resendVer).toStr} {(mdToSexp resendDef).toStr} " ++
            s!"(sess {(ofNats se.senderSub).toStr} {(ofNats se.target).toStr} {(ofNats se.sender).toStr}) {(msgToSexp resendMsg).toStr} " ++
            " ".intercalate (hs.map fun h => (Sexp.list (h.map opTo)).toStr))
  | _, _ => none

end NasdaqModel.Driver.FixObjD
