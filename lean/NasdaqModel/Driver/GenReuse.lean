import NasdaqModel.Driver.GenHistory
import NasdaqModel.Model.GenReuse
import NasdaqModel.Witness.C17Reuse
/-
Line protocol for Model/GenReuse.lean (one parsed spec object handed to several generators) — an addition to Driver/GenHistory.lean.

  gen.reuse <current|actual|fixed|…|memoGroups> <event>*
     event = every event of `gen.hist`, and
             (construct <k> (on <j>) <soup or fix event>)     -- generator object k constructed on THE OBJECT that was parsed for
                                                              -- generator j (`(construct j …)` earlier in the history): no parse;
                                                              -- the spec (and --fix-version / --override-messages) are j's,
                                                              -- app, prefix, init flag, directory, protocol are the event's own
     In this op `(construct k <soup or fix event>)` is `parse k` followed by `constructOn k k` (Props/C17Reuse.lean,
     `C17_construct_is_parse_then_constructOn`: the same as the one event of `gen.hist`, for every semantics).
     `memoGroups`: `current` with parsed `Group` objects that keep their first codegen context (seeded change C16l; for trying a
     patched checkout, as `clearInPlace` / `cachedTypes` of `gen.hist`).
  answer: as `gen.hist` (a construction on a missing object answers `na-noobject`)
  witness C17Reuse    the histories of Witness/C17Reuse.lean in the request syntax
-/
namespace NasdaqModel.Driver.GenReuseD
open NasdaqModel Sexp GenHistory GenReuse
open NasdaqModel.Driver.GenHistoryD

inductive Req where
  | old (e : Ev)
  | own (k : Nat) (ps : PSpec) (impl : Impl) (o : GenOpts)
  | on (k j : Nat) (impl : Impl) (o : GenOpts)

/-- the parse-time part and the construction-time part of a soup-app / FIX invocation -/
def splitInv : Inv → Option (PSpec × Impl × GenOpts)
  | .soup impl spec o => some (.soup spec o.override, impl, o)
  | .fix spec o => some (.fix spec, .itch, o)
  | _ => none

def reqOf : Sexp → Option Req
  | .list [.atom "construct", k, .list [.atom "on", j], i] => do
    let i ← invOf i
    let x ← splitInv i
    some (.on (← asNat k) (← asNat j) x.2.1 x.2.2)
  | .list [.atom "construct", k, i] => do
    let i ← invOf i
    match splitInv i with
    | some x => some (.own (← asNat k) x.1 x.2.1 x.2.2)
    | none => if i.isGen then some (.old (.construct (← asNat k) i)) else none
  | e => do some (.old (← evOf e))

def semOfR : Sexp → Option (Semantics × Bool)
  | .atom "memoGroups" => some (current, true)
  | s => do some (← semOf s, false)

def constructOut (r : RWorld × Except Err Unit) : RWorld × Sexp :=
  match r.2 with
  | .error .state => (r.1, .list [.atom "na-noobject", .atom "na", .atom "na", fsTo r.1.w.fs])
  | out => (r.1, .list [outcomeTo out, .atom "na", .atom "na", fsTo r.1.w.fs])

/-- number of the parsed object / generator object a whole invocation uses under `memoGroups` (never used by a history) -/
def tmpId : Nat := 4294967295

/-- `memoGroups` only: a whole soup-app / FIX invocation as `parse; constructOn; generate` on objects of its own (the whole
    invocation of Model/GenHistory.lean, `planFix`, has no parsed `Group` objects that could remember anything) -/
def invViaParse (sem : Semantics) (rw : RWorld) (i : Inv) : Option (RWorld × Sexp) :=
  match splitInv i with
  | none => none
  | some x =>
    let p := parseR sem rw tmpId x.1
    match p.2 with
    | .error e => some (p.1, .list [outcomeTo (.error e), .atom "na", .atom "na", fsTo p.1.w.fs])
    | .ok _ =>
      let c := constructOn sem true p.1 tmpId tmpId x.2.1 x.2.2
      match c.2 with
      | .error e => some (c.1, .list [outcomeTo (.error e), .atom "na", .atom "na", fsTo c.1.w.fs])
      | .ok _ =>
        let g := generateR sem c.1 tmpId
        some (g.1, .list [.atom "ok", outcomeTo (importAfterGenerate sem c.1.w tmpId), .atom "na", fsTo g.1.w.fs])

def stepOutR (sem : Semantics) (memo : Bool) (rw : RWorld) : Req → RWorld × Sexp
  | .old e =>
    let viaParse := match memo, e with
      | true, .inv i => invViaParse sem rw i
      | _, _ => none
    match viaParse with
    | some r => r
    | none =>
      let r := stepOut sem rw.w e
      (⟨r.1, match e with | .newProcess => [] | _ => rw.parsed⟩, r.2)
  | .own k ps impl o =>
    let p := parseR sem rw k ps
    match p.2 with
    | .error e => (p.1, .list [outcomeTo (.error e), .atom "na", .atom "na", fsTo p.1.w.fs])
    | .ok _ => constructOut (constructOn sem memo p.1 k k impl o)
  | .on k j impl o => constructOut (constructOn sem memo rw k j impl o)

def runOutR (sem : Semantics) (memo : Bool) : RWorld → List Req → List Sexp
  | _, [] => []
  | rw, e :: rest =>
    let r := stepOutR sem memo rw e
    r.2 :: runOutR sem memo r.1 rest

/-! the witness histories back to the request syntax: `parse j p` directly followed by `constructOn j j …` is `(construct j …)`,
    `constructOn k j …` with `k ≠ j` is `(construct k (on j) …)` with the spec parsed for `j` -/
def lookupPS : List (Nat × PSpec) → Nat → Option PSpec
  | [], _ => none
  | (j, p) :: rest, k => if j = k then some p else lookupPS rest k

def revTo : List (Nat × PSpec) → List REv → Option (List Sexp)
  | _, [] => some []
  | env, .old e :: rest => do some (evTo e :: (← revTo env rest))
  | env, .parse j p :: .constructOn k j' impl o :: rest =>
    if j = k && j = j' then do
      some (.list [.atom "construct", nat k, invTo (p.inv impl o)] :: (← revTo ((j, p) :: env) rest))
    else none
  | _, .parse _ _ :: _ => none
  | env, .constructOn k j impl o :: rest => do
    let p ← lookupPS env j
    some (.list [.atom "construct", nat k, .list [.atom "on", nat j], invTo (p.inv impl o)] :: (← revTo env rest))

def handle (op : String) (args : List Sexp) : Option String :=
  match op, args with
  | "gen.reuse", sem :: evs => do
    let s ← semOfR sem
    let evs ← evs.mapM reqOf
    some ("ok " ++ " ".intercalate ((runOutR s.1 s.2 rw0 evs).map Sexp.toStr))
  | "witness", [.atom "C17Reuse"] => do
    let hs ← Witness.C17Reuse.histories.mapM fun h => do some (Sexp.list (.atom h.1 :: (← revTo [] h.2)))
    some (" ".intercalate (hs.map Sexp.toStr))
  | _, _ => none

end NasdaqModel.Driver.GenReuseD
