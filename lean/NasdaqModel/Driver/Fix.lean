import NasdaqModel.Driver.Sexp
import NasdaqModel.Model.FixFrame
/-
Line protocol for the FIX codec / framing models (C13, C14).

  entry  ::= (f <tag> <int|float|bool|char|string> <0|1>) | (g <tag> <0|1> (<entry>*))
  val    ::= (i <int>) | (fl (<cp>*)) | (b <0|1>) | (s (<cp>*)) | (grp (<seg>*))
  seg    ::= ((<tag> <val>)*)                       -- insertion order
  md     ::= (md (<cp>*) (<cp>*) (<entry>*) (<entry>*) (<entry>*))     -- Name, Type, Header, Body, Trailer entries
  msg    ::= (msg <seg> <seg> <seg>)
-/
namespace NasdaqModel.Driver.FixD
open NasdaqModel Sexp Fix FixFrame

def tyOfAtom : String → Option FTy
  | "int" => some .int | "float" => some .float | "bool" => some .bool
  | "char" => some .char | "string" => some .string | _ => none

def asBool : Sexp → Option Bool
  | .atom "1" => some true
  | .atom "0" => some false
  | _ => none

partial def entryOfSexp : Sexp → Option Entry
  | .list [.atom "f", t, .atom ty, r] => do some (.field (← asNat t) (← tyOfAtom ty) (← asBool r))
  | .list [.atom "g", t, r, .list sub] => do some (.group (← asNat t) (← sub.mapM entryOfSexp) (← asBool r))
  | _ => none

def entriesOfSexp : Sexp → Option (List Entry)
  | .list xs => xs.mapM entryOfSexp
  | _ => none

mutual
partial def valOfSexp : Sexp → Option Val
  | .list [.atom "i", n] => do some (.int (← asInt n))
  | .list [.atom "fl", s] => do some (.flt (← asNats s))
  | .list [.atom "b", b] => do some (.bool (← asBool b))
  | .list [.atom "s", s] => do some (.str (← asNats s))
  | .list [.atom "grp", .list insts] => do some (.grp (← insts.mapM segOfSexp))
  | _ => none
partial def segOfSexp : Sexp → Option Seg
  | .list ps => ps.mapM (fun p => match p with
      | .list [t, v] => do some ((← asNat t), (← valOfSexp v))
      | _ => none)
  | _ => none
end

def b01 (b : Bool) : Sexp := .atom (if b then "1" else "0")

mutual
partial def valToSexp : Val → Sexp
  | .int i => .list [.atom "i", .atom (toString i)]
  | .flt s => .list [.atom "fl", ofNats s]
  | .bool b => .list [.atom "b", b01 b]
  | .str s => .list [.atom "s", ofNats s]
  | .grp insts => .list [.atom "grp", .list (insts.map segToSexp)]
partial def segToSexp (s : List (Nat × Val)) : Sexp :=
  .list (s.map fun p => .list [.atom (toString p.1), valToSexp p.2])
end

def mdOfSexp : Sexp → Option MsgDef
  | .list [.atom "md", n, t, h, b, tr] => do
      some { name := (← asNats n), type := (← asNats t), hdr := (← entriesOfSexp h), body := (← entriesOfSexp b),
             trl := (← entriesOfSexp tr) }
  | _ => none

def regOfSexp : Sexp → Option (List MsgDef)
  | .list xs => xs.mapM mdOfSexp
  | _ => none

def msgOfSexp : Sexp → Option Msg
  | .list [.atom "msg", h, b, t] => do some { hdr := (← segOfSexp h), body := (← segOfSexp b), trl := (← segOfSexp t) }
  | _ => none

def msgToSexp (m : Msg) : Sexp := .list [.atom "msg", segToSexp m.hdr, segToSexp m.body, segToSexp m.trl]

def errStr (e : Err) : String := s!"err {e.name}"

def entryToSexp : Entry → Sexp
  | .field t ty r => .list [.atom "f", .atom (toString t),
      .atom (match ty with | .int => "int" | .float => "float" | .bool => "bool" | .char => "char" | .string => "string"), b01 r]
  | .group t _ r => .list [.atom "g", .atom (toString t), b01 r, .list []]

partial def entryToSexpFull : Entry → Sexp
  | .group t sub r => .list [.atom "g", .atom (toString t), b01 r, .list (sub.map entryToSexpFull)]
  | e => entryToSexp e

def mdToSexp (d : MsgDef) : Sexp :=
  .list [.atom "md", ofNats d.name, ofNats d.type, .list (d.hdr.map entryToSexpFull), .list (d.body.map entryToSexpFull),
         .list (d.trl.map entryToSexpFull)]

def handle (op : String) (args : List Sexp) : Option String :=
  match op, args with
  | "fix.build", [d, h, b, t] => do
      let d ← mdOfSexp d
      match buildMsg d (← segOfSexp h) (← segOfSexp b) (← segOfSexp t) with
      | .ok m => some s!"ok {(msgToSexp m).toStr}"
      | .error e => some (errStr e)
  | "fix.rt", [reg, d, m] => do
      let reg ← regOfSexp reg
      let d ← mdOfSexp d
      let m ← msgOfSexp m
      match encMsg d m with
      | .error e => some s!"enc-{errStr e}"
      | .ok bs =>
        match decodeMsg reg bs with
        | .error e => some s!"ok {bytesToHex bs} dec-{errStr e}"
        | .ok (n, d', m') =>
          let re := match encMsg d' m' with
            | .ok b2 => bytesToHex b2
            | .error e => s!"re-{errStr e}"
          some s!"ok {bytesToHex bs} {n} {(ofNats d'.name).toStr} {(msgToSexp m').toStr} {(b01 (pyEq m' m)).toStr} {(b01 (pyEqDict m' m)).toStr} {re}"
  | "fix.enc", [d, m] => do
      match encMsg (← mdOfSexp d) (← msgOfSexp m) with
      | .ok bs => some s!"ok {bytesToHex bs}"
      | .error e => some (errStr e)
  | "fix.dec", [reg, b] => do
      match decodeMsg (← regOfSexp reg) (← asBytes b) with
      | .ok (n, d', m') => some s!"ok {n} {(ofNats d'.name).toStr} {(msgToSexp m').toStr}"
      | .error e => some (errStr e)
  | "fix.frame", [ver, d, .list [.atom "sess", sub, tgt, snd], seq, time, m] => do
      let se : Sess := { senderSub := (← asNats sub), target := (← asNats tgt), sender := (← asNats snd) }
      match frame (← asNats ver) (← mdOfSexp d) se (← asInt seq) (← asNats time) (← msgOfSexp m) with
      | .ok (f, m') => some s!"ok {bytesToHex f} {(msgToSexp m').toStr}"
      | .error e => some (errStr e)
  | "fix.cut", [b] => do
      match fixCut (← asBytes b) with
      | .ok none => some "ok none"
      | .ok (some (f, r)) => some s!"ok {bytesToHex f} {bytesToHex r}"
      | .error e => some (errStr e)
  | "fix.feed", [.list segs] => do
      let segs ← segs.mapM asBytes
      match feed segs [] [] with
      | .ok (out, buf) => some s!"ok ({" ".intercalate (out.map bytesToHex)}) {bytesToHex buf}"
      | .error e => some (errStr e)
  | "fix.deser", [reg, b] => do
      match fixDeser (← regOfSexp reg) (← asBytes b) with
      | .ok none => some "ok none"
      | .ok (some (d', m', rest)) => some s!"ok {(ofNats d'.name).toStr} {(msgToSexp m').toStr} {bytesToHex rest}"
      | .error e => some (errStr e)
  | "fix.witness", [] =>
      some s!"({(mdToSexp witnessDef).toStr}) {(mdToSexp witnessDef).toStr} {(msgToSexp witnessMsg).toStr}"
  | _, _ => none

end NasdaqModel.Driver.FixD
