import NasdaqModel.Driver.Sexp
import NasdaqModel.Spec.Layout
/-
Line-protocol handler for the binary codec model (`Model/BinCodec.lean`) and the documented layout (`Spec/Layout.lean`).

  types   (int <size> <signed> <be>) | bool | (char <iso>) | (str <iso>) | (fixed <iso> <n> <rjust>)
          | (record (<name> <ty> <default>)*) | (optrec (<name> <ty> <default>)*) | (arr <ty> <size> <signed> <be>)
  values  (i <int>) | (b true|false) | (s <codepoint>*) | (r (<name> <val>)*) | none | (l <val>*)
  booleans are the atoms true / false; a field default `none` means "no default"

  bin.enc <ty> <val>           → ok <reportedLen> x<bytes> | err <class>
  bin.dec <ty> x<bytes>        → ok <consumed> <val>       | err <class>
  bin.rt <ty> <val> x<tail>    → enc-err <class> | ok <n> <byteLen> dec-err <class> | ok <n> <byteLen> <consumed> <val'> reenc-err <class>
                                 | ok <n> <byteLen> <consumed> <val'> <n2> <sameBytes>      (the model's own round trip)
  bin.trunc <ty> <val> <k>     → ok <consumed> | err <class> | enc-err <class>      (decode of the first k bytes of the model's own encoding)
  bin.layout <ty> <val>        → x<bytes>
  bin.norm <ty> <val>          → <val>
  bin.wf <ty> <val>            → true | false
  bin.mk <ty>                  → ok | err type
  bin.read <ty> <val> (<step>*)→ <obs>          steps: (f <name>) | (i <index>)
  bin.msg.enc ((<ind> <cls> (<field>*))*) <cls> <val>   → ok <len> x<bytes> | err <class>   (cls selects the registry entry)
  bin.msg.dec ((<ind> <cls> (<field>*))*) x<bytes>      → ok <consumed> <cls> <val> | err <class>
  bin.msg.layout <ind> (<field>*) <val>                 → x<bytes>
  bin.arrcount <endian attribute | none>                → <type id>
-/
namespace NasdaqModel.Driver.BinCodecD
open NasdaqModel Sexp BinCodec

def asBool : Sexp → Option Bool
  | .atom "true" => some true
  | .atom "false" => some false
  | _ => none

partial def valOfSexp : Sexp → Option Val
  | .atom "none" => some .none
  | .list [.atom "i", n] => do some (.int (← asInt n))
  | .list [.atom "b", b] => do some (.bool (← asBool b))
  | .list (.atom "s" :: cs) => do some (.str (← cs.mapM asNat))
  | .list (.atom "r" :: kvs) => do
      let st ← kvs.mapM fun kv => match kv with
        | .list [k, v] => do some ((← asNat k), (← valOfSexp v))
        | _ => none
      some (.recd st)
  | .list (.atom "l" :: xs) => do some (.list (← xs.mapM valOfSexp))
  | _ => none

partial def valToSexp : Val → Sexp
  | .none => .atom "none"
  | .int i => .list [.atom "i", .atom (toString i)]
  | .bool b => .list [.atom "b", .atom (if b then "true" else "false")]
  | .str cs => .list (.atom "s" :: cs.map fun c => .atom (toString c))
  | .recd st => .list (.atom "r" :: st.map fun kv => .list [.atom (toString kv.1), valToSexp kv.2])
  | .list xs => .list (.atom "l" :: xs.map valToSexp)

mutual
partial def tyOfSexp : Sexp → Option Ty
  | .atom "bool" => some .bool
  | .list [.atom "int", s, sg, be] => do some (.int (← asNat s) (← asBool sg) (← asBool be))
  | .list [.atom "char", iso] => do some (.char (← asBool iso))
  | .list [.atom "str", iso] => do some (.str (← asBool iso))
  | .list [.atom "fixed", iso, n, rj] => do some (.fixed (← asBool iso) (← asNat n) (← asBool rj))
  | .list (.atom "record" :: fs) => do some (.record (← fldsOfSexp fs))
  | .list (.atom "optrec" :: fs) => do some (.optrec (← fldsOfSexp fs))
  | .list [.atom "arr", e, s, sg, be] => do some (.arr (← tyOfSexp e) (← asNat s) (← asBool sg) (← asBool be))
  | _ => none
partial def fldsOfSexp : List Sexp → Option Flds
  | [] => some .nil
  | .list [n, t, d] :: rest => do some (.cons (← asNat n) (← tyOfSexp t) (← valOfSexp d) (← fldsOfSexp rest))
  | _ => none
end

def regOfSexp : Sexp → Option (List MsgDef)
  | .list ms => ms.mapM fun m => match m with
      | .list [i, c, .list fs] => do some { ind := (← asNat i), cls := (← asNat c), fs := (← fldsOfSexp fs) }
      | _ => none
  | _ => none

def stepOfSexp : Sexp → Option Step
  | .list [.atom "f", n] => do some (.field (← asNat n))
  | .list [.atom "i", n] => do some (.idx (← asNat n))
  | _ => none

def obsToStr : Obs → String
  | .int i => s!"(int {i})"
  | .bool b => s!"(bool {b})"
  | .text cs => (Sexp.list (.atom "text" :: cs.map fun c => .atom (toString c))).toStr
  | .absent => "absent"
  | .isRecord => "record"
  | .len n => s!"(len {n})"
  | .invalid => "invalid"

def encAnswer : Except Err (Nat × Bytes) → String
  | .ok (n, bs) => s!"ok {n} {bytesToHex bs}"
  | .error e => s!"err {e.name}"

/-- encode, decode the own bytes followed by `tail`, re-encode the decoded value -/
def roundTrip (t : Ty) (v : Val) (tail : Bytes) : String :=
  match encode t v with
  | .error e => s!"enc-err {e.name}"
  | .ok (n, bs) =>
    match decode t (bs ++ tail) with
    | .error e => s!"ok {n} {bs.length} dec-err {e.name}"
    | .ok (m, v') =>
      match encode t v' with
      | .error e => s!"ok {n} {bs.length} {m} {(valToSexp v').toStr} reenc-err {e.name}"
      | .ok (n2, bs2) => s!"ok {n} {bs.length} {m} {(valToSexp v').toStr} {n2} {decide (bs2 = bs)}"

def handle (op : String) (args : List Sexp) : Option String :=
  match op, args with
  | "bin.rt", [t, v, tail] => do
      let t ← tyOfSexp t
      let v ← valOfSexp v
      let tail ← asBytes tail
      some (roundTrip t v tail)
  | "bin.trunc", [t, v, k] => do
      let t ← tyOfSexp t
      let v ← valOfSexp v
      let k ← asNat k
      match encode t v with
      | .error e => some s!"enc-err {e.name}"
      | .ok (_, bs) =>
        match decode t (bs.take k) with
        | .ok (n, _) => some s!"ok {n}"
        | .error e => some s!"err {e.name}"
  | "bin.enc", [t, v] => do
      let t ← tyOfSexp t
      let v ← valOfSexp v
      some (encAnswer (encode t v))
  | "bin.dec", [t, b] => do
      let t ← tyOfSexp t
      let b ← asBytes b
      match decode t b with
      | .ok (n, v) => some s!"ok {n} {(valToSexp v).toStr}"
      | .error e => some s!"err {e.name}"
  | "bin.layout", [t, v] => do
      let t ← tyOfSexp t
      let v ← valOfSexp v
      some (bytesToHex (Spec.Layout.layout t v))
  | "bin.norm", [t, v] => do
      let t ← tyOfSexp t
      let v ← valOfSexp v
      some (valToSexp (norm t v)).toStr
  | "bin.wf", [t, v] => do
      let t ← tyOfSexp t
      let v ← valOfSexp v
      some (if wf t v then "true" else "false")
  | "bin.mk", [t] => do
      let t ← tyOfSexp t
      some (if constructible t then "ok" else "err type")
  | "bin.read", [t, v, .list p] => do
      let t ← tyOfSexp t
      let v ← valOfSexp v
      let p ← p.mapM stepOfSexp
      some (obsToStr (read t v p))
  | "bin.msg.enc", [reg, c, v] => do
      let reg ← regOfSexp reg
      let c ← asNat c
      let v ← valOfSexp v
      let m ← reg.find? (fun m => m.cls == c)
      some (encAnswer (encodeMsg m v))
  | "bin.msg.dec", [reg, b] => do
      let reg ← regOfSexp reg
      let b ← asBytes b
      match decodeMsg reg b with
      | .ok (n, c, v) => some s!"ok {n} {c} {(valToSexp v).toStr}"
      | .error e => some s!"err {e.name}"
  | "bin.msg.layout", [i, .list fs, v] => do
      let i ← asNat i
      let fs ← fldsOfSexp fs
      let v ← valOfSexp v
      some (bytesToHex (Spec.Layout.msgLayout { ind := i, cls := 0, fs := fs } v))
  | "bin.arrcount", [.atom a] => some (arrayCountType (if a == "none" then none else some a))
  | _, _ => none

end NasdaqModel.Driver.BinCodecD
