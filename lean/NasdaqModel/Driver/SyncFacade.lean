import NasdaqModel.Driver.Sexp
import NasdaqModel.Witness.C20
/-
Line protocol for the C20 model.
  sync.run  ((progs (op*)*) (peer ev*)) (label*)     -> ok <summary0> ;; <label> <summary> ;; … ;; end terminal=<b> enabled=(…) hung=(…)
                                                         (stops with `;; disabled <label>` at the first label that is not enabled)
  sync.gen  <cfg> <seed> <safe:0|1> <fuel>            -> ok (label*)            a pseudo-random maximal run of the model
  sync.connect <accepted|rejected|connRefused|peerClosed>  -> ok raised=<b> alive=<b>
  sync.connrace (loginReturns|install|loginAndInstall|sessionCloses …) -> ok installed=<b> closed=<b> event=<b> closeReturns=<b>
  witness C20                                         -> ok (name cfg labels)*  the runs the Witness theorems are about
  sync.exec <execute|execute_sync> <alive at call 0|1> <argument ok 0|1> <returned|exception class> ((c d dl a d2)*) <done at handler 0|1> [<alive at execute_sync's second check 0|1>]
                                                      -> ok <returned|raised:<class>|looping> polls=<n>     `_wait_for` on the given passes; n = calls of future.result
-/
namespace NasdaqModel.Driver.SyncD
open NasdaqModel Sexp SyncFacade

def opOf : String → Option Op
  | "recv" => some .recv | "send" => some .send | "sendUnseq" => some .sendUnseq
  | "close" => some .close | "logout" => some .logout | "execTimed" => some .execTimed
  | _ => none

def opName : Op → String
  | .recv => "recv" | .send => "send" | .sendUnseq => "sendUnseq"
  | .close => "close" | .logout => "logout" | .execTimed => "execTimed"

def evOf : String → Option PeerEv
  | "reply" => some .reply | "eos" => some .endOfSession | "disc" => some .disconnect
  | _ => none

def evName : PeerEv → String
  | .reply => "reply" | .endOfSession => "eos" | .disconnect => "disc"

def labelOf (s : String) : Option Label :=
  match s with
  | "close" => some .close
  | "stop" => some .stop
  | "peer" => some .peer
  | _ =>
    match s.toList with
    | 'c' :: rest => (String.ofList rest).toNat?.map Label.caller
    | 'j' :: rest => (String.ofList rest).toNat?.map Label.job
    | _ => none

def labelName : Label → String
  | .caller i => s!"c{i}" | .job i => s!"j{i}" | .close => "close" | .stop => "stop" | .peer => "peer"

def cfgOf : Sexp → Option Cfg
  | .list [.list (.atom "progs" :: ps), .list (.atom "peer" :: evs)] => do
    let progs ← ps.mapM fun p => do
      let xs ← asList p
      xs.mapM fun x => do opOf (← asAtom x)
    let peer ← evs.mapM fun e => do evOf (← asAtom e)
    some { progs := progs, peer := peer }
  | _ => none

def cfgStr (c : Cfg) : String :=
  "((progs" ++ String.join (c.progs.map fun p => " (" ++ " ".intercalate (p.map opName) ++ ")") ++ ") (peer" ++
    String.join (c.peer.map fun e => " " ++ evName e) ++ "))"

def pcName : Pc → String
  | .idle => "idle" | .acq => "acq" | .chkEvt => "chkEvt" | .chk1 => "chk1" | .chk2 => "chk2"
  | .submit => "submit" | .wait => "wait" | .rel => "rel" | .waitEvt => "waitEvt" | .join => "join"

def jobName : Job → String
  | .none => "-" | .submitted _ => "sub" | .blocked _ => "blocked" | .running => "running"
  | .done o => "done:" ++ o.name

def cpcName : ClosePc → String
  | .idle => "idle" | .spawned => "spawned" | .begun => "begun" | .inCb => "inCb"
  | .stopCalled => "stopCalled" | .done => "done"

def tidName : Option Tid → String
  | none => "-" | some (.caller i) => s!"T{i}" | some .loop => "loop"

def b01 (b : Bool) : String := if b then "1" else "0"

def callerSummary (c : Caller) : String :=
  let pcs := if c.finished then "end" else pcName c.pc
  s!"{pcs}/{jobName c.job}/{c.hist.length}"

def summary (s : St) : String :=
  " ".intercalate (s.callers.map callerSummary) ++
  s!" | alive={b01 s.loopAlive} stop={b01 s.stopReq} cpc={cpcName s.closePc} lock={tidName s.lock} evt={b01 s.closedEvent}" ++
  s!" closed={b01 s.sessClosed} q={s.queue} peer={s.peer.length}"

def histStr (c : Caller) : String :=
  "(" ++ " ".intercalate (c.hist.reverse.map fun (op, o) => opName op ++ ":" ++ o.name) ++ ")"

def finalStr (s : St) : String :=
  let hung := (List.range s.callers.length).filter fun i =>
    match s.callers[i]? with
    | some c => !c.finished && !legitWait s c
    | none => false
  let waiting := (List.range s.callers.length).filter fun i =>
    match s.callers[i]? with
    | some c => legitWait s c
    | none => false
  s!"end terminal={b01 (terminal s)} enabled=(" ++ " ".intercalate ((enabledLabels s).map labelName) ++ ") hung=(" ++
    " ".intercalate (hung.map toString) ++ ") waiting=(" ++ " ".intercalate (waiting.map toString) ++ ") hist=" ++
    " ".intercalate (s.callers.map histStr)

def runTrace : St → List Label → String
  | s, [] => finalStr s
  | s, l :: ls =>
    match step s l with
    | none => s!"disabled {labelName l} ;; " ++ finalStr s
    | some s' => s!"{labelName l} ok={b01 (okStep s l)} {summary s'} ;; " ++ runTrace s' ls

def excOf : String → Option Exc
  | "timeout" => some .timeout | "timeoutSub" => some .timeoutSub | "expiry" => some .expiry
  | "cancelled" => some .cancelled | "state" => some .state | "eoq" => some .eoq | "value" => some .value
  | "other" => some .other | "base" => some .base
  | _ => none

def finOf : String → Option Fin
  | "returned" => some .returned
  | s => (excOf s).map Fin.raised

def passOf : Sexp → Option Pass
  | .list [c, d, dl, a, d2] => do
    some { completes := (← asNat c) != 0, doneAtCheck := (← asNat d) != 0, deadline := (← asNat dl) != 0,
           alive := (← asNat a) != 0, doneAtCheck2 := (← asNat d2) != 0 }
  | _ => none

def resName : Option Res → String
  | none => "looping"
  | some .returned => "returned"
  | some (.raised e) => "raised:" ++ e.name

def handle (op : String) (args : List Sexp) : Option String :=
  match op, args with
  | "sync.exec", .atom api :: a0 :: argOk :: .atom fin :: .list ps :: dh :: rest => do
    let a0 := (← asNat a0) != 0
    -- optional: what execute_sync's SECOND `_must_be_active` (inside execute) finds; default: what the first one found
    let a1 ← match rest with
      | [] => some a0
      | [x] => (asNat x).map (· != 0)
      | _ => none
    let argOk := (← asNat argOk) != 0
    let fin ← finOf fin
    let ps ← ps.mapM passOf
    let dh := (← asNat dh) != 0
    let r ← match api with
      | "execute" => some (execute a0 argOk fin ps dh)
      | "execute_sync" => some (executeSync a0 argOk a1 fin ps dh)
      | _ => none
    let used := if a0 && argOk && (api == "execute" || a1) then pollsUsed fin ps else 0
    some s!"ok {resName r} polls={used}"
  | "sync.run", [c, ls] => do
    let cfg ← cfgOf c
    let ls ← (← asList ls).mapM fun x => do labelOf (← asAtom x)
    let s := init cfg
    some s!"ok {summary s} ;; {runTrace s ls}"
  | "sync.gen", [c, seed, safe, fuel] => do
    let cfg ← cfgOf c
    let seed ← asNat seed
    let safe ← asNat safe
    let fuel ← asNat fuel
    let ls := walk (safe != 0) fuel seed (init cfg)
    some ("ok (" ++ " ".intercalate (ls.map labelName) ++ ")")
  | "sync.connect", [.atom e] =>
    let ev : Option LoginEv := match e with
      | "accepted" => some .accepted | "rejected" => some .rejected
      | "connRefused" => some .connRefused | "peerClosed" => some .peerClosed | _ => none
    ev.map fun ev => let (r, a) := connect ev; s!"ok raised={b01 r} alive={b01 a}"
  | "sync.connrace", [ls] => do
    let evs ← (← asList ls).mapM fun x => do
      match (← asAtom x) with
      | "loginReturns" => some ConnEv.loginReturns | "install" => some ConnEv.install
      | "loginAndInstall" => some ConnEv.loginAndInstall | "sessionCloses" => some ConnEv.sessionCloses | _ => none
    let s := connRun evs
    some s!"ok installed={b01 s.installed} closed={b01 s.sessionClosed} event={b01 s.eventSet} closeReturns={b01 (closeReturns s)}"
  | "witness", [.atom "C20"] =>
    some ("ok " ++ " ".intercalate (Witness.C20.witnesses.map fun (n, cfg, ls) =>
      s!"({n} {cfgStr cfg} (" ++ " ".intercalate (ls.map labelName) ++ "))"))
  | _, _ => none

end NasdaqModel.Driver.SyncD
