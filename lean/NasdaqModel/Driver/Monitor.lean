import NasdaqModel.Driver.Sexp
import NasdaqModel.Model.Monitor
import NasdaqModel.Model.MonitorLate
import NasdaqModel.Model.MonitorFlow
/-
Line protocol for Model/Monitor.lean.

  hb.run  <soupClient|soupServer|fix> <clientI> <serverI> (<ev>*)      ev ::= (adv k) | send | sendhb | sendfailed | (recv hb|msg|frag) | close
      -> ok now=<t> closed=<none | t:mon | t:app> writes=((t hb|app live|dead)*)          (chronological)
  hbl.run <role> <clientI> <serverI> (<lev>*)      lev ::= ev | (hold k) | resume       (Model/MonitorLate.lean: the loop held up for k units)
      -> as hb.run
  hbf.run <role> <clientI> <serverI> (<fev>*)      fev ::= ev | wpause | wresume        (Model/MonitorFlow.lean: the transport calls
      -> as hb.run                                                                       pause_writing() / resume_writing())
  mon.run <interval> <tol> <true|false> (<mev>*)                       mev ::= (adv k) | ping
      -> ok now=<t> running=<bool> trips=(t*)
-/
namespace NasdaqModel.Driver.MonitorD
open NasdaqModel Sexp Monitor MonitorLate MonitorFlow

def roleOf : Sexp → Option Role
  | .atom "soupClient" => some .soupClient
  | .atom "soupServer" => some .soupServer
  | .atom "fix" => some .fix
  | _ => none

def roleName : Role → String
  | .soupClient => "soupClient" | .soupServer => "soupServer" | .fix => "fix"

def evsOf : List Sexp → Option (List Ev)
  | [] => some []
  | .list [.atom "adv", k] :: rest => do
      let k ← asNat k
      let r ← evsOf rest
      some (List.replicate k Ev.adv ++ r)
  | .atom "send" :: rest => do some (Ev.send :: (← evsOf rest))
  | .atom "sendhb" :: rest => do some (Ev.sendHb :: (← evsOf rest))
  | .atom "close" :: rest => do some (Ev.close :: (← evsOf rest))
  | .atom "sendfailed" :: rest => do some (Ev.sendFailed :: (← evsOf rest))
  | .list [.atom "recv", .atom "hb"] :: rest => do some (Ev.recv .hb :: (← evsOf rest))
  | .list [.atom "recv", .atom "msg"] :: rest => do some (Ev.recv .msg :: (← evsOf rest))
  | .list [.atom "recv", .atom "frag"] :: rest => do some (Ev.recv .frag :: (← evsOf rest))
  | _ => none

/-- events of the late-tick model: the tokens of `evsOf`, `(hold k)`, `resume` -/
def levsOf : List Sexp → Option (List LEv)
  | [] => some []
  | .list [.atom "hold", k] :: rest => do
      let k ← asNat k
      let r ← levsOf rest
      some (List.replicate k LEv.hold ++ r)
  | .atom "resume" :: rest => do some (LEv.resume :: (← levsOf rest))
  | e :: rest => do
      let b ← evsOf [e]
      let r ← levsOf rest
      some (b.map LEv.base ++ r)

/-- events of the flow-control model: the tokens of `evsOf`, `wpause`, `wresume` -/
def fevsOf : List Sexp → Option (List FEv)
  | [] => some []
  | .atom "wpause" :: rest => do some (FEv.pauseWriting :: (← fevsOf rest))
  | .atom "wresume" :: rest => do some (FEv.resumeWriting :: (← fevsOf rest))
  | e :: rest => do
      let b ← evsOf [e]
      let r ← fevsOf rest
      some (b.map FEv.base ++ r)

def mevsOf : List Sexp → Option (List MEv)
  | [] => some []
  | .list [.atom "adv", k] :: rest => do
      let k ← asNat k
      let r ← mevsOf rest
      some (List.replicate k MEv.adv ++ r)
  | .atom "ping" :: rest => do some (MEv.ping :: (← mevsOf rest))
  | _ => none

def writeStr (w : Write) : String :=
  s!"({w.t} {if w.origin.isHb then "hb" else "app"} {if w.live then "live" else "dead"})"

def sessStr (s : Sess) : String :=
  let c := if s.closed then s!"{s.closeT}:{if s.closedByMon then "mon" else "app"}" else "none"
  s!"ok now={s.now} closed={c} writes=({" ".intercalate (s.writes.reverse.map writeStr)})"

/-- print an event list back in request syntax (runs of `adv` compressed) -/
def evsStr (evs : List Ev) : String :=
  let rec go (pending : Nat) (acc : List String) : List Ev → List String
    | [] => (if pending > 0 then s!"(adv {pending})" :: acc else acc).reverse
    | .adv :: rest => go (pending + 1) acc rest
    | e :: rest =>
      let acc := if pending > 0 then s!"(adv {pending})" :: acc else acc
      let tok := match e with
        | .send => "send" | .sendHb => "sendhb" | .close => "close" | .sendFailed => "sendfailed"
        | .recv .hb => "(recv hb)" | .recv .msg => "(recv msg)" | .recv .frag => "(recv frag)"
        | .adv => ""
      go 0 (tok :: acc) rest
  " ".intercalate (go 0 [] evs)

def reqStr (role : Role) (c : Cfg) (evs : List Ev) : String :=
  s!"hb.run {roleName role} {c.clientI} {c.serverI} ({evsStr evs})"

def handle (op : String) (args : List Sexp) : Option String :=
  match op, args with
  | "hb.run", [role, ci, si, .list evs] => do
      let role ← roleOf role
      let ci ← asNat ci
      let si ← asNat si
      let evs ← evsOf evs
      some (sessStr ((login role ⟨ci, si⟩).run evs))
  | "hbl.run", [role, ci, si, .list evs] => do
      let role ← roleOf role
      let ci ← asNat ci
      let si ← asNat si
      let evs ← levsOf evs
      some (sessStr ((loginL role ⟨ci, si⟩).run evs).s)
  | "hbf.run", [role, ci, si, .list evs] => do
      let role ← roleOf role
      let ci ← asNat ci
      let si ← asNat si
      let evs ← fevsOf evs
      some (sessStr ((loginF role ⟨ci, si⟩).run evs).s)
  | "mon.run", [i, n, .atom stop, .list evs] => do
      let i ← asNat i
      let n ← asNat n
      let stop ← (match stop with | "true" => some true | "false" => some false | _ => none)
      let evs ← mevsOf evs
      let s := (MSt.init i n stop).run evs
      some s!"ok now={s.now} running={s.mon.running} trips=({" ".intercalate (s.trips.reverse.map toString)})"
  | _, _ => none

end NasdaqModel.Driver.MonitorD
