import NasdaqModel.Driver.Soup
import NasdaqModel.Model.SeqSeg
/-
Line protocol for Model/Seq.lean (property C10).

  seq.soup   <client|server> <true|false connected> <init> (<op>*)
        op = (send <pkt>) | hb | logout | end | close
     -> ok ((<none|err-name> <seq>)*) (x<write>*)
  seq.client <true|false connected> <init> <login request pkt> (x<reply frame>*) (<op>*)
     -> ok <none|err-name> <true|false accepted> <seq after login> ((<none|err-name> <seq>)*) (x<write>*)
  seq.fix    <unchanged|repaired> (<op>*)          variant of FixSession.send_msg (see Model/Seq.lean)
        op = (login <seq> <valid> <encodable>) | (send <valid> <encodable>) | (hb <valid> <encodable>)
     -> ok ((<rej|type|enc|w n> <next|none>)*) (<tag 34 of the frames written>*)
  witness C10 -> the history of Witness/C10.lean in seq.fix syntax
-/
namespace NasdaqModel.Driver.SeqD
open NasdaqModel Sexp Soup SeqNum

def roleOf : Sexp → Option Role
  | .atom "client" => some .client
  | .atom "server" => some .server
  | _ => none

def boolOf : Sexp → Option Bool
  | .atom "true" => some true
  | .atom "false" => some false
  | _ => none

def soupOpOf : Sexp → Option SoupOp
  | .atom "hb" => some .heartbeat
  | .atom "logout" => some .logout
  | .atom "end" => some .endSession
  | .atom "close" => some .close
  | .list [.atom "send", p] => do some (.send (← SoupD.pktOfSexp p))
  | _ => none

def errStr : Option Err → String
  | none => "none"
  | some e => e.name

def traceStr (t : List (Option Err × Int)) : String :=
  "(" ++ " ".intercalate (t.map fun (e, q) => s!"({errStr e} {q})") ++ ")"

def writesStr (ws : List Bytes) : String :=
  "(" ++ " ".intercalate (ws.map bytesToHex) ++ ")"

def fixMsgOf (v e : Sexp) : Option FixMsg := do
  some { bodyValid := (← boolOf v), encodable := (← boolOf e) }

def fixOpOf : Sexp → Option FixOp
  | .list [.atom "login", q, v, e] => do some (.login (← asInt q) (← fixMsgOf v e))
  | .list [.atom "send", v, e] => do some (.send (← fixMsgOf v e))
  | .list [.atom "hb", v, e] => do some (.heartbeat (← fixMsgOf v e))
  | _ => none

def fixOutStr : FixOut → String
  | .rejected => "rej"
  | .notLoggedIn => "type"
  | .encodeError => "enc"
  | .written n => s!"w {n}"

def optIntStr : Option Int → String
  | none => "none"
  | some n => toString n

def fixOpStr : FixOp → String
  | .login q m => s!"(login {q} {m.bodyValid} {m.encodable})"
  | .send m => s!"(send {m.bodyValid} {m.encodable})"
  | .heartbeat m => s!"(hb {m.bodyValid} {m.encodable})"

def segMsgOf (v h b t : Sexp) : Option SegMsg := do
  some { bodyValid := (← boolOf v), hdrEnc := (← boolOf h), bodyEnc := (← boolOf b), trlEnc := (← boolOf t) }

def segOpOf : Sexp → Option SegOp
  | .list [.atom "login", q, v, h, b, t] => do some (.login (← asInt q) (← segMsgOf v h b t))
  | .list [.atom "send", v, h, b, t] => do some (.send (← segMsgOf v h b t))
  | .list [.atom "hb", v, h, b, t] => do some (.heartbeat (← segMsgOf v h b t))
  | _ => none

def segOpStr (op : SegOp) : String :=
  let m := op.msg
  let tl := s!"{m.bodyValid} {m.hdrEnc} {m.bodyEnc} {m.trlEnc})"
  match op with
  | .login q _ => s!"(login {q} {tl}"
  | .send _ => s!"(send {tl}"
  | .heartbeat _ => s!"(hb {tl}"

def handle (op : String) (args : List Sexp) : Option String :=
  match op, args with
  | "seq.fixseg", [.list ops] => do
      -- the code as it is (repaired send_msg), the message given segment by segment: (… <valid> <hdr> <body> <trl> encodable)
      let ops ← ops.mapM segOpOf
      let t := segTraceR fixInit ops
      let fin := segRunR fixInit ops
      let ts := "(" ++ " ".intercalate (t.map fun (o, n) => s!"({fixOutStr o} {optIntStr n})") ++ ")"
      let fs := "(" ++ " ".intercalate (fin.frames.map toString) ++ ")"
      some s!"ok {ts} {fs}"
  | "witness", [.atom "C10Seg"] =>
      some ("(" ++ " ".intercalate (witnessHeaderGap.map segOpStr) ++ ") (" ++ " ".intercalate (witnessTrailerGap.map segOpStr) ++ ")")
  | "seq.soup", [r, c, i, .list ops] => do
      let s : SoupSt := { role := (← roleOf r), connected := (← boolOf c), seq := (← asInt i), written := [] }
      let ops ← ops.mapM soupOpOf
      some s!"ok {traceStr (soupTrace s ops)} {writesStr (soupRun s ops).written}"
  | "seq.client", [c, i, req, .list replies, .list ops] => do
      let s : SoupSt := { role := .client, connected := (← boolOf c), seq := (← asInt i), written := [] }
      let req ← SoupD.pktOfSexp req
      let replies ← replies.mapM asBytes
      let ops ← ops.mapM soupOpOf
      let (s1, e, acc) := clientLogin s req replies
      some s!"ok {errStr e} {acc} {s1.seq} {traceStr (soupTrace s1 ops)} {writesStr (soupRun s1 ops).written}"
  | "seq.fix", [v, .list ops] => do
      let repaired ← (match v with | .atom "unchanged" => some false | .atom "repaired" => some true | _ => none)
      let ops ← ops.mapM fixOpOf
      let t := if repaired then fixTraceR fixInit ops else fixTrace fixInit ops
      let fin := if repaired then fixRunR fixInit ops else fixRun fixInit ops
      let ts := "(" ++ " ".intercalate (t.map fun (o, n) => s!"({fixOutStr o} {optIntStr n})") ++ ")"
      let fs := "(" ++ " ".intercalate (fin.frames.map toString) ++ ")"
      some s!"ok {ts} {fs}"
  | "witness", [.atom "C10"] =>
      some ("(" ++ " ".intercalate (witnessGap.map fixOpStr) ++ ")")
  | _, _ => none

end NasdaqModel.Driver.SeqD
