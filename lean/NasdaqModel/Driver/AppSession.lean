import NasdaqModel.Driver.Sexp
import NasdaqModel.Driver.Session
import NasdaqModel.Model.AppSession
/-
Line-protocol handler for the application-session product machine (`Model/AppSession.lean`).

  app.run (acfg (dec <d0> (n d)*) <hasMsgCb> (msgbeh <b0> (v b)*) <hasCb> <cbBeh> <closedFirst>) <event>*

  d   ::= id | skip | fail | (val v)            `id` = `val n` (default only)
  b   ::= ret | (await k) | close | raise | (awaitcc k) | (awaitclose k)
  event ::= any `sess.run` event (connect, (data ..), eof, iclose, logout, send, (run R|D|L|M|C|V|U<i>), (close u), (recv u),
            (recvnw u), (login u), (cancel u))  |  (run D2|V2|W<i>)  |  (aclose u)  |  (arecv u)  |  (acancel u)

  answer: per event `disabled` or `((o <obs>*) (r <runnable tasks>) (a <alive tasks>) (f <flags>))`, then `(final …)`.
  `D2` inside `soup_session.close()` (a `close()` awaited from the message callback) is listed as runnable when its inner alias
  `U 0` is; inner user events naming `U 0` are `disabled` (reserved); the inner `(ret 0 ok)` of that close is not printed.
  Inner observables are printed with an `i` prefix for the callbacks the application session installs (`imsgEnter`, `icbEnter`, …);
  the inner close callback is not printed while the application session does not exist (no callback is installed then).

  app.witness <name>   the event lists of `Witness/C05App.lean`, in the request syntax above.
-/
namespace NasdaqModel.Driver.AppD
open NasdaqModel Sexp App

def decOf : Sexp → Option (Nat → Dec)
  | .atom "id" => some fun n => .val n
  | .atom "skip" => some fun _ => .skip
  | .atom "fail" => some fun _ => .fail
  | .list [.atom "val", v] => do
      let v ← asNat v
      some fun _ => .val v
  | _ => none

def abehOf : Sexp → Option ABeh
  | .atom "ret" => some .ret
  | .atom "close" => some .close
  | .atom "raise" => some .raise
  | .list [.atom "await", k] => do some (.await (← asNat k))
  | .list [.atom "awaitcc", k] => do some (.awaitCC (← asNat k))
  | .list [.atom "awaitclose", k] => do some (.awaitClose (← asNat k))
  | _ => none

def acfgOf : Sexp → Option ACfg
  | .list [.atom "acfg", .list (.atom "dec" :: d0 :: dps), hasMsg, .list (.atom "msgbeh" :: b0 :: bps), hasCb, cb, cf] => do
      let d0 ← decOf d0
      let dps ← dps.mapM fun p => match p with
        | .list [n, d] => do some ((← asNat n), (← decOf d))
        | _ => none
      let b0 ← abehOf b0
      let bps ← bps.mapM fun p => match p with
        | .list [v, b] => do some ((← asNat v), (← abehOf b))
        | _ => none
      some { dec := fun n => match dps.lookup n with
               | some f => f n
               | none => d0 n
             hasMsgCb := (← SessD.boolOf hasMsg)
             msgBeh := fun v => (bps.lookup v).getD b0
             hasCb := (← SessD.boolOf hasCb)
             cbBeh := (← abehOf cb)
             closedFirst := (← SessD.boolOf cf) }
  | _ => none

def atidOf (s : String) : Option ATid :=
  match s with
  | "D2" => some .D2 | "V2" => some .V2
  | _ => if s.startsWith "W" then (s.drop 1).toNat?.map .W else none

def atidStr : ATid → String
  | .D2 => "D2" | .V2 => "V2" | .W u => s!"W{u}"

def evOf (x : Sexp) : Option Ev :=
  match x with
  | .list [.atom "run", .atom t] =>
      match atidOf t with
      | some a => some (.run a)
      | none => (SessD.evOf x).map .inner
  | .list [.atom "aclose", u] => do some (.appClose (← asNat u))
  | .list [.atom "arecv", u] => do some (.appRecv (← asNat u))
  | .list [.atom "acancel", u] => do some (.appCancel (← asNat u))
  | _ => (SessD.evOf x).map .inner

def innerObsStr : Sess.Obs → String
  | .cbEnter => "icbEnter" | .cbExit => "icbExit"
  | .msgEnter n => s!"(imsgEnter {n})" | .msgExit n => s!"(imsgExit {n})" | .msgAbandon n => s!"(imsgAbandon {n})"
  | .msgRaise n => s!"(imsgRaise {n})"
  | o => SessD.obsStr o

def aobsStr : AObs → String
  | .msgEnter v => s!"(msgEnter {v})" | .msgExit v => s!"(msgExit {v})" | .msgAbandon v => s!"(msgAbandon {v})"
  | .msgRaise v => s!"(msgRaise {v})" | .cbEnter => "cbEnter" | .cbExit => "cbExit"
  | .ret u r => s!"(aret {u} {SessD.resStr r})"
  | .closeRet (.user u) r => s!"(cret {u} {SessD.resStr r})"
  | .closeRet (.handler v) r => s!"(hclose {v} {SessD.resStr r})"
  | .closeRet .closeCb r => s!"(cbclose {SessD.resStr r})"

def pobsStr (built : Bool) : PObs → Option String
  | .inner (.ret u r) => if u = d2u then none else some (innerObsStr (.ret u r))   -- `soup_session.close()` returned to `D2`: not a user call
  | .inner .cbEnter => if built then some "icbEnter" else none
  | .inner .cbExit => if built then some "icbExit" else none
  | .inner o => some (innerObsStr o)
  | .app o => some (aobsStr o)

/-- can the application-level task `t` take a step: runnable, or `D2` inside `soup_session.close()` whose inner alias is -/
def runnableA (s : St) (t : ATid) : Bool :=
  runnable2 s t || (t == .D2 && s.astatus .D2 == .inSoup && runnableI s (.U d2u))

/-- the tasks that continue within the same real step run again at once -/
def settle (a : ACfg) : Nat → St → St
  | 0, s => s
  | fuel + 1, s =>
    match s.inner.imm with
    | some t =>
        if runnableI s t then settle a fuel (step a s (.inner (.run t)))
        else settle a fuel { s with inner := { s.inner with imm := none } }
    | none =>
        if s.imm2 then
          if runnable2 s .D2 then settle a fuel (step a s (.run .D2)) else { s with imm2 := false }
        else s

def userIds (evs : List Ev) : List Nat × List Nat :=
  evs.foldl (fun (acc : List Nat × List Nat) ev =>
    let (us, ws) := acc
    match ev with
    | .inner (.callClose u) => (if us.contains u then us else us ++ [u], ws)
    | .inner (.callRecv u) => (if us.contains u then us else us ++ [u], ws)
    | .inner (.callLogin u) => (if us.contains u then us else us ++ [u], ws)
    | .appClose u => (us, if ws.contains u then ws else ws ++ [u])
    | .appRecv u => (us, if ws.contains u then ws else ws ++ [u])
    | _ => acc) ([], [])

def evtStr : Option Bool → String
  | none => "none" | some false => "unset" | some true => "set"

def report (s : St) (us ws : List Nat) : String :=
  let itids := SessD.libTasks ++ us.map Sess.Tid.U
  let atids := [ATid.D2, ATid.V2] ++ ws.map ATid.W
  let run := (itids.filter fun t => runnableI s t).map SessD.tidStr ++ (atids.filter fun t => runnableA s t).map atidStr
  let alv := (itids.filter fun t => Sess.alive (s.inner.status t)).map SessD.tidStr ++
             (atids.filter fun t => alive2 (s.astatus t)).map atidStr
  let fl := if s.built then s!"{s.inner.closed} {s.appClosed} {s.q2Closed} {evtStr s.evt} {s.q2.length} {s.disp2Set}" else s!"{s.inner.closed}"
  s!"(r {" ".intercalate run}) (a {" ".intercalate alv}) (f {fl})"

def runLog (a : ACfg) (evs : List Ev) : St × Array String :=
  let (us, ws) := userIds evs
  evs.foldl (fun (acc : St × Array String) ev =>
    let (s, outs) := acc
    let enabled := match ev with
      | .run t => runnableA s t
      | .inner (.run t) => runnableI s t && !reservedEv (.run t)
      | .inner e => !reservedEv e
      | _ => true
    if !enabled then (s, outs.push "disabled")
    else
      let n0 := s.tr.length
      let s' := settle a 10000 (step a s ev)
      let news := (s'.tr.drop n0).filterMap (pobsStr s'.built)
      (s', outs.push ("((o " ++ " ".intercalate news ++ ") " ++ report s' us ws ++ ")"))) (({} : St), #[])

def evStr : Ev → String
  | .inner .connect => "connect"
  | .inner .eof => "eof"
  | .inner .callInitiateClose => "iclose"
  | .inner .callLogout => "logout"
  | .inner .callSend => "send"
  | .inner (.data fs) => "(data" ++ String.join (fs.map fun f => match f with
      | .msg n => s!" (msg {n})" | .hb => " hb" | .logout => " logout" | .bad => " bad") ++ ")"
  | .inner (.run t) => s!"(run {SessD.tidStr t})"
  | .inner (.callClose u) => s!"(close {u})"
  | .inner (.callRecv u) => s!"(recv {u})"
  | .inner (.callRecvNowait u) => s!"(recvnw {u})"
  | .inner (.callLogin u) => s!"(login {u})"
  | .inner (.cancel u) => s!"(cancel {u})"
  | .run t => s!"(run {atidStr t})"
  | .appClose u => s!"(aclose {u})"
  | .appRecv u => s!"(arecv {u})"
  | .appCancel u => s!"(acancel {u})"

def handleWith (witnesses : List (String × List Ev)) (op : String) (args : List Sexp) : Option String :=
  match op, args with
  | "app.run", cfgS :: evsS => do
      let a ← acfgOf cfgS
      let evs ← evsS.mapM evOf
      let (s, outs) := runLog a evs
      some (" ".intercalate outs.toList ++
        s!" (final (q1 {" ".intercalate (s.inner.queue.map toString)}) (q2 {" ".intercalate (s.q2.map toString)}) (buf {s.inner.buf.length}))")
  | "app.witness", [.atom name] => do
      let evs ← witnesses.lookup name
      some (" ".intercalate (evs.map evStr))
  | _, _ => none

def handle : String → List Sexp → Option String := handleWith []

end NasdaqModel.Driver.AppD
