import NasdaqModel.Driver.Heap
import NasdaqModel.Model.HeapCut
/-
Line protocol of `Model/HeapCut.lean` (C18: histories that decode SHORT frames) — an addition to Driver/Heap.lean.

  heapc.run <schema> (<opc>*)   →  (<result>*)      schema, result, view: as `heapd.run` (declared defaults allowed)
  opc ::= <op of heap.run> | (cutbuf b n)           `bytearray(buffer_b[:n])`: a new buffer holding the first n bytes of buffer b
-/
namespace NasdaqModel.Driver.HeapCutD
open NasdaqModel Sexp Heap HeapCut
open NasdaqModel.Driver.HeapD

def opcOf : Sexp → Option OpC
  | .list [.atom "cutbuf", b, n] => do some (.cut (← asNat b) (← asNat n))
  | s => do some (.op (← opOf s))

def opcSx : OpC → Sexp
  | .cut b n => .list [.atom "cutbuf", atomN b, atomN n]
  | .op o => opSx o

def runOpsC (S : Schema) (D : HeapD.Defaults) : Heap → List OpC → List Sexp
  | _, [] => []
  | H, op :: ops =>
    let rd := match op with
      | .op o => readSxD S D H o
      | _ => .atom "-"
    let (status, H') := match stepC S D H op with
      | .ok H' => ("ok", H')
      | .error e => (e.name, H)
    let views := (List.range H'.insts.length).map (instSxD S D H')
    .list (.atom status :: .atom "1" :: rd :: views) :: runOpsC S D H' ops

def handle (op : String) (args : List Sexp) : Option String :=
  match op, args with
  | "heapc.run", [s, .list ops] => do
    let SD ← schemaOfD s
    let ops ← ops.mapM opcOf
    some (Sexp.list (runOpsC SD.1 SD.2 Heap.init ops)).toStr
  | _, _ => none

end NasdaqModel.Driver.HeapCutD
