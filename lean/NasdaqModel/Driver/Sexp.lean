/-
S-expressions for the line protocol between the Python harness and the Lean model driver.
Atoms are `[^()\s]+`; lists are parenthesised.  Import-free.
-/
namespace NasdaqModel

inductive Sexp where
  | atom (s : String)
  | list (xs : List Sexp)
  deriving Repr, Inhabited, BEq

namespace Sexp

inductive Tok where
  | lp | rp | at (s : String)
  deriving Repr, BEq

def tokenize (s : String) : List Tok := Id.run do
  let mut toks : Array Tok := #[]
  let mut cur : String := ""
  for c in s.toList do
    if c == '(' || c == ')' || c == ' ' || c == '\t' || c == '\n' || c == '\r' then
      if cur != "" then
        toks := toks.push (.at cur)
        cur := ""
      if c == '(' then toks := toks.push .lp
      else if c == ')' then toks := toks.push .rp
    else
      cur := cur.push c
  if cur != "" then toks := toks.push (.at cur)
  return toks.toList

/-- parse a token list with an explicit stack; returns the top-level sequence -/
def parseToks (ts : List Tok) : Option (List Sexp) := Id.run do
  let mut stack : List (Array Sexp) := []
  let mut cur : Array Sexp := #[]
  for t in ts do
    match t with
    | .lp =>
      stack := cur :: stack
      cur := #[]
    | .rp =>
      match stack with
      | [] => return none
      | top :: rest =>
        cur := top.push (.list cur.toList)
        stack := rest
    | .at s => cur := cur.push (.atom s)
  if stack.isEmpty then return some cur.toList else return none

def parseLine (s : String) : Option (List Sexp) := parseToks (tokenize s)

partial def toStr : Sexp → String
  | .atom s => s
  | .list xs => "(" ++ " ".intercalate (xs.map toStr) ++ ")"

def hexDigit (c : Char) : Option Nat :=
  if '0' ≤ c ∧ c ≤ '9' then some (c.toNat - '0'.toNat)
  else if 'a' ≤ c ∧ c ≤ 'f' then some (c.toNat - 'a'.toNat + 10)
  else if 'A' ≤ c ∧ c ≤ 'F' then some (c.toNat - 'A'.toNat + 10)
  else none

def hexPairs : List Char → Option (List Nat)
  | [] => some []
  | [_] => none
  | a :: b :: rest => do
    let x ← hexDigit a
    let y ← hexDigit b
    let r ← hexPairs rest
    pure ((x * 16 + y) :: r)

/-- bytes are written `x<hex>` (so that the empty byte string is the atom `x`) -/
def asBytes : Sexp → Option (List Nat)
  | .atom s => match s.toList with
    | 'x' :: rest => hexPairs rest
    | _ => none
  | _ => none

def hexChar (n : Nat) : Char :=
  if n < 10 then Char.ofNat (48 + n) else Char.ofNat (87 + n)

def bytesToHex (bs : List Nat) : String :=
  "x" ++ String.ofList (bs.flatMap fun b => [hexChar (b / 16 % 16), hexChar (b % 16)])

def asInt : Sexp → Option Int
  | .atom s => s.toInt?
  | _ => none

def asNat : Sexp → Option Nat
  | .atom s => s.toNat?
  | _ => none

def asAtom : Sexp → Option String
  | .atom s => some s
  | _ => none

def asList : Sexp → Option (List Sexp)
  | .list xs => some xs
  | _ => none

/-- a list of natural numbers `(1 2 3)` — used for code-point strings -/
def asNats : Sexp → Option (List Nat)
  | .list xs => xs.mapM asNat
  | _ => none

def ofNats (xs : List Nat) : Sexp := .list (xs.map fun n => .atom (toString n))

end Sexp
end NasdaqModel
