import NasdaqModel.Driver.Seq
import NasdaqModel.Model.SeqMulti
/-
Line protocol for Model/SeqMulti.lean (property C10, several sessions alive in one process).

  seq.multi (<session>*) (<event>*)
        session = (fix) | (soup <client|server> <true|false connected> <init>)            the session id is the position
        event   = (<sid> <op>)
        op      = (fix (login <q|none> <valid> <encodable>)) | (fix (send <valid> <encodable>)) | (fix (hb <valid> <encodable>))
                | (soup <soup op of seq.soup>) | (login <login request pkt> (x<reply frame>*))
     -> ok ((<outcome> (<counter of every session after the event>*))*) (<final session>*)
        outcome       = (fix <rej|type|enc|w n>) | (soup <none|err-name>) | (login <none|err-name> <true|false accepted>) | nosuch
        counter       = <int> | none
        final session = (fix <tag 34 of the frames written>*) | (soup x<write>*)
  witness C10Multi -> the history of Witness/C10Multi.lean: (<sid> (login <q|none> v e) | (send v e) | (hb v e))*
-/
namespace NasdaqModel.Driver.SeqMultiD
open NasdaqModel Sexp Soup SeqNum NasdaqModel.Driver.SeqD

def optIntOf : Sexp → Option (Option Int)
  | .atom "none" => some none
  | s => do some (some (← asInt s))

def sessOf : Sexp → Option Sess
  | .list [.atom "fix"] => some (.fix fixInit)
  | .list [.atom "soup", r, c, i] => do
      some (.soup { role := (← roleOf r), connected := (← boolOf c), seq := (← asInt i), written := [] })
  | _ => none

def mopOf : Sexp → Option MOp
  | .list [.atom "fix", .list [.atom "login", q, v, e]] => do
      some (.fix (.login (logonSeq (← optIntOf q)) (← fixMsgOf v e)))
  | .list [.atom "fix", op] => do some (.fix (← fixOpOf op))
  | .list [.atom "soup", op] => do some (.soup (← soupOpOf op))
  | .list [.atom "login", req, .list replies] => do
      some (.soupLogin (← SoupD.pktOfSexp req) (← replies.mapM asBytes))
  | _ => none

def evOf : Sexp → Option Ev
  | .list [sid, op] => do some ((← asNat sid), (← mopOf op))
  | _ => none

def outStr : MOut → String
  | .fix o => s!"(fix {fixOutStr o})"
  | .soup e => s!"(soup {errStr e})"
  | .soupLogin e acc => s!"(login {errStr e} {acc})"
  | .noSuch => "nosuch"

def countersStr (w : World) : String :=
  "(" ++ " ".intercalate (w.map fun s => optIntStr s.counter) ++ ")"

def finalStr : Sess → String
  | .fix s => "(fix" ++ String.join (s.frames.map fun n => s!" {n}") ++ ")"
  | .soup s => "(soup" ++ String.join (s.written.map fun b => " " ++ bytesToHex b) ++ ")"

def shOpStr : ShOp → String
  | .login q m => s!"(login {optIntStr q} {m.bodyValid} {m.encodable})"
  | .send m => s!"(send {m.bodyValid} {m.encodable})"
  | .heartbeat m => s!"(hb {m.bodyValid} {m.encodable})"

def handle (op : String) (args : List Sexp) : Option String :=
  match op, args with
  | "seq.multi", [.list sess, .list evs] => do
      let w ← sess.mapM sessOf
      let evs ← evs.mapM evOf
      let t := worldTrace w evs
      let ts := "(" ++ " ".intercalate (t.map fun (_, o, w') => s!"({outStr o} {countersStr w'})") ++ ")"
      let fs := "(" ++ " ".intercalate ((worldRun w evs).map finalStr) ++ ")"
      some s!"ok {ts} {fs}"
  | "witness", [.atom "C10Multi"] =>
      some ("(" ++ " ".intercalate (witnessShared.map fun (a, o) => s!"({a} {shOpStr o})") ++ ")")
  | _, _ => none

end NasdaqModel.Driver.SeqMultiD
