import NasdaqModel.Driver.Sexp
import NasdaqModel.Spec.FixDict
import NasdaqModel.Spec.FixDictEnum
/-
Line protocol for the FIX generator model (C16).  Text is a list of code points `(78 111 …)`.

  gen.fix  <dict>   -> ok (module …) | err <class>       abstract generated code
  gen.load <dict>   -> ok (loaded …) | err <class>       generate + import: classes with references followed
  gen.denote <dict> -> ok (loaded …) | err <class>       reference semantics of the dictionary (Spec/FixDict.lean)
  gen.wf   <dict>   -> true | false                      `wfDict d && supportedVersion d.version`
  gen.wfe  <dict>   -> true | false                      `wfDictE d && supportedVersion d.version` (enumerated values over printable ASCII)
  gen.types <ver>   -> ok ((name cls kind) …) | err
  gen.keywords      -> ((…) …)

  dict    := (dict <ver> section*)            ver := 4.2 | 4.4 | 5.0 | 5.0SP2 | other
  section := (fields (f <number> <name> <type> (v <enum> <desc>)*)*) | (components (c <name> item*)*)
           | (header item*) | (trailer item*) | (messages (m <name> <msgtype> <msgcat> item*)*)
  item    := (F <name> <req>) | (G <name> <req> item*) | (C <name> <req>)        req := none | <text>
-/
namespace NasdaqModel.Driver.GenFixD
open NasdaqModel Sexp GenFix Spec.FixDict

def reqOf : Sexp → Option (Option Str)
  | .atom "none" => some none
  | s => (asNats s).map some

partial def itemOf : Sexp → Option Item
  | .list (.atom "F" :: n :: r :: []) => do pure (.field (← asNats n) (← reqOf r))
  | .list (.atom "C" :: n :: r :: []) => do pure (.comp (← asNats n) (← reqOf r))
  | .list (.atom "G" :: n :: r :: items) => do pure (.group (← asNats n) (← reqOf r) (← items.mapM itemOf))
  | _ => none

def enumOf : Sexp → Option EnumXml
  | .list [.atom "v", e, d] => do pure ⟨← asNats e, ← asNats d⟩
  | _ => none

def fieldOf : Sexp → Option FieldXml
  | .list (.atom "f" :: num :: n :: t :: vs) => do pure ⟨← asNats num, ← asNats n, ← asNats t, ← vs.mapM enumOf⟩
  | _ => none

def compOf : Sexp → Option CompXml
  | .list (.atom "c" :: n :: items) => do pure ⟨← asNats n, ← items.mapM itemOf⟩
  | _ => none

def msgOf : Sexp → Option MsgXml
  | .list (.atom "m" :: n :: t :: c :: items) => do pure ⟨← asNats n, ← asNats t, ← asNats c, ← items.mapM itemOf⟩
  | _ => none

def sectionOf : Sexp → Option Section
  | .list (.atom "fields" :: fs) => do pure (.fields (← fs.mapM fieldOf))
  | .list (.atom "components" :: cs) => do pure (.components (← cs.mapM compOf))
  | .list (.atom "header" :: is) => do pure (.header (← is.mapM itemOf))
  | .list (.atom "trailer" :: is) => do pure (.trailer (← is.mapM itemOf))
  | .list (.atom "messages" :: ms) => do pure (.messages (← ms.mapM msgOf))
  | _ => none

def versionOf : Sexp → Option Version
  | .atom "4.2" => some .v42
  | .atom "4.4" => some .v44
  | .atom "5.0" => some .v50
  | .atom "5.0SP2" => some .v50sp2
  | .atom "other" => some .unknown
  | _ => none

def dictOf : Sexp → Option Dict
  | .list (.atom "dict" :: v :: ss) => do pure ⟨← versionOf v, ← ss.mapM sectionOf⟩
  | _ => none

def tyName : TyCls → String
  | .FixAmount => "FixAmount" | .FixBool => "FixBool" | .FixChar => "FixChar" | .FixCurrency => "FixCurrency"
  | .FixString => "FixString" | .FixDayOfMonth => "FixDayOfMonth" | .FixExchange => "FixExchange" | .FixFloat => "FixFloat"
  | .FixInt => "FixInt" | .FixMultipleValueString => "FixMultipleValueString" | .FixPrice => "FixPrice"
  | .FixPriceOffset => "FixPriceOffset" | .FixQuantity => "FixQuantity" | .FixUTCTimeOnly => "FixUTCTimeOnly"
  | .FixUTCTimeStamp => "FixUTCTimeStamp" | .FixLocalMktDate => "FixLocalMktDate" | .FixTzTimeonly => "FixTzTimeonly"

def kindName : PyKind → String
  | .str => "str" | .bool => "bool" | .int => "int" | .float => "float"

def sessName : SessionCls → String
  | .Fix42Session => "Fix42Session" | .Fix44Session => "Fix44Session" | .Fix50Session => "Fix50Session"

def b (x : Bool) : Sexp := .atom (if x then "true" else "false")
def t (s : Str) : Sexp := ofNats s
def tagged (h : String) (xs : List Sexp) : Sexp := .list (.atom h :: xs)

def enumToSexp (v : EnumCls) : Sexp := tagged "v" [t v.key, b v.quoted, t v.attr]

def refToSexp : ERef → Sexp
  | .field fd r => tagged "F" [t fd.name, b r]
  | .group n u r => tagged "G" [t n, t u, b r]

def moduleToSexp (m : Module) : Sexp :=
  tagged "module" [
    .atom (sessName m.session),
    tagged "fields" (m.fields.map fun f => tagged "f" ([t f.name, t f.tag, .atom (tyName f.type)] ++ f.values.map enumToSexp)),
    tagged "groups" (m.groups.map fun g => tagged "g" ([t g.uname, t g.name] ++ g.entries.map refToSexp)),
    tagged "bodies" (m.bodies.map fun c => tagged "b" (t c.name :: c.entries.map refToSexp)),
    tagged "messages" (m.messages.map fun c =>
      tagged "m" ([t c.name, t c.tag, t c.category, t c.bodyName] ++ c.entries.map refToSexp))]

partial def lentryToSexp : LEntry → Sexp
  | .field n tg ty r => tagged "F" [t n, .atom (toString tg), .atom (tyName ty), b r]
  | .group n tg ty r es => tagged "G" ([t n, .atom (toString tg), .atom (tyName ty), b r] ++ es.map lentryToSexp)

def loadedToSexp (l : Loaded) : Sexp :=
  tagged "loaded" [
    .atom (sessName l.session),
    tagged "fields" (l.fields.map fun f =>
      tagged "f" ([t f.name, .atom (toString f.tag), .atom (tyName f.type)] ++ f.values.map enumToSexp)),
    tagged "header" (l.header.map lentryToSexp),
    tagged "trailer" (l.trailer.map lentryToSexp),
    tagged "messages" (l.messages.map fun m =>
      tagged "m" [t m.cls, t m.type, t m.category, tagged "header" (m.header.map lentryToSexp),
                  tagged "body" (m.body.map lentryToSexp), tagged "trailer" (m.trailer.map lentryToSexp)])]

def answer {α : Type} (f : α → Sexp) : Except Err α → String
  | .ok a => s!"ok {(f a).toStr}"
  | .error e => s!"err {e.name}"

def handle (op : String) (args : List Sexp) : Option String :=
  match op, args with
  | "gen.fix", [d] => do
      let d ← dictOf d
      some (answer moduleToSexp (gen d))
  | "gen.load", [d] => do
      let d ← dictOf d
      some (answer loadedToSexp (genLoad d))
  | "gen.denote", [d] => do
      let d ← dictOf d
      some (answer loadedToSexp (denote d))
  | "gen.wf", [d] => do
      let d ← dictOf d
      some (if wfDict d && supportedVersion d.version then "true" else "false")
  | "gen.wfe", [d] => do
      let d ← dictOf d
      some (if wfDictE d && supportedVersion d.version then "true" else "false")
  | "gen.scoped", [d] => do
      let d ← dictOf d
      match gen d with
      | .ok m => some (if wellScoped m then "true" else "false")
      | .error e => some s!"err {e.name}"
  | "gen.types", [v] => do
      let v ← versionOf v
      some (answer (fun (tt : TypeTable) => .list (tt.map fun kv => .list [t kv.1, .atom (tyName kv.2), .atom (kindName kv.2.kind)]))
        (supportedTypes v))
  | "gen.keywords", [] => some (Sexp.list (keywords.map t)).toStr
  | _, _ => none

end NasdaqModel.Driver.GenFixD
