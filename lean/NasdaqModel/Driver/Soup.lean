import NasdaqModel.Driver.Sexp
import NasdaqModel.Spec.SoupLayout
import NasdaqModel.Model.SoupObj
namespace NasdaqModel.Driver.SoupD
open NasdaqModel Sexp Soup

def pktOfSexp : Sexp → Option Pkt
  | .atom "clientHb" => some .clientHb
  | .atom "serverHb" => some .serverHb
  | .atom "endOfSession" => some .endOfSession
  | .atom "logoutReq" => some .logoutReq
  | .list [.atom "loginReq", u, p, s, q] => do
      some (.loginReq (← asNats u) (← asNats p) (← asNats s) (← asNats q))
  | .list [.atom "loginAcc", s, q] => do some (.loginAcc (← asNats s) (← asInt q))
  | .list [.atom "loginRej", r] => do some (.loginRej (← asNat r))
  | .list [.atom "seqData", d] => do some (.seqData (← asBytes d))
  | .list [.atom "unseqData", d] => do some (.unseqData (← asBytes d))
  | .list [.atom "debug", t] => do some (.debug (← asNats t))
  | _ => none

def pktToSexp : Pkt → Sexp
  | .clientHb => .atom "clientHb" | .serverHb => .atom "serverHb"
  | .endOfSession => .atom "endOfSession" | .logoutReq => .atom "logoutReq"
  | .loginReq u p s q => .list [.atom "loginReq", ofNats u, ofNats p, ofNats s, ofNats q]
  | .loginAcc s q => .list [.atom "loginAcc", ofNats s, .atom (toString q)]
  | .loginRej r => .list [.atom "loginRej", .atom (toString r)]
  | .seqData d => .list [.atom "seqData", .atom (bytesToHex d)]
  | .unseqData d => .list [.atom "unseqData", .atom (bytesToHex d)]
  | .debug t => .list [.atom "debug", ofNats t]

def fieldOfAtom : String → Option SoupObj.Field
  | "user" => some .user | "password" => some .password | "session" => some .session | "sequence" => some .sequence
  | "session_id" => some .sessionId | "reason" => some .reason | "data" => some .data | "msg" => some .msg
  | _ => none

def valOfSexp : Sexp → Option SoupObj.Val
  | .list [.atom "t", s] => do some (.text (← asNats s))
  | .list [.atom "i", n] => do some (.int (← asInt n))
  | .list [.atom "r", n] => do some (.reason (← asNat n))
  | .list [.atom "b", b] => do some (.bytes (← asBytes b))
  | _ => none

/-- `enc` | `(set <field> <value>)` -/
def objOpOfSexp : Sexp → Option SoupObj.Op
  | .atom "enc" => some .toBytes
  | .list [.atom "set", .atom f, v] => do some (.set (← fieldOfAtom f) (← valOfSexp v))
  | _ => none

def handle (op : String) (args : List Sexp) : Option String :=
  match op, args with
  | "soup.enc", [p] => do
      let p ← pktOfSexp p
      match encode p with
      | .ok bs => some s!"ok {bytesToHex bs}"
      | .error e => some s!"err {e.name}"
  | "soup.dec", [b] => do
      let b ← asBytes b
      match decode b with
      | .ok p => some s!"ok {(pktToSexp p).toStr}"
      | .error e => some s!"err {e.name}"
  | "soup.layout", [p] => do
      let p ← pktOfSexp p
      some (bytesToHex (Spec.SoupLayout.layout p))
  | "soup.obj", [p, .list ops] => do
      -- one packet object over time: what every `to_bytes()` of the history returns
      let p ← pktOfSexp p
      let ops ← ops.mapM objOpOfSexp
      let outs := (SoupObj.run p ops).map fun r => match r with
        | .ok bs => bytesToHex bs
        | .error e => s!"err:{e.name}"
      some ("(" ++ " ".intercalate outs ++ ")")
  | _, _ => none

end NasdaqModel.Driver.SoupD
