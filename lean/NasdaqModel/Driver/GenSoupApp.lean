import NasdaqModel.Driver.Sexp
import NasdaqModel.Model.GenSoupApp
import NasdaqModel.Witness.C15
import NasdaqModel.Witness.C15Enum
import NasdaqModel.Witness.C15Defs
/-
Line protocol of the ITCH/OUCH/SQF generator model (C15).

Text is a list of code points `(99 112 …)`; an absent attribute is the atom `none`.

  spec  := (spec (ENUM*) (FIELD*) (REC*) (MSG*))
  ENUM  := (enum <name> <type|none> ((<member name> <value>)*))
  FIELD := (f <name|none> <def|none> <type|none> <ref|none> <array|none> <length|none> <default|none> <endian|none>)
  REC   := (rec <name> (FIELD*))
  MSG   := (msg <name> <message-id> <group|none> <direction|none> (FIELD*))

  gen.code   <impl> <app> <override> spec  →  ok (module …) | err <Err>
  gen.eval   <impl> <app> <override> spec  →  ok (schema …) | err gen <Err> | err import <Err>
  gen.denote <impl> spec                   →  ok (schema …) | err <Err>
  gen.wf     <impl> spec                   →  true | false
  gen.table                                →  the datatype table, reserved names
  witness C15                              →  ((<name> <impl> spec)*) — the regression specifications of `Witness/C15.lean`, `Witness/C15Enum.lean`, `Witness/C15Defs.lean`
-/
namespace NasdaqModel.Driver.GenSoupAppD
open NasdaqModel Sexp GenSoupApp

def strOf (s : Sexp) : Option Str := asNats s

def optStrOf : Sexp → Option (Option Str)
  | .atom "none" => some none
  | s => (asNats s).map some

def boolOf : Sexp → Option Bool
  | .atom "true" => some true
  | .atom "false" => some false
  | _ => none

def implOf : Sexp → Option Impl
  | .atom "itch" => some .itch
  | .atom "ouch" => some .ouch
  | .atom "sqf" => some .sqf
  | _ => none

def fieldOf : Sexp → Option FieldEl
  | .list [.atom "f", n, d, t, r, a, l, dv, e] => do
      some ⟨← optStrOf n, ← optStrOf d, ← optStrOf t, ← optStrOf r, ← optStrOf a, ← optStrOf l, ← optStrOf dv, ← optStrOf e⟩
  | _ => none

def enumValOf : Sexp → Option EnumVal
  | .list [n, v] => do some ⟨← strOf n, ← strOf v⟩
  | _ => none

def enumOf : Sexp → Option EnumEl
  | .list [.atom "enum", n, t, .list vs] => do some ⟨← strOf n, ← optStrOf t, ← vs.mapM enumValOf⟩
  | _ => none

def recOf : Sexp → Option RecordEl
  | .list [.atom "rec", n, .list fs] => do some ⟨← strOf n, ← fs.mapM fieldOf⟩
  | _ => none

def msgOf : Sexp → Option MessageEl
  | .list [.atom "msg", n, i, g, d, .list fs] => do
      some ⟨← strOf n, ← strOf i, ← optStrOf g, ← optStrOf d, ← fs.mapM fieldOf⟩
  | _ => none

def specOf : Sexp → Option Spec
  | .list [.atom "spec", .list es, .list ds, .list rs, .list ms] => do
      some ⟨← es.mapM enumOf, ← ds.mapM fieldOf, ← rs.mapM recOf, ← ms.mapM msgOf⟩
  | _ => none

/-! output -/
def sx (s : Str) : Sexp := ofNats s
def optSx : Option Str → Sexp
  | none => .atom "none"
  | some s => sx s
def tag (t : String) (xs : List Sexp) : Sexp := .list (.atom t :: xs)

def tyExprSx : TyExpr → Sexp
  | .cls n => tag "cls" [sx n]
  | .array e c => tag "array" [tyExprSx e, tyExprSx c]
  | .callLen e l => tag "call" [tyExprSx e, sx l]

def litSx (l : Lit) : Sexp := tag (if l.quoted then "q" else "r") [sx l.text]

def fieldDeclSx (f : FieldDecl) : Sexp :=
  tag "fd" [sx f.name, tyExprSx f.ty, (match f.dflt with | none => .atom "none" | some l => litSx l),
            sx f.hintBase, .atom (toString f.hintDepth)]

def moduleSx (m : Module) : Sexp :=
  tag "module" [
    tag "exports" (m.exports.map sx),
    tag "enums" (m.enums.map fun e => tag "enum" [sx e.name, .list (e.members.map fun kv => .list [sx kv.1, litSx kv.2])]),
    tag "records" (m.records.map fun r => tag "rec" [sx r.name, sx r.base, .list (r.fields.map fieldDeclSx)]),
    tag "messages" (m.messages.map fun g => tag "msg" [sx g.name, sx g.indicator, sx g.direction, .list (g.fields.map fieldDeclSx)])]

def dvalSx : DVal → Sexp
  | .int i => tag "int" [.atom (toString i)]
  | .str s => tag "str" [sx s]
  | .bool b => tag "bool" [.atom (if b then "true" else "false")]

def tySx : Ty → Sexp
  | .prim p => tag "prim" [sx p.id]
  | .fixedCls iso => tag "fixedcls" [.atom (if iso then "iso" else "ascii")]
  | .fixed iso n => tag "fixed" [.atom (if iso then "iso" else "ascii"), .atom (match n with | some k => toString k | none => "none")]
  | .record n => tag "record" [sx n]
  | .array e c => tag "array" [tySx e, tySx c]
  | .other => .atom "other"

def fieldSSx (f : FieldS) : Sexp :=
  tag "f" [sx f.name, tySx f.ty, (match f.dflt with | none => .atom "none" | some d => dvalSx d)]

def schemaSx (s : Schema) : Sexp :=
  tag "schema" [
    tag "exports" (s.exports.map sx),
    tag "enums" (s.enums.map fun e => tag "enum" [sx e.name, .list (e.members.map fun kv => .list [sx kv.1, dvalSx kv.2])]),
    tag "records" (s.records.map fun r => tag "rec" [sx r.name, .list (r.fields.map fieldSSx)]),
    tag "messages" (s.messages.map fun g =>
      tag "msg" [sx g.name, .atom (toString g.id), optSx g.dir, .list (g.fields.map fieldSSx)])]

def tableSx : Sexp :=
  tag "table" [
    tag "types" (typeDefs.map fun kv => .list [sx kv.1, sx kv.2.cls, sx kv.2.hint]),
    tag "reserved-itch" ((reservedNames .itch).map sx),
    tag "reserved-ouch" ((reservedNames .ouch).map sx),
    tag "reserved-sqf" ((reservedNames .sqf).map sx),
    tag "builtins" (builtinNames.map fun kv => sx kv.1),
    tag "field-reserved" (fieldReserved.map sx),
    tag "keywords" (pyKeywords.map sx)]

def fieldElSx (f : FieldEl) : Sexp :=
  tag "f" [optSx f.name, optSx f.defn, optSx f.ty, optSx f.ref, optSx f.array, optSx f.length, optSx f.dflt, optSx f.endian]

def specSx (s : Spec) : Sexp :=
  tag "spec" [
    .list (s.enums.map fun e => tag "enum" [sx e.name, optSx e.ty, .list (e.values.map fun v => .list [sx v.name, sx v.value])]),
    .list (s.fielddefs.map fieldElSx),
    .list (s.records.map fun r => tag "rec" [sx r.name, .list (r.fields.map fieldElSx)]),
    .list (s.messages.map fun g => tag "msg" [sx g.name, sx g.msgId, optSx g.group, optSx g.direction, .list (g.fields.map fieldElSx)])]

/-- the specifications the theorems of `Witness/C15.lean` speak about, from the same definitions -/
def witnesses : List (String × String × Spec) := [
  ("array-of-fixed-string", "itch", Witness.C15.arrayOfFixed),
  ("html-escaped-enum-value", "ouch", Witness.C15.enumSpec "<"),
  ("html-escaped-default-value", "sqf", Witness.C15.defaultSpec "A&B"),
  ("unescaped-quote-in-literal", "itch", Witness.C15.enumSpec "'"),
  ("unescaped-quote-in-literal", "itch", Witness.C15.enumSpec "\\"),
  ("message-without-fields", "sqf", Witness.C15.emptyFields),
  -- enums whose member names overlap their values (Witness/C15Enum.lean, Props/C15Enum.lean)
  ("enum-name-value-overlap", "itch", Witness.C15Enum.overlap "char_ascii"),
  ("enum-name-value-overlap", "ouch", Witness.C15Enum.overlap "char_iso-8859-1"),
  ("enum-name-value-overlap", "sqf", Witness.C15Enum.minimal),
  ("enum-name-value-disjoint", "itch", Witness.C15Enum.disjoint),
  -- references renamed to the name of ANOTHER definition, that definition referenced before and after (Witness/C15Defs.lean,
  -- Props/C15Defs.lean)
  ("def-reference-shadow", "itch", Witness.C15Defs.shadow),
  ("def-reference-shadow", "ouch", Witness.C15Defs.shadow [Witness.C15Defs.ack, Witness.C15Defs.reject, Witness.C15Defs.cancel]),
  ("def-reference-shadow", "sqf", Witness.C15Defs.shadowInRecord),
  ("def-reference-fresh-names", "itch", Witness.C15Defs.freshNames)]

def handle (op : String) (args : List Sexp) : Option String :=
  match op, args with
  | "gen.code", [i, a, o, s] => do
      let impl ← implOf i
      let app ← strOf a
      let ovr ← boolOf o
      let spec ← specOf s
      match gen impl app ovr spec with
      | .ok m => some s!"ok {(moduleSx m).toStr}"
      | .error e => some s!"err {e.name}"
  | "gen.eval", [i, a, o, s] => do
      let impl ← implOf i
      let app ← strOf a
      let ovr ← boolOf o
      let spec ← specOf s
      match gen impl app ovr spec with
      | .error e => some s!"err gen {e.name}"
      | .ok m =>
        match evalModule m with
        | .ok sch => some s!"ok {(schemaSx sch).toStr}"
        | .error e => some s!"err import {e.name}"
  | "gen.denote", [i, s] => do
      let impl ← implOf i
      let spec ← specOf s
      match denote impl spec with
      | .ok sch => some s!"ok {(schemaSx sch).toStr}"
      | .error e => some s!"err {e.name}"
  | "gen.wf", [i, s] => do
      let impl ← implOf i
      let spec ← specOf s
      some (if wfSpec impl spec then "true" else "false")
  | "gen.table", [] => some (tableSx.toStr)
  | "witness", [.atom "C15"] =>
      some (Sexp.list (witnesses.map fun w => .list [.atom w.1, .atom w.2.1, specSx w.2.2])).toStr
  | _, _ => none

end NasdaqModel.Driver.GenSoupAppD
