import NasdaqModel.Props.C19
/-
C19, the listing and by-indicator views of the registry (`get_msg_classes`, `get_msg_cls_by_indicator`).

`Props/C19.lean` speaks about `lookupId` / `decode`.  The library offers two more ways to look at the same dictionary:
`Base.get_msg_classes()` (the values of `MsgIdToClsMap[app]`) and `Base.get_msg_cls_by_indicator(id)`.  They must tell the
same story as decoding does — a class is listed for an application exactly when some id of that application resolves to it,
no class of another application is ever listed, and looking an id up by indicator is the decode of its byte.

  * `C19_classes_iff_lookup`        listed ⇔ some id of this application resolves to it (every reachable registry)
  * `C19_classes_from_own_statements` every listed class comes from a statement that registered in this very application
  * `C19_classes_isolated`          statements of other applications never change the listing of this one
  * `C19_byIndicator_is_decode`     `get_msg_cls_by_indicator(decoded id)` = the class `from_bytes` instantiates, same error otherwise
-/
namespace NasdaqModel.Props.C19Classes
open NasdaqModel Registry NasdaqModel.Props.C19

private theorem mem_classes (r : Reg) (a c : Nat) :
    c ∈ classes r a ↔ ∃ e ∈ r.ids, e.app = a ∧ e.cls = c := by
  unfold classes
  simp only [List.mem_map, List.mem_filter, beq_iff_eq]
  constructor
  · rintro ⟨e, ⟨he, ha⟩, hc⟩; exact ⟨e, he, ha, hc⟩
  · rintro ⟨e, he, ha, hc⟩; exact ⟨e, ⟨he, ha⟩, hc⟩

/-- in a list without duplicate (application, id) pairs, `find?` on a pair returns THE entry carrying it -/
private theorem find_of_nodup : ∀ (ids : List Entry), (ids.map (fun e => (e.app, e.key))).Nodup →
    ∀ e ∈ ids, ids.find? (fun x => x.app == e.app && x.key == e.key) = some e := by
  intro ids
  induction ids with
  | nil => intro _ e he; cases he
  | cons x rest ih =>
    intro hnd e he
    simp only [List.map_cons, List.nodup_cons] at hnd
    rcases List.mem_cons.mp he with rfl | hr
    · simp [List.find?]
    · have hne : ¬ (x.app = e.app ∧ x.key = e.key) := by
        rintro ⟨h1, h2⟩
        apply hnd.1
        simp only [List.mem_map]
        exact ⟨e, hr, by simp [h1, h2]⟩
      have hb : (x.app == e.app && x.key == e.key) = false := by
        rcases Classical.not_and_iff_not_or_not.mp hne with h | h <;> simp [h]
      simp only [List.find?, hb]
      exact ih hnd.2 e hr

/-- **Listed ⇔ resolvable.** In every registry without duplicate keys, `get_msg_classes()` of an application lists a class
    exactly when some id of that application resolves to it. -/
theorem C19_classes_iff_lookup_of_nodup (r : Reg) (h : NoDupKeys r) (a c : Nat) :
    c ∈ classes r a ↔ ∃ k, lookupId r a k = some c := by
  rw [mem_classes]
  constructor
  · rintro ⟨e, he, ha, hc⟩
    refine ⟨e.key, ?_⟩
    unfold lookupId
    subst ha
    rw [find_of_nodup r.ids h e he]
    simp [hc]
  · rintro ⟨k, hk⟩
    unfold lookupId at hk
    simp only [Option.map_eq_some_iff] at hk
    obtain ⟨e, hf, hc⟩ := hk
    have hm := List.mem_of_find?_eq_some hf
    have hp := List.find?_some hf
    simp only [Bool.and_eq_true, beq_iff_eq] at hp
    exact ⟨e, hm, hp.1, hc⟩

/-- … and every registry a program can build is such a registry: after ANY list of class statements. -/
theorem C19_classes_iff_lookup (ds : List Decl) (a c : Nat) :
    c ∈ classes (run Reg.empty ds) a ↔ ∃ k, lookupId (run Reg.empty ds) a k = some c :=
  C19_classes_iff_lookup_of_nodup _ (C19_unique ds).1 a c

private theorem lookup_empty (a : Nat) (k : Key) : lookupId Reg.empty a k = none := by
  simp [lookupId, Reg.empty]

/-- **Only its own statements.** A class listed for application `a` was created by a statement of the program that
    registered in application `a` (and is the first one for its id). -/
theorem C19_classes_from_own_statements (ds : List Decl) (a c : Nat) (h : c ∈ classes (run Reg.empty ds) a) :
    ∃ d ∈ ds, d.cid = c ∧ ∃ k, target d = some (a, k) := by
  obtain ⟨k, hk⟩ := (C19_classes_iff_lookup ds a c).mp h
  rw [C19_lookup_first, lookup_empty] at hk
  simp only [Option.none_or, Option.map_eq_some_iff] at hk
  obtain ⟨d, hf, hc⟩ := hk
  have hm := List.mem_of_find?_eq_some hf
  have hp := List.find?_some hf
  exact ⟨d, hm, hc, k, by simpa using hp⟩

/-- **Isolated listing.** Statements that register elsewhere (or nowhere) never change what application `a` lists:
    membership in `get_msg_classes()` of `a` is the same with them and without them. -/
theorem C19_classes_isolated (ds : List Decl) (a c : Nat) :
    c ∈ classes (run Reg.empty ds) a ↔
      c ∈ classes (run Reg.empty (ds.filter (fun d => (target d).map (·.1) == some a))) a := by
  have key : ∀ k, lookupId (run Reg.empty ds) a k =
      lookupId (run Reg.empty (ds.filter (fun d => (target d).map (·.1) == some a))) a k := by
    intro k
    rw [C19_lookup_first, C19_lookup_first, lookup_empty]
    congr 2
    rw [List.find?_filter]
    congr 1
    funext d
    by_cases hd : target d = some (a, k)
    · simp [hd]
    · have : (target d == some (a, k)) = false := by simpa using hd
      simp [this]
  rw [C19_classes_iff_lookup, C19_classes_iff_lookup]
  constructor
  · rintro ⟨k, hk⟩; exact ⟨k, by rw [← key]; exact hk⟩
  · rintro ⟨k, hk⟩; exact ⟨k, by rw [key]; exact hk⟩

/-- **By indicator = by decoding.** `Base.get_msg_cls_by_indicator(id)` with the id `from_bytes` builds from a byte gives the
    class `from_bytes` instantiates, and the same `KeyError` when there is none. -/
theorem C19_byIndicator_is_decode (r : Reg) (b : Base) (byte : Nat) :
    byIndicator r b.app (decodeKey b.proto byte) = decode r b byte := rfl

/-! ### the premises are met -/

example : (1 : Nat) ∈ classes (run Reg.empty
    [{ cid := 1, name := 0, base := { proto := .itch, app := 5, style := .generated }, ind := some 65, dir := none, appKw := none },
     { cid := 2, name := 1, base := { proto := .itch, app := 6, style := .generated }, ind := some 65, dir := none, appKw := none }]) 5 := by
  decide

end NasdaqModel.Props.C19Classes
