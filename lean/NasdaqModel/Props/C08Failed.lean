import NasdaqModel.Props.C08
/-
C08, failed sends — "for every pattern of application sends" includes send attempts that the library rejects.

`Ev.sendFailed` is a `send_msg(msg)` call that raises before `transport.write` (FIX: `msg.validate` finds a mandatory body
field missing, or the frame cannot be encoded; soup: `msg.to_bytes()` raises).  In the code the write and the `ping()` of the
local heartbeat monitor both come after the statement that raises, so the attempt writes nothing and is **not** application
activity.  All theorems of Props/C08.lean quantify over every `List Ev` and therefore already cover histories with failed
sends; this file states the consequences that matter for them explicitly:

* a failed send changes nothing at all (`C08_failed_send_noop`), in particular it does not ping (`C08_failed_send_no_ping`);
* erasing the failed sends from any history leaves the whole run unchanged — same writes at the same instants, same monitor
  states, same close (`C08_failed_sends_erasable`);
* the gap bound holds for every history including failed sends, and the writes that witness it are real writes, never failed
  attempts (`C08_gap_failed`);
* failed attempts never postpone a heartbeat: if the application *wrote* nothing during the interval before a tick, the
  heartbeat is emitted at that tick however many attempts failed meanwhile (`C08_failed_sends_do_not_postpone_heartbeat`).
-/
namespace NasdaqModel.Props.C08Failed
open NasdaqModel.Monitor NasdaqModel.Props.C08

/-- a send attempt that raises before the write leaves the session exactly as it was -/
theorem C08_failed_send_noop (s : Sess) : s.step .sendFailed = s := rfl

/-- … in particular it writes nothing and pings neither monitor -/
theorem C08_failed_send_no_ping (s : Sess) :
    (s.step .sendFailed).loc = s.loc ∧ (s.step .sendFailed).rem = s.rem ∧ (s.step .sendFailed).writes = s.writes :=
  ⟨rfl, rfl, rfl⟩

/-- the history without its failed sends -/
def successfulOnly (evs : List Ev) : List Ev := evs.filter fun e => e != .sendFailed

/-- **C08_failed_sends_erasable.**  Deleting every failed send from a history changes nothing: same final state, hence the
    same writes at the same instants, the same monitor states and the same close. -/
theorem C08_failed_sends_erasable (s : Sess) (evs : List Ev) : s.run evs = s.run (successfulOnly evs) := by
  induction evs generalizing s with
  | nil => rfl
  | cons e evs ih =>
    by_cases he : e = .sendFailed
    · subst he
      have : successfulOnly (Ev.sendFailed :: evs) = successfulOnly evs := by simp [successfulOnly]
      rw [this, run_cons, C08_failed_send_noop, ih]
    · have : successfulOnly (e :: evs) = e :: successfulOnly evs := by simp [successfulOnly, he]
      rw [this, run_cons, run_cons, ih]

/-- **C08_gap_failed.**  From login until close every window `(t, t + 2·I]` of two own-role intervals contains an outbound
    write made on the open session, for every history — failed send attempts at any instants included — and that write is
    also a write of the history from which the failed attempts were deleted: it is never the failed attempt itself. -/
theorem C08_gap_failed (role : Role) (c : Cfg) (hc : wfCfg c = true) (evs : List Ev) (t : Nat)
    (h : t + 2 * ownInterval role c ≤ ((login role c).run evs).life) :
    ∃ w ∈ ((login role c).run (successfulOnly evs)).writes, w ∈ ((login role c).run evs).writes ∧
      w.live = true ∧ t < w.t ∧ w.t ≤ t + 2 * ownInterval role c := by
  obtain ⟨w, hw, h1, h2, h3⟩ := C08_gap role c hc evs t h
  exact ⟨w, by rw [← C08_failed_sends_erasable]; exact hw, hw, h1, h2, h3⟩

/-- **C08_failed_sends_do_not_postpone_heartbeat.**  If the application wrote nothing in `[T - I, T)` — whatever number of its
    send attempts failed in that interval — the tick `T = k·I` (`k ≥ 2`, within the session's life) emits exactly one
    heartbeat, written on the open session. -/
theorem C08_failed_sends_do_not_postpone_heartbeat (role : Role) (c : Cfg) (hc : wfCfg c = true) (evs : List Ev) (T : Nat)
    (hdvd : ownInterval role c ∣ T) (h2 : 2 * ownInterval role c ≤ T) (hlife : T ≤ ((login role c).run evs).life)
    (hidle : ∀ w ∈ ((login role c).run evs).writes, w.origin = .app → ¬ (T - ownInterval role c ≤ w.t ∧ w.t < T)) :
    monCount ((login role c).run evs).writes T = 1 ∧
      ∃ w ∈ ((login role c).run evs).writes, w.origin = .mon ∧ w.t = T ∧ w.live = true :=
  C08_idle_one_per_interval role c hc evs T hdvd h2 hlife hidle

/-- a history in which every application send fails behaves like an idle application: one heartbeat at every tick from the
    second one on -/
theorem C08_only_failed_sends_is_idle (role : Role) (c : Cfg) (hc : wfCfg c = true) (evs : List Ev)
    (hno : ∀ e ∈ evs, e ≠ .send) (k : Nat) (hk : 2 ≤ k) (hlife : k * ownInterval role c ≤ ((login role c).run evs).life) :
    monCount ((login role c).run evs).writes (k * ownInterval role c) = 1 :=
  C08_idle_forever role c hc evs hno k hk hlife

set_option maxRecDepth 100000 in
/-- non-vacuity (the history the bound is about): a FIX session with interval 4 sends at 5 (just after the tick at 4), then one
    attempt fails in each following interval (9, 13, 17).  The session lives 21 units; its writes are the send at 5 and the
    heartbeats at 12, 16, 20 — the failed attempts neither wrote nor postponed a heartbeat, so the window (5, 13] is served. -/
example :
    let evs := List.replicate 5 Ev.adv ++ [.send] ++ List.replicate 4 .adv ++ [.sendFailed] ++ List.replicate 4 .adv ++
      [.sendFailed] ++ List.replicate 4 .adv ++ [.sendFailed] ++ List.replicate 4 .adv
    let s := (login .fix ⟨4, 100⟩).run evs
    s.life = 21 ∧ s.writes.map (fun w => (w.t, w.origin)) = [(20, .mon), (16, .mon), (12, .mon), (5, .app)] ∧
      5 + 2 * ownInterval .fix ⟨4, 100⟩ ≤ s.life ∧ successfulOnly evs ≠ evs := by decide

end NasdaqModel.Props.C08Failed
