import NasdaqModel.Lemmas.GenFixLoad
/-
C16 — code generated from a FIX dictionary implements exactly that dictionary.

Model: `Model/GenFix.lean` (`parse`, `gen` = parse + codegen contexts + templates as abstract classes, `load` = importing the
generated package: every `fix.Entry(...)` reference followed, by name, through the namespaces of the generated modules).
Reference semantics: `Spec/FixDict.lean` (`denote`: one class per `<field>`; entries = the container's elements with component
references replaced in place, recursively, `required` from the element itself).  Guard: `wfDict` (ibid.).

History: on the original tree no dictionary could be generated for `--fix-version 4.2` (DESIGN §6 #13, /verif/fixes/C16-fix42.md);
repaired by /repo commit b154f58 (`Fix42Session`).  The theorems are now stated for every version the CLI offers: `wfDict d`
contains "the version has a type table", which is exactly 4.2 / 4.4 / 5.0 / 5.0SP2 (`C16_wf_version`).  `Witness/C16.lean` keeps the
former counterexample as a regression that must generate.
Only property theorems and their non-vacuity examples live here.
-/
namespace NasdaqModel.Props.C16
open NasdaqModel Py GenFix Spec.FixDict

/-- the two lists have the same length and `R` holds position by position -/
def Pointwise {α β : Type} (R : α → β → Prop) : List α → List β → Prop
  | [], [] => True
  | a :: as, b :: bs => R a b ∧ Pointwise R as bs
  | _, _ => False

/-- a valid dictionary is for one of the four versions the CLI offers -/
theorem C16_wf_version (d : Dict) (hwf : wfDict d = true) : supportedVersion d.version = true := by
  obtain ⟨types, w⟩ := wf_unpack hwf
  have := w.htypes
  cases hver : d.version <;> simp_all [supportedVersion, supportedTypes]

/-- The generated package imports, and what it defines — field classes, the Entries of header, trailer and every message body with
    every reference followed to the class object, message classes, session class — is exactly the dictionary's meaning.
    Full strength: every valid dictionary of every version (4.2, 4.4, 5.0, 5.0SP2). -/
theorem C16_imports_and_denotes (d : Dict) (hwf : wfDict d = true) :
    ∃ m L, gen d = .ok m ∧ load m = .ok L ∧ denote d = .ok L := by
  obtain ⟨types, w⟩ := wf_unpack hwf
  obtain ⟨m, L, h1, h2, h3, _⟩ := genLoad_denote w (C16_wf_version d hwf)
  exact ⟨m, L, h1, h2, h3⟩

/-- one loaded field class per `<field>`, in order: name, tag = the number, value type = the version's class for the type name,
    enumerated values with keyword descriptions escaped -/
def FieldMatches (types : TypeTable) (lf : LField) (f : FieldXml) : Prop :=
  lf.name = f.name ∧ parseIntStr f.number = .ok lf.tag ∧ aget f.type types = some lf.type ∧ lf.values = specValues lf.type f.values

private theorem specFields_forall2 {types : TypeTable} : ∀ (fxs : List FieldXml) (lfs : List LField),
    specFields types fxs = .ok lfs → Pointwise (FieldMatches types) lfs fxs
  | [], lfs, h => by simp only [specFields] at h; cases h; exact trivial
  | f :: rest, lfs, h => by
    simp only [specFields, specField] at h
    cases h1 : aget f.type types with
    | none => rw [h1] at h; cases h
    | some ty =>
      rw [h1] at h
      dsimp only at h
      cases h2 : parseIntStr f.number with
      | error e => rw [h2] at h; cases h
      | ok t =>
        rw [h2] at h
        dsimp only at h
        cases h3 : specFields types rest with
        | error e => rw [h3] at h; cases h
        | ok lfs2 =>
          rw [h3] at h
          cases h
          exact ⟨⟨rfl, h2, h1, rfl⟩, specFields_forall2 rest lfs2 h3⟩

/-- a field class per `<field>` with the right tag, value type and enumerated values — every valid dictionary, every version -/
theorem C16_fields (d : Dict) (hwf : wfDict d = true) :
    ∃ m L types, gen d = .ok m ∧ load m = .ok L ∧ supportedTypes d.version = .ok types ∧
      Pointwise (FieldMatches types) L.fields (d.sections.flatMap fieldsOf) := by
  obtain ⟨m, L, hg, hl, hd⟩ := C16_imports_and_denotes d hwf
  obtain ⟨types, ht, _, hf, _⟩ := denote_inv hd
  exact ⟨m, L, types, hg, hl, ht, specFields_forall2 _ _ hf⟩

/-- a loaded message class against its `<message>`: name, MsgType, category, and the three segments -/
def MsgMatches (d : Dict) (L : Loaded) (lm : LMsg) (mx : MsgXml) : Prop :=
  lm.cls = mx.name ∧ lm.type = mx.msgtype ∧ lm.category = mx.msgcat ∧ lm.header = L.header ∧ lm.trailer = L.trailer ∧
    expand L.fields (allComps d) mx.items = .ok lm.body

private theorem specMessages_forall2 {d : Dict} {L : Loaded} : ∀ (ms : List MsgXml) (lms : List LMsg),
    specMessages L.fields (allComps d) L.header L.trailer ms = .ok lms → Pointwise (MsgMatches d L) lms ms
  | [], lms, h => by simp only [specMessages] at h; cases h; exact trivial
  | mx :: rest, lms, h => by
    simp only [specMessages] at h
    cases h1 : expand L.fields (allComps d) mx.items with
    | error e => rw [h1] at h; cases h
    | ok b =>
      rw [h1] at h
      dsimp only at h
      cases h2 : specMessages L.fields (allComps d) L.header L.trailer rest with
      | error e => rw [h2] at h; cases h
      | ok lms2 =>
        rw [h2] at h
        cases h
        exact ⟨⟨rfl, rfl, rfl, rfl, rfl, h1⟩, specMessages_forall2 rest lms2 h2⟩

/-- Every valid dictionary, every version.
    Entries of header / body / trailer of the loaded classes = the dictionary's entries, components expanded in place (wherever
    they are declared), in order, with the required flags — including, at every depth, the entries of the group classes the
    references lead to (`LEntry.group … entries`). -/
theorem C16_entries (d : Dict) (hwf : wfDict d = true) :
    ∃ m L, gen d = .ok m ∧ load m = .ok L ∧
      expand L.fields (allComps d) (d.sections.flatMap headerOf) = .ok L.header ∧
      expand L.fields (allComps d) (d.sections.flatMap trailerOf) = .ok L.trailer ∧
      Pointwise (MsgMatches d L) L.messages (d.sections.flatMap messagesOf) := by
  obtain ⟨m, L, hg, hl, hd⟩ := C16_imports_and_denotes d hwf
  obtain ⟨_, _, _, _, hh, ht, hm⟩ := denote_inv hd
  exact ⟨m, L, hg, hl, hh, ht, specMessages_forall2 _ _ hm⟩

/-- In the generated groups module every group class mentioned by a group class is defined earlier, class names are unique, and
    segment and message classes only mention group and field classes that exist. -/
theorem C16_well_scoped (d : Dict) (hwf : wfDict d = true) (m : Module) (hg : gen d = .ok m) : wellScoped m = true := by
  obtain ⟨types, w⟩ := wf_unpack hwf
  obtain ⟨m', L, hg', hl, _, hnd⟩ := genLoad_denote w (C16_wf_version d hwf)
  rw [hg] at hg'
  cases hg'
  exact load_wellScoped hl hnd

/-! ### group containers are wired to declared integer count fields -/

mutual
/-- `P name tag type` holds of the count class of every group container in the tree, at every depth -/
def groupsAll (P : Str → Int → TyCls → Bool) : LEntry → Bool
  | .field _ _ _ _ => true
  | .group n t ty _ es => P n t ty && groupsAllL P es
def groupsAllL (P : Str → Int → TyCls → Bool) : List LEntry → Bool
  | [] => true
  | e :: rest => groupsAll P e && groupsAllL P rest
end

private theorem groupsAllL_append (P : Str → Int → TyCls → Bool) : ∀ (a b : List LEntry),
    groupsAllL P (a ++ b) = (groupsAllL P a && groupsAllL P b)
  | [], b => by simp [groupsAllL]
  | e :: rest, b => by simp only [List.cons_append, groupsAllL, groupsAllL_append P rest b, Bool.and_assoc]

/-- the count class is a declared field of integer type -/
def countOk (fs : List LField) (n : Str) (t : Int) (ty : TyCls) : Bool :=
  ty.kind == .int && fs.any (fun f => decide (f.name = n) && decide (f.tag = t) && decide (f.type = ty))

private theorem findField_of_count {types : TypeTable} : ∀ (fxs : List FieldXml) (fs : List LField) (n : Str),
    specFields types fxs = .ok fs → isCountField types fxs n = true →
    ∃ lf, findField n fs = some lf ∧ lf ∈ fs ∧ lf.name = n ∧ lf.type.kind = .int
  | [], fs, n, _, hc => by simp [isCountField] at hc
  | f :: rest, fs, n, h, hc => by
    simp only [specFields, specField] at h
    cases h1 : aget f.type types with
    | none => rw [h1] at h; cases h
    | some ty =>
      rw [h1] at h
      dsimp only at h
      cases h2 : parseIntStr f.number with
      | error e => rw [h2] at h; cases h
      | ok t =>
        rw [h2] at h
        dsimp only at h
        cases h3 : specFields types rest with
        | error e => rw [h3] at h; cases h
        | ok fs2 =>
          rw [h3] at h
          cases h
          by_cases e : f.name = n
          · simp only [isCountField, List.find?_cons, e, decide_true, h1] at hc
            refine ⟨⟨f.name, t, ty, specValues ty f.values⟩, by simp [findField, e], by simp, e, by simpa using hc⟩
          · have hc' : isCountField types rest n = true := by
              simpa only [isCountField, List.find?_cons, e, decide_false] using hc
            obtain ⟨lf, g1, g2, g3, g4⟩ := findField_of_count rest fs2 n h3 hc'
            refine ⟨lf, ?_, by simp [g2], g3, g4⟩
            simp only [findField, List.find?_cons, e, decide_false]
            exact g1

mutual
private theorem expandItem_counts {fs : List LField} {sub : Str → Except Err (List LEntry)} {pf pg pc : Str → Bool}
    (hg : ∀ n, pg n = true → ∃ lf, findField n fs = some lf ∧ lf ∈ fs ∧ lf.name = n ∧ lf.type.kind = .int)
    (hs : ∀ n es, sub n = .ok es → groupsAllL (countOk fs) es = true) :
    ∀ (i : Item) (es : List LEntry), itemAll pf pg pc i = true → expandItem fs sub i = .ok es → groupsAllL (countOk fs) es = true
  | .field n r, es, _, h => by
    simp only [expandItem] at h
    cases hf : findField n fs with
    | none => rw [hf] at h; cases h
    | some f => rw [hf] at h; cases h; simp [groupsAllL, groupsAll]
  | .group n r items, es, ha, h => by
    simp only [itemAll, Bool.and_eq_true] at ha
    simp only [expandItem] at h
    cases h1 : expandItems fs sub items with
    | error e => rw [h1] at h; cases h
    | ok es1 =>
      rw [h1] at h
      dsimp only at h
      obtain ⟨lf, g1, g2, g3, g4⟩ := hg n ha.1
      rw [g1] at h
      cases h
      have ih := expandItems_counts hg hs items es1 ha.2 h1
      simp only [groupsAllL, groupsAll, ih, Bool.and_true, countOk, g4, Bool.and_eq_true, List.any_eq_true]
      exact ⟨by decide, lf, g2, by simp⟩
  | .comp n r, es, _, h => by
    simp only [expandItem] at h
    exact hs n es h
private theorem expandItems_counts {fs : List LField} {sub : Str → Except Err (List LEntry)} {pf pg pc : Str → Bool}
    (hg : ∀ n, pg n = true → ∃ lf, findField n fs = some lf ∧ lf ∈ fs ∧ lf.name = n ∧ lf.type.kind = .int)
    (hs : ∀ n es, sub n = .ok es → groupsAllL (countOk fs) es = true) :
    ∀ (is : List Item) (es : List LEntry), itemsAll pf pg pc is = true → expandItems fs sub is = .ok es →
      groupsAllL (countOk fs) es = true
  | [], es, _, h => by simp only [expandItems] at h; cases h; rfl
  | i :: rest, es, ha, h => by
    simp only [itemsAll, Bool.and_eq_true] at ha
    simp only [expandItems] at h
    cases h1 : expandItem fs sub i with
    | error e => rw [h1] at h; cases h
    | ok es1 =>
      rw [h1] at h
      dsimp only at h
      cases h2 : expandItems fs sub rest with
      | error e => rw [h2] at h; cases h
      | ok es2 =>
        rw [h2] at h
        cases h
        rw [groupsAllL_append, expandItem_counts hg hs i es1 ha.1 h1, expandItems_counts hg hs rest es2 ha.2 h2]
        rfl
end

private theorem expandComp_counts {fs : List LField} {comps : List CompXml} {pf pg pc : Str → Bool}
    (hg : ∀ n, pg n = true → ∃ lf, findField n fs = some lf ∧ lf ∈ fs ∧ lf.name = n ∧ lf.type.kind = .int)
    (hroot : ∀ c ∈ comps, itemsAll pf pg pc c.items = true) :
    ∀ (k : Nat) (n : Str) (es : List LEntry), expandComp fs comps k n = .ok es → groupsAllL (countOk fs) es = true
  | 0, n, es, h => by simp [expandComp] at h
  | k + 1, n, es, h => by
    simp only [expandComp] at h
    cases hf : comps.find? (fun c => c.name = n) with
    | none => rw [hf] at h; cases h
    | some c =>
      rw [hf] at h
      dsimp only at h
      exact expandItems_counts hg (expandComp_counts hg hroot k) c.items es (hroot c (find_some_mem hf).1) h


private theorem pointwise_mem {α β : Type} {R : α → β → Prop} : ∀ {as : List α} {bs : List β}, Pointwise R as bs →
    ∀ a ∈ as, ∃ b ∈ bs, R a b
  | [], [], _, a, ha => by simp at ha
  | [], _ :: _, h, _, _ => by simp [Pointwise] at h
  | _ :: _, [], h, _, _ => by simp [Pointwise] at h
  | x :: xs, y :: ys, h, a, ha => by
    simp only [Pointwise] at h
    simp only [List.mem_cons] at ha
    rcases ha with rfl | ha
    · exact ⟨y, by simp, h.1⟩
    · obtain ⟨b, hb, hr⟩ := pointwise_mem h.2 a ha
      exact ⟨b, by simp [hb], hr⟩

/-- Every valid dictionary, every version.
    Every group container reached from a header, trailer or body entry — at any nesting depth — has as its count class a field
    class of the package: the one declared under the group's name, of an integer type (so that `CountCls.from_value(len(…))`
    is defined). -/
theorem C16_groups_wired (d : Dict) (hwf : wfDict d = true) :
    ∃ m L, gen d = .ok m ∧ load m = .ok L ∧
      groupsAllL (countOk L.fields) L.header = true ∧ groupsAllL (countOk L.fields) L.trailer = true ∧
      ∀ lm ∈ L.messages, groupsAllL (countOk L.fields) lm.body = true := by
  obtain ⟨types, w⟩ := wf_unpack hwf
  obtain ⟨m, L, hg, hl, hd, _⟩ := genLoad_denote w (C16_wf_version d hwf)
  obtain ⟨types', ht', _, hf, hh, ht, hm⟩ := denote_inv hd
  have : types' = types := by
    have := w.htypes
    rw [ht'] at this
    cases this
    rfl
  subst this
  let pf := fun n => ((d.sections.flatMap fieldsOf).map (·.name)).contains n
  let pg := fun n => isCountField types' (d.sections.flatMap fieldsOf) n
  let pc := fun n => ((allComps d).map (·.name)).contains n
  have hcnt : ∀ n, pg n = true → ∃ lf, findField n L.fields = some lf ∧ lf ∈ L.fields ∧ lf.name = n ∧ lf.type.kind = .int :=
    fun n hn => findField_of_count _ _ n hf hn
  have hroot : ∀ c ∈ allComps d, itemsAll pf pg pc c.items = true := by
    intro c hc
    apply w.refs
    simp only [allComps, List.mem_flatMap] at hc ⊢
    obtain ⟨s, hs, hcs⟩ := hc
    refine ⟨s, hs, ?_⟩
    cases s <;> simp_all [compsOf, containersOf]
    exact ⟨c, hcs, rfl⟩
  have hsub := expandComp_counts hcnt hroot (allComps d).length
  have hsecH : itemsAll pf pg pc (d.sections.flatMap headerOf) = true :=
    itemsAll_flatMap pf pg pc headerOf d.sections (fun s hs => by
      cases s with
      | header is => exact w.refs is (List.mem_flatMap.mpr ⟨_, hs, by simp [containersOf]⟩)
      | _ => simp [headerOf, itemsAll])
  have hsecT : itemsAll pf pg pc (d.sections.flatMap trailerOf) = true :=
    itemsAll_flatMap pf pg pc trailerOf d.sections (fun s hs => by
      cases s with
      | trailer is => exact w.refs is (List.mem_flatMap.mpr ⟨_, hs, by simp [containersOf]⟩)
      | _ => simp [trailerOf, itemsAll])
  refine ⟨m, L, hg, hl, expandItems_counts hcnt hsub _ _ hsecH hh, expandItems_counts hcnt hsub _ _ hsecT ht, ?_⟩
  intro lm hlm
  obtain ⟨mx, hmx, hr⟩ := pointwise_mem (specMessages_forall2 _ _ hm) lm hlm
  obtain ⟨s, hs, hms⟩ := List.mem_flatMap.mp hmx
  have hin : mx.items ∈ d.sections.flatMap containersOf := by
    refine List.mem_flatMap.mpr ⟨s, hs, ?_⟩
    cases s <;> simp_all [messagesOf, containersOf]
    exact ⟨mx, hms, rfl⟩
  exact expandItems_counts hcnt hsub mx.items lm.body (w.refs mx.items hin) hr.2.2.2.2.2

/-! ### the type tables -/

/-- for each of the four versions the CLI offers, `version_types.py` maps every supported FIX type name to a class whose python
    value type is the documented one (the harness checks each run that the model's tables are the live ones) -/
theorem C16_type_tables :
    tableOk types42 = true ∧ tableOk types44 = true ∧ tableOk types50 = true ∧ tableOk types502 = true ∧
    types42.length = 23 ∧ types44.length = 25 ∧ types50.length = 27 ∧ types502.length = 29 := by decide

/-! ### non-vacuity: a dictionary with a forward-referenced component chain, groups within groups within components,
    a group name used in two messages, keyword descriptions -/

def exSections (countType : Str) : List Section := [
    .header [.field (lit "BeginString") (some (lit "Y")), .comp (lit "Hop") (some (lit "N"))],
    .messages [
      ⟨lit "Order", lit "D", lit "app", [.comp (lit "Legs") none, .field (lit "Side") (some (lit "Y"))]⟩,
      ⟨lit "Quote", lit "S", lit "app", [.group (lit "NoLegs") (some (lit "Y")) [.field (lit "LegSymbol") (some (lit "N"))]]⟩],
    .trailer [.field (lit "CheckSum") (some (lit "Y"))],
    .components [
      ⟨lit "Legs", [.group (lit "NoLegs") (some (lit "Y")) [.field (lit "LegSymbol") (some (lit "Y")), .comp (lit "Nested") (some (lit "N"))]]⟩,
      ⟨lit "Hop", [.group (lit "NoHops") none [.field (lit "HopID") (some (lit "y"))]]⟩,
      ⟨lit "Nested", [.group (lit "NoNested") none [.field (lit "Px") (some (lit "N"))]]⟩],
    .fields [
      ⟨lit "8", lit "BeginString", lit "STRING", []⟩, ⟨lit "10", lit "CheckSum", lit "STRING", []⟩,
      ⟨lit "555", lit "NoLegs", countType, []⟩, ⟨lit "600", lit "LegSymbol", lit "STRING", []⟩,
      ⟨lit "54", lit "Side", lit "CHAR", [⟨lit "1", lit "None"⟩, ⟨lit "2", lit "SELL"⟩]⟩,
      ⟨lit "539", lit "NoNested", countType, []⟩, ⟨lit "44", lit "Px", lit "PRICE", []⟩,
      ⟨lit "627", lit "NoHops", countType, []⟩, ⟨lit "628", lit "HopID", lit "STRING", []⟩]]

def exDict : Dict := ⟨.v44, exSections (lit "NUMINGROUP")⟩

example : wfDict exDict = true := by decide
/-- the same dictionary read as FIX 4.2 (NUMINGROUP is not a 4.2 type name: the count fields are INT there) -/
def exDict42 : Dict := ⟨.v42, exSections (lit "INT")⟩
example : wfDict exDict42 = true := by decide
example : (genLoad exDict42).toOption.map (·.session) = some .Fix42Session := by decide
/-- the nested group of `Legs` is generated twice (`NoNested_1`, `NoNested_2`), `NoLegs` three times -/
example : (gen exDict).toOption.map (fun m => m.groups.map (·.uname)) =
    some [lit "NoNested_1", lit "NoNested_2", lit "NoLegs_1", lit "NoLegs_2", lit "NoHops_1"] := by decide
example : (genLoad exDict).toBool = true := by decide
example : (gen exDict).toOption.map wellScoped = some true := by decide

end NasdaqModel.Props.C16
