import NasdaqModel.Lemmas.GenHistoryLemmas
import NasdaqModel.Model.GenReuse
import NasdaqModel.Props.C17Phases
/-
C17 — ONE parsed spec object handed to several generators (Model/GenReuse.lean).

A build script may call `parse()` / `Parser.parse()` once and construct several generators on the object it returned (other
app name, prefix, init flag, output directory, soup-app protocol).  Histories therefore contain, besides everything of
Props/C17Phases.lean, `REv.parse j p` (parsed object number `j`) and `REv.constructOn k j impl o` (generator `k` on object `j`).

 * `C17_parse_then_construct_is_planFix` / `…_is_planSoup`, `C17_construct_is_parse_then_constructOn` — the cut loses nothing:
   for EVERY semantics `construct k i` of Model/GenHistory.lean is `parse k` followed by `constructOn k k`.
 * `C17_constructOn_leaves_parsed_objects` — constructing a generator on a parsed object changes no parsed object.
 * `C17_generate_on_parsed_depends_on_construction_only` — **the output of `generate k` depends only on the spec VALUE that
   was parsed and on the options generator `k` was constructed with — not on what else the parsed object was used for**:
   parse `p` as object `j` in any world; then anything (`evs1`: whole invocations, other parses, constructions ON THE SAME
   OBJECT `j` and on others, their `generate()`s — no process boundary, `j` not parsed again); construct `k` on `j`; then
   anything again (`evs2`, `k` not constructed again); `generate k`: it succeeds and every file it writes is the file the whole
   invocation (that spec, those options) writes alone in a fresh process into an empty directory.
 * `C17_generate_on_parsed_directory_is_fresh` — and the directory / the import of the package are the fresh ones when the
   directory holds nothing else.
Both need `pureGen` and hold for the library as it is (`current`); with parsed `Group` objects that keep their first codegen
context (`memo`, seeded change C16l) they are false: Witness/C17Reuse.lean.
-/
namespace NasdaqModel.Props.C17Reuse
open NasdaqModel GenHistory GenReuse
open NasdaqModel.Props.C17Phases (keepsGen)

/-! ## bookkeeping of the live parsed objects and generator objects -/

private theorem getP_setP_same (l : List (Nat × Parsed)) (k : Nat) (p : Parsed) : getP (setP l k p) k = some p := by
  induction l with
  | nil => simp [setP, getP]
  | cons e rest ih =>
    obtain ⟨j, q⟩ := e
    by_cases hj : j = k
    · simp [setP, getP, hj]
    · simp [setP, getP, hj, ih]

private theorem getP_setP_other (l : List (Nat × Parsed)) (j k : Nat) (p : Parsed) (h : j ≠ k) :
    getP (setP l j p) k = getP l k := by
  induction l with
  | nil => simp [setP, getP, h]
  | cons e rest ih =>
    obtain ⟨m, x⟩ := e
    by_cases hm : m = j
    · subst hm
      simp [setP, getP, h]
    · by_cases hk : m = k
      · subst hk
        simp [setP, getP, hm]
      · simp [setP, getP, hm, hk, ih]

private theorem getGen_setGen_same (l : List (Nat × GenObj)) (k : Nat) (g : GenObj) : getGen (setGen l k g) k = some g := by
  induction l with
  | nil => simp [setGen, getGen]
  | cons e rest ih =>
    obtain ⟨j, h⟩ := e
    by_cases hj : j = k
    · simp [setGen, getGen, hj]
    · simp [setGen, getGen, hj, ih]

private theorem getGen_setGen_other (l : List (Nat × GenObj)) (j k : Nat) (g : GenObj) (h : j ≠ k) :
    getGen (setGen l j g) k = getGen l k := by
  induction l with
  | nil => simp [setGen, getGen, h]
  | cons e rest ih =>
    obtain ⟨m, x⟩ := e
    by_cases hm : m = j
    · subst hm
      simp [setGen, getGen, h]
    · by_cases hk : m = k
      · subst hk
        simp [setGen, getGen, hm]
      · simp [setGen, getGen, hm, hk, ih]

private theorem renderFix_rendered (sem : Semantics) (st : ProcState) (spec : FixSpec) (res : List GenFix.TyCls)
    (rd : Option (List (Nm × Nat))) (o : GenOpts) : (renderFix sem false st spec res rd o).2.1 = rd := by
  simp only [renderFix, evalGroups]
  split <;> rfl

private theorem renderFix_gens (sem : Semantics) (memo : Bool) (st : ProcState) (spec : FixSpec) (res : List GenFix.TyCls)
    (rd : Option (List (Nm × Nat))) (o : GenOpts) : (renderFix sem memo st spec res rd o).1.gens = st.gens := by
  simp only [renderFix]
  split <;> rfl

private theorem parseFix_gens (sem : Semantics) (st : ProcState) (spec : FixSpec) : (parseFix sem st spec).1.gens = st.gens := by
  simp only [parseFix]
  split
  · rfl
  · split <;> rfl

private theorem parseSoup_gens (sem : Semantics) (st : ProcState) (spec : SoupSpec) (ov : Bool) :
    (parseSoup sem st spec ov).1.gens = st.gens := by
  simp only [parseSoup]
  split
  · rfl
  · split <;> rfl

/-- an event that neither ends the process nor parses something under the number `j` -/
def keepsParsed (j : Nat) : REv → Bool
  | .old .newProcess => false
  | .parse j' _ => j' != j
  | _ => true

/-- an event that neither ends the process nor constructs a generator under the number `k` -/
def keepsGenR (k : Nat) : REv → Bool
  | .old e => keepsGen k e
  | .parse _ _ => true
  | .constructOn k' _ _ _ => k' != k

private theorem getP_stepR (sem : Semantics) (rw : RWorld) (j : Nat) (e : REv) (h : keepsParsed j e = true) :
    getP (stepR sem false rw e).parsed j = getP rw.parsed j := by
  cases e with
  | old e =>
    cases e <;> first | rfl | simp [keepsParsed] at h
  | parse j' p =>
    simp only [keepsParsed, bne_iff_ne, ne_eq] at h
    cases p with
    | fix spec =>
      simp only [stepR, parseR]
      cases (parseFix sem rw.w.st spec).2 with
      | error e => rfl
      | ok res => exact getP_setP_other _ _ _ _ h
    | soup spec ov =>
      simp only [stepR, parseR]
      cases (parseSoup sem rw.w.st spec ov).2 with
      | error e => rfl
      | ok res => exact getP_setP_other _ _ _ _ h
  | constructOn k j' impl o =>
    simp only [stepR, constructOn]
    cases hg : getP rw.parsed j' with
    | none => rfl
    | some p =>
      cases p with
      | soup spec ov res => rfl
      | fix spec res rd =>
        simp only [renderFix_rendered]
        have hp : getP (setP rw.parsed j' (.fix spec res rd)) j = getP rw.parsed j := by
          by_cases hj : j' = j
          · subst hj; rw [getP_setP_same, hg]
          · exact getP_setP_other _ _ _ _ hj
        cases (renderFix sem false rw.w.st spec res rd o).2.2 <;> exact hp

/-! ## the cut loses nothing -/

/-- `planFix` (parse, construct, what `generate()` writes) cut at the end of `parse()`: every semantics, every state. -/
theorem C17_parse_then_construct_is_planFix (sem : Semantics) (st : ProcState) (spec : FixSpec) (o : GenOpts) :
    planFix sem st spec o =
      match (parseFix sem st spec).2 with
      | .error e => ((parseFix sem st spec).1, .error e)
      | .ok res => ((renderFix sem false (parseFix sem st spec).1 spec res none o).1,
                    (renderFix sem false (parseFix sem st spec).1 spec res none o).2.2) := by
  simp only [planFix, parseFix]
  cases (typesFor sem st.types spec.version).2 with
  | error e => rfl
  | ok tbl =>
    simp only []
    cases resolveTypes tbl (declared spec) with
    | error e => rfl
    | ok res =>
      simp only [renderFix, evalGroups]
      split <;> rfl

/-- the same for the soup-app generators -/
theorem C17_parse_then_construct_is_planSoup (sem : Semantics) (st : ProcState) (impl : Impl) (spec : SoupSpec) (o : GenOpts) :
    planSoup sem st impl spec o =
      match (parseSoup sem st spec o.override).2 with
      | .error e => ((parseSoup sem st spec o.override).1, .error e)
      | .ok res => ((parseSoup sem st spec o.override).1, .ok (renderSoup sem impl spec res o)) := by
  simp only [planSoup, parseSoup]
  cases resolveAll (match spec.root with | some r => r | none => if sem.resetFieldDefs then [] else st.fieldDefs) spec.uses with
  | error e => rfl
  | ok res =>
    simp only []
    split <;> rfl

private theorem plan_gens (sem : Semantics) (st : ProcState) (i : Inv) : (plan sem st i).1.gens = st.gens := by
  cases i with
  | soup impl spec o =>
    have := planGen_gens sem st (.soup impl spec o)
    simp only [plan]
    cases (planGen sem st (.soup impl spec o)).2 <;> simpa using this
  | fix spec o =>
    have := planGen_gens sem st (.fix spec o)
    simp only [plan]
    cases (planGen sem st (.fix spec o)).2 <;> simpa using this
  | asn1 spec pdu pk o =>
    have := planGen_gens sem st (.asn1 spec pdu pk o)
    simp only [plan]
    cases (planGen sem st (.asn1 spec pdu pk o)).2 <;> simpa using this
  | newProject t n a => simp only [plan, planNewProject]; split <;> rfl
  | userEdit p n => rfl

private theorem getGen_step (sem : Semantics) (w : World) (k : Nat) (e : Ev) (h : keepsGen k e = true) :
    getGen (step sem w e).st.gens k = getGen w.st.gens k := by
  cases e with
  | newProcess => simp [keepsGen] at h
  | inv i =>
    simp only [step, invoke]
    have := plan_gens sem w.st i
    cases hp : (plan sem w.st i).2 <;> simp [this]
  | construct j i =>
    simp only [keepsGen, bne_iff_ne, ne_eq] at h
    simp only [step, construct]
    have := planGen_gens sem w.st i
    cases hp : (planGen sem w.st i).2 with
    | error e => simp [this]
    | ok rp => simp [this, getGen_setGen_other _ _ _ _ h]
  | generate j =>
    simp only [step, generate]
    cases getGen w.st.gens j <;> rfl

private theorem getGen_stepR (sem : Semantics) (memo : Bool) (rw : RWorld) (k : Nat) (e : REv) (h : keepsGenR k e = true) :
    getGen (stepR sem memo rw e).w.st.gens k = getGen rw.w.st.gens k := by
  cases e with
  | old e => exact getGen_step sem rw.w k e h
  | parse j p =>
    cases p with
    | fix spec =>
      simp only [stepR, parseR]
      cases (parseFix sem rw.w.st spec).2 <;> simp [parseFix_gens]
    | soup spec ov =>
      simp only [stepR, parseR]
      cases (parseSoup sem rw.w.st spec ov).2 <;> simp [parseSoup_gens]
  | constructOn k' j impl o =>
    simp only [keepsGenR, bne_iff_ne, ne_eq] at h
    simp only [stepR, constructOn]
    cases getP rw.parsed j with
    | none => rfl
    | some p =>
      cases p with
      | soup spec ov res => simp [getGen_setGen_other _ _ _ _ h]
      | fix spec res rd =>
        simp only []
        cases (renderFix sem memo rw.w.st spec res rd o).2.2 with
        | error e => simp [renderFix_gens]
        | ok rp => simp [renderFix_gens, getGen_setGen_other _ _ _ _ h]

private theorem getP_runR (sem : Semantics) (j : Nat) (evs : List REv) (h : evs.all (keepsParsed j) = true) (rw : RWorld) :
    getP (runR sem false rw evs).parsed j = getP rw.parsed j := by
  induction evs generalizing rw with
  | nil => rfl
  | cons e rest ih =>
    simp only [List.all_cons, Bool.and_eq_true] at h
    simp only [runR, List.foldl_cons] at ih ⊢
    rw [ih h.2, getP_stepR sem rw j e h.1]

private theorem getGen_runR (sem : Semantics) (memo : Bool) (k : Nat) (evs : List REv) (h : evs.all (keepsGenR k) = true) (rw : RWorld) :
    getGen (runR sem memo rw evs).w.st.gens k = getGen rw.w.st.gens k := by
  induction evs generalizing rw with
  | nil => rfl
  | cons e rest ih =>
    simp only [List.all_cons, Bool.and_eq_true] at h
    simp only [runR, List.foldl_cons] at ih ⊢
    rw [ih h.2, getGen_stepR sem memo rw k e h.1]

/-! pure semantics: both halves are independent of the process state -/
private theorem parseFix_indep (sem : Semantics) (hp : pureGen sem = true) (st : ProcState) (spec : FixSpec) :
    (parseFix sem st spec).2 = (parseFix sem st0 spec).2 := by
  obtain ⟨_, _, _, _, _, h6⟩ := pure_flags hp
  simp only [parseFix, typesFor, h6, if_true]
  cases tableOf spec.version with
  | error e => rfl
  | ok tbl =>
    simp only []
    cases resolveTypes tbl (declared spec) <;> rfl

private theorem parseSoup_indep (sem : Semantics) (hp : pureGen sem = true) (st : ProcState) (spec : SoupSpec) (ov : Bool) :
    (parseSoup sem st spec ov).2 = (parseSoup sem st0 spec ov).2 := by
  obtain ⟨_, h2, _, _, _, _⟩ := pure_flags hp
  simp only [parseSoup, h2, if_true]
  split
  · rfl
  · split <;> rfl

private theorem renderFix_indep (sem : Semantics) (hp : pureGen sem = true) (memo : Bool) (st st' : ProcState) (spec : FixSpec)
    (res : List GenFix.TyCls) (rd : Option (List (Nm × Nat))) (o : GenOpts) :
    (renderFix sem memo st spec res rd o).2 = (renderFix sem memo st' spec res rd o).2 := by
  obtain ⟨_, _, h3, h4, _, _⟩ := pure_flags hp
  simp only [renderFix, h3, h4, if_true]
  split <;> rfl

/-- a whole FIX invocation in a fresh process = render of what its parse gives -/
private theorem planFix_of_parse (sem : Semantics) (hp : pureGen sem = true) (st st' : ProcState) (spec : FixSpec) (o : GenOpts)
    (res : List GenFix.TyCls) (h : (parseFix sem st spec).2 = .ok res) :
    (planFix sem st0 spec o).2 = (renderFix sem false st' spec res none o).2.2 := by
  rw [parseFix_indep sem hp] at h
  rw [C17_parse_then_construct_is_planFix, h]
  simp only []
  rw [renderFix_indep sem hp false _ st']

private theorem planSoup_of_parse (sem : Semantics) (hp : pureGen sem = true) (st : ProcState) (impl : Impl) (spec : SoupSpec) (o : GenOpts)
    (ov : Bool) (res : List Nat) (h : (parseSoup sem st spec ov).2 = .ok res) :
    (planSoup sem st0 impl spec { o with override := ov }).2 = .ok (renderSoup sem impl spec res o) := by
  rw [parseSoup_indep sem hp] at h
  rw [C17_parse_then_construct_is_planSoup]
  simp only [h]
  rfl

/-- parsed object `p` is what parsing `ps` gives (in a fresh process: under `pureGen`, in any process) -/
def FromParse (sem : Semantics) : PSpec → Parsed → Prop
  | .fix spec, .fix spec' res rd => spec' = spec ∧ rd = none ∧ (parseFix sem st0 spec).2 = .ok res
  | .soup spec ov, .soup spec' ov' res => spec' = spec ∧ ov' = ov ∧ (parseSoup sem st0 spec ov).2 = .ok res
  | _, _ => False

private theorem parseR_ok (sem : Semantics) (hp : pureGen sem = true) (rw : RWorld) (j : Nat) (ps : PSpec)
    (hok : (parseR sem rw j ps).2 = .ok ()) :
    ∃ p, getP (parseR sem rw j ps).1.parsed j = some p ∧ FromParse sem ps p := by
  cases ps with
  | fix spec =>
    simp only [parseR] at hok ⊢
    cases h : (parseFix sem rw.w.st spec).2 with
    | error e => simp [h] at hok
    | ok res =>
      refine ⟨.fix spec res none, ?_, rfl, rfl, ?_⟩
      · simp [getP_setP_same]
      · rw [← parseFix_indep sem hp]; exact h
  | soup spec ov =>
    simp only [parseR] at hok ⊢
    cases h : (parseSoup sem rw.w.st spec ov).2 with
    | error e => simp [h] at hok
    | ok res =>
      refine ⟨.soup spec ov res, ?_, rfl, rfl, ?_⟩
      · simp [getP_setP_same]
      · rw [← parseSoup_indep sem hp]; exact h

private theorem sharedGroupsOf_pure (sem : Semantics) (hp : pureGen sem = true) (i : Inv) : sharedGroupsOf sem i = none := by
  obtain ⟨_, _, h3, _, h5, _⟩ := pure_flags hp
  cases i <;> simp [sharedGroupsOf, h3, h5]

private theorem constructOn_of_parsed (sem : Semantics) (hp : pureGen sem = true) (rw : RWorld) (k j : Nat) (impl : Impl) (o : GenOpts)
    (ps : PSpec) (p : Parsed) (hget : getP rw.parsed j = some p) (hfrom : FromParse sem ps p) :
    ((constructOn sem false rw k j impl o).2 = match (planGen sem st0 (ps.inv impl o)).2 with
        | .ok _ => .ok () | .error e => .error e)
    ∧ ∀ rp, (planGen sem st0 (ps.inv impl o)).2 = .ok rp →
        getGen (constructOn sem false rw k j impl o).1.w.st.gens k = some ⟨(ps.inv impl o).dir, rp.acts, rp.modules, none⟩ := by
  cases ps with
  | fix spec =>
    cases p with
    | soup s' ov' res => exact absurd hfrom (by simp [FromParse])
    | fix spec' res rd =>
      obtain ⟨h1, h2, h3⟩ := hfrom
      subst h1; subst h2
      have hpl := planFix_of_parse sem hp st0 rw.w.st spec' o res h3
      simp only [PSpec.inv, planGen, hpl, constructOn, hget, Inv.dir]
      cases hr : (renderFix sem false rw.w.st spec' res none o).2.2 with
      | error e => exact ⟨rfl, fun rp h => by cases h⟩
      | ok rp =>
        refine ⟨rfl, fun rp' h => ?_⟩
        injection h with h; subst h
        simp [getGen_setGen_same, objOf, sharedGroupsOf_pure sem hp, Inv.dir]
  | soup spec ov =>
    cases p with
    | fix s' res rd => exact absurd hfrom (by simp [FromParse])
    | soup spec' ov' res =>
      obtain ⟨h1, h2, h3⟩ := hfrom
      subst h1; subst h2
      have hpl := planSoup_of_parse sem hp st0 impl spec' o ov' res h3
      simp only [PSpec.inv, planGen, hpl, constructOn, hget, Inv.dir]
      refine ⟨trivial, fun rp' h => ?_⟩
      injection h with h; subst h
      simp [getGen_setGen_same, objOf, sharedGroupsOf_pure sem hp, Inv.dir]

private theorem invoke_gen (sem : Semantics) (w : World) (i : Inv) (hg : i.isGen = true) :
    invoke sem w i =
      match (planGen sem w.st i).2 with
      | .ok rp => (⟨(planGen sem w.st i).1, applyPlan w.fs (rp.at i.dir)⟩, .ok ())
      | .error e => (⟨(planGen sem w.st i).1, w.fs⟩, .error e) := by
  cases i with
  | soup impl spec o => simp only [invoke, plan]; cases (planGen sem w.st _).2 <;> rfl
  | fix spec o => simp only [invoke, plan]; cases (planGen sem w.st _).2 <;> rfl
  | asn1 spec pdu pk o => simp only [invoke, plan]; cases (planGen sem w.st _).2 <;> rfl
  | newProject t n a => simp [Inv.isGen] at hg
  | userEdit p n => simp [Inv.isGen] at hg

private theorem inv_isGen (ps : PSpec) (impl : Impl) (o : GenOpts) : (ps.inv impl o).isGen = true := by
  cases ps <;> rfl

/-- the generator object `k` holds when `generate k` runs -/
private theorem obj_at_generate (sem : Semantics) (hp : pureGen sem = true) (rw : RWorld) (j k : Nat) (ps : PSpec) (impl : Impl)
    (o : GenOpts) (evs1 evs2 : List REv) (h1 : evs1.all (keepsParsed j) = true) (h2 : evs2.all (keepsGenR k) = true)
    (hokp : (parseR sem rw j ps).2 = .ok ())
    (hokc : (constructOn sem false (runR sem false (parseR sem rw j ps).1 evs1) k j impl o).2 = .ok ()) :
    ∃ rp, (planGen sem st0 (ps.inv impl o)).2 = .ok rp ∧
      getGen (runR sem false (constructOn sem false (runR sem false (parseR sem rw j ps).1 evs1) k j impl o).1 evs2).w.st.gens k
        = some ⟨(ps.inv impl o).dir, rp.acts, rp.modules, none⟩ := by
  obtain ⟨p, hget0, hfrom⟩ := parseR_ok sem hp rw j ps hokp
  have hget1 : getP (runR sem false (parseR sem rw j ps).1 evs1).parsed j = some p := by
    rw [getP_runR sem j evs1 h1]; exact hget0
  obtain ⟨hout, hobj⟩ := constructOn_of_parsed sem hp _ k j impl o ps p hget1 hfrom
  rw [hokc] at hout
  cases hrp : (planGen sem st0 (ps.inv impl o)).2 with
  | error e => simp [hrp] at hout
  | ok rp =>
    refine ⟨rp, rfl, ?_⟩
    rw [getGen_runR sem false k evs2 h2]
    exact hobj rp hrp


private theorem plan_of_planGen (sem : Semantics) (st : ProcState) (i : Inv) (hg : i.isGen = true) :
    (plan sem st i).2 = match (planGen sem st i).2 with | .ok rp => .ok (rp.at i.dir) | .error e => .error e := by
  cases i with
  | soup impl spec o => simp only [plan]; cases (planGen sem st _).2 <;> rfl
  | fix spec o => simp only [plan]; cases (planGen sem st _).2 <;> rfl
  | asn1 spec pdu pk o => simp only [plan]; cases (planGen sem st _).2 <;> rfl
  | newProject t n a => simp [Inv.isGen] at hg
  | userEdit p n => simp [Inv.isGen] at hg


private theorem renderFix_wipe (sem : Semantics) (memo : Bool) (st : ProcState) (spec : FixSpec) (res : List GenFix.TyCls)
    (rd : Option (List (Nm × Nat))) (o : GenOpts) (rp : RelPlan) (h : (renderFix sem memo st spec res rd o).2.2 = .ok rp) :
    rp.wipe = false := by
  simp only [renderFix] at h
  split at h
  · cases h
  · injection h with h; subst h; rfl


/-! ## the public statements -/

/-- For EVERY semantics: `construct k i` of Model/GenHistory.lean (parse + generator object, one event) is `parse k` followed by
    `constructOn k k` — same outcome, same world (process state, live generator objects, file system). -/
theorem C17_construct_is_parse_then_constructOn (sem : Semantics) (rw : RWorld) (k : Nat) (ps : PSpec) (impl : Impl) (o : GenOpts) :
    construct sem rw.w k (ps.inv impl o) =
      match (parseR sem rw k ps).2 with
      | .error e => ((parseR sem rw k ps).1.w, .error e)
      | .ok _ => ((constructOn sem false (parseR sem rw k ps).1 k k impl o).1.w,
                  (constructOn sem false (parseR sem rw k ps).1 k k impl o).2) := by
  cases ps with
  | fix spec =>
    simp only [PSpec.inv, construct, planGen, C17_parse_then_construct_is_planFix, parseR]
    cases hpr : (parseFix sem rw.w.st spec).2 with
    | error e => rfl
    | ok res =>
      simp only [constructOn, getP_setP_same]
      cases hr : (renderFix sem false (parseFix sem rw.w.st spec).1 spec res none o).2.2 with
      | error e => rfl
      | ok rp =>
        have hw := renderFix_wipe _ _ _ _ _ _ _ _ hr
        simp [hw, objOf, Inv.dir]
  | soup spec ov =>
    simp only [PSpec.inv, construct, planGen, C17_parse_then_construct_is_planSoup, parseR]
    cases hpr : (parseSoup sem rw.w.st spec ov).2 with
    | error e => rfl
    | ok res =>
      simp only [constructOn, getP_setP_same]
      simp [objOf, Inv.dir, renderSoup]

/-- **Main theorem** (statement in the header). -/
theorem C17_generate_on_parsed_depends_on_construction_only_of_pure (sem : Semantics) (hp : pureGen sem = true) (rw : RWorld) (j k : Nat) (ps : PSpec) (impl : Impl)
    (o : GenOpts) (evs1 evs2 : List REv) (h1 : evs1.all (keepsParsed j) = true) (h2 : evs2.all (keepsGenR k) = true)
    (hokp : (parseR sem rw j ps).2 = .ok ())
    (hokc : (constructOn sem false (runR sem false (parseR sem rw j ps).1 evs1) k j impl o).2 = .ok ()) :
    let i := ps.inv impl o
    let rw2 := runR sem false (constructOn sem false (runR sem false (parseR sem rw j ps).1 evs1) k j impl o).1 evs2
    (generateR sem rw2 k).2 = .ok ()
    ∧ (invoke sem w0 i).2 = .ok ()
    ∧ ∀ n, n ∈ targetNames i → read (generateR sem rw2 k).1.w.fs (i.dir, n) = read (invoke sem w0 i).1.fs (i.dir, n) := by
  intro i rw2
  obtain ⟨rp, hrp, hobj⟩ := obj_at_generate sem hp rw j k ps impl o evs1 evs2 h1 h2 hokp hokc
  have hg := inv_isGen ps impl o
  have htr := planGen_acts_trunc sem hp st0 i rp hrp
  have hnm := planGen_acts_names sem st0 i hg rp hrp
  refine ⟨?_, ?_, ?_⟩
  · show (generate sem rw2.w k).2 = .ok ()
    simp only [generate]
    rw [show getGen rw2.w.st.gens k = _ from hobj]
  · rw [invoke_gen sem w0 i hg]
    simp only [w0]
    rw [show (planGen sem st0 i).2 = _ from hrp]
  · intro n hn
    have hsome := lastByName_some rp.acts n (by rw [hnm]; exact hn)
    rw [invoke_gen sem w0 i hg]
    show read (generate sem rw2.w k).1.fs (i.dir, n) = _
    simp only [generate]
    rw [show getGen rw2.w.st.gens k = _ from hobj]
    simp only [GenObj.actsNow, w0]
    rw [show (planGen sem st0 i).2 = _ from hrp]
    simp only [applyPlan, RelPlan.at]
    rw [read_applyActs_trunc _ _ htr, read_applyActs_trunc _ _ htr]
    cases hl : lastByName rp.acts n with
    | some cs => rfl
    | none => simp [hl] at hsome

/-- If, moreover, the directory holds nothing but (possibly) files of the same target when `generate k` runs, the directory is
    the fresh one and the package imports exactly as the fresh one does. -/
theorem C17_generate_on_parsed_directory_is_fresh_of_pure (sem : Semantics) (hp : pureGen sem = true) (rw : RWorld) (j k : Nat) (ps : PSpec) (impl : Impl)
    (o : GenOpts) (evs1 evs2 : List REv) (h1 : evs1.all (keepsParsed j) = true) (h2 : evs2.all (keepsGenR k) = true)
    (hokp : (parseR sem rw j ps).2 = .ok ())
    (hokc : (constructOn sem false (runR sem false (parseR sem rw j ps).1 evs1) k j impl o).2 = .ok ())
    (hdir : dirOnly (runR sem false (constructOn sem false (runR sem false (parseR sem rw j ps).1 evs1) k j impl o).1 evs2).w.fs
              (ps.inv impl o).dir (targetNames (ps.inv impl o)) = true) :
    let i := ps.inv impl o
    let rw2 := runR sem false (constructOn sem false (runR sem false (parseR sem rw j ps).1 evs1) k j impl o).1 evs2
    dirView (generateR sem rw2 k).1.w.fs i.dir = dirView (invoke sem w0 i).1.fs i.dir
    ∧ importAfterGenerate sem rw2.w k = importAfter sem w0 i := by
  intro i rw2
  obtain ⟨rp, hrp, hobj⟩ := obj_at_generate sem hp rw j k ps impl o evs1 evs2 h1 h2 hokp hokc
  have hg := inv_isGen ps impl o
  have htr := planGen_acts_trunc sem hp st0 i rp hrp
  have hnm := planGen_acts_names sem st0 i hg rp hrp
  have hobj' : getGen rw2.w.st.gens k = some ⟨i.dir, rp.acts, rp.modules, none⟩ := hobj
  have hrp' : (planGen sem st0 i).2 = .ok rp := hrp
  have hnot : ∀ n, lastByName rp.acts n = none → n ∉ targetNames i := by
    intro n hl hin
    rw [← hnm] at hin
    have := lastByName_some rp.acts n hin
    simp [hl] at this
  have v1 : dirView (generateR sem rw2 k).1.w.fs i.dir = lastByName rp.acts := by
    funext n
    show read (generate sem rw2.w k).1.fs (i.dir, n) = _
    simp only [generate, hobj', GenObj.actsNow]
    rw [read_applyActs_trunc _ _ htr]
    cases hl : lastByName rp.acts n with
    | some cs => rfl
    | none => exact read_none_of_dirOnly _ _ _ hdir n (hnot n hl)
  have v0 : dirView (invoke sem w0 i).1.fs i.dir = lastByName rp.acts := by
    funext n
    rw [invoke_gen sem w0 i hg]
    simp only [dirView, w0, hrp', applyPlan, RelPlan.at]
    rw [read_applyActs_trunc _ _ htr]
    cases hl : lastByName rp.acts n with
    | some cs => rfl
    | none =>
      simp only []
      cases hw : rp.wipe <;> simp [wipe]
  refine ⟨by rw [v1, v0], ?_⟩
  have hplan : (plan sem w0.st i).2 = .ok (rp.at i.dir) := by
    rw [show w0.st = st0 from rfl, plan_of_planGen sem st0 i hg, hrp']
  have v1' : dirView (generate sem rw2.w k).1.fs i.dir = lastByName rp.acts := v1
  simp only [importAfterGenerate, hobj', importAfter, hplan, RelPlan.at]
  rw [v1', v0]

/-- Constructing a generator on a parsed object changes no parsed object (the library: `memo := false`) — the step lemma the
    main theorem rests on, for every semantics. -/
theorem C17_constructOn_leaves_parsed_objects (sem : Semantics) (rw : RWorld) (k j j' : Nat) (impl : Impl) (o : GenOpts) :
    getP (constructOn sem false rw k j impl o).1.parsed j' = getP rw.parsed j' :=
  getP_stepR sem rw j' (.constructOn k j impl o) rfl

/-! ## for the library as it is now -/

theorem C17_generate_on_parsed_depends_on_construction_only (rw : RWorld) (j k : Nat) (ps : PSpec) (impl : Impl)
    (o : GenOpts) (evs1 evs2 : List REv) (h1 : evs1.all (keepsParsed j) = true) (h2 : evs2.all (keepsGenR k) = true)
    (hokp : (parseR current rw j ps).2 = .ok ())
    (hokc : (constructOn current false (runR current false (parseR current rw j ps).1 evs1) k j impl o).2 = .ok ()) :
    let i := ps.inv impl o
    let rw2 := runR current false (constructOn current false (runR current false (parseR current rw j ps).1 evs1) k j impl o).1 evs2
    (generateR current rw2 k).2 = .ok ()
    ∧ (invoke current w0 i).2 = .ok ()
    ∧ ∀ n, n ∈ targetNames i → read (generateR current rw2 k).1.w.fs (i.dir, n) = read (invoke current w0 i).1.fs (i.dir, n) :=
  C17_generate_on_parsed_depends_on_construction_only_of_pure current (by decide) rw j k ps impl o evs1 evs2 h1 h2 hokp hokc

theorem C17_generate_on_parsed_directory_is_fresh (rw : RWorld) (j k : Nat) (ps : PSpec) (impl : Impl)
    (o : GenOpts) (evs1 evs2 : List REv) (h1 : evs1.all (keepsParsed j) = true) (h2 : evs2.all (keepsGenR k) = true)
    (hokp : (parseR current rw j ps).2 = .ok ())
    (hokc : (constructOn current false (runR current false (parseR current rw j ps).1 evs1) k j impl o).2 = .ok ())
    (hdir : dirOnly (runR current false (constructOn current false (runR current false (parseR current rw j ps).1 evs1) k j impl o).1 evs2).w.fs
              (ps.inv impl o).dir (targetNames (ps.inv impl o)) = true) :
    let i := ps.inv impl o
    let rw2 := runR current false (constructOn current false (runR current false (parseR current rw j ps).1 evs1) k j impl o).1 evs2
    dirView (generateR current rw2 k).1.w.fs i.dir = dirView (invoke current w0 i).1.fs i.dir
    ∧ importAfterGenerate current rw2.w k = importAfter current w0 i :=
  C17_generate_on_parsed_directory_is_fresh_of_pure current (by decide) rw j k ps impl o evs1 evs2 h1 h2 hokp hokc hdir

/-! ## non-vacuity -/
section examples
private def optsG (d : Nat) : GenOpts := ⟨[103], [], true, .out d, true⟩
private def optsH (d : Nat) : GenOpts := ⟨[104], [112], false, .out d, true⟩
private def fixA : FixSpec := ⟨1, 44, [1, 2], [1], [.mk 1 [2] [.mk 2 [1] []]], [1, 2]⟩
private def fixB : FixSpec := ⟨2, 44, [3], [3], [.mk 1 [3] []], [1]⟩
private def soupA : SoupSpec := ⟨1, some [(1, 0), (2, 1)], [1, 2], [65, 66]⟩
/-- the parsed object is used by another generator, which writes, and another dictionary is generated, before generator 1 is
    constructed on it -/
private def before : List REv :=
  [.constructOn 0 0 .itch (optsG 1), .old (.generate 0), .old (.inv (.fix fixB (optsG 3))), .parse 5 (.fix fixB)]
private def between : List REv := [.constructOn 2 0 .itch (optsG 4), .old (.generate 2), .old (.generate 0)]
example : (parseR current rw0 0 (.fix fixA)).2 = .ok () := by decide
example : before.all (keepsParsed 0) = true := by decide
example : between.all (keepsGenR 1) = true := by decide
example : (constructOn current false (runR current false (parseR current rw0 0 (.fix fixA)).1 before) 1 0 .itch (optsH 2)).2 = .ok () := by
  decide
example : dirOnly (runR current false (constructOn current false (runR current false (parseR current rw0 0 (.fix fixA)).1 before)
    1 0 .itch (optsH 2)).1 between).w.fs (.out 2) (targetNames (.fix fixA (optsH 2))) = true := by decide
example : importAfterGenerate current (runR current false (constructOn current false
    (runR current false (parseR current rw0 0 (.fix fixA)).1 before) 1 0 .itch (optsH 2)).1 between).w 1 = .ok () := by decide
-- soup-app: one `Parser.parse` result, an ITCH and an OUCH generator
example : (parseR current rw0 0 (.soup soupA true)).2 = .ok () := by decide
example : (constructOn current false (runR current false (parseR current rw0 0 (.soup soupA true)).1
    [.constructOn 0 0 .itch (optsG 1), .old (.generate 0)]) 1 0 .ouch (optsH 2)).2 = .ok () := by decide
end examples

end NasdaqModel.Props.C17Reuse
