import NasdaqModel.Lemmas.FixSharedBridge
import NasdaqModel.Lemmas.FixSharedAnchor
import NasdaqModel.Lemmas.FixSharedNec
/-
C13 at the strength of the statement: dictionaries whose repeating groups SHARE tags with their surroundings (W-C13S).

`Props/C13.lean` / `C13Anchor.lean` prove the round trip for `wfDef d` (ALL tags of a message class pairwise distinct, nested groups
included); the library's own test dictionary (body fields 1, 2 + group 22[1, 2]) is outside it.  `Props/C13Shared.lean` (W-S5) named
the larger domain - `wfDefShared d` (header / body / trailer disjoint; the entries of ONE level distinct, tags may recur at other
levels) and `countEnds d m` (value dependent: the tag that follows a group instance on the wire is no entry of its group or the
instance holds it already, so the announced COUNT is what ends the group) - and decided four instances.  Here the round trip is proved
for EVERY dictionary and message of that domain.

Hypotheses (all decidable):
  wfDefShared d / countEnds d m   - W-S5's predicates as they stand (their recursion is fuel bounded: nesting depth ≤ 8);
  wfDefLevels d / countEndsS d m  - the fuel-free forms the proofs run on (`Lemmas/FixShared.lean`, `FixSharedAux.lean`), ANY nesting
                                    depth: `ldLevel` of the three segments; `levelOK` + `ceTop` per segment.  `wfDefShared → wfDefLevels`
                                    and, under it, `countEnds → countEndsS` (`Lemmas/FixSharedBridge.lean`).  Disjointness of the three
                                    segments is not needed once `countEndsS` holds (its top-level clause says the first tag of the next
                                    segment ends this one), so the `…_levels` theorems are the stronger ones;
  wfMsg d m, getMsgType …, lookupReg … - as in `Props/C13.lean`.
What is proved:
  * sufficiency   - `C13Shared_roundtrip` (+ `_levels`), re-encode / `==` / encodes / class, `C13Shared_statement`;
  * necessity     - `C13Shared_countEnds_necessary`, `C13Shared_roundtrip_iff` (round trip ⟺ `countEndsS`),
                    `C13Shared_roundtrip_iff_countEnds`, `C13Shared_violating_countEnds` (W-S5's predicate, on its domain);
  * any header    - `C13Shared_statement_any_order` (+ `_levels`): MsgType anywhere in the header, with ONE more hypothesis that shared
                    tags make necessary: tag 35 is not nested inside a header group (`C13Shared_msgtype_nested_35`, replayed on the
                    implementation: `Message.from_bytes` raises KeyError('X') on `627=1|35=X|35=D|58=a|`);
  * the old domain (`wfDef`) is inside the new one (`C13Shared_extends_wfDef_levels`).
Not needed by any theorem: "a tag has the same field type wherever it occurs" and "count tags occur once" (`dict_ok` of harness/c13.py
asks for them; in the model every level has its own table, the implementation keeps process-global registries).
Only property theorems and non-vacuity examples live here.
-/
namespace NasdaqModel.Props.C13SharedGen
open NasdaqModel Py Fix Props.C13Shared

/-- **Round trip, any nesting depth, tags shared between levels** (fuel-free hypotheses).  Decoding the bytes of a well-formed
    message through the base class yields the class registered for its MsgType, consumes every byte and returns the message in
    canonical form - for every dictionary whose levels have distinct tags and every message in which the count ends every group. -/
theorem C13Shared_roundtrip_levels (reg : List MsgDef) (d : MsgDef) (m : Msg) (bs : Bytes)
    (hd : wfDefLevels d = true) (hm : wfMsg d m = true) (hc : countEndsS d m = true) (henc : encMsg d m = .ok bs)
    (hty : getMsgType bs = .ok d.type) (hreg : lookupReg reg d.type = some d) :
    decodeMsg reg bs = .ok (bs.length, d, canonMsg d m) :=
  decodeMsg_shared reg d m bs hd hm hc henc hty hreg

/-- **Round trip on W-S5's domain**: `wfDefShared d`, `wfMsg d m`, `countEnds d m`. -/
theorem C13Shared_roundtrip (reg : List MsgDef) (d : MsgDef) (m : Msg) (bs : Bytes)
    (hd : wfDefShared d = true) (hm : wfMsg d m = true) (hc : countEnds d m = true) (henc : encMsg d m = .ok bs)
    (hty : getMsgType bs = .ok d.type) (hreg : lookupReg reg d.type = some d) :
    decodeMsg reg bs = .ok (bs.length, d, canonMsg d m) :=
  decodeMsg_shared reg d m bs (wfDefShared_levels hd) hm (countEnds_S (wfDefShared_levels hd) hc) henc hty hreg

/-- **Re-encode**: the decoded message encodes to the same bytes as the original (no condition on the message). -/
theorem C13Shared_reencode (d : MsgDef) (m : Msg) (hd : wfDefShared d = true) : encMsg d (canonMsg d m) = encMsg d m :=
  encMsg_canonS d m (wfDefShared_levels hd)

/-- **Equality**: the decoded message compares `==` (`Message.__eq__` of the code as it is) to the original. -/
theorem C13Shared_eq_original (d : MsgDef) (m : Msg) (hd : wfDefShared d = true) (hm : wfMsg d m = true) :
    pyEqDict (canonMsg d m) m = true :=
  pyEqDict_canonS d m (wfDefShared_levels hd) hm

/-- **Encoding never raises** on a message built from valid values. -/
theorem C13Shared_encodes (d : MsgDef) (m : Msg) (hd : wfDefShared d = true) (hm : wfMsg d m = true) : ∃ bs, encMsg d m = .ok bs :=
  encMsg_okS d m (wfDefShared_levels hd) hm

/-- **Class**: whatever `decodeMsg` returns for the bytes is the class registered for the type, every byte consumed. -/
theorem C13Shared_class (reg : List MsgDef) (d : MsgDef) (m : Msg) (bs : Bytes)
    (hd : wfDefShared d = true) (hm : wfMsg d m = true) (hc : countEnds d m = true) (henc : encMsg d m = .ok bs)
    (hty : getMsgType bs = .ok d.type) (hreg : lookupReg reg d.type = some d)
    (n : Nat) (d' : MsgDef) (m' : Msg) (hdec : decodeMsg reg bs = .ok (n, d', m')) :
    d' = d ∧ n = bs.length := by
  rw [C13Shared_roundtrip reg d m bs hd hm hc henc hty hreg] at hdec
  injection hdec with h
  injection h with h1 h2
  injection h2 with h2 h3
  exact ⟨h2.symm, h1.symm⟩

/-- **The statement of C13 in one piece on the shared-tag domain** (shape of `C13_statement`; MsgType read from the bytes): the
    message encodes; the bytes decode to the registered class, every byte consumed, to the canonical form of the message; that form
    re-encodes to the same bytes and compares `==` to the original. -/
theorem C13Shared_statement (reg : List MsgDef) (d : MsgDef) (m : Msg) (hd : wfDefShared d = true) (hm : wfMsg d m = true)
    (hc : countEnds d m = true) (hty : ∀ bs, encMsg d m = .ok bs → getMsgType bs = .ok d.type)
    (hreg : lookupReg reg d.type = some d) :
    ∃ bs, encMsg d m = .ok bs ∧ decodeMsg reg bs = .ok (bs.length, d, canonMsg d m) ∧
      encMsg d (canonMsg d m) = .ok bs ∧ pyEqDict (canonMsg d m) m = true := by
  obtain ⟨bs, henc⟩ := C13Shared_encodes d m hd hm
  exact ⟨bs, henc, C13Shared_roundtrip reg d m bs hd hm hc henc (hty bs henc) hreg,
    by rw [C13Shared_reencode d m hd]; exact henc, C13Shared_eq_original d m hd hm⟩

/-- the same with the fuel-free hypotheses (any nesting depth; segments need not be disjoint) -/
theorem C13Shared_statement_levels (reg : List MsgDef) (d : MsgDef) (m : Msg) (hd : wfDefLevels d = true) (hm : wfMsg d m = true)
    (hc : countEndsS d m = true) (hty : ∀ bs, encMsg d m = .ok bs → getMsgType bs = .ok d.type)
    (hreg : lookupReg reg d.type = some d) :
    ∃ bs, encMsg d m = .ok bs ∧ decodeMsg reg bs = .ok (bs.length, d, canonMsg d m) ∧
      encMsg d (canonMsg d m) = .ok bs ∧ pyEqDict (canonMsg d m) m = true := by
  obtain ⟨bs, henc⟩ := encMsg_okS d m hd hm
  exact ⟨bs, henc, decodeMsg_shared reg d m bs hd hm hc henc (hty bs henc) hreg,
    by rw [encMsg_canonS d m hd]; exact henc, pyEqDict_canonS d m hd hm⟩

/-- **The condition is necessary** (general form of W-S5's decided `C13_shared_ambiguous_is_excluded`): in a level-distinct
    dictionary, whenever the bytes of a well-formed message decode to the message's canonical form - whatever number of bytes is
    reported as consumed - the count is what ends every group of the message.  A message violating `countEndsS` does not round-trip. -/
theorem C13Shared_countEnds_necessary (reg : List MsgDef) (d : MsgDef) (m : Msg) (bs : Bytes) (n : Nat)
    (hd : wfDefLevels d = true) (hm : wfMsg d m = true) (henc : encMsg d m = .ok bs)
    (hty : getMsgType bs = .ok d.type) (hreg : lookupReg reg d.type = some d)
    (hdec : decodeMsg reg bs = .ok (n, d, canonMsg d m)) : countEndsS d m = true :=
  countEndsS_of_decode reg d m bs n hd hm henc hty hreg hdec

/-- **Round trip ⟺ the count ends every group**, any nesting depth: `countEndsS` is exactly the set of messages of a level-distinct
    dictionary that survive `decode ∘ encode`. -/
theorem C13Shared_roundtrip_iff (reg : List MsgDef) (d : MsgDef) (m : Msg) (bs : Bytes)
    (hd : wfDefLevels d = true) (hm : wfMsg d m = true) (henc : encMsg d m = .ok bs)
    (hty : getMsgType bs = .ok d.type) (hreg : lookupReg reg d.type = some d) :
    decodeMsg reg bs = .ok (bs.length, d, canonMsg d m) ↔ countEndsS d m = true :=
  ⟨fun h => countEndsS_of_decode reg d m bs _ hd hm henc hty hreg h,
   fun h => decodeMsg_shared reg d m bs hd hm h henc hty hreg⟩

/-- inside W-S5's domain the fuel-bounded condition and the fuel-free one are the same predicate -/
theorem C13Shared_countEnds_iff (d : MsgDef) (m : Msg) (hd : wfDefShared d = true) (hm : wfMsg d m = true) :
    countEnds d m = true ↔ countEndsS d m = true :=
  countEnds_iff_S hd hm

/-- **Round trip ⟺ `countEnds`** on W-S5's domain: `countEnds` is necessary and sufficient. -/
theorem C13Shared_roundtrip_iff_countEnds (reg : List MsgDef) (d : MsgDef) (m : Msg) (bs : Bytes)
    (hd : wfDefShared d = true) (hm : wfMsg d m = true) (henc : encMsg d m = .ok bs)
    (hty : getMsgType bs = .ok d.type) (hreg : lookupReg reg d.type = some d) :
    decodeMsg reg bs = .ok (bs.length, d, canonMsg d m) ↔ countEnds d m = true :=
  (C13Shared_roundtrip_iff reg d m bs (wfDefShared_levels hd) hm henc hty hreg).trans (countEnds_iff_S hd hm).symm

/-- **A message violating `countEnds` does not round-trip** (W-S5's `orderAmbiguous`, for every dictionary and message of the
    domain): the decoder does not return the canonical form, whatever length it reports. -/
theorem C13Shared_violating_countEnds (reg : List MsgDef) (d : MsgDef) (m : Msg) (bs : Bytes) (n : Nat)
    (hd : wfDefShared d = true) (hm : wfMsg d m = true) (hc : countEnds d m = false) (henc : encMsg d m = .ok bs)
    (hty : getMsgType bs = .ok d.type) (hreg : lookupReg reg d.type = some d) :
    decodeMsg reg bs ≠ .ok (n, d, canonMsg d m) := by
  intro h
  have := (countEnds_iff_S hd hm).mpr
    (countEndsS_of_decode reg d m bs n (wfDefShared_levels hd) hm henc hty hreg h)
  rw [hc] at this
  exact absurd this (by simp)

/-- **MsgType, any assignment order, shared tags.**  The header holds `35 = <the class's type>` at any position and tag 35 does not
    occur INSIDE a header group (`h35`; with pairwise distinct tags this is automatic, with shared tags it is needed:
    `C13Shared_msgtype_nested_35`): the anchored `get_msg_type` finds the class's own type in the encoded bytes. -/
theorem C13Shared_msgtype_any_order (d : MsgDef) (m : Msg) (bs : Bytes)
    (hd : wfDefShared d = true) (hm : wfMsg d m = true) (henc : encMsg d m = .ok bs)
    (r : Bool) (hmem : (35, Val.str d.type) ∈ m.hdr)
    (hentry : lookupE d.hdr 35 = some (.field 35 .string r)) (h35 : ∀ e ∈ d.hdr, 35 ∉ innerTags e) :
    getMsgType bs = .ok d.type :=
  getMsgType_encMsgS (wfDefShared_levels hd) hm henc hmem hentry h35

/-- **The statement of C13 in one piece, any assignment order, any header, tags shared between levels** (`C13_statement_any_order`
    of `Props/C13Anchor.lean` on the larger domain): the message encodes; the bytes decode to the registered class, every byte
    consumed, to the canonical form of the message; that form re-encodes to the same bytes and compares `==` to the original. -/
theorem C13Shared_statement_any_order (reg : List MsgDef) (d : MsgDef) (m : Msg) (hd : wfDefShared d = true)
    (hm : wfMsg d m = true) (hc : countEnds d m = true)
    (r : Bool) (hmem : (35, Val.str d.type) ∈ m.hdr)
    (hentry : lookupE d.hdr 35 = some (.field 35 .string r)) (h35 : ∀ e ∈ d.hdr, 35 ∉ innerTags e)
    (hreg : lookupReg reg d.type = some d) :
    ∃ bs, encMsg d m = .ok bs ∧ decodeMsg reg bs = .ok (bs.length, d, canonMsg d m) ∧
      encMsg d (canonMsg d m) = .ok bs ∧ pyEqDict (canonMsg d m) m = true :=
  C13Shared_statement reg d m hd hm hc
    (fun bs henc => C13Shared_msgtype_any_order d m bs hd hm henc r hmem hentry h35) hreg

/-- the same with the fuel-free hypotheses (any nesting depth) -/
theorem C13Shared_statement_any_order_levels (reg : List MsgDef) (d : MsgDef) (m : Msg) (hd : wfDefLevels d = true)
    (hm : wfMsg d m = true) (hc : countEndsS d m = true)
    (r : Bool) (hmem : (35, Val.str d.type) ∈ m.hdr)
    (hentry : lookupE d.hdr 35 = some (.field 35 .string r)) (h35 : ∀ e ∈ d.hdr, 35 ∉ innerTags e)
    (hreg : lookupReg reg d.type = some d) :
    ∃ bs, encMsg d m = .ok bs ∧ decodeMsg reg bs = .ok (bs.length, d, canonMsg d m) ∧
      encMsg d (canonMsg d m) = .ok bs ∧ pyEqDict (canonMsg d m) m = true :=
  C13Shared_statement_levels reg d m hd hm hc
    (fun _ henc => getMsgType_encMsgS hd hm henc hmem hentry h35) hreg

/-- header: NoHops(627)[HopRef(35!) string], MsgType(35); body 58 - a header group that reuses tag 35 -/
def nested35Def : MsgDef :=
  { name := [68], type := [68], hdr := [.group 627 [.field 35 .string true] false, .field 35 .string true],
    body := [.field 58 .string false], trl := [] }
/-- the group assigned before MsgType: `627=1|35=X|35=D|58=a|` -/
def nested35Msg : Msg :=
  { hdr := [(627, .grp [[(35, .str [88])]]), (35, .str [68])], body := [(58, .str [97])], trl := [] }

/-- **`h35` is needed**: a dictionary and a message inside `wfDefShared` / `wfMsg` / `countEnds`, MsgType present in the header, but
    tag 35 also nested in a header group assigned first - the anchored lookup reads the nested field (`X`), the base-class decoder
    does not find the class (`KeyError`).  The codec itself is not at fault (`msgFromBytes` of the class round-trips). -/
theorem C13Shared_msgtype_nested_35 :
    wfDefShared nested35Def = true ∧ wfMsg nested35Def nested35Msg = true ∧ countEnds nested35Def nested35Msg = true ∧
    (35, Val.str nested35Def.type) ∈ nested35Msg.hdr ∧
    (encMsg nested35Def nested35Msg >>= getMsgType) = .ok [88] ∧
    (match encMsg nested35Def nested35Msg >>= decodeMsg [nested35Def] with
      | .error e => e == Err.key
      | .ok _ => false) = true ∧
    (match encMsg nested35Def nested35Msg with
      | .ok bs => (match msgFromBytes nested35Def bs with
                   | .ok r => r.1 == bs.length && pyEq r.2 (canonMsg nested35Def nested35Msg)
                   | .error _ => false)
      | .error _ => false) = true := by
  refine ⟨by decide, by decide, by decide, .tail _ (.head _), by decide, by decide, by decide +kernel⟩

/-- **The old domain is inside the new one**: with pairwise distinct tags (`wfDef`) every level is distinct. -/
theorem C13Shared_extends_wfDef_levels (d : MsgDef) (hd : wfDef d = true) : wfDefLevels d = true := by
  obtain ⟨nh, nb, nt, _, _, _⟩ := wfDef_parts hd
  have key : ∀ es : List Entry, (deepTagsL es).Nodup → ldLevel es = true := by
    intro es hnd
    simp only [ldLevel, Bool.and_eq_true, decide_eq_true_eq]
    refine ⟨nodup_tagsOf hnd, ldList_of_mem ?_⟩
    intro e he
    have hne := nodup_deepTags_of_mem he hnd
    clear he hnd
    revert hne
    refine entry_ind (P := fun e => (deepTags e).Nodup → ldEntry e = true) ?_ ?_ e
    · intro t ty r _; rfl
    · intro t sub r ih hnd
      simp only [deepTags, List.nodup_cons] at hnd
      simp only [ldEntry, Bool.and_eq_true, decide_eq_true_eq]
      exact ⟨nodup_tagsOf hnd.2, ldList_of_mem (fun e he => ih e he (nodup_deepTags_of_mem he hnd.2))⟩
  simp only [wfDefLevels, Bool.and_eq_true]
  exact ⟨⟨key _ nh, key _ nb⟩, key _ nt⟩

/-! ### non-vacuity: the library's test dictionary, "Order with legs", nested reuse, the empty group - all inside the hypotheses -/

example : wfDefShared basicDef = true ∧ wfMsg basicDef basicMsg = true ∧ countEnds basicDef basicMsg = true := by decide
example : wfDefShared orderDef = true ∧ wfMsg orderDef orderMsg = true ∧ countEnds orderDef orderMsg = true := by decide
example : wfDefShared nestedDef = true ∧ wfMsg nestedDef nestedMsg = true ∧ countEnds nestedDef nestedMsg = true := by decide
example : wfDefShared emptyDef = true ∧ wfMsg emptyDef emptyMsg = true ∧ countEnds emptyDef emptyMsg = true := by decide
example : wfDefLevels basicDef = true ∧ countEndsS basicDef basicMsg = true := by decide
example : wfDefLevels orderDef = true ∧ countEndsS orderDef orderMsg = true := by decide
example : wfDefLevels nestedDef = true ∧ countEndsS nestedDef nestedMsg = true := by decide
/-- the fuel-free condition excludes the ambiguous message too -/
example : countEndsS orderDef orderAmbiguous = false := by decide
/-- the remaining hypotheses of `C13Shared_roundtrip` on the test dictionary -/
example : (encMsg basicDef basicMsg >>= getMsgType) = .ok basicDef.type := by decide
example : lookupReg [basicDef] basicDef.type = some basicDef := rfl

/-! ### non-vacuity: `Message_1` of /repo/tests/fix_messages.py as it stands - header 8, 9, 35; body 1, 2, 11, group 22[1, 2], 35;
    trailer 10, 1.  Body and trailer SHARE tag 1 and the body repeats 35: outside `wfDefShared` (segments not disjoint), inside the
    `…_levels` theorems -/

def libDef : MsgDef :=
  { name := [77, 49], type := [77],
    hdr := [.field 8 .string true, .field 9 .int true, .field 35 .string false],
    body := [.field 1 .int true, .field 2 .string true, .field 11 .int false,
             .group 22 [.field 1 .int true, .field 2 .string false] false, .field 35 .string false],
    trl := [.field 10 .string true, .field 1 .int false] }
/-- `8=F|9=5|35=M|22=2|1=21|2=x|1=22|1=7|2=b|10=c|1=9|`: the group assigned before the same-tag body fields, the trailer ends with 1 -/
def libMsg : Msg :=
  { hdr := [(8, .str [70]), (9, .int 5), (35, .str [77])],
    body := [(22, .grp [[(2, .str [120]), (1, .int 21)], [(1, .int 22)]]), (1, .int 7), (2, .str [98])],
    trl := [(10, .str [99]), (1, .int 9)] }

example : wfDefLevels libDef = true ∧ wfMsg libDef libMsg = true ∧ countEndsS libDef libMsg = true := by decide
example : wfDefShared libDef = false := by decide
example : (35, Val.str libDef.type) ∈ libMsg.hdr := .tail _ (.tail _ (.head _))
example : lookupE libDef.hdr 35 = some (.field 35 .string false) := rfl
example : ∀ e ∈ libDef.hdr, 35 ∉ innerTags e := by decide
example : lookupReg [libDef] libDef.type = some libDef := rfl

/-! ### non-vacuity of "any nesting depth": a chain of 11 nested groups, every one reusing tag 1 - outside W-S5's depth bound -/

/-- `[1, NoSub(100+k)[ 1, NoSub(100+k-1)[ … ] ]]` -/
def chain : Nat → List Entry
  | 0 => [.field 1 .int true]
  | k + 1 => [.field 1 .int true, .group (100 + k) (chain k) false]
/-- one instance at every level, each holding its `1` and its nested group -/
def chainInst : Nat → Seg
  | 0 => [(1, .int 0)]
  | k + 1 => [(1, .int (k + 1)), (100 + k, .grp [chainInst k])]
def deepDef : MsgDef := { name := [90], type := [90], hdr := hdr35, body := chain 11, trl := [] }
def deepMsg : Msg := { hdr := [(35, .str [90])], body := chainInst 11, trl := [] }

example : wfDefLevels deepDef = true ∧ wfMsg deepDef deepMsg = true ∧ countEndsS deepDef deepMsg = true := by decide
example : wfDefShared deepDef = false := by decide
example : wfDef deepDef = false := by decide

end NasdaqModel.Props.C13SharedGen
