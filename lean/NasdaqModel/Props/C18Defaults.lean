import NasdaqModel.Model.HeapD
import NasdaqModel.Lemmas.HeapLemmas
/-
C18 with DECLARED defaults on array fields (`Model/HeapD.lean`): lists, lists of rows (two-dimensional arrays), lists of records
as `Field.default_value`, read through `copy.deepcopy` (the code since /repo c3c2285); declared defaults on record-typed fields, which
the library ignores.

"Reading or changing a field of one message or record - including in-place mutation of a list or nested record obtained by reading a
field that was never assigned - never changes what any other instance, existing or created later, reads or encodes."

  * `C18D_frame`, `C18D_encode_frame`  - every schema, every table of declared defaults, EVERY history and every further operation:
    what any instance other than the one the operation is about reads (to any depth, declared defaults included) and encodes is
    unchanged.
  * `C18D_temporary_is_nobodys`       - an in-place operation that ends inside what a never-assigned field with a declared default
    reads as (at ANY depth: a row of a default, a record inside a default, a list inside that record) changes NO instance, the one it
    was read from included, and leaves every class-level datum as it is: the next read sees the declared default again.
  * `C18D_inv_always`                 - the ownership invariant of `Lemmas/HeapLemmas.lean` in every reachable state.
The schema hypothesis `S.freshArrayDefault = true` is the code as it is (a never-assigned array WITHOUT a declared default reads as a
new empty list, /repo fcb8b8f), to which the harness pins the model.
The one-level copy (`list(default)`, the code before c3c2285; `dict(default.values)` for a record default) is refuted on a concrete
history in `Witness/C18Defaults.lean`.
-/
namespace NasdaqModel.Props.C18Defaults
open NasdaqModel Heap HeapD

/-! ### a buffer of the caller added to the heap -/

private theorem addBuf_get_old {H : Heap} {bs : Bytes} {a : Addr} {c : Cell} (hc : H.cells[a]? = some c) :
    (addBuf H bs).cells[a]? = some c := by
  simp only [addBuf]
  rw [List.getElem?_append_left (getElem?_lt hc)]; exact hc

private theorem addBuf_inv {H : Heap} (bs : Bytes) (hi : Inv H) : Inv (addBuf H bs) := by
  refine ⟨?_, ?_, ?_, ?_, ?_⟩
  · intro a c hc
    by_cases hlt : a < H.cells.length
    · have hc0 : H.cells[a]? = some c := by
        simpa only [addBuf, List.getElem?_append_left hlt] using hc
      exact RefsIn.append _ (hi.closed a c hc0)
    · have hle := Nat.le_of_not_lt hlt
      simp only [addBuf] at hc
      rw [List.getElem?_append_right hle] at hc
      have : c = ⟨.ext, .buf bs⟩ := by
        cases hk : a - H.cells.length with
        | zero => simp [hk] at hc; exact hc.symm
        | succ k => simp [hk] at hc
      subst this
      intro r hr; simp [Body.refs] at hr
  · obtain ⟨c, hc, ho⟩ := hi.cls0
    exact ⟨c, addBuf_get_old hc, ho⟩
  · intro i cr h
    obtain ⟨c, hc, ho⟩ := hi.roots i cr (by simpa [addBuf] using h)
    exact ⟨c, addBuf_get_old hc, ho⟩
  · intro a c i hc ho
    by_cases hlt : a < H.cells.length
    · have hc0 : H.cells[a]? = some c := by
        simpa only [addBuf, List.getElem?_append_left hlt] using hc
      simpa [addBuf] using hi.bound a c i hc0 ho
    · have hle := Nat.le_of_not_lt hlt
      simp only [addBuf] at hc
      rw [List.getElem?_append_right hle] at hc
      have : c = ⟨.ext, .buf bs⟩ := by
        cases hk : a - H.cells.length with
        | zero => simp [hk] at hc; exact hc.symm
        | succ k => simp [hk] at hc
      subst this
      cases ho
  · intro j a h
    simp only [addBuf] at h
    by_cases hlt : j < H.bufs.length
    · rw [List.getElem?_append_left hlt] at h
      obtain ⟨c, hc, ho⟩ := hi.bufs j a h
      exact ⟨c, addBuf_get_old hc, ho⟩
    · have hle := Nat.le_of_not_lt hlt
      rw [List.getElem?_append_right hle] at h
      have ha : a = H.cells.length := by
        cases hk : j - H.bufs.length with
        | zero => simp [hk] at h; exact h.symm
        | succ k => simp [hk] at h
      subst ha
      exact ⟨⟨.ext, .buf bs⟩, by simp [addBuf], rfl⟩

private theorem addBuf_deref (S : Schema) {H : Heap} (bs : Bytes) (hi : Inv H) (n : Nat) (v : Val)
    (hv : RefsIn (fun _ => True) H.cells v.refs) :
    deref S n (addBuf H bs).cells v = deref S n H.cells v := by
  apply deref_agree S (fun _ => True) H.cells (addBuf H bs).cells ?_ hi.closed ?_ n v hv
  · intro a c hc _; exact addBuf_get_old hc
  · intro r hr
    simp at hr; subst hr
    obtain ⟨c, hc, _⟩ := hi.cls0
    exact ⟨c, hc, trivial⟩

private theorem root_refs {H : Heap} (hi : Inv H) {b : Nat} {cr : Nat × Addr} (hcr : H.insts[b]? = some cr) :
    RefsIn (fun _ => True) H.cells (Val.ref cr.2).refs := by
  obtain ⟨c, hc, _⟩ := hi.roots b cr hcr
  intro r hr
  simp [Val.refs] at hr; subst hr
  exact ⟨c, hc, trivial⟩

/-! ### one operation -/

/-- what `stepD` can do: nothing, add a buffer of the caller, or the operation of `Model/Heap.lean` -/
private theorem stepD_cases {S : Schema} {D : Defaults} {H H' : Heap} {op : Op} (hs : stepD S D H op = .ok H') :
    H' = H ∨ (∃ bs, H' = addBuf H bs) ∨ step S H op = .ok H' := by
  cases op with
  | read a p =>
    simp only [stepD] at hs
    obtain ⟨_, _, hs⟩ := bind_ok hs
    injection hs with hs; exact Or.inl hs.symm
  | assign a p k t =>
    simp only [stepD] at hs
    obtain ⟨r, _, hs⟩ := bind_ok hs
    cases r with
    | heap v => exact Or.inr (Or.inr hs)
    | tmp t' =>
      cases t' with
      | obj c ks ts =>
        simp only at hs
        obtain ⟨_, _, hs⟩ := bind_ok hs
        injection hs with hs; exact Or.inl hs.symm
      | int i => simp at hs
      | str s => simp at hs
      | none => simp at hs
      | list xs => simp at hs
  | append a p t =>
    simp only [stepD] at hs
    obtain ⟨r, _, hs⟩ := bind_ok hs
    cases r with
    | heap v => exact Or.inr (Or.inr hs)
    | tmp t' =>
      cases t' with
      | list xs => simp only at hs; injection hs with hs; exact Or.inl hs.symm
      | int i => simp at hs
      | str s => simp at hs
      | none => simp at hs
      | obj c ks ts => simp at hs
  | setIdx a p i t =>
    simp only [stepD] at hs
    obtain ⟨r, _, hs⟩ := bind_ok hs
    cases r with
    | heap v => exact Or.inr (Or.inr hs)
    | tmp t' =>
      cases t' with
      | list xs =>
        simp only at hs
        split at hs
        · injection hs with hs; exact Or.inl hs.symm
        · simp at hs
      | int i => simp at hs
      | str s => simp at hs
      | none => simp at hs
      | obj c ks ts => simp at hs
  | encode a =>
    simp only [stepD] at hs
    obtain ⟨_, _, hs⟩ := bind_ok hs
    injection hs with hs; exact Or.inl hs.symm
  | mkbuf a =>
    simp only [stepD] at hs
    obtain ⟨bs, _, hs⟩ := bind_ok hs
    injection hs with hs; exact Or.inr (Or.inl ⟨bs, hs.symm⟩)
  | new c => exact Or.inr (Or.inr hs)
  | decode c b => exact Or.inr (Or.inr hs)
  | scribble b => exact Or.inr (Or.inr hs)
  | copy b pb k a pa => exact Or.inr (Or.inr hs)
  | clone a => exact Or.inr (Or.inr hs)

private theorem stepD_inv {S : Schema} (hS : S.freshArrayDefault = true) {D : Defaults} {H H' : Heap} {op : Op} (hi : Inv H)
    (hs : stepD S D H op = .ok H') : Inv H' := by
  rcases stepD_cases hs with h | ⟨bs, h⟩ | h
  · rw [h]; exact hi
  · rw [h]; exact addBuf_inv bs hi
  · exact (step_sound hi h (classSafe_of_fresh hS hi op)).2.1

/-- the instance table entry and the stored graph of every instance the operation is not about -/
private theorem stepD_frame_core {S : Schema} (hS : S.freshArrayDefault = true) {D : Defaults} {H H' : Heap} {op : Op}
    (hi : Inv H) (hs : stepD S D H op = .ok H') {b : Nat} (hb : b ≠ op.target H) :
    H'.insts[b]? = H.insts[b]? ∧
    ∀ (n : Nat) (cr : Nat × Addr), H.insts[b]? = some cr → deref S n H'.cells (.ref cr.2) = deref S n H.cells (.ref cr.2) := by
  rcases stepD_cases hs with h | ⟨bs, h⟩ | h
  · subst h; exact ⟨rfl, fun _ _ _ => rfl⟩
  · subst h
    exact ⟨by simp [addBuf], fun n cr hcr => addBuf_deref S bs hi n _ (root_refs hi hcr)⟩
  · obtain ⟨hins, hd⟩ := frame_core hi h (classSafe_of_fresh hS hi op) hb
    refine ⟨hins, fun n cr hcr => hd n _ ?_⟩
    obtain ⟨c, hc, ho⟩ := hi.roots b cr hcr
    intro r hr
    simp [Val.refs] at hr; subst hr
    exact ⟨c, hc, Or.inl ho⟩

private theorem stepD_frame {S : Schema} (hS : S.freshArrayDefault = true) {D : Defaults} {H H' : Heap} {op : Op}
    (hi : Inv H) (hs : stepD S D H op = .ok H') {b : Nat} (hb : b ≠ op.target H) (n : Nat) :
    viewD S D n H' b = viewD S D n H b := by
  obtain ⟨hins, hd⟩ := stepD_frame_core hS hi hs hb
  unfold viewD view
  rw [hins]
  cases hcr : H.insts[b]? with
  | none => rfl
  | some cr => simp only [Option.map_some]; rw [hd n cr hcr]

private theorem stepD_frame_encode {S : Schema} (hS : S.freshArrayDefault = true) {D : Defaults} {H H' : Heap} {op : Op}
    (hi : Inv H) (hs : stepD S D H op = .ok H') {b : Nat} (hb : b ≠ op.target H) :
    encodeInstD S D H' b = encodeInstD S D H b := by
  obtain ⟨hins, hd⟩ := stepD_frame_core hS hi hs hb
  unfold encodeInstD
  rw [hins]
  cases hcr : H.insts[b]? with
  | none => rfl
  | some cr => simp only; rw [hd _ cr hcr]

/-! ### histories -/

private theorem stepKD_inv {S : Schema} (hS : S.freshArrayDefault = true) {D : Defaults} {H : Heap} (op : Op) (hi : Inv H) :
    Inv (stepKD S D H op) := by
  unfold stepKD
  cases hs : stepD S D H op with
  | ok H' => exact stepD_inv hS hi hs
  | error e => exact hi

private theorem runD_inv {S : Schema} (hS : S.freshArrayDefault = true) (D : Defaults) :
    ∀ (ops : List Op) (H : Heap), Inv H → Inv (runD S D H ops)
  | [], _, hi => hi
  | op :: ops, _, hi => runD_inv hS D ops _ (stepKD_inv hS op hi)

private theorem runD_append (S : Schema) (D : Defaults) (H : Heap) (ops : List Op) (op : Op) :
    runD S D H (ops ++ [op]) = stepKD S D (runD S D H ops) op := by
  simp [runD, List.foldl_append]

/-- **C18D_inv_always.** -/
theorem C18D_inv_always (S : Schema) (hS : S.freshArrayDefault = true) (D : Defaults) (ops : List Op) :
    Inv (runD S D init ops) :=
  runD_inv hS D ops init init_inv

/-- **C18D_frame.**  Every schema, every table of declared defaults (lists, rows, records, nested to any depth), EVERY history,
    every further operation - reads and in-place changes through never-assigned fields at any depth included: what any instance `b`
    other than the one the operation is about reads is unchanged.  `b` ranges over existing instances and over ids not yet in use. -/
theorem C18D_frame (S : Schema) (hS : S.freshArrayDefault = true) (D : Defaults) (ops : List Op) (op : Op)
    (b : Nat) (hb : b ≠ op.target (runD S D init ops)) (n : Nat) :
    viewD S D n (runD S D init (ops ++ [op])) b = viewD S D n (runD S D init ops) b := by
  rw [runD_append]
  unfold stepKD
  cases hs : stepD S D (runD S D init ops) op with
  | error e => rfl
  | ok H' => exact stepD_frame hS (C18D_inv_always S hS D ops) hs hb n

/-- **C18D_encode_frame.**  The same for what `b` encodes (bytes or exception class). -/
theorem C18D_encode_frame (S : Schema) (hS : S.freshArrayDefault = true) (D : Defaults) (ops : List Op) (op : Op)
    (b : Nat) (hb : b ≠ op.target (runD S D init ops)) :
    encodeInstD S D (runD S D init (ops ++ [op])) b = encodeInstD S D (runD S D init ops) b := by
  rw [runD_append]
  unfold stepKD
  cases hs : stepD S D (runD S D init ops) op with
  | error e => rfl
  | ok H' => exact stepD_frame_encode hS (C18D_inv_always S hS D ops) hs hb

/-- the in-place operations -/
def inPlace : Op → Option (Nat × List Step)
  | .assign a p _ _ => some (a, p)
  | .append a p _ => some (a, p)
  | .setIdx a p _ _ => some (a, p)
  | _ => Option.none

/-- **C18D_temporary_is_nobodys.**  An in-place operation whose path ends inside what a never-assigned field with a declared default
    reads as - the default list itself, a row of it, a record in it, a list inside such a record: any depth - leaves the WHOLE state
    as it is, whether it succeeds or raises: no instance (the one it was read from included) reads or encodes anything else
    afterwards, and the declared default, being data of the schema, is what the next read and the next instance see again. -/
theorem C18D_temporary_is_nobodys (S : Schema) (D : Defaults) (H : Heap) (op : Op) (a : Nat) (p : List Step) (t : Tree)
    (hop : inPlace op = some (a, p)) (ht : targetD S D H a p = .ok (.tmp t)) :
    stepKD S D H op = H := by
  unfold stepKD
  cases hs : stepD S D H op with
  | error e => rfl
  | ok H' =>
    simp only
    cases op with
    | assign a' p' k x =>
      simp only [inPlace, Option.some.injEq, Prod.mk.injEq] at hop
      obtain ⟨rfl, rfl⟩ := hop
      simp only [stepD, ht, ok_bind] at hs
      cases t with
      | obj c ks ts =>
        simp only at hs
        obtain ⟨_, _, hs⟩ := bind_ok hs
        injection hs with hs; exact hs.symm
      | int i => simp at hs
      | str s => simp at hs
      | none => simp at hs
      | list xs => simp at hs
    | append a' p' x =>
      simp only [inPlace, Option.some.injEq, Prod.mk.injEq] at hop
      obtain ⟨rfl, rfl⟩ := hop
      simp only [stepD, ht, ok_bind] at hs
      cases t with
      | list xs => simp only at hs; injection hs with hs; exact hs.symm
      | int i => simp at hs
      | str s => simp at hs
      | none => simp at hs
      | obj c ks ts => simp at hs
    | setIdx a' p' i x =>
      simp only [inPlace, Option.some.injEq, Prod.mk.injEq] at hop
      obtain ⟨rfl, rfl⟩ := hop
      simp only [stepD, ht, ok_bind] at hs
      cases t with
      | list xs =>
        simp only at hs
        split at hs
        · injection hs with hs; exact hs.symm
        · simp at hs
      | int i => simp at hs
      | str s => simp at hs
      | none => simp at hs
      | obj c ks ts => simp at hs
    | read _ _ => simp [inPlace] at hop
    | encode _ => simp [inPlace] at hop
    | mkbuf _ => simp [inPlace] at hop
    | new _ => simp [inPlace] at hop
    | decode _ _ => simp [inPlace] at hop
    | scribble _ => simp [inPlace] at hop
    | copy _ _ _ _ _ => simp [inPlace] at hop
    | clone _ => simp [inPlace] at hop

/-! ### non-vacuity: a two-dimensional default, a default list of records whose record holds a list, a nested record with a default
inside; in-place changes at depth 2 and 3 through never-assigned fields -/

/-- class 0: record (int, array of int with declared default [10, 20]); class 1: message 'C' with an array field whose declared
    default is the rows [[1, 2], [3]], a nested record of class 0, an array of class-0 records with declared default
    [Rec0(5, [8])] -/
def exS : Schema :=
  ⟨true, [.binRec Option.none [.int ⟨4, true, false⟩ Option.none, .arr (.int ⟨2, false, true⟩) ⟨2, false, true⟩],
          .binRec (some 67) [.arr (.int ⟨4, true, false⟩) ⟨2, false, false⟩, .recd 0, .arr (.recd 0) ⟨2, false, false⟩]]⟩

def exD : Defaults :=
  ⟨[((0, 1), .list [.int 10, .int 20]),
    ((1, 0), .list [.list [.int 1, .int 2], .list [.int 3]]),
    ((1, 2), .list [.obj 0 [0, 1] [.int 5, .list [.int 8]]])]⟩

def exOps : List Op :=
  [.new 1, .new 1,
   .append 0 [.fld 0, .idx 0] (.int 9),                 -- a.cells[0].append(9): a ROW of the declared default
   .append 0 [.fld 2, .idx 0, .fld 1] (.int 9),         -- a.recs[0].sizes.append(9): a list inside a record inside the default
   .setIdx 0 [.fld 1, .fld 1] 0 (.int 7),               -- a.inner.sizes[0] = 7: declared default of a field of the nested record
   .assign 0 [.fld 2, .idx 0] 0 (.int 6),               -- a.recs[0].price = 6
   .new 1]

example : exS.freshArrayDefault = true := rfl
example : (exOps.map (fun op => (inPlace op).isSome)).count true = 4 := by decide
/-- all four in-place operations end inside a temporary and succeed -/
example : targetD exS exD (runD exS exD init (exOps.take 2)) 0 [.fld 0, .idx 0] matches .ok (.tmp (.list _)) := by decide
example : targetD exS exD (runD exS exD init (exOps.take 2)) 0 [.fld 2, .idx 0, .fld 1] matches .ok (.tmp (.list _)) := by decide
example : targetD exS exD (runD exS exD init (exOps.take 2)) 0 [.fld 1, .fld 1] matches .ok (.tmp (.list _)) := by decide
example : targetD exS exD (runD exS exD init (exOps.take 2)) 0 [.fld 2, .idx 0] matches .ok (.tmp (.obj 0 _ _)) := by decide
example : (runD exS exD init exOps).insts.length = 3 := by decide
/-- the same history with the one-dimensional default [1, 2] on the first field (rows are not encodable as an array of ints) -/
def exD1 : Defaults := ⟨[((0, 1), .list [.int 10, .int 20]), ((1, 0), .list [.int 1, .int 2]), ((1, 2), .list [.obj 0 [0, 1] [.int 5, .list [.int 8]]])]⟩
def exOps1 : List Op :=
  [.new 1, .new 1, .append 0 [.fld 0] (.int 9), .append 0 [.fld 2, .idx 0, .fld 1] (.int 9), .setIdx 0 [.fld 1, .fld 1] 0 (.int 7), .new 1]
/-- every instance - the one the changes went through, the other one, the one created afterwards - encodes the declared defaults:
    id 'C'; count 2, 1, 2; inner record 0, count 2 (big endian), 10, 20; count 1, record 5, count 1, 8 -/
example : [0, 1, 2].map (encodeInstD exS exD1 (runD exS exD1 init exOps1)) =
    List.replicate 3 (.ok [67, 2, 0, 1, 0, 0, 0, 2, 0, 0, 0, 0, 0, 0, 0, 0, 2, 0, 10, 0, 20, 1, 0, 5, 0, 0, 0, 0, 1, 0, 8]) := by decide

end NasdaqModel.Props.C18Defaults
