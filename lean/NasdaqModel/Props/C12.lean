import NasdaqModel.Lemmas.PyLemmas
import NasdaqModel.Spec.SoupLayout
/-
C12 — SoupBinTCP packets encode to the protocol layout and decode back unchanged.
Only property theorems and their non-vacuity examples live here.
-/
namespace NasdaqModel.Props.C12
open NasdaqModel Py Soup Spec.SoupLayout

/-- a text field the library can carry in a fixed-width login field of width `n` -/
def wfText (s : Str) (n : Nat) : Bool :=
  decide (s.length ≤ n) && s.all (· < 128) && edgeOk isSpace s

/-- `q` is the canonical decimal text of an integer (what `str(int)` produces) -/
def isCanonInt (q : Str) : Bool :=
  match parseIntBytes q with
  | .ok i => intStr i == q
  | .error _ => false

/-- the packets the property quantifies over: fields within the documented widths,
    payloads up to the largest packet the library can write -/
def wfPkt : Pkt → Bool
  | .loginReq u p s q => wfText u 6 && wfText p 10 && wfText s 10 && isCanonInt q && decide (q.length ≤ 20)
  | .loginAcc s q => wfText s 10 && decide ((intStr q).length ≤ 20)
  | .loginRej r => r == 65 || r == 83
  | .seqData d => decide (d.length ≤ 32766)
  | .unseqData d => decide (d.length ≤ 32766)
  | .debug t => decide (t.length ≤ 32766) && t.all (· < 128)
  | _ => true

/-! ### helper facts (local) -/

private theorem header_small (n : Nat) (hn : n ≤ 32767) (t : Nat) :
    header (n : Int) t = .ok [n / 256, n % 256, t] := by
  unfold header packBE16s
  have h1 : (-32768 : Int) ≤ (n : Int) ∧ (n : Int) ≤ 32767 := by omega
  simp only [h1, and_self, if_true]
  have : ((n : Int) % 65536).toNat = n := by omega
  simp [this, ok_bind, err_bind, pure_eq_ok]

private theorem packBE16s_big (v : Int) (h : ¬ ((-32768 : Int) ≤ v ∧ v ≤ 32767)) :
    packBE16s v = .error .struct := by
  unfold packBE16s
  rw [if_neg h]

private theorem header_big (v : Int) (t : Nat) (h : ¬ ((-32768 : Int) ≤ v ∧ v ≤ 32767)) :
    header v t = .error .struct := by
  unfold header
  rw [packBE16s_big v h]
  rfl

private theorem pack_ok {s : Str} {n : Nat} (h : s.all (· < 128) = true) :
    pack s n = .ok (padded s n) := by
  unfold pack encodeAscii ljust padded
  have : (s ++ List.replicate (n - s.length) 32).all (· < 128) = true := by
    simp only [List.all_append, h, Bool.true_and]
    simp [List.all_replicate]
  simp [this]

private theorem packNs_padded {s : Str} {n : Nat} (h : s.length ≤ n) : packNs n (padded s n) = padded s n := by
  have hl : (padded s n).length = n := by simp [padded]; omega
  unfold packNs
  rw [hl]
  simp [List.take_of_length_le (Nat.le_of_eq hl)]

private theorem padded_length {s : Str} {n : Nat} (h : s.length ≤ n) : (padded s n).length = n := by
  simp [padded]; omega

private theorem wfText_iff {s : Str} {n : Nat} (h : wfText s n = true) :
    s.length ≤ n ∧ s.all (· < 128) = true ∧ edgeOk isSpace s = true := by
  simpa [wfText, and_assoc] using h

private theorem canon_exists {q : Str} (h : isCanonInt q = true) : ∃ i, q = intStr i := by
  unfold isCanonInt at h
  cases hq : parseIntBytes q with
  | ok i => rw [hq] at h; exact ⟨i, (beq_iff_eq.mp h).symm⟩
  | error e => rw [hq] at h; exact absurd h (by simp)

private theorem sliceRange_mid (a m c : Bytes) (i j : Nat) (hi : i = a.length) (hj : j = a.length + m.length) :
    sliceRange (a ++ m ++ c) i j = m := by
  subst hi hj
  unfold sliceRange
  rw [List.take_append_of_le_length (by simp)]
  rw [List.take_of_length_le (by simp)]
  simp

private theorem unpackString_padded {s : Str} {n : Nat} (h : wfText s n = true) :
    unpackString (padded s n) = .ok s := by
  obtain ⟨_, hall, hedge⟩ := wfText_iff h
  unfold unpackString decodeAscii
  have : (padded s n).all (· < 128) = true := by
    simp only [padded, List.all_append, hall, Bool.true_and]
    simp [List.all_replicate]
  simp only [this, if_true, ok_bind, err_bind, pure_eq_ok]
  have := strip_ljust n hedge
  rw [show padded s n = ljust s n from rfl, this]

private theorem intStr_edgeOk_spnul (i : Int) : edgeOk (fun c => c == 32 || c == 0) (intStr i) = true := by
  obtain ⟨d0, t0, hd0, hd0d⟩ := natDigits_head_digit i.natAbs
  obtain ⟨dl, hdl, hdld⟩ := natDigits_last_digit i.natAbs
  have hhead : (natDigits i.natAbs).head? = some d0 := by rw [hd0]; rfl
  have e0 : ∀ d, isDigit d = true → d ≠ 32 ∧ d ≠ 0 := by
    intro d hd; simp [isDigit] at hd; omega
  unfold intStr
  split
  · have : (45 :: natDigits i.natAbs).getLast? = some dl := by
      rw [hd0] at hdl ⊢
      simpa [List.getLast?_cons_cons] using hdl
    simp [edgeOk, this, e0 dl hdld]
  · simp [edgeOk, hhead, hdl, e0 dl hdld, e0 d0 hd0d]

private theorem unpackInt_padded (i : Int) (n : Nat) : unpackInt (padded (intStr i) n) = .ok i := by
  unfold unpackInt stripSpNul padded
  rw [stripBy_append_replicate _ (intStr_edgeOk_spnul i) (by decide)]
  exact parseIntBytes_intStr i

private theorem lenField_cons (n t : Nat) (rest : Bytes) (hn : n < 32768) :
    lenField (n / 256 :: n % 256 :: t :: rest) = (n : Int) := by
  have e : n / 256 * 256 + n % 256 = n := by omega
  show ((n / 256 * 256 + n % 256 : Nat) : Int) = n
  rw [e]

private theorem data_tail (d : Bytes) (t : Nat) (h : d.length ≤ 32766) :
    (if lenField ((1 + d.length) / 256 :: (1 + d.length) % 256 :: t :: d) > 1
      then ((1 + d.length) / 256 :: (1 + d.length) % 256 :: t :: d).drop 3 else []) = d := by
  rw [lenField_cons _ _ _ (by omega)]
  split
  · rfl
  · rename_i hh
    have : d.length = 0 := by omega
    exact (List.eq_nil_of_length_eq_zero this).symm

private theorem bind_ok_inv {α β : Type} {x : Except Err α} {f : α → Except Err β} {b : β}
    (h : (x >>= f) = .ok b) : ∃ a, x = .ok a ∧ f a = .ok b := by
  cases x with
  | ok a => exact ⟨a, rfl, by simpa using h⟩
  | error e => simp at h

/-! ### the property -/

/-- **Layout.** Every well-formed packet encodes to exactly the documented layout. -/
theorem C12_layout (p : Pkt) (h : wfPkt p = true) : encode p = .ok (layout p) := by
  cases p with
  | loginReq u pw s q =>
    simp only [wfPkt, Bool.and_eq_true, decide_eq_true_eq] at h
    obtain ⟨⟨⟨⟨hu, hp⟩, hs⟩, hq⟩, hql⟩ := h
    obtain ⟨hul, hua, _⟩ := wfText_iff hu
    obtain ⟨hpl, hpa, _⟩ := wfText_iff hp
    obtain ⟨hsl, hsa, _⟩ := wfText_iff hs
    obtain ⟨i, rfl⟩ := canon_exists hq
    have hqa : (intStr i).all (· < 128) = true := by
      simp only [List.all_eq_true, decide_eq_true_eq]; exact intStr_all_lt i
    have hh := header_small 47 (by omega) 76
    simp only [encode, pack_ok hua, pack_ok hpa, pack_ok hsa, pack_ok hqa, ok_bind, err_bind, pure_eq_ok]
    have : header 47 76 = .ok [0, 47, 76] := by simpa using hh
    simp only [this, packNs_padded hul, packNs_padded hpl, packNs_padded hsl, packNs_padded hql]
    simp [layout, payload, typeChar, padded_length hul, padded_length hpl, padded_length hsl, padded_length hql]
  | loginAcc s q =>
    simp only [wfPkt, Bool.and_eq_true, decide_eq_true_eq] at h
    obtain ⟨hs, hql⟩ := h
    obtain ⟨hsl, hsa, _⟩ := wfText_iff hs
    have hqa : (intStr q).all (· < 128) = true := by
      simp only [List.all_eq_true, decide_eq_true_eq]; exact intStr_all_lt q
    have hh := header_small 31 (by omega) 65
    have : header 31 65 = .ok [0, 31, 65] := by simpa using hh
    simp only [encode, pack_ok hsa, pack_ok hqa, ok_bind, err_bind, pure_eq_ok, this,
      packNs_padded hsl, packNs_padded hql]
    simp [layout, payload, typeChar, padded_length hsl, padded_length hql]
  | loginRej r =>
    have hr : r = 65 ∨ r = 83 := by simpa [wfPkt] using h
    rcases hr with rfl | rfl <;> decide
  | seqData d =>
    have hd : d.length ≤ 32766 := by simpa [wfPkt] using h
    have hh := header_small (d.length + 1) (by omega) 83
    have hc : ((d.length : Int) + 1) = ((d.length + 1 : Nat) : Int) := by simp
    simp only [encode, hc, hh, ok_bind, err_bind, pure_eq_ok]
    simp [layout, payload, typeChar, Nat.add_comm]
  | unseqData d =>
    have hd : d.length ≤ 32766 := by simpa [wfPkt] using h
    have hh := header_small (d.length + 1) (by omega) 85
    have hc : ((d.length : Int) + 1) = ((d.length + 1 : Nat) : Int) := by simp
    simp only [encode, hc, hh, ok_bind, err_bind, pure_eq_ok]
    simp [layout, payload, typeChar, Nat.add_comm]
  | debug t =>
    simp only [wfPkt, Bool.and_eq_true, decide_eq_true_eq] at h
    obtain ⟨hl, ha⟩ := h
    have hh := header_small (t.length + 1) (by omega) 43
    have hc : ((t.length : Int) + 1) = ((t.length + 1 : Nat) : Int) := by simp
    simp only [encode, hc, hh, ok_bind, err_bind, pure_eq_ok, encodeAscii, ha, if_true]
    simp [layout, payload, typeChar, Nat.add_comm]
  | clientHb => decide
  | serverHb => decide
  | endOfSession => decide
  | logoutReq => decide

/-- **Length prefix.** The first two bytes are the big-endian count of the bytes that follow. -/
theorem C12_length_prefix (p : Pkt) (h : wfPkt p = true) :
    ∃ hi lo, layout p = hi :: lo :: typeChar p :: payload p ∧
      hi * 256 + lo = (payload p).length + 1 ∧ lo < 256 ∧ hi < 128 ∧
      (layout p).length = 2 + (hi * 256 + lo) := by
  have hlen : (payload p).length ≤ 32766 := by
    cases p with
    | loginReq u pw s q =>
      simp only [wfPkt, Bool.and_eq_true, decide_eq_true_eq] at h
      obtain ⟨⟨⟨⟨hu, hp⟩, hs⟩, _⟩, hql⟩ := h
      have := (wfText_iff hu).1; have := (wfText_iff hp).1; have := (wfText_iff hs).1
      simp [payload, padded]; omega
    | loginAcc s q =>
      simp only [wfPkt, Bool.and_eq_true, decide_eq_true_eq] at h
      have := (wfText_iff h.1).1
      simp [payload, padded]; omega
    | loginRej r => simp [payload]
    | seqData d => simpa [wfPkt, payload] using h
    | unseqData d => simpa [wfPkt, payload] using h
    | debug t =>
      simp only [wfPkt, Bool.and_eq_true, decide_eq_true_eq] at h
      simpa [payload] using h.1
    | _ => simp [payload]
  refine ⟨(1 + (payload p).length) / 256, (1 + (payload p).length) % 256, ?_, ?_, ?_, ?_, ?_⟩
  · simp [layout]
  · omega
  · omega
  · omega
  · simp [layout]; omega

/-- **Round trip.** Decoding the bytes a well-formed packet encodes to yields an equal packet. -/
theorem C12_roundtrip (p : Pkt) (h : wfPkt p = true) (bs : Bytes) (he : encode p = .ok bs) :
    decode bs = .ok p := by
  rw [C12_layout p h] at he
  have hbs : bs = layout p := by injection he with he; exact he.symm
  subst hbs
  cases p with
  | loginReq u pw s q =>
    simp only [wfPkt, Bool.and_eq_true, decide_eq_true_eq] at h
    obtain ⟨⟨⟨⟨hu, hp⟩, hs⟩, hq⟩, hql⟩ := h
    obtain ⟨i, rfl⟩ := canon_exists hq
    have hul := padded_length (wfText_iff hu).1
    have hpl := padded_length (wfText_iff hp).1
    have hsl := padded_length (wfText_iff hs).1
    have hqq := padded_length hql
    have hb : layout (.loginReq u pw s (intStr i)) =
        [0, 47, 76] ++ padded u 6 ++ padded pw 10 ++ padded s 10 ++ padded (intStr i) 20 := by
      simp [layout, payload, typeChar, hul, hpl, hsl, hqq]
    rw [hb]
    have h2 : ([0, 47, 76] ++ padded u 6 ++ padded pw 10 ++ padded s 10 ++ padded (intStr i) 20)[2]? = some 76 := by
      simp
    have hlen : ([0, 47, 76] ++ padded u 6 ++ padded pw 10 ++ padded s 10 ++ padded (intStr i) 20).length = 49 := by
      simp [hul, hpl, hsl, hqq]
    have s1 : sliceRange ([0, 47, 76] ++ padded u 6 ++ padded pw 10 ++ padded s 10 ++ padded (intStr i) 20) 3 9
        = padded u 6 := by
      have := sliceRange_mid [0, 47, 76] (padded u 6) (padded pw 10 ++ padded s 10 ++ padded (intStr i) 20) 3 9
        rfl (by simp [hul])
      simpa [List.append_assoc] using this
    have s2 : sliceRange ([0, 47, 76] ++ padded u 6 ++ padded pw 10 ++ padded s 10 ++ padded (intStr i) 20) 9 19
        = padded pw 10 := by
      have := sliceRange_mid ([0, 47, 76] ++ padded u 6) (padded pw 10) (padded s 10 ++ padded (intStr i) 20) 9 19
        (by simp [hul]) (by simp [hul, hpl])
      simpa [List.append_assoc] using this
    have s3 : sliceRange ([0, 47, 76] ++ padded u 6 ++ padded pw 10 ++ padded s 10 ++ padded (intStr i) 20) 19 29
        = padded s 10 := by
      have := sliceRange_mid ([0, 47, 76] ++ padded u 6 ++ padded pw 10) (padded s 10) (padded (intStr i) 20) 19 29
        (by simp [hul, hpl]) (by simp [hul, hpl, hsl])
      simpa [List.append_assoc] using this
    have s4 : sliceRange ([0, 47, 76] ++ padded u 6 ++ padded pw 10 ++ padded s 10 ++ padded (intStr i) 20) 29 49
        = padded (intStr i) 20 := by
      have := sliceRange_mid ([0, 47, 76] ++ padded u 6 ++ padded pw 10 ++ padded s 10) (padded (intStr i) 20) [] 29 49
        (by simp [hul, hpl, hsl]) (by simp [hul, hpl, hsl, hqq])
      simpa [List.append_assoc] using this
    unfold decode
    rw [h2]
    simp only [if_true, exactSize, hlen, s1, s2, s3, s4, unpackString_padded hu, unpackString_padded hp,
      unpackString_padded hs, unpackInt_padded, ok_bind, err_bind, pure_eq_ok]
  | loginAcc s q =>
    simp only [wfPkt, Bool.and_eq_true, decide_eq_true_eq] at h
    obtain ⟨hs, hql⟩ := h
    have hsl := padded_length (wfText_iff hs).1
    have hqq := padded_length hql
    have hb : layout (.loginAcc s q) = [0, 31, 65] ++ padded s 10 ++ padded (intStr q) 20 := by
      simp [layout, payload, typeChar, hsl, hqq]
    rw [hb]
    have h2 : ([0, 31, 65] ++ padded s 10 ++ padded (intStr q) 20)[2]? = some 65 := by simp
    have hlen : ([0, 31, 65] ++ padded s 10 ++ padded (intStr q) 20).length = 33 := by simp [hsl, hqq]
    have s1 : sliceRange ([0, 31, 65] ++ padded s 10 ++ padded (intStr q) 20) 3 13 = padded s 10 :=
      sliceRange_mid [0, 31, 65] (padded s 10) (padded (intStr q) 20) 3 13 rfl (by simp [hsl])
    have s2 : sliceRange ([0, 31, 65] ++ padded s 10 ++ padded (intStr q) 20) 13 33 = padded (intStr q) 20 := by
      have := sliceRange_mid ([0, 31, 65] ++ padded s 10) (padded (intStr q) 20) [] 13 33
        (by simp [hsl]) (by simp [hsl, hqq])
      simpa using this
    unfold decode
    rw [h2]
    simp only [exactSize, hlen, s1, s2, unpackString_padded hs, unpackInt_padded, ok_bind, err_bind, pure_eq_ok]
    simp
  | loginRej r =>
    have hr : r = 65 ∨ r = 83 := by simpa [wfPkt] using h
    rcases hr with rfl | rfl <;> decide
  | seqData d =>
    have hd : d.length ≤ 32766 := by simpa [wfPkt] using h
    have hb : layout (.seqData d) = (1 + d.length) / 256 :: (1 + d.length) % 256 :: 83 :: d := rfl
    rw [hb]
    unfold decode
    have h2 : ((1 + d.length) / 256 :: (1 + d.length) % 256 :: 83 :: d)[2]? = some 83 := rfl
    rw [h2]
    simp only [show (83:Nat) ≠ 76 by decide, show (83:Nat) ≠ 65 by decide, show (83:Nat) ≠ 74 by decide, if_false, if_true, pure_eq_ok, data_tail d 83 hd]
  | unseqData d =>
    have hd : d.length ≤ 32766 := by simpa [wfPkt] using h
    have hb : layout (.unseqData d) = (1 + d.length) / 256 :: (1 + d.length) % 256 :: 85 :: d := rfl
    rw [hb]
    unfold decode
    have h2 : ((1 + d.length) / 256 :: (1 + d.length) % 256 :: 85 :: d)[2]? = some 85 := rfl
    rw [h2]
    simp only [show (85:Nat) ≠ 76 by decide, show (85:Nat) ≠ 65 by decide, show (85:Nat) ≠ 74 by decide, show (85:Nat) ≠ 83 by decide, if_false, if_true, pure_eq_ok, data_tail d 85 hd]
  | debug t =>
    simp only [wfPkt, Bool.and_eq_true, decide_eq_true_eq] at h
    obtain ⟨hl, ha⟩ := h
    have hb : layout (.debug t) = (1 + t.length) / 256 :: (1 + t.length) % 256 :: 43 :: t := rfl
    rw [hb]
    unfold decode
    have h2 : ((1 + t.length) / 256 :: (1 + t.length) % 256 :: 43 :: t)[2]? = some 43 := rfl
    rw [h2]
    simp only [show (43:Nat) ≠ 76 by decide, show (43:Nat) ≠ 65 by decide, show (43:Nat) ≠ 74 by decide,
      show (43:Nat) ≠ 83 by decide, show (43:Nat) ≠ 85 by decide, if_false, if_true]
    rw [lenField_cons _ _ _ (by omega)]
    split
    · show (decodeAscii t >>= fun s => pure (Pkt.debug s)) = _
      unfold decodeAscii
      rw [if_pos ha]
      rfl
    · rename_i hh
      have : t.length = 0 := by omega
      rw [List.eq_nil_of_length_eq_zero this]
      rfl
  | clientHb => decide
  | serverHb => decide
  | endOfSession => decide
  | logoutReq => decide

/-- **Data payloads survive byte-exact**, for every content and every length `0 … 32766`. -/
theorem C12_payload_exact (d : Bytes) (h : d.length ≤ 32766) :
    encode (.seqData d) = .ok ([(d.length + 1) / 256, (d.length + 1) % 256, 83] ++ d) ∧
    decode ([(d.length + 1) / 256, (d.length + 1) % 256, 83] ++ d) = .ok (.seqData d) ∧
    encode (.unseqData d) = .ok ([(d.length + 1) / 256, (d.length + 1) % 256, 85] ++ d) ∧
    decode ([(d.length + 1) / 256, (d.length + 1) % 256, 85] ++ d) = .ok (.unseqData d) := by
  have w1 : wfPkt (.seqData d) = true := by simpa [wfPkt] using h
  have w2 : wfPkt (.unseqData d) = true := by simpa [wfPkt] using h
  have l1 : layout (.seqData d) = [(d.length + 1) / 256, (d.length + 1) % 256, 83] ++ d := by
    simp [layout, payload, typeChar, Nat.add_comm]
  have l2 : layout (.unseqData d) = [(d.length + 1) / 256, (d.length + 1) % 256, 85] ++ d := by
    simp [layout, payload, typeChar, Nat.add_comm]
  refine ⟨?_, ?_, ?_, ?_⟩
  · rw [← l1]; exact C12_layout _ w1
  · rw [← l1]; exact C12_roundtrip _ w1 _ (C12_layout _ w1)
  · rw [← l2]; exact C12_layout _ w2
  · rw [← l2]; exact C12_roundtrip _ w2 _ (C12_layout _ w2)

/-- **Largest packet.** A payload longer than 32 766 bytes cannot be written (the encoder raises). -/
theorem C12_too_long (d : Bytes) (h : d.length > 32766) :
    encode (.seqData d) = .error .struct ∧ encode (.unseqData d) = .error .struct ∧
    encode (.debug d) = .error .struct := by
  have hh : ∀ t, header ((d.length : Int) + 1) t = .error .struct := by
    intro t
    apply header_big
    omega
  simp only [encode, hh, ok_bind, err_bind, and_self]

/-- **Kind.** Decoding never returns a packet of a type other than the one named by the type character. -/
theorem C12_kind (bs : Bytes) (p : Pkt) (h : decode bs = .ok p) : bs[2]? = some p.ty := by
  unfold decode at h
  split at h
  · simp at h
  · rename_i t ht
    rw [ht]
    split at h
    · rename_i h76; subst h76
      obtain ⟨_, _, h⟩ := bind_ok_inv h
      obtain ⟨_, _, h⟩ := bind_ok_inv h
      obtain ⟨_, _, h⟩ := bind_ok_inv h
      obtain ⟨_, _, h⟩ := bind_ok_inv h
      obtain ⟨_, _, h⟩ := bind_ok_inv h
      injection h with h; subst h; rfl
    split at h
    · rename_i h65; subst h65
      obtain ⟨_, _, h⟩ := bind_ok_inv h
      obtain ⟨_, _, h⟩ := bind_ok_inv h
      obtain ⟨_, _, h⟩ := bind_ok_inv h
      injection h with h; subst h; rfl
    split at h
    · rename_i h74; subst h74
      obtain ⟨_, _, h⟩ := bind_ok_inv h
      obtain ⟨_, _, h⟩ := bind_ok_inv h
      split at h
      · injection h with h; subst h; rfl
      · split at h
        · injection h with h; subst h; rfl
        · simp at h
    split at h
    · rename_i h83; subst h83
      injection h with h; subst h; rfl
    split at h
    · rename_i h85; subst h85
      injection h with h; subst h; rfl
    split at h
    · rename_i h43; subst h43
      split at h
      · obtain ⟨_, _, h⟩ := bind_ok_inv h
        injection h with h; subst h; rfl
      · injection h with h; subst h; rfl
    split at h
    · rename_i hhb
      split at h
      · injection h with h
        subst h
        rcases hhb with rfl | rfl | rfl | rfl <;> rfl
      · simp at h
    · simp at h

/-! ### non-vacuity: concrete packets meeting the hypotheses -/

example : wfPkt (.loginReq [117, 115, 114] [112, 119] [] [49, 50]) = true := by decide
example : wfPkt (.loginAcc [115, 49] (-7)) = true := by decide
example : wfPkt (.seqData [0, 255, 83, 0, 3]) = true := by decide
example : wfPkt (.debug [104, 105, 32]) = true := by decide
example : decode [0, 4, 83, 0, 3, 83] = .ok (.seqData [0, 3, 83]) := by decide

end NasdaqModel.Props.C12
