import NasdaqModel.Lemmas.LoginUnique
import NasdaqModel.Props.C11Trace
/-
C11 — "a connect/login attempt … has **exactly two outcomes**": at most one outcome per attempt.

`Props/C11Trace.lean` proves every clause of the two-outcome statement (which outcomes exist, what each one guarantees).  Here the
missing half: the outcomes are mutually exclusive, because an attempt returns **at most once** — for every configuration and every
event list from the fresh session.  It is a fact about user tasks in general (`C11_task_returns_at_most_once`: the task of a
`close()`, `receive_msg()` or `login()` call reports one result), specialised to login callers below.

Reason (invariant `InvK`, `Lemmas/LoginUnique.lean`): the trace holds no `ret u _` while task `u` has not ended and at most one
afterwards; `done` is absorbing for user tasks (`callLogin u` is ignored unless `u` is `absent`), and every step that emits
`ret u _` is a step of task `u` that ends it.
-/
namespace NasdaqModel.Props.C11Unique
open NasdaqModel Sess
open NasdaqModel.Props.C11Trace (loginCaller)

abbrev reach (cfg : Cfg) (evs : List Ev) : St := runEvs cfg {} evs

/-- `isRet u o` is the decidable form of "`o` is an outcome of task `u`" -/
theorem C11_isRet_iff (u : Nat) (o : Obs) : isRet u o = true ↔ ∃ r, o = .ret u r := isRet_iff

private theorem noNowait_of_loginCaller {u : Nat} {evs : List Ev} (hu : loginCaller u evs) :
    ∀ ev ∈ evs, ev ≠ .callRecvNowait u := fun ev he => (hu ev he).2.2

private theorem eq_of_filter_le_one {α} {p : α → Bool} {l : List α} (h : (l.filter p).length ≤ 1) {a b : α}
    (ha : a ∈ l) (hb : b ∈ l) (pa : p a = true) (pb : p b = true) : a = b := by
  have ha' : a ∈ l.filter p := List.mem_filter.mpr ⟨ha, pa⟩
  have hb' : b ∈ l.filter p := List.mem_filter.mpr ⟨hb, pb⟩
  match hf : l.filter p, h with
  | [], _ => rw [hf] at ha'; simp at ha'
  | [x], _ => rw [hf] at ha' hb'; simp at ha' hb'; rw [ha', hb']
  | _ :: _ :: _, h => simp at h

/-- **A user task returns at most once.** For every configuration, every event list and every user task `u` whose label is not
    also used for the synchronous `receive_msg_nowait()` (which reports under a label without being a task): the trace contains
    at most one observable `ret u r`. -/
theorem C11_task_returns_at_most_once (cfg : Cfg) (evs : List Ev) (u : Nat) (h : ∀ ev ∈ evs, ev ≠ .callRecvNowait u) :
    ((reach cfg evs).trace.filter (isRet u)).length ≤ 1 := by
  have i : InvK u (reach cfg evs) := runEvs_InvK cfg u evs h
  unfold InvK retCount at i
  split at i <;> omega

/-- **At most one outcome per attempt.** The trace of a run contains at most one `ret u r` for a login caller `u`. -/
theorem C11_at_most_one_outcome (cfg : Cfg) (evs : List Ev) (u : Nat) (hu : loginCaller u evs) :
    ((reach cfg evs).trace.filter (isRet u)).length ≤ 1 :=
  C11_task_returns_at_most_once cfg evs u (noNowait_of_loginCaller hu)

/-- **The outcome is unique**: two outcomes of the same attempt found in the trace are the same outcome. -/
theorem C11_outcome_unique (cfg : Cfg) (evs : List Ev) (u : Nat) (r r' : Res) (hu : loginCaller u evs)
    (h : Obs.ret u r ∈ (reach cfg evs).trace) (h' : Obs.ret u r' ∈ (reach cfg evs).trace) : r = r' := by
  have := eq_of_filter_le_one (C11_at_most_one_outcome cfg evs u hu) h h' (by simp [isRet]) (by simp [isRet])
  injection this

/-- … and it occurs at one place only: nothing before it and nothing after it in the trace is an outcome of the same attempt. -/
theorem C11_outcome_occurs_once (cfg : Cfg) (evs : List Ev) (u : Nat) (r : Res) (hu : loginCaller u evs) (l1 l2 : List Obs)
    (e : (reach cfg evs).trace = l1 ++ Obs.ret u r :: l2) : ∀ r', Obs.ret u r' ∉ l1 ∧ Obs.ret u r' ∉ l2 := by
  have h := C11_at_most_one_outcome cfg evs u hu
  rw [e, List.filter_append, List.length_append] at h
  have hc : (List.filter (isRet u) (Obs.ret u r :: l2)).length = 1 + (List.filter (isRet u) l2).length := by
    simp [List.filter, isRet]; omega
  rw [hc] at h
  have h1 : (l1.filter (isRet u)) = [] := List.eq_nil_of_length_eq_zero (by omega)
  have h2 : (l2.filter (isRet u)) = [] := List.eq_nil_of_length_eq_zero (by omega)
  intro r'
  constructor
  · intro hm
    have : Obs.ret u r' ∈ l1.filter (isRet u) := List.mem_filter.mpr ⟨hm, by simp [isRet]⟩
    rw [h1] at this; simp at this
  · intro hm
    have : Obs.ret u r' ∈ l2.filter (isRet u) := List.mem_filter.mpr ⟨hm, by simp [isRet]⟩
    rw [h2] at this; simp at this

/-- **An attempt that has returned is over**: its task has ended, and stays ended whatever happens afterwards
    (`callLogin u` is ignored unless task `u` is `absent`). -/
theorem C11_returned_task_is_done (cfg : Cfg) (evs : List Ev) (u : Nat) (r : Res) (hu : loginCaller u evs)
    (h : Obs.ret u r ∈ (reach cfg evs).trace) : (reach cfg evs).status (.U u) = .done := by
  have i : InvK u (reach cfg evs) := runEvs_InvK cfg u evs (noNowait_of_loginCaller hu)
  unfold InvK retCount at i
  have : Obs.ret u r ∈ (reach cfg evs).trace.filter (isRet u) := List.mem_filter.mpr ⟨h, by simp [isRet]⟩
  have hpos : 0 < ((reach cfg evs).trace.filter (isRet u)).length := List.length_pos_of_mem this
  split at i
  · assumption
  · omega

/-- **Exactly two outcomes, exclusively.** A login attempt (first login on a client configuration, i.e. not the API misuse that
    raises `StateError`: `r ≠ state`) that the caller does not cancel and that has ended, ended in exactly one of the two ways of
    the property: it returned the session (`C11_active`, `C11_active_at_return` say what that guarantees) and did **not** raise the
    connection-refused error — or it raised it (`C11_refused_clean`, `C11_refused_quiescent_clean`) and did **not** return a
    session. -/
theorem C11_exactly_two_outcomes (cfg : Cfg) (evs : List Ev) (u : Nat) (r : Res) (hu : loginCaller u evs)
    (hnc : Ev.cancel u ∉ evs) (hns : r ≠ .state) (h : Obs.ret u r ∈ (reach cfg evs).trace) :
    (r = .ok ∧ ∀ r', r' ≠ .ok → Obs.ret u r' ∉ (reach cfg evs).trace) ∨
    (r = .refused ∧ ∀ r', r' ≠ .refused → Obs.ret u r' ∉ (reach cfg evs).trace) := by
  obtain ⟨hr, hcan⟩ := C11Trace.C11_outcomes cfg evs u r hu h
  have excl : ∀ r', r' ≠ r → Obs.ret u r' ∉ (reach cfg evs).trace :=
    fun r' hne hm => hne (C11_outcome_unique cfg evs u r' r hu hm h)
  rcases hr with rfl | rfl | rfl | rfl
  · exact Or.inl ⟨rfl, excl⟩
  · exact Or.inr ⟨rfl, excl⟩
  · exact absurd (hcan rfl) hnc
  · exact absurd rfl hns

/-- The four-way version without side conditions: whatever the outcome of an attempt is — session, refusal, the caller's own
    cancellation, or `StateError` — no other outcome of that attempt is in the trace. -/
theorem C11_outcomes_exclusive (cfg : Cfg) (evs : List Ev) (u : Nat) (r : Res) (hu : loginCaller u evs)
    (h : Obs.ret u r ∈ (reach cfg evs).trace) :
    (r = .ok ∨ r = .refused ∨ r = .cancelled ∨ r = .state) ∧ ∀ r', r' ≠ r → Obs.ret u r' ∉ (reach cfg evs).trace :=
  ⟨(C11Trace.C11_outcomes cfg evs u r hu h).1, fun r' hne hm => hne (C11_outcome_unique cfg evs u r' r hu hm h)⟩

/-! ### non-vacuity -/

private def cfg1 : Cfg :=
  { msgBeh := fun _ => .ret, cbBeh := .ret, hasCb := true, dispatchOnConnect := false, hasMsgCb := true, fixLogin := false }

/-- accepted; afterwards the caller re-uses the task label for another `login()` and cancels it: both are ignored -/
private def accepted : List Ev :=
  [.connect, .callLogin 1, .run .V, .data [.msg 0, .msg 5], .run .R, .run .R, .run .V, .run (.U 1), .run .D,
   .callLogin 1, .cancel 1, .run (.U 1)]
/-- rejected, then the close runs to its end: one `refused`, although the close body passes through task 1 several times -/
private def rejected : List Ev :=
  [.connect, .callLogin 1, .run .V, .data [.msg 7], .run .R, .run .V, .run (.U 1), .run .R, .run (.U 1), .run (.U 1), .cancel 1]

example : loginCaller 1 accepted ∧ loginCaller 1 rejected := by decide
example : ((reach cfg1 accepted).trace.filter (isRet 1)) = [.ret 1 .ok] := by decide
example : ((reach cfg1 rejected).trace.filter (isRet 1)) = [.ret 1 .refused] := by decide
example : (reach cfg1 accepted).status (.U 1) = .done := by decide
/-- the hypothesis of `C11_task_returns_at_most_once` is needed: `receive_msg_nowait()` is synchronous, the label `1` given to two
    such calls is no task, and two results are reported under it -/
example : ((reach cfg1 [.connect, .data [.msg 1, .msg 2], .run .R, .run .R, .callRecvNowait 1, .callRecvNowait 1]).trace.filter
    (isRet 1)) = [.ret 1 (.msg 1), .ret 1 (.msg 2)] := by decide

end NasdaqModel.Props.C11Unique
