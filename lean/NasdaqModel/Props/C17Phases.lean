import NasdaqModel.Lemmas.GenHistoryLemmas
/-
C17 at the granularity of the generator API.  An entry point is `construct` (parse the spec, build the generator object — the
FIX generator evaluates its template context there, the ASN.1 generator empties its directory) followed by `generate()`; a
build script may construct several generators before it lets any of them write.  Histories therefore contain
`Ev.construct k i` and `Ev.generate k` besides whole invocations, in any interleaving.

 * `C17_invocation_is_construct_then_generate` — the whole invocation is the composition of its halves (every semantics).
 * `C17_construct_outcome_depends_on_spec_only`, `C17_construct_writes_nothing` — the first half.
 * `C17_generate_depends_on_construction_only` — **the output of `generate k` depends only on the spec and options generator k
   was constructed from**: whatever happened in the process between the construction and the call — constructions and
   `generate()`s of other generators, whole invocations, of any spec and with any options — every file it writes is the file
   the invocation writes alone in a fresh process, and the package imports as the fresh one when the directory held nothing else.
   Needs `pureGen` (in particular `rebindContexts`: the captured group list is the generator's own); with `Group.Contexts`
   emptied in place it is false (Witness/C17Phases.lean).
-/
namespace NasdaqModel.Props.C17Phases
open NasdaqModel GenHistory

/-! ## bookkeeping of the live generator objects -/

private theorem getGen_setGen_same (l : List (Nat × GenObj)) (k : Nat) (g : GenObj) : getGen (setGen l k g) k = some g := by
  induction l with
  | nil => simp [setGen, getGen]
  | cons e rest ih =>
    obtain ⟨j, h⟩ := e
    by_cases hj : j = k
    · simp [setGen, getGen, hj]
    · simp [setGen, getGen, hj, ih]

private theorem getGen_setGen_other (l : List (Nat × GenObj)) (j k : Nat) (g : GenObj) (h : j ≠ k) :
    getGen (setGen l j g) k = getGen l k := by
  induction l with
  | nil => simp [setGen, getGen, h]
  | cons e rest ih =>
    obtain ⟨m, x⟩ := e
    by_cases hm : m = j
    · subst hm
      simp [setGen, getGen, h]
    · by_cases hk : m = k
      · subst hk
        simp [setGen, getGen, hm]
      · simp [setGen, getGen, hm, hk, ih]

private theorem plan_gens (sem : Semantics) (st : ProcState) (i : Inv) : (plan sem st i).1.gens = st.gens := by
  cases i with
  | soup impl spec o =>
    have := planGen_gens sem st (.soup impl spec o)
    simp only [plan]
    cases (planGen sem st (.soup impl spec o)).2 <;> simpa using this
  | fix spec o =>
    have := planGen_gens sem st (.fix spec o)
    simp only [plan]
    cases (planGen sem st (.fix spec o)).2 <;> simpa using this
  | asn1 spec pdu pk o =>
    have := planGen_gens sem st (.asn1 spec pdu pk o)
    simp only [plan]
    cases (planGen sem st (.asn1 spec pdu pk o)).2 <;> simpa using this
  | newProject t n a => simp only [plan, planNewProject]; split <;> rfl
  | userEdit p n => rfl

/-- an event that neither ends the process nor constructs a generator under the number `k` -/
def keepsGen (k : Nat) : Ev → Bool
  | .newProcess => false
  | .construct j _ => j != k
  | _ => true

private theorem getGen_step (sem : Semantics) (w : World) (k : Nat) (e : Ev) (h : keepsGen k e = true) :
    getGen (step sem w e).st.gens k = getGen w.st.gens k := by
  cases e with
  | newProcess => simp [keepsGen] at h
  | inv i =>
    simp only [step, invoke]
    have := plan_gens sem w.st i
    cases hp : (plan sem w.st i).2 <;> simp [this]
  | construct j i =>
    simp only [keepsGen, bne_iff_ne, ne_eq] at h
    simp only [step, construct]
    have := planGen_gens sem w.st i
    cases hp : (planGen sem w.st i).2 with
    | error e => simp [this]
    | ok rp => simp [this, getGen_setGen_other _ _ _ _ h]
  | generate j =>
    simp only [step, generate]
    cases getGen w.st.gens j <;> rfl

private theorem getGen_run (sem : Semantics) (k : Nat) (evs : List Ev) (h : evs.all (keepsGen k) = true) (w : World) :
    getGen (run sem w evs).st.gens k = getGen w.st.gens k := by
  induction evs generalizing w with
  | nil => rfl
  | cons e rest ih =>
    simp only [List.all_cons, Bool.and_eq_true] at h
    simp only [run, List.foldl_cons] at ih ⊢
    rw [ih h.2, getGen_step sem w k e h.1]

/-! ## the first half -/

/-- What `construct` does, spelled out. -/
private theorem construct_eq (sem : Semantics) (w : World) (k : Nat) (i : Inv) :
    construct sem w k i =
      match (planGen sem w.st i).2 with
      | .error e => (⟨(planGen sem w.st i).1, w.fs⟩, .error e)
      | .ok rp =>
        (⟨{ (planGen sem w.st i).1 with
              gens := setGen (planGen sem w.st i).1.gens k ⟨i.dir, rp.acts, rp.modules, sharedGroupsOf sem i⟩ },
          if rp.wipe then wipe w.fs i.dir else w.fs⟩, .ok ()) := rfl

private theorem invoke_gen (sem : Semantics) (w : World) (i : Inv) (hg : i.isGen = true) :
    invoke sem w i =
      match (planGen sem w.st i).2 with
      | .ok rp => (⟨(planGen sem w.st i).1, applyPlan w.fs (rp.at i.dir)⟩, .ok ())
      | .error e => (⟨(planGen sem w.st i).1, w.fs⟩, .error e) := by
  cases i with
  | soup impl spec o => simp only [invoke, plan]; cases (planGen sem w.st _).2 <;> rfl
  | fix spec o => simp only [invoke, plan]; cases (planGen sem w.st _).2 <;> rfl
  | asn1 spec pdu pk o => simp only [invoke, plan]; cases (planGen sem w.st _).2 <;> rfl
  | newProject t n a => simp [Inv.isGen] at hg
  | userEdit p n => simp [Inv.isGen] at hg

/-- The construction fails exactly when, and as, the whole invocation fails (every semantics, every world): everything that
    can go wrong in the modelled spec families goes wrong while the spec is parsed and the context evaluated. -/
theorem C17_construct_outcome_is_invocation_outcome (sem : Semantics) (w : World) (k : Nat) (i : Inv) (hg : i.isGen = true) :
    (construct sem w k i).2 = (invoke sem w i).2 := by
  rw [construct_eq, invoke_gen sem w i hg]
  cases (planGen sem w.st i).2 <;> rfl

/-- …hence, with reset-at-start semantics, it depends on the spec and options only. -/
theorem C17_construct_outcome_depends_on_spec_only (sem : Semantics) (hp : pureGen sem = true) (w : World) (k : Nat) (i : Inv)
    (hg : i.isGen = true) : (construct sem w k i).2 = (invoke sem w0 i).2 := by
  rw [construct_eq, invoke_gen sem w0 i hg, planGen_snd_indep sem hp w.st i]
  simp only [w0]
  cases (planGen sem st0 i).2 <;> rfl

/-- Constructing a generator writes nothing: outside its output directory the file system is untouched, and inside it nothing
    is created (the ASN.1 generator's constructor empties the directory; the others leave it as it is). -/
theorem C17_construct_writes_nothing (sem : Semantics) (w : World) (k : Nat) (i : Inv) (p : Path) :
    read (construct sem w k i).1.fs p = read w.fs p ∨ read (construct sem w k i).1.fs p = none := by
  rw [construct_eq]
  cases (planGen sem w.st i).2 with
  | error e => exact Or.inl rfl
  | ok rp =>
    simp only []
    cases rp.wipe with
    | false => exact Or.inl rfl
    | true =>
      simp only [if_true, read_wipe]
      by_cases h : p.1.under i.dir = true
      · exact Or.inr (by simp [h])
      · exact Or.inl (by simp [h])

/-! ## the second half -/

/-- **Main theorem.**  Generator `k` is constructed from invocation `i` (spec and options) in any world `w`; then anything
    happens in the process (`evs`: whole invocations, constructions and `generate()`s of other generators — no process
    boundary, and the number `k` is not given to another generator); then `generate k` runs.  It succeeds, and every file it
    writes holds exactly what the invocation `i` writes when it runs alone in a fresh process into an empty directory. -/
theorem C17_generate_depends_on_construction_only_of_pure (sem : Semantics) (hp : pureGen sem = true) (w : World) (k : Nat)
    (i : Inv) (hg : i.isGen = true) (evs : List Ev) (hev : evs.all (keepsGen k) = true)
    (hok : (construct sem w k i).2 = .ok ()) :
    let w2 := run sem (construct sem w k i).1 evs
    (generate sem w2 k).2 = .ok ()
    ∧ (invoke sem w0 i).2 = .ok ()
    ∧ ∀ n, n ∈ targetNames i → read (generate sem w2 k).1.fs (i.dir, n) = read (invoke sem w0 i).1.fs (i.dir, n) := by
  intro w2
  obtain ⟨_, _, h3, _, h5, _⟩ := pure_flags hp
  have hind := planGen_snd_indep sem hp w.st i
  have hout := C17_construct_outcome_depends_on_spec_only sem hp w k i hg
  rw [hok] at hout
  cases hrp : (planGen sem st0 i).2 with
  | error e =>
    rw [invoke_gen sem w0 i hg] at hout
    simp [w0, hrp] at hout
  | ok rp =>
    have hst : (planGen sem w.st i).2 = .ok rp := by rw [hind]; exact hrp
    have hshared : sharedGroupsOf sem i = none := by
      cases i <;> simp [sharedGroupsOf, h3, h5]
    -- the object stored by the construction, still there after `evs`
    have hobj : getGen w2.st.gens k = some ⟨i.dir, rp.acts, rp.modules, none⟩ := by
      show getGen (run sem (construct sem w k i).1 evs).st.gens k = _
      rw [getGen_run sem k evs hev, construct_eq, hst, hshared]
      exact getGen_setGen_same _ _ _
    have htr := planGen_acts_trunc sem hp st0 i rp hrp
    have hnm := planGen_acts_names sem st0 i hg rp hrp
    refine ⟨?_, hout.symm, ?_⟩
    · simp [generate, hobj]
    · intro n hn
      have hsome := lastByName_some rp.acts n (by rw [hnm]; exact hn)
      rw [invoke_gen sem w0 i hg]
      simp only [generate, hobj, GenObj.actsNow, w0, hrp, applyPlan, RelPlan.at]
      rw [read_applyActs_trunc _ _ htr, read_applyActs_trunc _ _ htr]
      cases hl : lastByName rp.acts n with
      | some cs => rfl
      | none => simp [hl] at hsome

/-- If, moreover, the directory holds nothing but (possibly) files of the same target when `generate k` runs — or the
    generator emptied it itself and nothing was put there since — the directory is the fresh one and the package imports
    exactly as the fresh one does. -/
theorem C17_generate_directory_is_fresh_of_pure (sem : Semantics) (hp : pureGen sem = true) (w : World) (k : Nat)
    (i : Inv) (hg : i.isGen = true) (evs : List Ev) (hev : evs.all (keepsGen k) = true)
    (hok : (construct sem w k i).2 = .ok ())
    (hdir : dirOnly (run sem (construct sem w k i).1 evs).fs i.dir (targetNames i) = true) :
    let w2 := run sem (construct sem w k i).1 evs
    dirView (generate sem w2 k).1.fs i.dir = dirView (invoke sem w0 i).1.fs i.dir
    ∧ importAfterGenerate sem w2 k = importAfter sem w0 i := by
  intro w2
  obtain ⟨_, _, h3, _, h5, _⟩ := pure_flags hp
  have hind := planGen_snd_indep sem hp w.st i
  have hout := C17_construct_outcome_depends_on_spec_only sem hp w k i hg
  rw [hok] at hout
  cases hrp : (planGen sem st0 i).2 with
  | error e =>
    rw [invoke_gen sem w0 i hg] at hout
    simp [w0, hrp] at hout
  | ok rp =>
    have hst : (planGen sem w.st i).2 = .ok rp := by rw [hind]; exact hrp
    have hshared : sharedGroupsOf sem i = none := by
      cases i <;> simp [sharedGroupsOf, h3, h5]
    have hobj : getGen w2.st.gens k = some ⟨i.dir, rp.acts, rp.modules, none⟩ := by
      show getGen (run sem (construct sem w k i).1 evs).st.gens k = _
      rw [getGen_run sem k evs hev, construct_eq, hst, hshared]
      exact getGen_setGen_same _ _ _
    have htr := planGen_acts_trunc sem hp st0 i rp hrp
    have hnm := planGen_acts_names sem st0 i hg rp hrp
    have hview : ∀ (fs : FS), (rp.wipe = true ∨ dirOnly fs i.dir (targetNames i) = true) →
        ∀ n, read (applyActs (if rp.wipe then wipe fs i.dir else fs) (rp.acts.map (RelAction.at i.dir))) (i.dir, n)
          = lastByName rp.acts n := by
      intro fs hd n
      rw [read_applyActs_trunc _ _ htr]
      cases hl : lastByName rp.acts n with
      | some cs => rfl
      | none =>
        simp only []
        have hn : n ∉ targetNames i := by
          intro hin
          rw [← hnm] at hin
          have := lastByName_some rp.acts n hin
          simp [hl] at this
        cases hw : rp.wipe with
        | true => simp [read_wipe, under_self]
        | false =>
          simp only [Bool.false_eq_true, if_false]
          rcases hd with hd | hd
          · simp [hw] at hd
          · exact read_none_of_dirOnly _ _ _ hd n hn
    have v1 : dirView (generate sem w2 k).1.fs i.dir = lastByName rp.acts := by
      funext n
      simp only [dirView, generate, hobj, GenObj.actsNow]
      rw [read_applyActs_trunc _ _ htr]
      cases hl : lastByName rp.acts n with
      | some cs => rfl
      | none =>
        simp only []
        have hn : n ∉ targetNames i := by
          intro hin
          rw [← hnm] at hin
          have := lastByName_some rp.acts n hin
          simp [hl] at this
        exact read_none_of_dirOnly _ _ _ hdir n hn
    have v0 : dirView (invoke sem w0 i).1.fs i.dir = lastByName rp.acts := by
      funext n
      rw [invoke_gen sem w0 i hg]
      simp only [dirView, w0, hrp, applyPlan, RelPlan.at]
      have := hview [] (Or.inr (by simp [dirOnly])) n
      cases hw : rp.wipe <;> simp [hw, wipe] at this ⊢ <;> exact this
    refine ⟨by rw [v1, v0], ?_⟩
    have hplan : (plan sem w0.st i).2 = .ok (rp.at i.dir) := by
      have : (plan sem st0 i).2 = match (planGen sem st0 i).2 with | .ok rp => .ok (rp.at i.dir) | .error e => .error e := by
        cases i with
        | soup impl spec o => simp only [plan]; cases (planGen sem st0 _).2 <;> rfl
        | fix spec o => simp only [plan]; cases (planGen sem st0 _).2 <;> rfl
        | asn1 spec pdu pk o => simp only [plan]; cases (planGen sem st0 _).2 <;> rfl
        | newProject t n a => simp [Inv.isGen] at hg
        | userEdit p n => simp [Inv.isGen] at hg
      rw [show w0.st = st0 from rfl, this, hrp]
    simp only [importAfterGenerate, hobj, importAfter, hplan, RelPlan.at]
    rw [v1, v0]

/-! ## the whole invocation is the composition of its halves -/

/-- For EVERY semantics (shared group list or not): constructing a generator and calling its `generate()` right away leaves
    the file system the whole invocation leaves. -/
theorem C17_invocation_is_construct_then_generate (sem : Semantics) (w : World) (k : Nat) (i : Inv) (hg : i.isGen = true)
    (hok : (invoke sem w i).2 = .ok ()) :
    (construct sem w k i).2 = .ok ()
    ∧ (generate sem (construct sem w k i).1 k).2 = .ok ()
    ∧ (generate sem (construct sem w k i).1 k).1.fs = (invoke sem w i).1.fs := by
  have hc := C17_construct_outcome_is_invocation_outcome sem w k i hg
  rw [hok] at hc
  refine ⟨hc, ?_⟩
  rw [invoke_gen sem w i hg] at hok ⊢
  rw [construct_eq]
  cases hrp : (planGen sem w.st i).2 with
  | error e => simp [hrp] at hok
  | ok rp =>
    simp only [generate, getGen_setGen_same, true_and]
    simp only [applyPlan, RelPlan.at]
    -- the only thing `generate()` may read from the process state is the shared group list — which, right after the
    -- construction, holds exactly what the construction put there
    have hacts : (GenObj.actsNow ⟨i.dir, rp.acts, rp.modules, sharedGroupsOf sem i⟩
        { (planGen sem w.st i).1 with gens := setGen (planGen sem w.st i).1.gens k ⟨i.dir, rp.acts, rp.modules, sharedGroupsOf sem i⟩ })
        = rp.acts := by
      cases i with
      | soup impl spec o => rfl
      | asn1 spec pdu pk o => rfl
      | newProject t n a => simp [Inv.isGen] at hg
      | userEdit p n => simp [Inv.isGen] at hg
      | fix spec o =>
        simp only [GenObj.actsNow, sharedGroupsOf]
        split
        · rfl
        · rename_i mp hmp
          split at hmp
          · cases hmp
          · injection hmp with hmp
            subst hmp
            simp only [planGen, planFix] at hrp ⊢
            split at hrp
            · cases hrp
            · split at hrp
              · cases hrp
              · split at hrp
                · cases hrp
                · rename_i t1 tbl ht t2 resolved hr hv
                  injection hrp with hrp
                  subst hrp
                  simp only [hv]
                  have hlen : ∀ (x : Str), x.length < 12 → ¬ (x = prefix_ o.pfx ++ (sFix ++ (o.app ++ (sGroups ++ sPy)))) := by
                    intro x hx e
                    have := congrArg List.length e
                    simp [sFix, sGroups, sPy] at this
                    omega
                  have e1 : ¬ (sFields = sGroups) := by decide
                  have e2 : ¬ (sBodies = sGroups) := by decide
                  have e3 : ¬ (sMessages = sGroups) := by decide
                  cases o.init <;>
                    simp [e1, e2, e3, hlen (sApp ++ sPy) (by decide), hlen (sInit ++ sPy) (by decide)]
    rw [hacts]
    cases rp.wipe <;> rfl

/-! ## for the library as it is now -/

/-- **`generate k` depends only on spec k and its options**, for every interleaving of constructions, generations and
    whole invocations — the library as it is (`current`). -/
theorem C17_generate_depends_on_construction_only (w : World) (k : Nat) (i : Inv) (hg : i.isGen = true) (evs : List Ev)
    (hev : evs.all (keepsGen k) = true) (hok : (construct current w k i).2 = .ok ()) :
    let w2 := run current (construct current w k i).1 evs
    (generate current w2 k).2 = .ok ()
    ∧ (invoke current w0 i).2 = .ok ()
    ∧ ∀ n, n ∈ targetNames i → read (generate current w2 k).1.fs (i.dir, n) = read (invoke current w0 i).1.fs (i.dir, n) :=
  C17_generate_depends_on_construction_only_of_pure current (by decide) w k i hg evs hev hok

theorem C17_generate_directory_is_fresh (w : World) (k : Nat) (i : Inv) (hg : i.isGen = true) (evs : List Ev)
    (hev : evs.all (keepsGen k) = true) (hok : (construct current w k i).2 = .ok ())
    (hdir : dirOnly (run current (construct current w k i).1 evs).fs i.dir (targetNames i) = true) :
    let w2 := run current (construct current w k i).1 evs
    dirView (generate current w2 k).1.fs i.dir = dirView (invoke current w0 i).1.fs i.dir
    ∧ importAfterGenerate current w2 k = importAfter current w0 i :=
  C17_generate_directory_is_fresh_of_pure current (by decide) w k i hg evs hev hok hdir

/-! ## non-vacuity -/
section examples
private def optsG (d : Nat) : GenOpts := ⟨[103], [], true, .out d, true⟩
private def optsH (d : Nat) : GenOpts := ⟨[104], [], true, .out d, true⟩
private def fixA : FixSpec := ⟨1, 44, [1, 2], [1], [.mk 1 [2] [.mk 2 [1] []]], [1, 2]⟩
private def fixB : FixSpec := ⟨2, 44, [3], [3], [.mk 1 [3] []], [1]⟩
private def between : List Ev := [.construct 1 (.fix fixB (optsH 2)), .inv (.fix fixB (optsH 3)), .generate 1]
example : (construct current w0 0 (.fix fixA (optsG 1))).2 = .ok () := by decide
example : between.all (keepsGen 0) = true := by decide
example : dirOnly (run current (construct current w0 0 (.fix fixA (optsG 1))).1 between).fs (.out 1)
    (targetNames (.fix fixA (optsG 1))) = true := by decide
example : importAfterGenerate current (run current (construct current w0 0 (.fix fixA (optsG 1))).1 between) 0 = .ok () := by decide
-- a construction that fails alone fails in every history
example : (construct current (run current w0 between) 5 (.fix { fixA with version := 42 } (optsG 1))).2 = .error .key := by decide
end examples

end NasdaqModel.Props.C17Phases
