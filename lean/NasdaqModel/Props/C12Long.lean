import NasdaqModel.Model.Soup
/-
C12 / C03 / C04 — received data packets longer than the library itself can write.

The SoupBinTCP length prefix is an unsigned 16-bit number: a peer may send data packets with up to 65 534 payload bytes, while the
library's own encoder stops at 32 766 (`'!h'`).  Before the repair recorded in fixes/C03-soup-long-packets.md the decoder read the prefix
as *signed* and handed every received packet of 32 767 payload bytes and more to the application with an EMPTY payload.  These theorems
state, for the repaired decoder, that every payload of every legal length survives decoding byte-exact.
-/
namespace NasdaqModel.Props.C12Long
open NasdaqModel Py Soup

private theorem lenField_wire (n t : Nat) (rest : Bytes) :
    lenField (n / 256 :: n % 256 :: t :: rest) = (n : Int) := by
  have e : n / 256 * 256 + n % 256 = n := by omega
  show ((n / 256 * 256 + n % 256 : Nat) : Int) = n
  rw [e]

private theorem tail_eq (d : Bytes) (t : Nat) :
    (if lenField ((1 + d.length) / 256 :: (1 + d.length) % 256 :: t :: d) > 1
      then ((1 + d.length) / 256 :: (1 + d.length) % 256 :: t :: d).drop 3 else []) = d := by
  rw [lenField_wire]
  split
  · rfl
  · rename_i hh
    have : d.length = 0 := by omega
    exact (List.eq_nil_of_length_eq_zero this).symm

/-- **Sequenced data of every legal length decodes to its payload**: the wire form `[hi, lo, 'S'] ++ d` with
    `hi·256 + lo = 1 + |d|` decodes to `SequencedData d` — in particular for 32 767 ≤ |d| ≤ 65 534, which the signed reading lost. -/
theorem C12_decode_sequenced_any_length (d : Bytes) :
    decode ((1 + d.length) / 256 :: (1 + d.length) % 256 :: 83 :: d) = .ok (.seqData d) := by
  unfold decode
  simp only [List.getElem?_cons_succ, List.getElem?_cons_zero]
  simp only [show (83 : Nat) = 76 ↔ False by decide, show (83 : Nat) = 65 ↔ False by decide,
    show (83 : Nat) = 74 ↔ False by decide, if_false, if_true, pure_eq_ok]
  rw [tail_eq]

/-- the same for unsequenced data -/
theorem C12_decode_unsequenced_any_length (d : Bytes) :
    decode ((1 + d.length) / 256 :: (1 + d.length) % 256 :: 85 :: d) = .ok (.unseqData d) := by
  unfold decode
  simp only [List.getElem?_cons_succ, List.getElem?_cons_zero]
  simp only [show (85 : Nat) = 76 ↔ False by decide, show (85 : Nat) = 65 ↔ False by decide,
    show (85 : Nat) = 74 ↔ False by decide, show (85 : Nat) = 83 ↔ False by decide, if_false, if_true, pure_eq_ok]
  rw [tail_eq]

/-- the pre-repair reading of the prefix (`struct.unpack('!h c', …)`), kept only to state what was wrong -/
def lenFieldSigned (b : Bytes) : Int := unpackBE16s (b.getD 0 0) (b.getD 1 0)

/-- **What the signed reading did** to a payload of 40 000 bytes: the prefix reads negative, so `len_ > 1` fails and the payload is
    dropped (the packet `[0x9C, 0x41, 'S', …]`). -/
theorem C12_signed_prefix_dropped_long_payloads : lenFieldSigned [156, 65, 83] = -25535 ∧ ¬ (lenFieldSigned [156, 65, 83] > 1) := by
  decide

/-- non-vacuity: a one-byte payload and the 3-byte header arithmetic of a 40 000-byte payload -/
example : decode [0, 2, 83, 7] = .ok (.seqData [7]) := by decide
example : (1 + 40000) / 256 = 156 ∧ (1 + 40000) % 256 = 65 := by decide

end NasdaqModel.Props.C12Long
