import NasdaqModel.Props.C08
import NasdaqModel.Model.MonitorFlow
/-
C08 under transport flow control — "every window of two heartbeat intervals contains at least one outbound transmission" on a
transport that has told the session to stop writing.

`Model/MonitorFlow.lean` adds the transport's two callbacks (`pause_writing()`, `resume_writing()`: inherited from
`asyncio.BaseProtocol`, empty bodies — the session overrides neither) to the histories of `Model/Monitor.lean`, at arbitrary
positions (the transport, i.e. the peer's reading and the water marks, decides when).  An *outbound transmission* is a
`transport.write` call: a write the transport accepts into a buffer that is already over its high-water mark is still the
session emitting — whether and when the peer reads is not the session's doing, and the property is about the session.

* the callbacks change nothing in the session (`C08Flow_callbacks_noop`); erasing them from any history leaves the session's run
  unchanged — same writes at the same instants, same monitors, same close (`C08Flow_erasable`): a paused transport does not change
  WHEN the session emits;
* hence every clause of C08 holds for every history with callbacks anywhere: the gap bound (`C08Flow_gap`), one heartbeat per idle
  interval — in particular at every tick that falls while the transport is paused — (`C08Flow_idle_one_per_interval`), no
  heartbeat after a recent send (`C08Flow_no_hb_if_recent_send`), heartbeats only at ticks (`C08Flow_hb_only_at_ticks`);
* writes made while paused are writes (`C08Flow_paused_writes_are_writes`): they are in the session's write log, which is what the
  clauses above quantify over.
-/
namespace NasdaqModel.Props.C08Flow
open NasdaqModel.Monitor NasdaqModel.MonitorFlow NasdaqModel.Props.C08

private theorem frun_cons (x : FSess) (e : FEv) (evs : List FEv) : x.run (e :: evs) = (x.step e).run evs := rfl

/-- `pause_writing()` and `resume_writing()` leave the session — monitors, writes, closed flag, clock — exactly as it was -/
theorem C08Flow_callbacks_noop (x : FSess) : (x.step .pauseWriting).s = x.s ∧ (x.step .resumeWriting).s = x.s := ⟨rfl, rfl⟩

/-- a step of the session is the same step whether or not the transport has asked for a pause -/
theorem C08Flow_flag_not_consulted (x : FSess) (e : Ev) : (x.step (.base e)).s = x.s.step e := rfl

/-- **C08Flow_erasable.**  Deleting the transport's flow-control callbacks from a history changes nothing in the session: the same
    final state, hence the same writes at the same instants, the same monitor states and the same close. -/
theorem C08Flow_erasable (x : FSess) (evs : List FEv) : (x.run evs).s = x.s.run (baseOnly evs) := by
  induction evs generalizing x with
  | nil => rfl
  | cons e evs ih =>
    rw [frun_cons, ih]
    cases e <;> rfl

/-- **C08Flow_gap.**  From login until close every window `(t, t + 2·I]` of two own-role intervals contains an outbound write made
    on the open session — for every history, with `pause_writing()` / `resume_writing()` calls at any positions, however long the
    transport stays paused. -/
theorem C08Flow_gap (role : Role) (c : Cfg) (hc : wfCfg c = true) (evs : List FEv) (t : Nat)
    (h : t + 2 * ownInterval role c ≤ ((loginF role c).run evs).s.life) :
    ∃ w ∈ ((loginF role c).run evs).s.writes, w.live = true ∧ t < w.t ∧ w.t ≤ t + 2 * ownInterval role c := by
  rw [C08Flow_erasable] at h ⊢
  exact C08_gap role c hc (baseOnly evs) t h

/-- **C08Flow_idle_one_per_interval.**  A tick `T = k·I` (`k ≥ 2`, within the session's life) before which the application wrote
    nothing for one interval emits exactly one heartbeat, written on the open session — whether or not the transport is paused at
    `T`: ticks are neither skipped nor postponed by a pause. -/
theorem C08Flow_idle_one_per_interval (role : Role) (c : Cfg) (hc : wfCfg c = true) (evs : List FEv) (T : Nat)
    (hdvd : ownInterval role c ∣ T) (h2 : 2 * ownInterval role c ≤ T) (hlife : T ≤ ((loginF role c).run evs).s.life)
    (hidle : ∀ w ∈ ((loginF role c).run evs).s.writes, w.origin = .app → ¬ (T - ownInterval role c ≤ w.t ∧ w.t < T)) :
    monCount ((loginF role c).run evs).s.writes T = 1 ∧
      ∃ w ∈ ((loginF role c).run evs).s.writes, w.origin = .mon ∧ w.t = T ∧ w.live = true := by
  rw [C08Flow_erasable] at hlife hidle ⊢
  exact C08_idle_one_per_interval role c hc (baseOnly evs) T hdvd h2 hlife hidle

/-- **C08Flow_no_hb_if_recent_send.**  A monitor heartbeat at `T` means the application wrote nothing in `[T - I, T)`, also on a
    transport that pauses and resumes: a resume does not release a heartbeat of its own. -/
theorem C08Flow_no_hb_if_recent_send (role : Role) (c : Cfg) (hc : wfCfg c = true) (evs : List FEv) (w a : Write)
    (hw : w ∈ ((loginF role c).run evs).s.writes) (hwo : w.origin = .mon)
    (ha : a ∈ ((loginF role c).run evs).s.writes) (hao : a.origin = .app) :
    ¬ (w.t - ownInterval role c ≤ a.t ∧ a.t < w.t) := by
  rw [C08Flow_erasable] at hw ha
  exact C08_no_hb_if_recent_send role c hc (baseOnly evs) w a hw hwo ha hao

/-- **C08Flow_hb_only_at_ticks.**  Monitor heartbeats are written only at ticks `k·I`, `k ≥ 2`, one per tick — in particular none
    at the instant of a `resume_writing()` that is not a tick. -/
theorem C08Flow_hb_only_at_ticks (role : Role) (c : Cfg) (hc : wfCfg c = true) (evs : List FEv) (w : Write)
    (hw : w ∈ ((loginF role c).run evs).s.writes) (hwo : w.origin = .mon) :
    ownInterval role c ∣ w.t ∧ 2 * ownInterval role c ≤ w.t ∧ w.t ≤ ((loginF role c).run evs).s.life ∧ w.live = true ∧
      monCount ((loginF role c).run evs).s.writes w.t = 1 := by
  rw [C08Flow_erasable] at hw ⊢
  exact C08_hb_only_at_ticks role c hc (baseOnly evs) w hw hwo

private theorem tickRemote_writes (u : Sess) : u.tickRemote.writes = u.writes := by
  by_cases h : u.rem.adv.2 = true <;> simp [Sess.tickRemote, h]

private theorem tickLocal_writes (u : Sess) : ∃ l, u.tickLocal.writes = l ++ u.writes := by
  by_cases h : u.loc.adv.2 = true
  · exact ⟨[{ t := u.now, origin := .mon, live := !u.closed }], by simp [Sess.tickLocal, h]⟩
  · exact ⟨[], by simp [Sess.tickLocal, h]⟩

private theorem writes_step_suffix (s : Sess) (e : Ev) : ∃ l, (s.step e).writes = l ++ s.writes := by
  cases e with
  | adv =>
    obtain ⟨l, hl⟩ := tickLocal_writes s.bump
    exact ⟨l, by show (s.bump.tickLocal.tickRemote).writes = l ++ s.writes; rw [tickRemote_writes, hl]; simp⟩
  | send => exact ⟨[{ t := s.now, origin := .app, live := !s.closed }], by simp [Sess.step]⟩
  | sendHb => exact ⟨[{ t := s.now, origin := .appHb, live := !s.closed }], by simp [Sess.step]⟩
  | sendFailed => exact ⟨[], rfl⟩
  | recv k => exact ⟨[], by simp [Sess.step]⟩
  | close => exact ⟨[], by simp [Sess.step]⟩

private theorem newWrites_sub (s : Sess) (e : Ev) : ∀ w ∈ newWrites s (s.step e), w ∈ (s.step e).writes := by
  intro w hw
  exact List.mem_of_mem_take hw

private theorem writes_mono (s : Sess) (e : Ev) : ∀ w ∈ s.writes, w ∈ (s.step e).writes := by
  intro w hw
  obtain ⟨l, hl⟩ := writes_step_suffix s e
  rw [hl]; exact List.mem_append_right _ hw

/-- **C08Flow_paused_writes_are_writes.**  What the session writes while the transport has asked for a pause is written: every such
    write is in the session's write log (the log the clauses above quantify over) — a buffered transmission is a transmission. -/
theorem C08Flow_paused_writes_are_writes (role : Role) (c : Cfg) (evs : List FEv) :
    ∀ w ∈ ((loginF role c).run evs).pausedWrites, w ∈ ((loginF role c).run evs).s.writes := by
  have key : ∀ (evs : List FEv) (x : FSess), (∀ w ∈ x.pausedWrites, w ∈ x.s.writes) →
      ∀ w ∈ (x.run evs).pausedWrites, w ∈ (x.run evs).s.writes := by
    intro evs
    induction evs with
    | nil => intro x h; exact h
    | cons e evs ih =>
      intro x h
      rw [frun_cons]
      apply ih
      cases e with
      | pauseWriting => exact h
      | resumeWriting => exact h
      | base e =>
        intro w hw
        show w ∈ (x.s.step e).writes
        have hw' : w ∈ (if x.writingPaused then newWrites x.s (x.s.step e) ++ x.pausedWrites else x.pausedWrites) := hw
        split at hw'
        · rcases List.mem_append.mp hw' with h1 | h1
          · exact newWrites_sub x.s e w h1
          · exact writes_mono x.s e w (h w h1)
        · exact writes_mono x.s e w (h w hw')
  exact key evs (loginF role c) (by intro w hw; cases hw)

set_option maxRecDepth 100000 in
/-- non-vacuity (the history seeded change C08j is about): an idle FIX session with interval 4; the transport calls `pause_writing()`
    from inside the heartbeat write at 8 and `resume_writing()` only at 23.  The session lives 24 units; its writes are the
    heartbeats at 8, 12, 16, 20, 24 — those at 12, 16, 20 were made while paused, none was skipped or postponed — so the window
    (8, 16], which lies entirely inside the pause, is served; and the callbacks are really in the history. -/
example :
    let evs := List.replicate 8 (FEv.base .adv) ++ [.pauseWriting] ++ List.replicate 15 (.base .adv) ++ [.resumeWriting, .base .adv]
    let x := (loginF .fix ⟨4, 100⟩).run evs
    x.s.life = 24 ∧ x.s.writes.map (fun w => (w.t, w.origin)) = [(24, .mon), (20, .mon), (16, .mon), (12, .mon), (8, .mon)] ∧
      x.pausedWrites.map (fun w => w.t) = [20, 16, 12] ∧ x.flowCalls = [(23, false), (8, true)] ∧ x.writingPaused = false ∧
      8 + 2 * ownInterval .fix ⟨4, 100⟩ ≤ x.s.life ∧ (baseOnly evs).length + 2 = evs.length := by decide

end NasdaqModel.Props.C08Flow
