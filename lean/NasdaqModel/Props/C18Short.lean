import NasdaqModel.Lemmas.HeapCutLemmas
import NasdaqModel.Props.C18
/-
C18 with SHORT frames (`Model/HeapCut.lean`: the histories of `Model/HeapD.lean` plus `cut b n` = `bytearray(buffer_b[:n])`, so that
`decode` is applied to frames that end at any byte — before a trailing array, inside a count, inside a nested record).

"Decoded messages share no mutable state with one another, with the bytes they were decoded from, or with class-level defaults",
and what any other instance — existing or created later — reads or encodes is unchanged:

  * `C18S_frame`, `C18S_encode_frame`       — every schema, every table of declared defaults, EVERY history of operations and cuts and
    every further operation: what any instance other than the one the operation is about reads / encodes is unchanged.  In-place
    changes of the lists a message decoded from a short frame holds are operations about THAT message.
  * `C18S_cut_changes_nobody`               — cutting a buffer changes what no instance reads.
  * `C18S_decode_short_fresh`               — in every reachable state, whatever the buffer holds (a complete encoding, a frame cut
    anywhere, scribbled bytes): the decoded instance consists of new cells only, no existing cell is written, references stay inside
    their owner (`FreshInstance` of Props/C18.lean): `decode` never returns a reference into a class-level default.
  * `C18S_fresh_reads_constant`, `C18S_fresh_encoding_constant` — after ANY history (decodes of short frames and in-place changes of
    the decoded messages included) an instance created by `Cls()` reads and encodes one and the same thing: a function of the schema,
    the declared defaults and the class alone (`freshReads`, `freshEncoding`) — the history does not occur in it.
  * `C18S_decoded_reads_bytes_only`         — after ANY history a decoded instance reads a function of the bytes of the buffer
    alone: a second decode of the same short frame, after the first decoded message was changed in place, reads what the first read.
The schema hypothesis `S.freshArrayDefault = true` is the code as it is (/repo fcb8b8f), to which the harness pins the model.
The variant in which a trailing array of a short frame IS the class-level list (seeded change C18k) is refuted on a concrete
history in `Witness/C18Short.lean`.
-/
namespace NasdaqModel.Props.C18Short
open NasdaqModel Heap HeapD HeapCut

/-- **C18S_inv_always.**  The ownership invariant of `Lemmas/HeapLemmas.lean` in every state reachable with cuts. -/
theorem C18S_inv_always (S : Schema) (hS : S.freshArrayDefault = true) (D : Defaults) (ops : List OpC) :
    Inv (runC S D init ops) :=
  runC_inv hS D ops init init_inv

/-- **C18S_frame.**  Every schema, every table of declared defaults, EVERY history (operations of `Model/Heap.lean`, reads and
    in-place changes through declared defaults, cuts, decodes of cut buffers), every further operation: what any instance `b` other
    than the one the operation is about reads is unchanged.  `b` ranges over existing instances and over ids not yet in use. -/
theorem C18S_frame (S : Schema) (hS : S.freshArrayDefault = true) (D : Defaults) (ops : List OpC) (op : OpC)
    (b : Nat) (hb : b ≠ op.target (runC S D init ops)) (n : Nat) :
    viewD S D n (runC S D init (ops ++ [op])) b = viewD S D n (runC S D init ops) b := by
  rw [runC_append]
  unfold stepKC
  cases hs : stepC S D (runC S D init ops) op with
  | error e => rfl
  | ok H' =>
    obtain ⟨hins, hd⟩ := stepC_frame_core hS (C18S_inv_always S hS D ops) hs hb
    unfold viewD view
    simp only
    rw [hins]
    cases hcr : (runC S D init ops).insts[b]? with
    | none => rfl
    | some cr => simp only [Option.map_some]; rw [hd n cr hcr]

/-- **C18S_encode_frame.**  The same for what `b` encodes (bytes or exception class). -/
theorem C18S_encode_frame (S : Schema) (hS : S.freshArrayDefault = true) (D : Defaults) (ops : List OpC) (op : OpC)
    (b : Nat) (hb : b ≠ op.target (runC S D init ops)) :
    encodeInstD S D (runC S D init (ops ++ [op])) b = encodeInstD S D (runC S D init ops) b := by
  rw [runC_append]
  unfold stepKC
  cases hs : stepC S D (runC S D init ops) op with
  | error e => rfl
  | ok H' =>
    obtain ⟨hins, hd⟩ := stepC_frame_core hS (C18S_inv_always S hS D ops) hs hb
    unfold encodeInstD
    simp only
    rw [hins]
    cases hcr : (runC S D init ops).insts[b]? with
    | none => rfl
    | some cr => simp only; rw [hd _ cr hcr]

/-- **C18S_cut_changes_nobody.**  `bytearray(buffer[:n])` changes what NO instance reads (no exception for any `b`). -/
theorem C18S_cut_changes_nobody (S : Schema) (hS : S.freshArrayDefault = true) (D : Defaults) (ops : List OpC)
    (buf k : Nat) (b n : Nat) :
    viewD S D n (runC S D init (ops ++ [.cut buf k])) b = viewD S D n (runC S D init ops) b := by
  by_cases hb : b = (runC S D init ops).insts.length
  · -- the id of no instance, before and after: a cut creates none
    have hi := C18S_inv_always S hS D ops
    rw [runC_append]
    unfold stepKC
    cases hs : stepC S D (runC S D init ops) (.cut buf k) with
    | error e => rfl
    | ok H' =>
      have hins : H'.insts = (runC S D init ops).insts := by
        rcases stepC_cases hs with h | ⟨bs, h⟩ | ⟨o, ho, _⟩
        · rw [h]
        · rw [h]; rfl
        · cases ho
      unfold viewD view
      simp only
      rw [hins, hb]
      simp
  · exact C18S_frame S hS D ops (.cut buf k) b hb n

/-- **C18S_decode_short_fresh.**  In every reachable state, for EVERY buffer — a complete encoding, a frame cut at any byte, bytes
    overwritten by the caller —: the instance `from_bytes` returns consists of new cells only, no existing cell (other instances,
    class-level defaults, the buffer) is written, and every reference stays inside its owner afterwards. -/
theorem C18S_decode_short_fresh (S : Schema) (hS : S.freshArrayDefault = true) (D : Defaults) (ops : List OpC) (c b : Nat)
    (H' : Heap) (hs : stepC S D (runC S D init ops) (.op (.decode c b)) = .ok H') :
    Props.C18.FreshInstance (runC S D init ops) H' :=
  Props.C18.C18_decode_fresh S _ H' c b (C18S_inv_always S hS D ops) hs

/-! ### what a created / decoded instance reads does not depend on the history -/

/-- the root of a newly built graph, observed in the heap that holds it -/
private theorem created_deref (S : Schema) (hS : S.freshArrayDefault = true) {H : Heap} (hi : Inv H) (t : Tree) (root : Addr)
    (hroot : (allocTree (Owner.inst H.insts.length) t H.cells).2 = Val.ref root) (n : Nat) :
    deref S n (allocTree (Owner.inst H.insts.length) t H.cells).1 (.ref root) = treeObs S n t := by
  rw [← hroot]
  obtain ⟨c0, hc0, _⟩ := hi.cls0
  exact allocTree_obs S hS _ n t H.cells hi.closed ⟨c0, hc0⟩

/-- what `Cls()` of class `c` reads, to depth `n`: the schema, the declared defaults, the class — nothing else -/
def freshReads (S : Schema) (D : Defaults) (n c : Nat) : Option DVal :=
  match freshTree S (S.classes.length + 1) c with
  | .ok t => some (patch S D n (treeObs S n t))
  | .error _ => Option.none

/-- what `Cls().to_bytes()` gives -/
def freshEncoding (S : Schema) (D : Defaults) (c : Nat) : Except Err Bytes :=
  match freshTree S (S.classes.length + 1) c with
  | .ok t => encodeD S (obsDepth S) c (patch S D (obsDepth S) (treeObs S (obsDepth S) t))
  | .error e => .error e

/-- **C18S_fresh_reads_constant.**  After EVERY history — decodes of complete and of short frames, in-place changes of decoded
    messages and of anything else, cuts, scribbles — an instance created by `Cls()` reads `freshReads S D n c`: the same as the
    first instance ever created, whatever happened in between. -/
theorem C18S_fresh_reads_constant (S : Schema) (hS : S.freshArrayDefault = true) (D : Defaults) (ops : List OpC) (c : Nat)
    (H' : Heap) (hs : stepC S D (runC S D init ops) (.op (.new c)) = .ok H') (n : Nat) :
    viewD S D n H' (runC S D init ops).insts.length = freshReads S D n c := by
  have hi := C18S_inv_always S hS D ops
  have hs' : step S (runC S D init ops) (.new c) = .ok H' := hs
  simp only [step] at hs'
  obtain ⟨t, ht, hs'⟩ := bind_ok hs'
  split at hs'
  · rename_i root hroot
    injection hs' with hs'; subst hs'
    unfold viewD view freshReads
    simp only [List.getElem?_concat_length, ht, Option.map_some]
    rw [created_deref S hS hi t root hroot n]
  · simp at hs'

/-- **C18S_fresh_encoding_constant.**  …and encodes `freshEncoding S D c`. -/
theorem C18S_fresh_encoding_constant (S : Schema) (hS : S.freshArrayDefault = true) (D : Defaults) (ops : List OpC) (c : Nat)
    (H' : Heap) (hs : stepC S D (runC S D init ops) (.op (.new c)) = .ok H') :
    encodeInstD S D H' (runC S D init ops).insts.length = freshEncoding S D c := by
  have hi := C18S_inv_always S hS D ops
  have hs' : step S (runC S D init ops) (.new c) = .ok H' := hs
  simp only [step] at hs'
  obtain ⟨t, ht, hs'⟩ := bind_ok hs'
  split at hs'
  · rename_i root hroot
    injection hs' with hs'; subst hs'
    unfold encodeInstD freshEncoding
    simp only [List.getElem?_concat_length, ht]
    rw [created_deref S hS hi t root hroot]
  · simp at hs'

/-- what `from_bytes(bs)` reads, to depth `n`: the schema, the declared defaults, the bytes — nothing else -/
def decodedReads (S : Schema) (D : Defaults) (n c : Nat) (bs : Bytes) : Option DVal :=
  match parseInst S c bs with
  | .ok ct => some (patch S D n (treeObs S n ct.2))
  | .error _ => Option.none

/-- **C18S_decoded_reads_bytes_only.**  After EVERY history, decoding buffer `b` that holds the bytes `bs` (all of an encoding or
    the first bytes of one) gives an instance that reads `decodedReads S D n c bs`: nothing of what earlier decoded messages became
    after they were changed in place, nothing of any other instance. -/
theorem C18S_decoded_reads_bytes_only (S : Schema) (hS : S.freshArrayDefault = true) (D : Defaults) (ops : List OpC) (c b : Nat)
    (ba : Addr) (own : Owner) (bs : Bytes)
    (hb : (runC S D init ops).bufs[b]? = some ba) (hc : (runC S D init ops).cells[ba]? = some ⟨own, .buf bs⟩)
    (H' : Heap) (hs : stepC S D (runC S D init ops) (.op (.decode c b)) = .ok H') (n : Nat) :
    viewD S D n H' (runC S D init ops).insts.length = decodedReads S D n c bs := by
  have hi := C18S_inv_always S hS D ops
  have hs' : step S (runC S D init ops) (.decode c b) = .ok H' := hs
  simp only [step, hb, hc] at hs'
  obtain ⟨ct, hct, hs'⟩ := bind_ok hs'
  split at hs'
  · rename_i root hroot
    injection hs' with hs'; subst hs'
    unfold viewD view decodedReads
    simp only [List.getElem?_concat_length, hct, Option.map_some]
    rw [created_deref S hS hi ct.2 root hroot n]
  · simp at hs'

/-! ### non-vacuity: a message whose layout ends with an array, decoded from a frame that ends before that array -/

/-- message 81: a 4-byte int and an array of 4-byte ints (2-byte count); message 84: a 2-byte int and an array of 2-byte ints -/
def exS : Schema :=
  ⟨true, [.binRec (some 81) [.int ⟨4, false, false⟩ Option.none, .arr (.int ⟨4, false, false⟩) ⟨2, false, false⟩],
          .binRec (some 84) [.int ⟨2, false, false⟩ Option.none, .arr (.int ⟨2, false, false⟩) ⟨2, false, false⟩]]⟩

def exD : Defaults := ⟨[]⟩

/-- an instance with `order_book = 5`, encoded; the frame cut after the id byte and the int (5 bytes: nothing left for the
    array); the short frame decoded (instance 1); two items appended IN PLACE to the decoded message's array; fresh instances of
    both types; the same short frame decoded again (instance 4) -/
def exOps : List OpC :=
  [.op (.new 0), .op (.assign 0 [] 0 (.int 5)), .op (.mkbuf 0), .cut 0 5, .op (.decode 0 1),
   .op (.append 1 [.fld 1] (.int 7)), .op (.append 1 [.fld 1] (.int 8)),
   .op (.new 0), .op (.new 1), .op (.decode 0 1)]

example : exS.freshArrayDefault = true := rfl
example : (runC exS exD init exOps).insts.length = 5 := by decide
/-- the decoded message holds its own list -/
example : encodeInstD exS exD (runC exS exD init exOps) 1 = .ok [81, 5, 0, 0, 0, 2, 0, 7, 0, 0, 0, 8, 0, 0, 0] := by decide
/-- fresh instances of both types, created afterwards, read and encode an empty array -/
example : encodeInstD exS exD (runC exS exD init exOps) 2 = .ok [81, 0, 0, 0, 0, 0, 0] := by decide
example : encodeInstD exS exD (runC exS exD init exOps) 3 = .ok [84, 0, 0, 0, 0] := by decide
example : freshEncoding exS exD 0 = .ok [81, 0, 0, 0, 0, 0, 0] := by decide
/-- and so does a second decode of the same short frame -/
example : encodeInstD exS exD (runC exS exD init exOps) 4 = .ok [81, 5, 0, 0, 0, 0, 0] := by decide
/-- a cut inside the int: a shorter number (`int.from_bytes` of a short slice), still a message -/
example : encodeInstD exS exD (runC exS exD init [.op (.new 0), .op (.assign 0 [] 0 (.int 772)), .op (.mkbuf 0), .cut 0 2,
    .op (.decode 0 1)]) 1 = .ok [81, 4, 0, 0, 0, 0, 0] := by decide
/-- an empty frame is no message (`KeyError`: message id 0) -/
example : (stepC exS exD (runC exS exD init [.op (.new 0), .op (.mkbuf 0), .cut 0 0]) (.op (.decode 0 1))).toOption.isNone = true := by
  decide

end NasdaqModel.Props.C18Short
