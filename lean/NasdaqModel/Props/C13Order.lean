import NasdaqModel.Props.C13Anchor
/-
C13 — the ORDER of the fields of header, body and trailer.  The statement lets the fields be assigned in any order and demands that the
decoded message "compares equal to the original".  `Message.__eq__` compares the three segments as OrderedDicts (`segEqTop`: order
sensitive at the top level, plain-dict only inside group instances), so equality after a round trip NEEDS the wire order of every segment
to be the order in which its fields were assigned.  `DataSegment.to_bytes` writes `values` in insertion order and gives no tag a place of
its own — not BeginString (8), not BodyLength (9), not CheckSum (10): the codec does no framing (that is C14's).

  * `C13Order_eq_is_order_sensitive` — `pyEqDict a b = true` forces the same key order in header, body and trailer;
  * `C13Order_decoded_keeps_assignment_order` — what decoding returns (`canonMsg d m`, by `C13_roundtrip`) lists the fields of every
    top-level segment in the order of `m`, whatever the tags are;
  * `C13Order_roundtrip_order` — the two together with `C13_roundtrip_any_order`, on the bytes: the decoded message's segments have the
    assigned key order (so no encoder that moves a field — "CheckSum last" — can satisfy the statement with this `==`; the decided
    counterexample is `Witness/C13Order.lean`);
  * the dictionary with FIX's standard header and trailer (8, 35, 34 / 93, 89, 10) and a message that assigns CheckSum FIRST in the
    trailer and BeginString LAST in the header is inside the quantifier and round-trips (`C13Order_standard_trailer_roundtrip`).
-/
namespace NasdaqModel.Props.C13Order
open NasdaqModel Py Fix Props.C13 Props.C13Anchor

private theorem segEqTop_keys : ∀ (a b : Seg), segEqTop a b = true → keysOf a = keysOf b
  | [], [], _ => rfl
  | [], _ :: _, h => by simp [segEqTop] at h
  | _ :: _, [], h => by simp [segEqTop] at h
  | (k, v) :: s, (k', v') :: s', h => by
    simp only [segEqTop, Bool.and_eq_true, beq_iff_eq] at h
    simp only [keysOf, List.map_cons, List.cons.injEq]
    exact ⟨h.1.1, segEqTop_keys s s' h.2⟩

private theorem keysOf_canonSeg (es : List Entry) (s : Seg) : keysOf (canonSeg es s) = keysOf s := by
  simp [keysOf, canonSeg, List.map_map, Function.comp_def]

/-- **`==` is order sensitive on header, body and trailer.** -/
theorem C13Order_eq_is_order_sensitive (a b : Msg) (h : pyEqDict a b = true) :
    keysOf a.hdr = keysOf b.hdr ∧ keysOf a.body = keysOf b.body ∧ keysOf a.trl = keysOf b.trl := by
  simp only [pyEqDict, Bool.and_eq_true] at h
  exact ⟨segEqTop_keys _ _ h.1.1, segEqTop_keys _ _ h.1.2, segEqTop_keys _ _ h.2⟩

/-- **The decoded form keeps the assignment order of every top-level segment**, for every dictionary and every message. -/
theorem C13Order_decoded_keeps_assignment_order (d : MsgDef) (m : Msg) :
    keysOf (canonMsg d m).hdr = keysOf m.hdr ∧ keysOf (canonMsg d m).body = keysOf m.body ∧
    keysOf (canonMsg d m).trl = keysOf m.trl := by
  simp only [canonMsg, keysOf_canonSeg, and_self]

/-- **On the bytes**: whatever `decodeMsg` returns for the encoding of a well-formed message holds the fields of header, body and
    trailer in the order in which they were assigned — CheckSum assigned before Signature stays before it. -/
theorem C13Order_roundtrip_order (reg : List MsgDef) (d : MsgDef) (m : Msg) (bs : Bytes)
    (hd : wfDef d = true) (hm : wfMsg d m = true) (henc : encMsg d m = .ok bs)
    (r : Bool) (hmem : (35, Val.str d.type) ∈ m.hdr)
    (hentry : lookupE d.hdr 35 = some (.field 35 .string r)) (hreg : lookupReg reg d.type = some d)
    (n : Nat) (d' : MsgDef) (m' : Msg) (hdec : decodeMsg reg bs = .ok (n, d', m')) :
    keysOf m'.hdr = keysOf m.hdr ∧ keysOf m'.body = keysOf m.body ∧ keysOf m'.trl = keysOf m.trl ∧ pyEqDict m' m = true := by
  have h := C13_roundtrip_any_order reg d m bs hd hm henc r hmem hentry hreg
  rw [h] at hdec
  cases hdec
  obtain ⟨h1, h2, h3⟩ := C13Order_decoded_keeps_assignment_order d m
  exact ⟨h1, h2, h3, C13_eq_original d m hd hm⟩

/-! ### non-vacuity: FIX's standard header and trailer, CheckSum assigned first -/

/-- header BeginString(8), MsgType(35), MsgSeqNum(34); body Text(58); trailer SignatureLength(93), Signature(89), CheckSum(10) -/
def orderDef : MsgDef :=
  { name := [79, 114, 100], type := [72, 75],
    hdr := [.field 8 .string true, .field 35 .string true, .field 34 .int false],
    body := [.field 58 .string false],
    trl := [.field 93 .int false, .field 89 .string false, .field 10 .string true] }

/-- MsgSeqNum, MsgType, BeginString assigned in that order; trailer: CheckSum FIRST, then SignatureLength, Signature
    (corpus/C13/trailer-checksum-assigned-first.json) -/
def orderMsg : Msg :=
  { hdr := [(34, .int 7), (35, .str [72, 75]), (8, .str [70, 73, 88])],
    body := [(58, .str [104, 105])],
    trl := [(10, .str [48, 48, 55]), (93, .int 2), (89, .str [122, 122])] }

example : wfDef orderDef = true := by decide
example : wfMsg orderDef orderMsg = true := by decide
example : (35, Val.str orderDef.type) ∈ orderMsg.hdr := .tail _ (.head _)
example : lookupE orderDef.hdr 35 = some (.field 35 .string true) := rfl
example : lookupReg [orderDef] orderDef.type = some orderDef := rfl

/-- the wire: `34=7|35=HK|8=FIX|58=hi|10=007|93=2|89=zz|` — assignment order, CheckSum in front of the signature -/
theorem C13Order_standard_trailer_wire :
    encMsg orderDef orderMsg = .ok [51,52,61,55,1, 51,53,61,72,75,1, 56,61,70,73,88,1, 53,56,61,104,105,1,
                                    49,48,61,48,48,55,1, 57,51,61,50,1, 56,57,61,122,122,1] := by decide +kernel

/-- it decodes to the same class, every byte consumed, to a message `==` the original with the trailer still `[10, 93, 89]` -/
theorem C13Order_standard_trailer_roundtrip :
    (match encMsg orderDef orderMsg with
     | .ok bs => (match decodeMsg [orderDef] bs with
                  | .ok r => r.1 == bs.length && pyEqDict r.2.2 orderMsg && keysOf r.2.2.trl == [10, 93, 89] &&
                             keysOf r.2.2.hdr == [34, 35, 8]
                  | .error _ => false)
     | .error _ => false) = true := by decide +kernel

end NasdaqModel.Props.C13Order
