import NasdaqModel.Model.Registry
/-
C19 — message ids resolve to the right class, per application, or not at all.

All theorems are about `run r ds`, the registry after executing the class statements `ds` *in the order given* (statements
that raise leave the registry alone) and hold for every list `ds`, i.e. for every set of applications and every definition
order.  The central fact is `C19_lookup_first`: an id of an application resolves to the class of the FIRST statement that
declared that id in that application, for ever; everything else follows from it.
-/
namespace NasdaqModel.Props.C19
open NasdaqModel Registry

/-- where a class statement registers, if it registers: (application namespace, id key) -/
def target (d : Decl) : Option (Nat × Key) :=
  match resolve d with
  | .ok t => t
  | .error _ => none

/-- no two entries of the registry have the same (application, id) -/
def NoDupKeys (r : Reg) : Prop := (r.ids.map (fun e => (e.app, e.key))).Nodup

/-- class identities are what Python guarantees: every class statement creates a new class object -/
def freshClasses (ds : List Decl) : Prop := (ds.map (·.cid)).Nodup

/-! ### helper facts (local) -/

private theorem lookupId_append (ids : List Entry) (e : Entry) (nm : List (Nat × Nat × Nat)) (a : Nat) (k : Key) :
    lookupId { ids := ids ++ [e], names := nm } a k =
      (lookupId { ids := ids, names := nm } a k).or (if e.app = a ∧ e.key = k then some e.cls else none) := by
  unfold lookupId
  simp only [List.find?_append, Option.map_or]
  congr 1
  by_cases h : e.app = a ∧ e.key = k
  · simp [List.find?, h]
  · have : (e.app == a && e.key == k) = false := by
      rcases Classical.not_and_iff_not_or_not.mp h with h1 | h1 <;> simp [h1]
    simp [List.find?, this, h]

private theorem lookupId_none_iff (r : Reg) (a : Nat) (k : Key) :
    lookupId r a k = none ↔ (a, k) ∉ r.ids.map (fun e => (e.app, e.key)) := by
  unfold lookupId
  simp only [Option.map_eq_none_iff, List.find?_eq_none, List.mem_map, not_exists, not_and]
  constructor
  · intro h e he heq
    have := h e he
    simp only [Prod.mk.injEq] at heq
    simp [heq.1, heq.2] at this
  · intro h e he
    have := h e he
    simp only [Prod.mk.injEq, not_and] at this
    simp only [Bool.and_eq_true, beq_iff_eq, not_and]
    exact this

/-- the four things a class statement can do to the registry -/
private theorem step_cases (r : Reg) (d : Decl) :
    (target d = none ∧ step r d = r) ∨
    (∃ a k, target d = some (a, k) ∧
      ((∃ c, lookupId r a k = some c ∧ c ≠ d.cid ∧ step r d = r ∧ defineMsg r d = .error .dup) ∨
       (lookupId r a k = some d.cid ∧ step r d = { r with names := setName r.names a d.name d.cid }) ∨
       (lookupId r a k = none ∧
          step r d = { ids := r.ids ++ [{ app := a, key := k, cls := d.cid }],
                       names := setName r.names a d.name d.cid }))) := by
  unfold step defineMsg target
  cases hr : resolve d with
  | error e => left; simp
  | ok t =>
    cases t with
    | none => left; simp
    | some ak =>
      obtain ⟨a, k⟩ := ak
      right
      refine ⟨a, k, rfl, ?_⟩
      simp only [register]
      cases hl : lookupId r a k with
      | none => right; right; simp
      | some c =>
        by_cases hc : c = d.cid
        · right; left; subst hc; simp
        · left
          have : (c != d.cid) = true := by simpa using hc
          exact ⟨c, rfl, hc, by simp [this], by simp [this]⟩

/-- one class statement: what every lookup sees afterwards -/
private theorem lookup_step (r : Reg) (d : Decl) (a : Nat) (k : Key) :
    lookupId (step r d) a k =
      (lookupId r a k).or (if target d = some (a, k) then some d.cid else none) := by
  rcases step_cases r d with ⟨ht, hs⟩ | ⟨a', k', ht, h⟩
  · rw [hs, ht]; simp
  · rw [ht]
    by_cases hak : a' = a ∧ k' = k
    · obtain ⟨h1, h2⟩ := hak
      subst h1 h2
      rcases h with ⟨c, hl, _, hs, _⟩ | ⟨hl, hs⟩ | ⟨hl, hs⟩
      · rw [hs, hl]; simp
      · rw [hs]
        show lookupId r a' k' = _
        rw [hl]; simp
      · rw [hs, lookupId_append]
        show (lookupId r a' k').or _ = _
        rw [hl]; simp
    · have hne : ¬ ((a', k') = (a, k)) := by simpa [Prod.mk.injEq] using hak
      have hif : (if some (a', k') = some (a, k) then some d.cid else none) = none := by
        simp [hne]
      rw [hif]
      rcases h with ⟨c, _, _, hs, _⟩ | ⟨_, hs⟩ | ⟨_, hs⟩
      · rw [hs]; simp
      · rw [hs]
        show lookupId r a k = _
        simp
      · rw [hs, lookupId_append]
        show (lookupId r a k).or _ = _
        simp [hak]

private theorem step_nodup (r : Reg) (d : Decl) (h : NoDupKeys r) : NoDupKeys (step r d) := by
  rcases step_cases r d with ⟨_, hs⟩ | ⟨a, k, _, h'⟩
  · rw [hs]; exact h
  · rcases h' with ⟨c, _, _, hs, _⟩ | ⟨_, hs⟩ | ⟨hl, hs⟩
    · rw [hs]; exact h
    · rw [hs]; exact h
    · rw [hs]
      unfold NoDupKeys at h ⊢
      simp only [List.map_append, List.map_cons, List.map_nil]
      rw [List.nodup_append]
      refine ⟨h, by simp, ?_⟩
      intro x hx y hy
      simp only [List.mem_singleton] at hy
      subst hy
      intro hxy
      subst hxy
      exact (lookupId_none_iff r _ _).mp hl hx

/-! ### the property -/

/-- **First declaration wins, for ever** — the complete description of every lookup after any program:
    what was registered before stays; otherwise the id resolves to the class of the first statement of `ds` that declares
    (application `a`, id `k`); if there is none, to nothing. -/
theorem C19_lookup_first (ds : List Decl) : ∀ (r : Reg) (a : Nat) (k : Key),
    lookupId (run r ds) a k =
      (lookupId r a k).or ((ds.find? (fun d => target d == some (a, k))).map (·.cid)) := by
  induction ds with
  | nil => intro r a k; simp [run]
  | cons d rest ih =>
    intro r a k
    show lookupId (run (step r d) rest) a k = _
    rw [ih, lookup_step]
    by_cases hd : target d = some (a, k)
    · cases hh : lookupId r a k <;> simp [List.find?, hd]
    · have : (target d == some (a, k)) = false := by simpa using hd
      cases hh : lookupId r a k <;> simp [List.find?, hd, this]

/-- **Unique.** Within one application namespace an id names at most one class (the registry never holds two entries for
    the same application and id), and a class statement for an id that already names a *different* class raises
    `DuplicateMessageException`. -/
theorem C19_unique (ds : List Decl) : NoDupKeys (run Reg.empty ds) ∧
    ∀ (d : Decl) (a : Nat) (k : Key) (c : Nat), target d = some (a, k) →
      lookupId (run Reg.empty ds) a k = some c → c ≠ d.cid → defineMsg (run Reg.empty ds) d = .error .dup := by
  constructor
  · have : ∀ (ds : List Decl) (r : Reg), NoDupKeys r → NoDupKeys (run r ds) := by
      intro ds
      induction ds with
      | nil => intro r h; exact h
      | cons d rest ih => intro r h; exact ih (step r d) (step_nodup r d h)
    exact this ds Reg.empty (by simp [NoDupKeys, Reg.empty])
  · intro d a k c hres hl hc
    rcases step_cases (run Reg.empty ds) d with ⟨ht, _⟩ | ⟨a', k', ht, h⟩
    · rw [ht] at hres; simp at hres
    · rw [ht] at hres
      simp only [Option.some.injEq, Prod.mk.injEq] at hres
      obtain ⟨h1, h2⟩ := hres
      subst h1 h2
      rcases h with ⟨c', _, _, _, he⟩ | ⟨hl', _⟩ | ⟨hl', _⟩
      · exact he
      · rw [hl] at hl'; exact absurd (Option.some.inj hl') hc
      · rw [hl] at hl'; simp at hl'

/-- **A rejected definition leaves the state alone**: whatever exception the class statement raises (duplicate id, missing
    `indicator`), the registries — and therefore every later lookup and decode — are exactly what they were. -/
theorem C19_dup_rejected_state_unchanged (r : Reg) (d : Decl) (e : Err) (h : defineMsg r d = .error e) :
    step r d = r ∧ ∀ rest, run r (d :: rest) = run r rest := by
  have hs : step r d = r := by unfold step; rw [h]
  exact ⟨hs, fun rest => by show run (step r d) rest = run r rest; rw [hs]⟩

/-- **Isolated.** Whatever class decoding through an application's base class returns, it was declared for exactly that id
    in exactly that application: there is a class statement of the program with that class identity whose namespace is the
    base's application and whose id is the decoded one (`OuchMessageId(byte)` = direction 'outgoing' for OUCH). -/
theorem C19_isolated (ds : List Decl) (b : Base) (byte c : Nat) (h : decode (run Reg.empty ds) b byte = .ok c) :
    ∃ d ∈ ds, d.cid = c ∧ target d = some (b.app, decodeKey b.proto byte) := by
  unfold decode at h
  cases hl : lookupId (run Reg.empty ds) b.app (decodeKey b.proto byte) with
  | none => simp [hl] at h
  | some c' =>
    simp only [hl, Except.ok.injEq] at h
    subst h
    rw [C19_lookup_first] at hl
    have h0 : lookupId Reg.empty b.app (decodeKey b.proto byte) = none := rfl
    rw [h0] at hl
    simp only [Option.none_or, Option.map_eq_some_iff] at hl
    obtain ⟨d, hd, hc⟩ := hl
    have := List.find?_some hd
    exact ⟨d, List.mem_of_find?_eq_some hd, hc, by simpa using this⟩

private theorem nodup_map_inj : ∀ (ds : List Decl), freshClasses ds → ∀ {x y : Decl}, x ∈ ds → y ∈ ds → x.cid = y.cid → x = y := by
  intro ds
  induction ds with
  | nil => intro _ x y hx; simp at hx
  | cons d rest ih =>
    intro hf x y hx hy hxy
    unfold freshClasses at hf
    simp only [List.map_cons, List.nodup_cons, List.mem_map, not_exists, not_and] at hf
    rcases List.mem_cons.mp hx with rfl | hx' <;> rcases List.mem_cons.mp hy with rfl | hy'
    · rfl
    · exact absurd hxy.symm (hf.1 y hy')
    · exact absurd hxy (hf.1 x hx')
    · exact ih hf.2 hx' hy' hxy

/-- … and since every class statement creates a new class, that class belongs to no other application and to no other id:
    *every* statement with the returned class identity registers in the application decoded through. -/
theorem C19_isolated_strict (ds : List Decl) (hf : freshClasses ds) (b : Base) (byte c : Nat)
    (h : decode (run Reg.empty ds) b byte = .ok c) :
    ∀ d ∈ ds, d.cid = c → target d = some (b.app, decodeKey b.proto byte) := by
  obtain ⟨d0, hd0, hc0, hr0⟩ := C19_isolated ds b byte c h
  intro d hd hc
  have : d = d0 := by
    exact nodup_map_inj ds hf hd hd0 (by rw [hc, hc0])
  rw [this]; exact hr0

/-- **Unknown raises.** If no class statement of the program declares the decoded id in the application decoded through,
    `from_bytes` raises KeyError — whatever other applications (with the same id, the same protocol, …) exist. -/
theorem C19_unknown_raises (ds : List Decl) (b : Base) (byte : Nat)
    (h : ∀ d ∈ ds, target d ≠ some (b.app, decodeKey b.proto byte)) :
    decode (run Reg.empty ds) b byte = .error .key := by
  unfold decode
  rw [C19_lookup_first]
  have h0 : lookupId Reg.empty b.app (decodeKey b.proto byte) = none := rfl
  have : ds.find? (fun d => target d == some (b.app, decodeKey b.proto byte)) = none := by
    rw [List.find?_eq_none]
    intro d hd
    simpa using h d hd
  simp [h0, this]

/-- **Right class.** Conversely the class of the first statement declaring the id in that application *is* returned:
    later statements for the same id (which raise) and statements of other applications cannot take it away. -/
theorem C19_decodes_first (pre post : List Decl) (d : Decl) (b : Base) (byte : Nat)
    (hd : target d = some (b.app, decodeKey b.proto byte))
    (hpre : ∀ d' ∈ pre, target d' ≠ some (b.app, decodeKey b.proto byte)) :
    decode (run Reg.empty (pre ++ d :: post)) b byte = .ok d.cid := by
  unfold decode
  rw [C19_lookup_first]
  have h0 : lookupId Reg.empty b.app (decodeKey b.proto byte) = none := rfl
  have : (pre ++ d :: post).find? (fun d => target d == some (b.app, decodeKey b.proto byte)) = some d := by
    rw [List.find?_append]
    have : pre.find? (fun d => target d == some (b.app, decodeKey b.proto byte)) = none := by
      rw [List.find?_eq_none]
      intro d' hd'
      simpa using hpre d' hd'
    simp [this, List.find?, hd]
  simp [h0, this]

/-- the namespace rule of generated code: a message class derived from a generated-style application base registers in
    that application, whatever `app_name=` its own class statement carries, under the id its keywords spell -/
theorem C19_generated_namespace (d : Decl) (hs : d.base.style = .generated) (i : Nat) (hi : d.ind = some i) :
    target d = (msgIdOf d).map (fun k => (d.base.app, k)) := by
  unfold target resolve namespaceOf
  simp [hs, hi]

/-! ### non-vacuity: two applications with the same id, an OUCH application using one indicator in both directions,
    a duplicate in the middle -/

private def gA : Base := { proto := .itch, app := 3, style := .generated }
private def gB : Base := { proto := .itch, app := 4, style := .generated }
private def gO : Base := { proto := .ouch, app := 5, style := .generated }
private def prog : List Decl :=
  [ { cid := 1, name := 1, base := gA, ind := some 65, dir := none, appKw := none },
    { cid := 2, name := 2, base := gB, ind := some 65, dir := none, appKw := none },
    { cid := 3, name := 3, base := gA, ind := some 65, dir := none, appKw := none },      -- duplicate in application 3
    { cid := 4, name := 4, base := gO, ind := some 65, dir := some .incoming, appKw := none },
    { cid := 5, name := 5, base := gO, ind := some 65, dir := some .outgoing, appKw := none } ]

example : outcomes Reg.empty prog = [none, none, some .dup, none, none] := by decide
example : decode (run Reg.empty prog) gA 65 = .ok 1 := by decide
example : decode (run Reg.empty prog) gB 65 = .ok 2 := by decide
example : decode (run Reg.empty prog) gO 65 = .ok 5 := by decide
example : byIndicator (run Reg.empty prog) 5 (mkKey .ouch 65 .incoming) = .ok 4 := by decide
example : decode (run Reg.empty prog) gA 66 = .error .key := by decide
example : decode (run Reg.empty prog) { proto := .itch, app := 0, style := .protoBase } 65 = .error .key := by decide
example : freshClasses prog := by unfold freshClasses; decide

end NasdaqModel.Props.C19
