import NasdaqModel.Props.C10
import NasdaqModel.Model.SeqSeg
/-
C10, FIX part, segment by segment: "no gap or repeat under any interleaving of application sends and automatic heartbeats" —
whichever segment of a message is the one that cannot be serialised (header, body, trailer; plain field or group instance),
the send writes nothing and consumes no number, and the k-th frame since the logon carries logon MsgSeqNum + k.
-/
namespace NasdaqModel.Props.C10Seg
open NasdaqModel SeqNum NasdaqModel.Props.C10

/-- a message is serialisable iff each of its three segments is -/
theorem C10_seg_encodable_iff (m : SegMsg) :
    m.toMsg.encodable = true ↔ (m.hdrEnc = true ∧ m.bodyEnc = true ∧ m.trlEnc = true) := by
  simp [SegMsg.toMsg, Bool.and_eq_true, and_assoc]

/-- **Any segment.** A send that passes validation on a logged-in session and whose header, body or trailer cannot be serialised
    is reported as `encodeError`, writes nothing and leaves the counter where it was. -/
theorem C10_fix_segment_failure_consumes_nothing (s : FixSt) (m : SegMsg) (n : Int)
    (hv : m.bodyValid = true) (hn : s.next = some n)
    (hf : m.hdrEnc = false ∨ m.bodyEnc = false ∨ m.trlEnc = false) :
    fixSendR s m.toMsg = (s, .encodeError) := by
  have he : m.toMsg.encodable = false := by
    rcases hf with h | h | h <;> simp [SegMsg.toMsg, h]
  have hv' : m.toMsg.bodyValid = true := hv
  unfold fixSendR
  simp only [hv', hn, he, Bool.not_true, Bool.false_eq_true, if_false]
  cases s
  simp_all

/-- a failed send of any kind (rejected by validation, or any segment not serialisable) leaves the whole state alone -/
theorem C10_fix_segment_failed_send_invisible (s : FixSt) (m : SegMsg)
    (h : ∀ n, (fixSendR s m.toMsg).2 ≠ .written n) : (fixSendR s m.toMsg).1 = s :=
  C10_fix_repaired_failed_send_consumes_nothing s m.toMsg h

private theorem noLogin_map (ops : List SegOp) (h : ops.all (fun op => match op with | .login .. => false | _ => true) = true) :
    noLogin (ops.map SegOp.toOp) = true := by
  induction ops with
  | nil => rfl
  | cons op rest ih =>
    simp only [List.all_cons, Bool.and_eq_true] at h
    simp only [List.map_cons, noLogin, List.all_cons, Bool.and_eq_true]
    refine ⟨?_, by simpa [noLogin] using ih h.2⟩
    cases op <;> simp_all [SegOp.toOp, FixOp.isLogin]

/-- no `login` among the operations -/
def noSegLogin (ops : List SegOp) : Bool := ops.all (fun op => match op with | .login .. => false | _ => true)

/-- **k-th frame carries logon MsgSeqNum + k**, for every history `sends before the logon ++ logon ++ {sends of every kind —
    accepted, rejected by validation, header / body / trailer not serialisable — and heartbeats}` in any interleaving. -/
theorem C10_fix_kth_segments (pre ops : List SegOp) (q : Int) (m : SegMsg)
    (hpre : noSegLogin pre = true) (hops : noSegLogin ops = true) :
    (∀ k, (hk : k < (segRunR fixInit (pre ++ .login q m :: ops)).frames.length) →
        (segRunR fixInit (pre ++ .login q m :: ops)).frames[k] = q + k) ∧
    (segRunR fixInit (pre ++ .login q m :: ops)).next
      = some (q + (segRunR fixInit (pre ++ .login q m :: ops)).frames.length) := by
  have e : segRunR fixInit (pre ++ .login q m :: ops)
      = fixRunR fixInit (pre.map SegOp.toOp ++ .login q m.toMsg :: ops.map SegOp.toOp) := by
    simp [segRunR, SegOp.toOp]
  rw [e]
  exact C10_fix_kth_repaired _ _ q m.toMsg (noLogin_map pre hpre) (noLogin_map ops hops)

/-! ### non-vacuity -/
example : noSegLogin [.send ⟨true, false, true, true⟩, .heartbeat ⟨true, true, true, true⟩, .send ⟨false, false, true, false⟩,
    .send ⟨true, true, true, false⟩, .send ⟨true, true, true, true⟩] = true := by decide
example : (segRunR fixInit ([.send ⟨true, true, true, true⟩] ++ .login 41 ⟨true, true, true, true⟩ ::
    [.send ⟨true, false, true, true⟩, .heartbeat ⟨true, true, true, true⟩, .send ⟨false, false, true, false⟩,
     .send ⟨true, true, true, false⟩, .send ⟨true, true, false, true⟩, .send ⟨true, true, true, true⟩])).frames = [41, 42, 43] := by decide

end NasdaqModel.Props.C10Seg
