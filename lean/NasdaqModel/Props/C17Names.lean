import NasdaqModel.Lemmas.GenSoupAppLemmas
/-
C17 — "the files a generator writes depend only on the spec and options", for the ONE part of a generated ITCH / OUCH / SQF
module that lists names: `__all__`.

The text model of the soup-app generator (`Model/GenSoupApp.lean`, `gen impl app override spec`; it is the C15 model, transcribed
from common/message/parser.py, codegen.py and message_soup_app.mustache) is a Lean function of (protocol, application name,
`--override-messages`, specification) — nothing else exists that its result could depend on: no interpreter state, no hash seed,
no iteration order of a set.  What that function renders for `__all__`:

  * `C17_all_in_spec_order_with_duplicates` — for EVERY specification the generator accepts (no well-formedness hypothesis, names may
    occur any number of times): the three fixed names, then one entry per enum the parser kept, per record it kept, per message it
    kept, each in the parser's dict order.  A list, never a set: nothing is merged, nothing is reordered.
  * `C17_all_keeps_every_definition` — when the enum ids are pairwise distinct, the record ids are pairwise distinct and the message
    keys (id, group, direction) are pairwise distinct — NO hypothesis relates the names of different sections or the names of two
    messages to each other — `__all__` is the three fixed names followed by the name of EVERY definition in document order: a
    name that occurs twice (a request and its response, a record named like an enum, a message named like a record) is listed
    twice, at the positions of its two definitions.
  * `C17_all_same_for_every_override` — under the same hypothesis the list does not depend on `--override-messages`.

The harness compares `__all__` of the module the real generator writes with this list, name by name (driver op `gen.exports`), for
the fresh single run of every soup-app invocation of the C17 histories — among them the specs of `harness/c17.py` `DUPS` in
which a name occurs twice or three times —, and repeats every fresh single run in interpreters started with other hash seeds.
The seeded change C17l (`list(set(names))` when a name occurs twice) differs from this list in content (the name once) and, from
interpreter to interpreter, in order.
-/
namespace NasdaqModel.Props.C17Names
open NasdaqModel GenSoupApp

/-- the names every generated module exports before the names of the specification -/
def fixedExports : List Str := [cp "Message", cp "ClientSession", cp "connect_async"]

/-! ### helpers -/

private theorem bindOk {α β : Type} {x : Except Err α} {f : α → Except Err β} {b : β}
    (h : (x >>= f) = .ok b) : ∃ a, x = .ok a ∧ f a = .ok b := by
  cases x with
  | error e => simp at h
  | ok a => exact ⟨a, rfl, by simpa using h⟩

/-- a `mapE` whose function keeps names keeps the list of names -/
private theorem mapE_names {α β : Type} (f : α → Except Err β) (na : α → Str) (nb : β → Str)
    (hf : ∀ a b, f a = .ok b → nb b = na a) :
    ∀ (l : List α) (r : List β), mapE f l = .ok r → r.map nb = l.map na
  | [], r, h => by
      simp only [mapE] at h
      injection h with h; subst h; rfl
  | a :: as, r, h => by
      simp only [mapE] at h
      obtain ⟨b, hb, h⟩ := bindOk h
      obtain ⟨bs, hbs, h⟩ := bindOk h
      simp only [pure_eq_ok] at h
      injection h with h; subst h
      simp only [List.map_cons, hf a b hb, mapE_names f na nb hf as bs hbs]

private theorem genEnum_name {e : EnumEl} {d : EnumDecl} (h : genEnum e = .ok d) : d.name = e.name := by
  simp only [genEnum] at h
  obtain ⟨t, _, h⟩ := bindOk h
  simp only [pure_eq_ok] at h
  injection h with h; subst h; rfl

private theorem genRecord_name {d : Definitions} {r : RecordDef} {x : RecordDecl} (h : genRecord d r = .ok x) :
    x.name = r.name := by
  simp only [genRecord] at h
  obtain ⟨fs, _, h⟩ := bindOk h
  simp only [pure_eq_ok] at h
  injection h with h; subst h; rfl

private theorem genMessage_name {d : Definitions} {m : MessageDef} {x : MsgDecl} (h : genMessage d m = .ok x) :
    x.name = m.name := by
  simp only [genMessage] at h
  obtain ⟨fs, _, h⟩ := bindOk h
  simp only [pure_eq_ok] at h
  injection h with h; subst h; rfl

/-- `genDefs` lists, after the fixed names, the enums, the records and the messages of the parsed definitions in their order -/
private theorem genDefs_exports {impl : Impl} {app : Str} {d : Definitions} {m : Module} (h : genDefs impl app d = .ok m) :
    m.exports = fixedExports ++ d.enums.map (·.2.name) ++ d.records.map (·.2.name) ++ d.messages.map (·.name) := by
  simp only [genDefs] at h
  obtain ⟨es, hes, h⟩ := bindOk h
  obtain ⟨ms, hms, h⟩ := bindOk h
  obtain ⟨rs, hrs, h⟩ := bindOk h
  simp only [pure_eq_ok] at h
  injection h with h; subst h
  have h1 := mapE_names (fun (kv : Str × EnumEl) => genEnum kv.2) (·.2.name) (·.name) (fun _ _ hh => genEnum_name hh) _ _ hes
  have h2 := mapE_names (fun (kv : Str × RecordDef) => genRecord d kv.2) (·.2.name) (·.name)
    (fun _ _ hh => genRecord_name hh) _ _ hrs
  have h3 := mapE_names (genMessage d) (·.name) (·.name) (fun _ _ hh => genMessage_name hh) _ _ hms
  simp only [fixedExports, h1, h2, h3]

/-- **C17_all_in_spec_order_with_duplicates.**  For every protocol, application name, `--override-messages` flag and EVERY
    specification for which the generator produces a module (names may repeat in any way): `__all__` is the three fixed names, then
    the name of every enum, every record and every message the parser kept — a list in the parser's (dict = first occurrence)
    order, one entry per definition, whatever the names are. -/
theorem C17_all_in_spec_order_with_duplicates (impl : Impl) (app : Str) (override : Bool) (s : Spec) (m : Module)
    (h : gen impl app override s = .ok m) :
    ∃ d, parse override s = .ok d ∧
      m.exports = fixedExports ++ d.enums.map (·.2.name) ++ d.records.map (·.2.name) ++ d.messages.map (·.name) := by
  simp only [gen] at h
  obtain ⟨d, hd, h⟩ := bindOk h
  exact ⟨d, hd, genDefs_exports h⟩

/-! ### when the dict keys are distinct, every definition is listed — names may still repeat -/

/-- `Parser._parse_messages` on messages whose keys are new: every message is appended, whatever its NAME is -/
private theorem parseMessages_names (defs : FieldDefs) (ovr : Bool) :
    ∀ (gs : List MessageEl) (acc r : List (Str × MessageDef)),
      (acc.map (·.1) ++ gs.map specMsgKey).Nodup →
      parseMessages defs ovr acc gs = .ok r →
      r.map (·.2.name) = acc.map (·.2.name) ++ gs.map (·.name)
  | [], acc, r, _, h => by
      simp only [parseMessages] at h
      injection h with h; subst h; simp
  | g :: gs, acc, r, hn, h => by
      simp only [parseMessages] at h
      obtain ⟨fs, _, h⟩ := bindOk h
      obtain ⟨i, hi, h⟩ := bindOk h
      have hkey : msgKey (⟨g.name, i, g.group, fs, g.direction⟩ : MessageDef) = specMsgKey g := by
        simp [msgKey, specMsgKey, hi]
      have hnotin : specMsgKey g ∉ acc.map (·.1) := by
        intro hm
        have := List.nodup_append.mp hn
        exact this.2.2 _ hm _ (by simp) rfl
      rw [hkey, dictGet?_none acc _ hnotin, dictSet_new acc _ _ hnotin] at h
      simp only [Option.isSome_none, Bool.false_and, Bool.false_eq_true, if_false] at h
      have hn' : ((acc ++ [(specMsgKey g, (⟨g.name, i, g.group, fs, g.direction⟩ : MessageDef))]).map (·.1)
          ++ gs.map specMsgKey).Nodup := by
        simpa [List.map_append, List.append_assoc] using hn
      rw [parseMessages_names defs ovr gs _ r hn' h]
      simp

/-- **C17_all_keeps_every_definition.**  Enum ids pairwise distinct, record ids pairwise distinct, message keys
    (message id, group, direction) pairwise distinct — and nothing else: a message may be named like another message, like an enum
    or like a record, a record like an enum.  Then `__all__` of every module the generator produces is the three fixed names
    followed by the name of every enum, every record and every message of the specification in document order; a name that occurs
    twice in the specification occurs twice in the list. -/
theorem C17_all_keeps_every_definition (impl : Impl) (app : Str) (override : Bool) (s : Spec) (m : Module)
    (henums : (s.enums.map (·.name)).Nodup) (hrecs : (s.records.map (·.name)).Nodup)
    (hkeys : (s.messages.map specMsgKey).Nodup)
    (h : gen impl app override s = .ok m) :
    m.exports = fixedExports ++ classNames s := by
  obtain ⟨d, hd, hx⟩ := C17_all_in_spec_order_with_duplicates impl app override s m h
  simp only [parse] at hd
  obtain ⟨defs, _, hd⟩ := bindOk hd
  obtain ⟨recs, hrs, hd⟩ := bindOk hd
  obtain ⟨msgs, hms, hd⟩ := bindOk hd
  simp only [pure_eq_ok] at hd
  injection hd with hd; subst hd
  -- records: the parsed list carries the names of the specification, hence distinct keys, hence the dict is the list
  have hrk : recs.map (·.1) = s.records.map (·.name) :=
    mapE_names (fun (r : RecordEl) => do
        let fs ← parseFields defs r.fields
        pure (r.name, (⟨r.name, fs⟩ : RecordDef))) (·.name) (·.1)
      (fun a b hh => by
        obtain ⟨fs, _, hh⟩ := bindOk hh
        simp only [pure_eq_ok] at hh
        injection hh with hh; subst hh; rfl) _ _ hrs
  have hrn : recs.map (·.2.name) = s.records.map (·.name) :=
    mapE_names (fun (r : RecordEl) => do
        let fs ← parseFields defs r.fields
        pure (r.name, (⟨r.name, fs⟩ : RecordDef))) (·.name) (·.2.name)
      (fun a b hh => by
        obtain ⟨fs, _, hh⟩ := bindOk hh
        simp only [pure_eq_ok] at hh
        injection hh with hh; subst hh; rfl) _ _ hrs
  have hrd : dictOfList recs = recs := dictOfList_nodup recs (by rw [hrk]; exact hrecs)
  have hed : dictOfList (s.enums.map fun e => (e.name, e)) = s.enums.map fun e => (e.name, e) :=
    dictOfList_nodup _ (by simpa [List.map_map, Function.comp_def] using henums)
  have hmn := parseMessages_names defs override s.messages [] msgs (by simpa using hkeys) hms
  simp only [hrd, hed, List.map_map, Function.comp_def] at hx
  simp only [List.map_nil, List.nil_append] at hmn
  rw [hx, hrn, hmn]
  simp [classNames, List.append_assoc]

/-- **C17_all_same_for_every_override.**  Under the same hypothesis the export list does not depend on the
    `--override-messages` flag (the flag only decides what happens to a repeated message KEY). -/
theorem C17_all_same_for_every_override (impl : Impl) (app : Str) (s : Spec) (m m' : Module)
    (henums : (s.enums.map (·.name)).Nodup) (hrecs : (s.records.map (·.name)).Nodup)
    (hkeys : (s.messages.map specMsgKey).Nodup)
    (h : gen impl app true s = .ok m) (h' : gen impl app false s = .ok m') :
    m.exports = m'.exports := by
  rw [C17_all_keeps_every_definition impl app true s m henums hrecs hkeys h,
      C17_all_keeps_every_definition impl app false s m' henums hrecs hkeys h']

/-! ### non-vacuity: specifications in which a name occurs twice / three times, accepted by the generator -/

private def fld (n t : String) : FieldEl := { name := some (cp n), ty := some (cp t) }

/-- an OUCH request (incoming) and its response (outgoing) with the same message id and the same NAME (the realistic case), an
    enum, a record -/
def exRequestResponse : Spec :=
  { enums := [⟨cp "Side", some (cp "char_ascii"), [⟨cp "Buy", cp "B"⟩, ⟨cp "Sell", cp "S"⟩]⟩]
    fielddefs := []
    records := [⟨cp "Leg", [fld "book" "int_4_be"]⟩]
    messages := [⟨cp "EnterOrder", cp "79", none, some (cp "incoming"), [fld "token" "int_8_be", fld "side" "enum:Side"]⟩,
                 ⟨cp "AccountQuery", cp "81", none, some (cp "incoming"), [fld "token" "int_8_be"]⟩,
                 ⟨cp "AccountQuery", cp "81", none, some (cp "outgoing"), [fld "token" "int_8_be", fld "next" "int_8_be"]⟩] }

example : ((exRequestResponse.enums.map (·.name)).Nodup ∧ (exRequestResponse.records.map (·.name)).Nodup
    ∧ (exRequestResponse.messages.map specMsgKey).Nodup) := by decide
/-- the name is listed twice, at the positions of its two definitions (a set would list it once, in hash order) -/
example : (gen .ouch (cp "oe") true exRequestResponse).map (·.exports)
    = .ok (fixedExports ++ [cp "Side", cp "Leg", cp "EnterOrder", cp "AccountQuery", cp "AccountQuery"]) := by decide
example : (gen .ouch (cp "oe") false exRequestResponse).map (·.exports)
    = .ok (fixedExports ++ [cp "Side", cp "Leg", cp "EnterOrder", cp "AccountQuery", cp "AccountQuery"]) := by decide

/-- the record and the second message are named like the enum: the name three times, in the three sections -/
def exThrice : Spec :=
  { enums := [⟨cp "Side", some (cp "char_ascii"), [⟨cp "Buy", cp "B"⟩]⟩]
    fielddefs := []
    records := [⟨cp "Side", [fld "r" "int_4_be"]⟩]
    messages := [⟨cp "M0", cp "65", none, some (cp "incoming"), [fld "own" "int_4_be"]⟩,
                 ⟨cp "Side", cp "66", none, some (cp "outgoing"), [fld "own" "int_4_be"]⟩] }

example : (gen .itch (cp "x") true exThrice).map (·.exports)
    = .ok (fixedExports ++ [cp "Side", cp "Side", cp "M0", cp "Side"]) := by decide

/-- an enum id declared twice is ONE dict entry (first position, the later definition): here the general theorem applies, the
    second one does not (its hypothesis fails) — the list has the name once because the PARSER kept one enum -/
def exEnumTwice : Spec :=
  { exThrice with enums := [⟨cp "Side", some (cp "char_ascii"), [⟨cp "Buy", cp "B"⟩]⟩, ⟨cp "Cap", some (cp "char_ascii"), []⟩,
                            ⟨cp "Side", some (cp "char_ascii"), [⟨cp "Buy", cp "X"⟩]⟩],
                  records := [] }

example : (gen .sqf (cp "x") true exEnumTwice).map (·.exports)
    = .ok (fixedExports ++ [cp "Side", cp "Cap", cp "M0", cp "Side"]) := by decide

end NasdaqModel.Props.C17Names
