import NasdaqModel.Props.C03
/-
C03, "delivered with any timing" — including segments that arrive WHILE the reader is inside a running message callback.

`Reader._process_1` awaits `on_msg_coro(msg)`; while that callback is suspended the reader task does not poll, but the transport goes
on calling `on_data`.  In Model/Framing.lean a `tick` is atomic: `deserialize()` and the emission are one event, so how long the
callback stays suspended is invisible to the machine `R` — an arrival during a callback is simply a `data` event between that tick
and the next one, and the theorems of Props/C03.lean, which quantify over EVERY interleaving of `data` and `tick`, already cover it.

This file makes that argument a theorem instead of a remark.  `RH` is the reader with the callback latency explicit:
`busy` = the reader task is suspended inside `on_msg_coro`; events `data seg` (enabled always — also while busy), `wake` (the reader
task is scheduled: one poll, unless it is busy) and `done` (the pending callback returns).  `RH` carries, as a ghost, the `data`/`tick`
list the embedded `R` has seen; `C03Handler_refines` shows the embedded `R` is exactly `run` over that list, which contains every
received byte, and the three C03 theorems follow for every `HEv` list: nothing bounds how long a callback takes, how many segments
arrive during it, or their sizes (in particular: as many bytes as the frame just consumed — the case a reader that compares buffer
lengths before and after a pass gets wrong, seeded change C03j).
-/
namespace NasdaqModel.Props.C03Handler
open NasdaqModel Py Framing Soup Spec.SoupLayout Props.C12 Props.C03

variable {μ : Type}

/-- events of a reader whose message callback takes time -/
inductive HEv where
  | data (seg : Bytes)      -- `reader.on_data(seg)`: at any moment, also while `on_msg_coro` is suspended
  | wake                    -- the reader task gets a turn: a poll (`deserialize()`), unless it is suspended inside a callback
  | done                    -- the pending `on_msg_coro` returns
  deriving Repr, DecidableEq, Inhabited

structure RH (μ : Type) where
  r : R μ := {}
  busy : Bool := false        -- the reader task is inside `await self.on_msg_coro(msg)`
  seen : List Ev := []        -- ghost: the `data` / `tick` events the embedded `R` has taken

/-- one poll of a reader that is not inside a callback: `R`'s tick; an emission leaves the reader suspended in the callback -/
def poll (P : Proto μ) (s : RH μ) : RH μ :=
  { r := (stepObs P s.r .tick).1
    busy := (match (stepObs P s.r .tick).2 with | .emit _ => true | _ => false)
    seen := s.seen ++ [.tick] }

def stepH (P : Proto μ) (s : RH μ) : HEv → RH μ
  | .data seg => { s with r := step P s.r (.data seg), seen := s.seen ++ [.data seg] }
  | .wake => if s.busy then s else poll P s
  | .done => { s with busy := false }

def runH (P : Proto μ) (evs : List HEv) : RH μ := evs.foldl (stepH P) {}

/-- bytes handed to `on_data`, concatenated -/
def receivedH : List HEv → Bytes
  | [] => []
  | .data s :: evs => s ++ receivedH evs
  | _ :: evs => receivedH evs

private theorem receivedH_append (a b : List HEv) : receivedH (a ++ b) = receivedH a ++ receivedH b := by
  induction a with
  | nil => rfl
  | cons e a ih => cases e <;> simp [receivedH, ih]

private def Sim (P : Proto μ) (s : RH μ) (recv : Bytes) : Prop :=
  s.r = run P s.seen ∧ received s.seen = recv

private theorem sim_step (P : Proto μ) (s : RH μ) (recv : Bytes) (h : Sim P s recv) (e : HEv) :
    Sim P (stepH P s e) (recv ++ receivedH [e]) := by
  obtain ⟨h1, h2⟩ := h
  cases e with
  | data seg =>
    refine ⟨?_, ?_⟩
    · simp only [stepH, run, List.foldl_append, List.foldl_cons, List.foldl_nil]
      rw [h1]; rfl
    · simp only [stepH, received_append, h2, received, receivedH]
  | wake =>
    by_cases hb : s.busy = true
    · simp only [stepH, hb, if_true, receivedH, List.append_nil]; exact ⟨h1, h2⟩
    · have e1 : stepH P s .wake = poll P s := by simp only [stepH, hb]; rfl
      rw [e1]
      refine ⟨?_, ?_⟩
      · show (stepObs P s.r .tick).1 = run P (s.seen ++ [.tick])
        rw [run, List.foldl_append, ← run, ← h1]; rfl
      · show received (s.seen ++ [.tick]) = recv ++ receivedH [.wake]
        rw [received_append, h2]; rfl
  | done => simp only [stepH, receivedH, List.append_nil]; exact ⟨h1, h2⟩

private theorem sim_foldl (P : Proto μ) : ∀ (evs : List HEv) (s : RH μ) (recv : Bytes), Sim P s recv →
    Sim P (evs.foldl (stepH P) s) (recv ++ receivedH evs) := by
  intro evs
  induction evs with
  | nil => intro s recv h; simpa [receivedH] using h
  | cons e evs ih =>
    intro s recv h
    have := ih (stepH P s e) _ (sim_step P s recv h e)
    have h3 : receivedH (e :: evs) = receivedH [e] ++ receivedH evs := receivedH_append [e] evs
    rw [List.foldl_cons, h3, ← List.append_assoc]
    exact this

/-- **Refinement.** Whatever the callbacks did — however long each stayed suspended, whatever arrived meanwhile — the reader's
    state is the state of the atomic-tick machine `R` after an event list that contains exactly the received bytes. -/
theorem C03Handler_refines (P : Proto μ) (evs : List HEv) :
    (runH P evs).r = run P (runH P evs).seen ∧ received (runH P evs).seen = receivedH evs := by
  have := sim_foldl P evs {} [] ⟨rfl, rfl⟩
  simpa [runH, Sim] using this

/-- a `done; wake` pair after the stream has arrived is one more effective poll of `R` -/
theorem C03Handler_done_wake_polls (P : Proto μ) (evs : List HEv) :
    (runH P (evs ++ [.done, .wake])).seen = (runH P evs).seen ++ [.tick] := by
  simp [runH, List.foldl_append, stepH, poll]

private theorem ticks_snoc (l : List Ev) : ticksAfterLastData (l ++ [.tick]) = ticksAfterLastData l + 1 := by
  simp [ticksAfterLastData, Ev.isTick, List.takeWhile]

/-- the trailing `done; wake` pairs of a schedule -/
def pairs : Nat → List HEv
  | 0 => []
  | n + 1 => pairs n ++ [.done, .wake]

theorem C03Handler_pairs_seen (P : Proto μ) (evs : List HEv) : ∀ n,
    (runH P (evs ++ pairs n)).seen = (runH P evs).seen ++ List.replicate n .tick
  | 0 => by simp [pairs]
  | n + 1 => by
    rw [pairs, ← List.append_assoc, C03Handler_done_wake_polls, C03Handler_pairs_seen P evs n, List.replicate_succ',
      List.append_assoc]

theorem C03Handler_pairs_ticks (P : Proto μ) (evs : List HEv) (n : Nat) :
    n ≤ ticksAfterLastData (runH P (evs ++ pairs n)).seen := by
  rw [C03Handler_pairs_seen]
  induction n with
  | zero => exact Nat.zero_le _
  | succ n ih =>
    rw [List.replicate_succ', ← List.append_assoc, ticks_snoc]
    exact Nat.succ_le_succ ih

theorem C03Handler_pairs_received (evs : List HEv) : ∀ n, receivedH (evs ++ pairs n) = receivedH evs
  | 0 => by simp [pairs]
  | n + 1 => by
    rw [pairs, ← List.append_assoc, receivedH_append, C03Handler_pairs_received evs n]
    simp [receivedH]

/-! ## SoupBinTCP -/

/-- **C03Handler_prefix.** With callbacks of any duration and segments arriving at any moment — during a suspended callback too —
    what has been emitted is a prefix of the expected messages. -/
theorem C03Handler_prefix (ms : List Pkt) (hwf : ∀ p ∈ ms, wfPkt p = true) (evs : List HEv)
    (hrecv : receivedH evs <+: soupStream ms) :
    (runH soupProto evs).r.out <+: expected soupProto ms := by
  obtain ⟨h1, h2⟩ := C03Handler_refines soupProto evs
  rw [h1]
  exact C03_prefix ms hwf _ (h2 ▸ hrecv)

/-- **C03Handler_complete.** Once the whole stream has arrived — the last segments possibly during a callback — and the pending
    callback has returned and the reader has had a turn, `ms.length` times over, everything expected has been emitted, each once,
    in order; stopped iff a logout was in the stream; close signalled exactly once in that case. -/
theorem C03Handler_complete (ms : List Pkt) (hwf : ∀ p ∈ ms, wfPkt p = true) (evs : List HEv)
    (hrecv : receivedH evs = soupStream ms) (n : Nat) (hn : ms.length ≤ n) :
    (runH soupProto (evs ++ pairs n)).r.out = expected soupProto ms ∧
    ((runH soupProto (evs ++ pairs n)).r.stopped = true ↔ hasLogout soupProto ms = true) ∧
    (runH soupProto (evs ++ pairs n)).r.closeSignals = (if hasLogout soupProto ms then 1 else 0) := by
  obtain ⟨h1, h2⟩ := C03Handler_refines soupProto (evs ++ pairs n)
  rw [h1]
  exact C03_complete ms hwf _ (by rw [h2, C03Handler_pairs_received, hrecv])
    (Nat.le_trans hn (C03Handler_pairs_ticks soupProto evs n))

/-! ## FIX -/

theorem C03Handler_fix_prefix (fs : List Bytes) (hwf : ∀ f ∈ fs, wfFixFrame f = true) (evs : List HEv)
    (hrecv : receivedH evs <+: fixStream fs) :
    (runH fixProto evs).r.out <+: expected fixProto fs := by
  obtain ⟨h1, h2⟩ := C03Handler_refines fixProto evs
  rw [h1]
  exact C03_fix_prefix fs hwf _ (h2 ▸ hrecv)

theorem C03Handler_fix_complete (fs : List Bytes) (hwf : ∀ f ∈ fs, wfFixFrame f = true) (evs : List HEv)
    (hrecv : receivedH evs = fixStream fs) (n : Nat) (hn : fs.length ≤ n) :
    (runH fixProto (evs ++ pairs n)).r.out = expected fixProto fs ∧
    ((runH fixProto (evs ++ pairs n)).r.stopped = true ↔ hasLogout fixProto fs = true) ∧
    (runH fixProto (evs ++ pairs n)).r.closeSignals = (if hasLogout fixProto fs then 1 else 0) := by
  obtain ⟨h1, h2⟩ := C03Handler_refines fixProto (evs ++ pairs n)
  rw [h1]
  exact C03_fix_complete fs hwf _ (by rw [h2, C03Handler_pairs_received, hrecv])
    (Nat.le_trans hn (C03Handler_pairs_ticks fixProto evs n))

/-! ## non-vacuity: the schedule of seeded change C03j -/

-- two data packets of EQUAL size, one per segment; the second segment arrives while the callback for the first is suspended
-- (`wake` emitted it, `done` has not happened yet); nothing arrives afterwards
private def exPkts : List Pkt := [.seqData [65, 65], .seqData [66, 66]]
private def exEvs : List HEv := [.data [0, 3, 83, 65, 65], .wake, .data [0, 3, 83, 66, 66]]
example : ∀ p ∈ exPkts, wfPkt p = true := by decide
example : receivedH exEvs = soupStream exPkts := by decide
example : (runH soupProto exEvs).busy = true ∧ (runH soupProto exEvs).r.out = [.seqData [65, 65]] ∧
    (runH soupProto exEvs).r.buf = [0, 3, 83, 66, 66] := by decide
-- the callback returns, the reader gets its turns: both messages, each once, in order
example : (runH soupProto (exEvs ++ pairs 2)).r.out = [.seqData [65, 65], .seqData [66, 66]] ∧
    (runH soupProto (exEvs ++ pairs 2)).r.buf = [] := by decide
-- while busy a `wake` does nothing: no second callback is started before the first has returned
example : (runH soupProto (exEvs ++ [.wake, .wake])).r.out = [.seqData [65, 65]] := by decide

end NasdaqModel.Props.C03Handler
