import NasdaqModel.Lemmas.MonitorLemmas
import NasdaqModel.Lemmas.SessionLemmas5
/-
C06 — a closed session leaves nothing running and stays silent.

Theorems about the session machine for every configuration and every event sequence.
-/
namespace NasdaqModel.Props.C06
open NasdaqModel Sess

abbrev reach (cfg : Cfg) (evs : List Ev) : St := runEvs cfg {} evs

/-- **Monitors and receive helper are gone.** Whenever the close has completed (the close callback returned), both
    heartbeat monitors and the receive helper task have ended; the dispatcher and the reader have ended or — if one of them
    ran the close, or stopped itself while another task was closing — are runnable and end at their next step. -/
theorem C06_tasks_ended (cfg : Cfg) (evs : List Ev) (h : (reach cfg evs).cstage = .finished) :
    alive ((reach cfg evs).status .L) = false ∧ alive ((reach cfg evs).status .M) = false ∧
    alive ((reach cfg evs).status .V) = false ∧
    (alive ((reach cfg evs).status .D) = false ∨ (reach cfg evs).status .D = .ready) ∧
    (alive ((reach cfg evs).status .R) = false ∨ (reach cfg evs).status .R = .ready) :=
  (runEvs_InvARB cfg evs).2.2.fin (Or.inl h)

/-- **Nothing left running.** When the close has completed and no library task can take a step any more (quiescence),
    every task the library started — reader, dispatcher, both monitors, closing task, receive helper — has finished. -/
theorem C06_quiescent_clean (cfg : Cfg) (evs : List Ev) (h : (reach cfg evs).cstage = .finished)
    (hq : ∀ t ∈ libTasks, runnable (reach cfg evs) t = false) :
    ∀ t ∈ libTasks, alive ((reach cfg evs).status t) = false := by
  obtain ⟨_, _, b⟩ := runEvs_InvARB cfg evs
  obtain ⟨hL, hM, hV, hD, hR⟩ := b.fin (Or.inl h)
  have hrun : ∀ t, (reach cfg evs).status t = .ready → t ∈ libTasks → False := by
    intro t ht hm
    have := hq t hm
    simp [runnable, ht] at this
  intro t ht
  simp only [libTasks, List.mem_cons, List.mem_nil_iff, or_false] at ht
  rcases ht with rfl | rfl | rfl | rfl | rfl | rfl
  · rcases hR with h' | h'
    · exact h'
    · exact absurd (hrun _ h' (by simp [libTasks])) id
  · rcases hD with h' | h'
    · exact h'
    · exact absurd (hrun _ h' (by simp [libTasks])) id
  · exact hL
  · exact hM
  · -- the closing task: never cancelled, never in queue.get(), waits for a task only as the closer
    cases hst : (reach cfg evs).status .C with
    | absent => rfl
    | done => rfl
    | ready => exact absurd (hrun _ hst (by simp [libTasks])) id
    | cancelled => exact absurd hst b.ccan
    | waitQ => rcases b.waitq _ hst with h' | h' <;> simp at h'
    | waitT y =>
      rcases b.waitt _ _ hst with ⟨pc, c, hb⟩ | ⟨u, hu, _⟩
      · rw [h] at hb; contradiction
      · simp at hu
  · exact hV

/-- **No heartbeat after close.** A heartbeat is only ever written by a step of the local monitor task; once the close has
    completed that task has ended and `run L` is not possible: the event changes nothing. Completion is final
    (`C05_finished_is_final`), so this holds for the rest of the session's life. -/
theorem C06_no_heartbeat_after_close (cfg : Cfg) (evs : List Ev) (h : (reach cfg evs).cstage = .finished) :
    step cfg (reach cfg evs) (.run .L) = reach cfg evs ∧ step cfg (reach cfg evs) (.run .M) = reach cfg evs := by
  obtain ⟨hL, hM, _⟩ := C06_tasks_ended cfg evs h
  have nr : ∀ t, alive ((reach cfg evs).status t) = false → runnable (reach cfg evs) t = false := by
    intro t ht
    cases hs : (reach cfg evs).status t <;> simp_all [runnable, alive]
  constructor
  · simp [step, nr _ hL]
  · simp [step, nr _ hM]

/-- **No callback after close** (from the close-sequence monitor): after the transport was closed no message callback is
    started, and the close callback is entered at most once in the whole life of the session. -/
theorem C06_no_callback_after_close (cfg : Cfg) (evs : List Ev) (l1 l2 : List Obs) (n : Nat)
    (e : (reach cfg evs).trace = l1 ++ Obs.msgEnter n :: l2) : Obs.tclose ∉ l1 ∧ Obs.cbEnter ∉ l1 := by
  have i := runEvs_InvA cfg evs
  have h9 : monRun (reach cfg evs).trace ≠ 9 := by
    rw [i.phase]; cases (runEvs cfg {} evs).cstage <;> simp [phaseOf]; split <;> omega
  exact no_msgEnter_after_tclose _ l1 l2 n h9 e

/-- **A blocked receive is released with the end-of-queue error.** A receive waiting on an empty queue whose helper task
    was cancelled by the close (queue stopped) ends with `EndOfQueue`; the helper task ends. -/
theorem C06_blocked_receive_released (cfg : Cfg) (s : St) (u : Nat)
    (hU : s.status (.U u) = .waitT .V) (hpU : s.prog (.U u) = .recvWait u)
    (hV : s.status .V = .cancelled) (hpV : s.prog .V = .vget) (hq : s.qClosed = true) (hv : s.vres = none) :
    let s' := step cfg (step cfg s (.run .V)) (.run (.U u))
    s'.trace = s.trace ++ [.ret u .eoq] ∧ alive (s'.status .V) = false ∧ alive (s'.status (.U u)) = false := by
  simp [step, runnable, hU, hV, stepRun, hpV, St.finish, hpU, hv, hq, St.emit, alive]

/-! ### non-vacuity -/

private def cfg1 : Cfg :=
  { msgBeh := fun _ => .ret, cbBeh := .ret, hasCb := true, dispatchOnConnect := false, hasMsgCb := true, fixLogin := false }

/-- login, acceptance, then a peer disconnect: the closing task stops dispatcher, monitors and reader one after the other -/
private def life : List Ev :=
  [.connect, .callLogin 1, .run .V, .data [.msg 0], .run .R, .run .V, .run (.U 1), .run .L, .run .M, .run .D,
   .eof, .run .C, .run .D, .run .C, .run .L, .run .C, .run .M, .run .C, .run .R, .run .C]

example : (reach cfg1 life).cstage = .finished := by decide
example : (reach cfg1 life).trace = [.write .login, .loginReply 0, .ret 1 .ok, .tclose, .cbEnter, .cbExit] := by decide
example : libTasks.all (fun t => !alive ((reach cfg1 life).status t)) = true := by decide

end NasdaqModel.Props.C06
