import NasdaqModel.Lemmas.FixAnchor
import NasdaqModel.Props.C13
/-
C13 at full strength — MsgType need not be the first header field assigned.

`Props/C13.lean` proves the round trip under the hypothesis `getMsgType bs = .ok d.type` and discharges it only when
MsgType is the *first* assigned header field (`C13_msgtype_first`), because `Message.get_msg_type` used to take the first
`35=` anywhere in the bytes (finding fixes/C13-msgtype-anchor.md).  Since /repo a2cfe01 the search is anchored (`35=` at the
start of the bytes or right after a SOH) and `Fix.getMsgType` follows the code.  Here the hypothesis is dropped: the
property's quantifier "any assignment order, any header" is covered — fields assigned before MsgType may have tags that
end in 35 (135) and values that contain `35=`.
Only property theorems and non-vacuity examples live here; the lemmas are in Lemmas/FixAnchor.lean.

The one hypothesis about MsgType that remains, and why the code needs it too (brief item 3):
  `(35, .str d.type) ∈ m.hdr`  with  `lookupE d.hdr 35 = some (.field 35 .string r)`.
`wfMsg` speaks about the values that *are* set (types, text, group instances); it does not say that required fields are
present (`DataSegment.validate` is a separate call that `to_bytes` does not make), and nothing ties the value of tag 35 to
the class's `Type` (the header is an ordinary segment: `msg.Header[35] = 'X'` is accepted for any string).  A message
without tag 35, or with another type in it, encodes — but `Message.from_bytes` of the base class reads the class *from the
bytes*: without the field the lookup raises or picks whatever `bytes_[3:…]` holds, with another type it dispatches to
that other class.  `C13_msgtype_required` below is the decided instance: well-formed, no MsgType, not decodable to its class.
-/
namespace NasdaqModel.Props.C13Anchor
open NasdaqModel Py Fix Props.C13

/-- **MsgType, any assignment order.**  For a well-formed message whose header holds `35 = <the class's type>` at *any*
    position — after fields whose tags end in 35, after values that contain `35=` — the anchored `get_msg_type` finds the
    class's own type in the encoded bytes: the hypothesis `hty` of `C13_roundtrip` holds. -/
theorem C13_msgtype_any_order (d : MsgDef) (m : Msg) (bs : Bytes)
    (hd : wfDef d = true) (hm : wfMsg d m = true) (henc : encMsg d m = .ok bs)
    (r : Bool) (hmem : (35, Val.str d.type) ∈ m.hdr)
    (hentry : lookupE d.hdr 35 = some (.field 35 .string r)) :
    getMsgType bs = .ok d.type :=
  getMsgType_encMsg hd hm henc hmem hentry

/-- the same for whatever string the header holds under tag 35 (`get_msg_type` reads the message, not the class) -/
theorem C13_msgtype_reads_header (d : MsgDef) (m : Msg) (bs : Bytes)
    (hd : wfDef d = true) (hm : wfMsg d m = true) (henc : encMsg d m = .ok bs)
    (r : Bool) (ty : Str) (hmem : (35, Val.str ty) ∈ m.hdr)
    (hentry : lookupE d.hdr 35 = some (.field 35 .string r)) :
    getMsgType bs = .ok ty :=
  getMsgType_encMsg hd hm henc hmem hentry

/-- **Round trip, any assignment order**: `C13_roundtrip` without its `getMsgType` hypothesis. -/
theorem C13_roundtrip_any_order (reg : List MsgDef) (d : MsgDef) (m : Msg) (bs : Bytes)
    (hd : wfDef d = true) (hm : wfMsg d m = true) (henc : encMsg d m = .ok bs)
    (r : Bool) (hmem : (35, Val.str d.type) ∈ m.hdr)
    (hentry : lookupE d.hdr 35 = some (.field 35 .string r)) (hreg : lookupReg reg d.type = some d) :
    decodeMsg reg bs = .ok (bs.length, d, canonMsg d m) :=
  C13_roundtrip reg d m bs hd hm henc (C13_msgtype_any_order d m bs hd hm henc r hmem hentry) hreg

/-- **The statement of C13 in one piece, any assignment order, any header**: the message encodes; the bytes decode to the
    registered class, every byte consumed, to the canonical form of the message; that form re-encodes to the same bytes
    and compares `==` to the original.  (`C13_statement` without `hfirst`.) -/
theorem C13_statement_any_order (reg : List MsgDef) (d : MsgDef) (m : Msg) (hd : wfDef d = true) (hm : wfMsg d m = true)
    (r : Bool) (hmem : (35, Val.str d.type) ∈ m.hdr)
    (hentry : lookupE d.hdr 35 = some (.field 35 .string r)) (hreg : lookupReg reg d.type = some d) :
    ∃ bs, encMsg d m = .ok bs ∧ decodeMsg reg bs = .ok (bs.length, d, canonMsg d m) ∧
      encMsg d (canonMsg d m) = .ok bs ∧ pyEqDict (canonMsg d m) m = true := by
  obtain ⟨bs, henc⟩ := C13_encodes d m hd hm
  exact ⟨bs, henc, C13_roundtrip_any_order reg d m bs hd hm henc r hmem hentry hreg,
    by rw [C13_reencode d m hd]; exact henc, C13_eq_original d m hd hm⟩

/-- **Class, any assignment order**: whatever `decodeMsg` returns for the bytes is the class registered for the type. -/
theorem C13_class_any_order (reg : List MsgDef) (d : MsgDef) (m : Msg) (bs : Bytes)
    (hd : wfDef d = true) (hm : wfMsg d m = true) (henc : encMsg d m = .ok bs)
    (r : Bool) (hmem : (35, Val.str d.type) ∈ m.hdr)
    (hentry : lookupE d.hdr 35 = some (.field 35 .string r)) (hreg : lookupReg reg d.type = some d)
    (n : Nat) (d' : MsgDef) (m' : Msg) (hdec : decodeMsg reg bs = .ok (n, d', m')) :
    d' = d ∧ n = bs.length :=
  C13_class reg d m bs hd hm henc (C13_msgtype_any_order d m bs hd hm henc r hmem hentry) hreg n d' m' hdec

/-! ### non-vacuity: the two inputs of fixes/C13-msgtype-anchor.md are inside the quantifier -/

/-- class `ZZ`: header 8 string, 135 int, 35 string; body 58 string; trailer 10 string -/
def anchorDef : MsgDef :=
  { name := [90, 90], type := [90, 90],
    hdr := [.field 8 .string false, .field 135 .int false, .field 35 .string true],
    body := [.field 58 .string false], trl := [.field 10 .string false] }

/-- header assigned `8='a'`, `135=7`, then `35='ZZ'`: bytes `8=a|135=7|35=ZZ|58=x|10=1|` — a tag that ends in 35 first -/
def msgTag135 : Msg :=
  { hdr := [(8, .str [97]), (135, .int 7), (35, .str [90, 90])], body := [(58, .str [120])], trl := [(10, .str [49])] }

/-- header assigned `8='a35=b'`, then `35='ZZ'`: bytes `8=a35=b|35=ZZ|58=x|10=1|` — a value that contains `35=` first -/
def msgValue35 : Msg :=
  { hdr := [(8, .str [97, 51, 53, 61, 98]), (35, .str [90, 90])], body := [(58, .str [120])], trl := [(10, .str [49])] }

/-- no MsgType in the header at all -/
def msgNoType : Msg :=
  { hdr := [(8, .str [97])], body := [(58, .str [120])], trl := [(10, .str [49])] }

example : wfDef anchorDef = true := by decide
example : wfMsg anchorDef msgTag135 = true ∧ wfMsg anchorDef msgValue35 = true := by decide
example : (35, Val.str anchorDef.type) ∈ msgTag135.hdr := .tail _ (.tail _ (.head _))
example : (35, Val.str anchorDef.type) ∈ msgValue35.hdr := .tail _ (.head _)
example : lookupE anchorDef.hdr 35 = some (.field 35 .string true) := rfl
example : lookupReg [anchorDef] anchorDef.type = some anchorDef := rfl
/-- the bytes are the documented ones, and the anchored lookup names `ZZ` for both (what the theorem says) -/
example : encMsg anchorDef msgTag135 = .ok [56,61,97,1, 49,51,53,61,55,1, 51,53,61,90,90,1, 53,56,61,120,1, 49,48,61,49,1] := by
  decide
example : encMsg anchorDef msgValue35 = .ok [56,61,97,51,53,61,98,1, 51,53,61,90,90,1, 53,56,61,120,1, 49,48,61,49,1] := by
  decide
example : (encMsg anchorDef msgTag135 >>= getMsgType) = .ok [90, 90] := by decide
example : (encMsg anchorDef msgValue35 >>= getMsgType) = .ok [90, 90] := by decide

/-- **The remaining hypothesis is needed** (`wfMsg` does not force MsgType to be present): a well-formed message of
    `anchorDef` without tag 35 encodes, and the base-class decoder cannot find its class (`KeyError` in the code). -/
theorem C13_msgtype_required :
    wfDef anchorDef = true ∧ wfMsg anchorDef msgNoType = true ∧
    (encMsg anchorDef msgNoType >>= getMsgType) ≠ .ok anchorDef.type ∧
    (match encMsg anchorDef msgNoType >>= decodeMsg [anchorDef] with
      | .error e => e == Err.key
      | .ok _ => false) = true := by decide

end NasdaqModel.Props.C13Anchor
