import NasdaqModel.Props.C10
import NasdaqModel.Model.SeqFlow
/-
C10 under transport flow control — "the k-th frame written carries logon MsgSeqNum + k under ANY interleaving of application sends
and automatic heartbeats; the soup counter equals initial + sequenced packets sent" on a transport that tells the session to stop
writing and, later, to go on.

`Model/SeqFlow.lean` adds the transport's two callbacks (`pause_writing()`, `resume_writing()`: inherited from
`asyncio.BaseProtocol`, empty bodies — the session overrides neither) to the histories of `Model/Seq.lean`, at arbitrary positions.

* the callbacks change nothing in the state C10 speaks about and `send_msg` does not consult the flag; erasing them from any
  history leaves the run unchanged (`C10Flow_fix_erasable`, `C10Flow_soup_erasable`) — this is what lets the harness give the
  model the observed history with the callbacks erased;
* hence the k-th frame written since the logon carries logon MsgSeqNum + k and the counter is logon + frames written for every
  history with callbacks anywhere — sends of every kind and heartbeats falling into the paused window included (`C10Flow_fix_kth`);
  the soup counter equals initial + sequenced packets written (`C10Flow_soup_counts`);
* frames written while paused are frames (`C10Flow_paused_frames_are_frames`): they are in the write log the clause quantifies
  over, each with the number it consumed;
* sensitivity: a write gate placed BEHIND the draw of the number (skip heartbeats while paused) breaks the statement on a
  five-step history (`C10Flow_gate_behind_draw_breaks`).
-/
namespace NasdaqModel.Props.C10Flow
open NasdaqModel NasdaqModel.SeqNum NasdaqModel.SeqFlow NasdaqModel.Props.C10

private theorem frun_cons (x : FFix) (e : FFixOp) (ops : List FFixOp) : x.run (e :: ops) = (x.step e).run ops := rfl
private theorem fixRunR_cons (s : FixSt) (op : FixOp) (ops : List FixOp) :
    fixRunR s (op :: ops) = fixRunR (fixStepR s op).1 ops := rfl

/-- `pause_writing()` and `resume_writing()` leave counter and write log exactly as they were -/
theorem C10Flow_callbacks_noop (x : FFix) : (x.step .pauseWriting).s = x.s ∧ (x.step .resumeWriting).s = x.s := ⟨rfl, rfl⟩

/-- an operation of the session is the same operation whether or not the transport has asked for a pause -/
theorem C10Flow_flag_not_consulted (x : FFix) (op : FixOp) : (x.step (.base op)).s = (fixStepR x.s op).1 := rfl

/-- **C10Flow_fix_erasable.**  Deleting the transport's flow-control callbacks from a history changes nothing: the same counter,
    the same frames with the same numbers. -/
theorem C10Flow_fix_erasable (x : FFix) (ops : List FFixOp) : (x.run ops).s = fixRunR x.s (baseOnly ops) := by
  induction ops generalizing x with
  | nil => rfl
  | cons e ops ih =>
    rw [frun_cons, ih]
    cases e <;> rfl

private theorem baseOnly_append (a b : List FFixOp) : baseOnly (a ++ b) = baseOnly a ++ baseOnly b := by
  induction a with
  | nil => rfl
  | cons e rest ih => cases e <;> simp [baseOnly, ih]

private theorem noLogin_baseOnly (ops : List FFixOp) (h : noLoginF ops = true) : noLogin (baseOnly ops) = true := by
  induction ops with
  | nil => rfl
  | cons e rest ih =>
    simp only [noLoginF, List.all_cons, Bool.and_eq_true] at h
    have ih' := ih (by simpa [noLoginF] using h.2)
    cases e with
    | base op =>
      simp only [baseOnly, noLogin, List.all_cons, Bool.and_eq_true]
      exact ⟨by simpa [FFixOp.isLogin] using h.1, by simpa [noLogin] using ih'⟩
    | pauseWriting => simpa [baseOnly] using ih'
    | resumeWriting => simpa [baseOnly] using ih'

/-- **C10Flow_fix_kth.**  For every history `sends before the logon ++ logon ++ {application sends of every kind, rejected or
    unencodable ones included, explicit and timer-driven heartbeats}` in any interleaving, with `pause_writing()` /
    `resume_writing()` calls at ANY positions (before the logon, between any two operations, never resumed), the k-th frame written
    since the logon carries logon MsgSeqNum + k and the counter is logon + frames written. -/
theorem C10Flow_fix_kth (pre ops : List FFixOp) (q : Int) (m : FixMsg)
    (hpre : noLoginF pre = true) (hops : noLoginF ops = true) :
    (∀ k, (hk : k < (FFix.init.run (pre ++ .base (.login q m) :: ops)).s.frames.length) →
        (FFix.init.run (pre ++ .base (.login q m) :: ops)).s.frames[k] = q + k) ∧
    (FFix.init.run (pre ++ .base (.login q m) :: ops)).s.next
      = some (q + (FFix.init.run (pre ++ .base (.login q m) :: ops)).s.frames.length) := by
  have e : (FFix.init.run (pre ++ .base (.login q m) :: ops)).s
      = fixRunR fixInit (baseOnly pre ++ .login q m :: baseOnly ops) := by
    rw [C10Flow_fix_erasable, baseOnly_append]
    rfl
  rw [e]
  exact C10_fix_kth_repaired _ _ q m (noLogin_baseOnly pre hpre) (noLogin_baseOnly ops hops)

private theorem fixSendR_frames (s : FixSt) (m : FixMsg) :
    (fixSendR s m).1.frames = s.frames ++ writtenTag (fixSendR s m).2 := by
  unfold fixSendR
  by_cases hv : m.bodyValid
  · cases hn : s.next with
    | none => simp [hv, writtenTag]
    | some n =>
      by_cases he : m.encodable <;> simp [hv, he, writtenTag]
  · simp [hv, writtenTag]

private theorem fixStepR_frames (s : FixSt) (op : FixOp) :
    (fixStepR s op).1.frames = s.frames ++ writtenTag (fixStepR s op).2 := by
  cases op with
  | login q m => exact fixSendR_frames { s with next := some q } m
  | send m => exact fixSendR_frames s m
  | heartbeat m => exact fixSendR_frames s m

private theorem step_paused_sub (x : FFix) (e : FFixOp) (h : ∀ n ∈ x.pausedFrames, n ∈ x.s.frames) :
    ∀ n ∈ (x.step e).pausedFrames, n ∈ (x.step e).s.frames := by
  cases e with
  | pauseWriting => exact h
  | resumeWriting => exact h
  | base op =>
    intro n hn
    have hf : (x.step (.base op)).s.frames = x.s.frames ++ writtenTag (fixStepR x.s op).2 := fixStepR_frames x.s op
    rw [hf]
    by_cases hp : x.writingPaused
    · have : (x.step (.base op)).pausedFrames = x.pausedFrames ++ writtenTag (fixStepR x.s op).2 := by
        simp [FFix.step, hp]
      rw [this] at hn
      rcases List.mem_append.mp hn with h1 | h1
      · exact List.mem_append.mpr (Or.inl (h n h1))
      · exact List.mem_append.mpr (Or.inr h1)
    · have : (x.step (.base op)).pausedFrames = x.pausedFrames := by simp [FFix.step, hp]
      rw [this] at hn
      exact List.mem_append.mpr (Or.inl (h n hn))

/-- **C10Flow_paused_frames_are_frames.**  Whatever was handed to `transport.write` while the transport had asked for a pause is in
    the session's write log — the frames C10 counts — with the number it consumed: a paused transport neither drops a frame whose
    number is taken nor lets a frame out without one. -/
theorem C10Flow_paused_frames_are_frames (ops : List FFixOp) :
    ∀ n ∈ (FFix.init.run ops).pausedFrames, n ∈ (FFix.init.run ops).s.frames := by
  have gen : ∀ (ops : List FFixOp) (x : FFix), (∀ n ∈ x.pausedFrames, n ∈ x.s.frames) →
      ∀ n ∈ (x.run ops).pausedFrames, n ∈ (x.run ops).s.frames := by
    intro ops
    induction ops with
    | nil => intro x h; exact h
    | cons e rest ih =>
      intro x h
      rw [frun_cons]
      exact ih _ (step_paused_sub x e h)
  exact gen ops FFix.init (by intro n hn; simp [FFix.init] at hn)

/-! ### SoupBinTCP -/

private theorem srun_cons (x : FSoup) (e : FSoupOp) (ops : List FSoupOp) : x.run (e :: ops) = (x.step e).run ops := rfl

/-- **C10Flow_soup_erasable.** -/
theorem C10Flow_soup_erasable (x : FSoup) (ops : List FSoupOp) : (x.run ops).s = soupRun x.s (baseOnlySoup ops) := by
  induction ops generalizing x with
  | nil => rfl
  | cons e ops ih =>
    rw [srun_cons, ih]
    cases e <;> rfl

/-- **C10Flow_soup_counts.**  Counter = initial + sequenced packets written, for every history with the transport's callbacks at
    any positions, every role and every initial value. -/
theorem C10Flow_soup_counts (role : Role) (init : Int) (ops : List FSoupOp) :
    ((FSoup.mk (soupInit role init) false).run ops).s.seq
      = init + (countSeq ((FSoup.mk (soupInit role init) false).run ops).s.written : Int) := by
  rw [C10Flow_soup_erasable]
  exact C10_soup_counts_init role init (baseOnlySoup ops)

/-! ### sensitivity and non-vacuity -/

/-- the history of the seeded change C10l: logon 700, the transport pauses, a heartbeat falls due, the transport resumes, a send -/
def gateWitness : List FFixOp :=
  [.base (.login 700 ⟨true, true⟩), .pauseWriting, .base (.heartbeat ⟨true, true⟩), .resumeWriting, .base (.send ⟨true, true⟩)]

/-- **C10Flow_gate_behind_draw_breaks.**  With a write gate behind the draw of the number (heartbeats skipped while paused) the second
    frame written after the logon carries 702 instead of 701; the code as it is writes 700, 701, 702. -/
theorem C10Flow_gate_behind_draw_breaks :
    (FFix.init.runGated gateWitness).s.frames = [700, 702] ∧ (FFix.init.run gateWitness).s.frames = [700, 701, 702] ∧
    (FFix.init.run gateWitness).pausedFrames = [701] := by decide

example : noLoginF [.pauseWriting, .base (.send ⟨true, false⟩), .base (.heartbeat ⟨true, true⟩), .resumeWriting,
    .base (.send ⟨false, false⟩), .pauseWriting, .base (.send ⟨true, true⟩)] = true := by decide
example : (FFix.init.run ([.pauseWriting, .base (.send ⟨true, true⟩)] ++ .base (.login 41 ⟨true, true⟩) ::
    [.base (.heartbeat ⟨true, true⟩), .base (.send ⟨true, false⟩), .resumeWriting, .pauseWriting, .base (.heartbeat ⟨true, true⟩),
     .base (.send ⟨false, true⟩), .base (.send ⟨true, true⟩)])).s.frames = [41, 42, 43, 44] := by decide

end NasdaqModel.Props.C10Flow
