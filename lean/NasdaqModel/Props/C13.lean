import NasdaqModel.Lemmas.FixLemmas
/-
C13 — the FIX tag=value codec round-trips messages, nested repeating groups included.
Only property theorems (`C13_*`), the predicates they are stated with, and non-vacuity examples live here;
the lemmas are in Lemmas/FixLemmas.lean, the model in Model/Fix.lean.
-/
namespace NasdaqModel.Props.C13
open NasdaqModel Py Fix

/-
The hypotheses (all decidable, defined in Lemmas/FixLemmas.lean):
  wfDef d    — all tags of header, body and trailer of the message class, nested groups included, pairwise distinct
               (slightly stronger than "segments disjoint": a group instance ends at the first tag it does not know);
  wfMsg d m  — every segment holds values its entries accept: right Python type, text ASCII without SOH, group instances
               with distinct keys known to the group and containing the group's first entry; at least one field set;
  canonMsg d m — `m` with every group instance re-ordered to dictionary order (top-level segments keep their order):
               what decoding returns, with the same field values as `m`;
  getMsgType bs = .ok d.type — the first `35=` in the bytes is the MsgType field (`C13_msgtype_first`: true whenever
               MsgType is the first header field assigned);
  lookupReg reg d.type = some d — the class is the one registered for its type.
Non-vacuity examples are at the end of the file.
-/

/-- **Round trip.** Decoding the bytes of a well-formed message through the base class yields the class registered for
    its MsgType, consumes every byte and returns the message in canonical form (same field values; group instances in
    dictionary order) — for every dictionary with distinct tags, any nesting depth, any assignment order. -/
theorem C13_roundtrip (reg : List MsgDef) (d : MsgDef) (m : Msg) (bs : Bytes)
    (hd : wfDef d = true) (hm : wfMsg d m = true) (henc : encMsg d m = .ok bs)
    (hty : getMsgType bs = .ok d.type) (hreg : lookupReg reg d.type = some d) :
    decodeMsg reg bs = .ok (bs.length, d, canonMsg d m) := by
  obtain ⟨fh, fb, ft, hfh, hfb, hft, rfl⟩ := encMsg_wire hd hm henc
  obtain ⟨nh, nb, nt, dbh, dth, dtb⟩ := wfDef_parts hd
  simp only [wfMsg, Bool.and_eq_true] at hm
  obtain ⟨⟨⟨wh, wb⟩, wt⟩, _⟩ := hm
  simp only [decodeMsg, hty, ok_bind, hreg, msgFromBytes]
  -- header
  have s1 : segFromBytes (tableOf d.hdr) (termAll fh ++ (termAll fb ++ termAll ft))
      = .ok ((termAll fh).length, canonSeg d.hdr m.hdr) := by
    apply segFromBytes_seg d.hdr nh m.hdr fh wh hfh
    apply starts_of_fields wb hfb dbh
    have := starts_of_fields (rest := []) wt hft dth (Or.inl rfl)
    simpa using this
  have s2 : segFromBytes (tableOf d.body) (termAll fb ++ termAll ft)
      = .ok ((termAll fb).length, canonSeg d.body m.body) := by
    apply segFromBytes_seg d.body nb m.body fb wb hfb
    have := starts_of_fields (rest := []) wt hft dtb (Or.inl rfl)
    simpa using this
  have s3 : segFromBytes (tableOf d.trl) (termAll ft) = .ok ((termAll ft).length, canonSeg d.trl m.trl) := by
    have := segFromBytes_seg d.trl nt m.trl ft wt hft [] (Or.inl rfl)
    simpa using this
  rw [List.append_assoc, s1]
  simp only [ok_bind, List.drop_left', s2, s3, pure_eq_ok, canonMsg, List.length_append, Nat.add_assoc]

/-- **Re-encode.** The decoded message encodes to the same bytes as the original (any assignment order). -/
theorem C13_reencode (d : MsgDef) (m : Msg) (hd : wfDef d = true) : encMsg d (canonMsg d m) = encMsg d m := by
  obtain ⟨nh, nb, nt, _, _, _⟩ := wfDef_parts hd
  simp only [encMsg, encSeg, canonMsg, encSegFields_canon _ nh, encSegFields_canon _ nb, encSegFields_canon _ nt]

/-- **Equality under the attrs-generated `Group.__eq__` (the code before /repo 02aab28), partial.**  `pyEq` compares group
    instances as OrderedDicts (order sensitive); with it the decoded message equals the original only when every group
    instance was assigned in dictionary order ("canonicalising changes nothing"); `Witness.C13.C13_witness_eq_order` is the
    counterexample otherwise.  Kept as the regression statement for the defect that was repaired. -/
theorem C13_eq_original_partial (d : MsgDef) (m : Msg) (hord : canonMsg d m = m) : pyEq (canonMsg d m) m = true := by
  rw [hord]; exact pyEq_refl m

/-- **Equality — the statement of the property.**  `pyEqDict` is `Message.__eq__` of the code as it is now (`Group.__eq__`
    compares the fields of an instance as plain dicts, top-level segments as OrderedDicts): the decoded message compares
    equal to the original for *every* well-formed message, whatever the order in which group fields were assigned. -/
theorem C13_eq_original (d : MsgDef) (m : Msg) (hd : wfDef d = true) (hm : wfMsg d m = true) :
    pyEqDict (canonMsg d m) m = true := by
  obtain ⟨nh, nb, nt, _, _, _⟩ := wfDef_parts hd
  simp only [wfMsg, wfSeg, Bool.and_eq_true] at hm
  obtain ⟨⟨⟨wh, wb⟩, wt⟩, _⟩ := hm
  simp only [pyEqDict, canonMsg, segEqTop_canon _ nh _ wh.1, segEqTop_canon _ nb _ wb.1, segEqTop_canon _ nt _ wt.1,
    Bool.and_self]

/-- **Class.** Whatever `decodeMsg` returns for the bytes of a well-formed message is the class registered for its type. -/
theorem C13_class (reg : List MsgDef) (d : MsgDef) (m : Msg) (bs : Bytes)
    (hd : wfDef d = true) (hm : wfMsg d m = true) (henc : encMsg d m = .ok bs)
    (hty : getMsgType bs = .ok d.type) (hreg : lookupReg reg d.type = some d)
    (n : Nat) (d' : MsgDef) (m' : Msg) (hdec : decodeMsg reg bs = .ok (n, d', m')) :
    d' = d ∧ n = bs.length := by
  rw [C13_roundtrip reg d m bs hd hm henc hty hreg] at hdec
  injection hdec with h
  injection h with h1 h2
  injection h2 with h2 h3
  exact ⟨h2.symm, h1.symm⟩

/-- **MsgType.** When `MsgType` is the first header field assigned (so the bytes begin with `35=`), `get_msg_type`
    finds the class's own type: the hypothesis `hty` of `C13_roundtrip` holds. -/
theorem C13_msgtype_first (d : MsgDef) (m : Msg) (bs : Bytes)
    (hd : wfDef d = true) (hm : wfMsg d m = true) (henc : encMsg d m = .ok bs)
    (r : Bool) (rest : Seg) (hfirst : m.hdr = (35, .str d.type) :: rest)
    (hentry : lookupE d.hdr 35 = some (.field 35 .string r)) :
    getMsgType bs = .ok d.type := by
  obtain ⟨fh, fb, ft, hfh, _, _, rfl⟩ := encMsg_wire hd hm henc
  simp only [wfMsg, Bool.and_eq_true] at hm
  obtain ⟨⟨⟨wh, _⟩, _⟩, _⟩ := hm
  rw [hfirst] at wh hfh
  simp only [wfSeg, wfFields, hentry, wfVal, wfPrim, Bool.and_eq_true] at wh
  obtain ⟨ha, h1⟩ := wfText_iff wh.1.1
  obtain ⟨b, bs', hb, _, rfl⟩ := mapE_cons_ok hfh
  simp only [hentry, encEntry, tyToBytes, encodeAscii, ha, if_true, ok_bind, pure_eq_ok] at hb
  injection hb with hb
  subst hb
  have : termAll (fieldBytes 35 d.type :: bs') ++ termAll fb ++ termAll ft
      = [51, 53, 61] ++ d.type ++ 1 :: (termAll bs' ++ termAll fb ++ termAll ft) := by
    rw [termAll_cons]
    have : natDigits 35 = [51, 53] := by decide
    simp [fieldBytes, this]
  rw [this]
  exact getMsgType_first d.type _ h1 ha

/-- **Group layout.**  A repeating group is written as its count field, whose value is the number of instances in
    decimal, followed by the instances; every instance is exactly its present fields in *dictionary* order
    (`itemTags fs` = the group's entries filtered by presence), each field followed by SOH. -/
theorem C13_group_layout (t : Nat) (sub : List Entry) (r : Bool) (insts : List Seg) (b : Bytes)
    (hne : ∀ inst ∈ insts, firstPresent sub inst = true)
    (henc : encEntry (.group t sub r) (.grp insts) = .ok b) :
    ∃ fss : List (List Item),
      b ++ [1] = fieldBytes t (natDigits insts.length) ++ 1 :: (fss.map wireItems).flatten ∧
      All₂ (fun inst fs =>
              itemTags fs = (sub.filter (fun e => hasKey inst e.tag)).map Entry.tag ∧
              ∀ x ∈ fs, x.1 ∈ sub ∧ lookupV inst x.1.tag = some x.2.1 ∧ encEntry x.1 x.2.1 = .ok x.2.2) insts fss := by
  simp only [encEntry] at henc
  obtain ⟨gs, hgs, h⟩ := bind_ok henc
  simp only [pure_eq_ok] at h
  injection h with h
  subst h
  have hall := mapE_all₂ hgs
  have key : ∀ {is : List Seg} {gl : List Bytes},
      All₂ (fun a g => (encGroupFields sub a >>= fun fs => pure (joinSOH fs)) = Except.ok g) is gl →
      (∀ inst ∈ is, firstPresent sub inst = true) →
      ∃ fss : List (List Item), termAll gl = (fss.map wireItems).flatten ∧
        All₂ (fun inst fs =>
              itemTags fs = (sub.filter (fun e => hasKey inst e.tag)).map Entry.tag ∧
              ∀ x ∈ fs, x.1 ∈ sub ∧ lookupV inst x.1.tag = some x.2.1 ∧ encEntry x.1 x.2.1 = .ok x.2.2) is fss := by
    intro is gl hal
    induction hal with
    | nil => intro _; exact ⟨[], by simp [termAll], .nil⟩
    | @cons inst g insts' gs' hg _ ih =>
      intro hfp
      obtain ⟨fss, h1, h2⟩ := ih (fun i hi => hfp i (by simp [hi]))
      obtain ⟨fbs, hf, hh⟩ := bind_ok hg
      simp only [pure_eq_ok] at hh
      injection hh with hh
      subst hh
      obtain ⟨fs, k1, k2, k3⟩ := encGroupFields_layout inst sub fbs hf
      have hfirst := hfp inst (by simp)
      have hne : fbs ≠ [] := by
        cases sub with
        | nil => simp [firstPresent] at hfirst
        | cons e1 sub' =>
          simp only [firstPresent] at hfirst
          simp only [List.filter_cons, hfirst, if_true, List.map_cons] at k3
          intro hnil
          rw [hnil] at k1
          simp at k1
          rw [k1] at k3
          simp [itemTags] at k3
      refine ⟨fs :: fss, ?_, .cons ⟨k3, k2⟩ h2⟩
      rw [termAll_cons, List.map_cons, List.flatten_cons, ← h1]
      cases fbs with
      | nil => exact absurd rfl hne
      | cons a l =>
        have := joinSOH_term a l
        rw [show joinSOH (a :: l) ++ 1 :: termAll gs' = (joinSOH (a :: l) ++ [1]) ++ termAll gs' by simp, this]
        simp [wireItems, k1]
  obtain ⟨fss, h1, h2⟩ := key hall hne
  refine ⟨fss, ?_, h2⟩
  rw [joinSOH_term, termAll_cons, h1, intStr_natCast]

/-- **Assignment order is irrelevant.**  Two group values whose instances hold the same items, assigned in any
    order, encode to the same bytes. -/
theorem C13_group_order_irrelevant (t : Nat) (sub : List Entry) (r : Bool) (insts insts' : List Seg)
    (h : All₂ (fun a b => a.Perm b ∧ (keysOf b).Nodup) insts' insts) :
    encEntry (.group t sub r) (.grp insts') = encEntry (.group t sub r) (.grp insts) := by
  have hlen : insts'.length = insts.length := by
    induction h with
    | nil => rfl
    | cons _ _ ih => simp [ih]
  have hmap : mapE (fun inst => do let fs ← encGroupFields sub inst; pure (joinSOH fs)) insts'
      = mapE (fun inst => do let fs ← encGroupFields sub inst; pure (joinSOH fs)) insts := by
    induction h with
    | nil => rfl
    | cons hab _ ih =>
      simp only [mapE] at ih ⊢
      rw [encGroupFields_perm sub hab.1 hab.2, ih (by simpa using hlen)]
  simp only [encEntry, hmap, hlen]

/-- **Encoding never raises** on a message built from valid values. -/
theorem C13_encodes (d : MsgDef) (m : Msg) (hd : wfDef d = true) (hm : wfMsg d m = true) : ∃ bs, encMsg d m = .ok bs := by
  obtain ⟨nh, nb, nt, _, _, _⟩ := wfDef_parts hd
  simp only [wfMsg, wfSeg, Bool.and_eq_true] at hm
  obtain ⟨⟨⟨wh, wb⟩, wt⟩, _⟩ := hm
  obtain ⟨fh, hfh⟩ := encSegFields_ok d.hdr nh m.hdr wh.1
  obtain ⟨fb, hfb⟩ := encSegFields_ok d.body nb m.body wb.1
  obtain ⟨ft, hft⟩ := encSegFields_ok d.trl nt m.trl wt.1
  exact ⟨_, by simp only [encMsg, encSeg, hfh, hfb, hft, ok_bind, pure_eq_ok]; rfl⟩

/-- **The statement of C13 in one piece** (for a message whose first assigned header field is MsgType): it encodes;
    the bytes decode to the registered class, every byte consumed, to the canonical form of the message; that form
    re-encodes to the same bytes and compares `==` to the original. -/
theorem C13_statement (reg : List MsgDef) (d : MsgDef) (m : Msg) (hd : wfDef d = true) (hm : wfMsg d m = true)
    (r : Bool) (rest : Seg) (hfirst : m.hdr = (35, .str d.type) :: rest)
    (hentry : lookupE d.hdr 35 = some (.field 35 .string r)) (hreg : lookupReg reg d.type = some d) :
    ∃ bs, encMsg d m = .ok bs ∧ decodeMsg reg bs = .ok (bs.length, d, canonMsg d m) ∧
      encMsg d (canonMsg d m) = .ok bs ∧ pyEqDict (canonMsg d m) m = true := by
  obtain ⟨bs, henc⟩ := C13_encodes d m hd hm
  have hty := C13_msgtype_first d m bs hd hm henc r rest hfirst hentry
  exact ⟨bs, henc, C13_roundtrip reg d m bs hd hm henc hty hreg, by rw [C13_reencode d m hd]; exact henc,
    C13_eq_original d m hd hm⟩

/-! ### non-vacuity: a dictionary with a group inside a group, a message assigned out of dictionary order -/

/-- header MsgType(35) + 49; body: 58 string, group 453 { 448 string, 447 char, group 802 { 523 string, 803 int } }, 44 float;
    trailer 93 int -/
def exDef : MsgDef :=
  { name := [68], type := [68],
    hdr := [.field 35 .string true, .field 49 .string false],
    body := [.field 58 .string false,
             .group 453 [.field 448 .string true, .field 447 .char false,
                         .group 802 [.field 523 .string true, .field 803 .int false] false] false,
             .field 44 .float false],
    trl := [.field 93 .int false] }

/-- `44` assigned before the group, instances assigned out of order, an empty string, a string containing `=`, a negative
    integer, an instance with an empty nested group and one with two nested instances -/
def exMsg : Msg :=
  { hdr := [(35, .str [68]), (49, .str [])],
    body := [(44, .flt [45, 49, 46, 53]),
             (453, .grp [[(447, .str [88]), (448, .str [97, 61, 98])],
                         [(802, .grp [[(803, .int (-7)), (523, .str [113])], [(523, .str [])]]), (448, .str [99])],
                         [(448, .str [100]), (802, .grp [])]])],
    trl := [(93, .int 0)] }

example : wfDef exDef = true := by decide
example : wfMsg exDef exMsg = true := by decide
example : wfDef witnessDef = true ∧ wfMsg witnessDef witnessMsg = true := by decide
/-- the hypothesis of `C13_eq_original_partial` is satisfiable by a message with a group … -/
example : canonMsg witnessDef { witnessMsg with body := [(100, .grp [[(101, .int 1), (102, .str [97])]])] }
    = { witnessMsg with body := [(100, .grp [[(101, .int 1), (102, .str [97])]])] } := by rfl
/-- … and it really encodes to the documented layout: `35=D|49=|44=-1.5|453=3|448=a=b|447=X|448=c|802=2|523=q|803=-7|523=|448=d|802=0|93=0|` -/
example : encMsg exDef exMsg = .ok
    [51,53,61,68,1, 52,57,61,1, 52,52,61,45,49,46,53,1, 52,53,51,61,51,1, 52,52,56,61,97,61,98,1, 52,52,55,61,88,1,
     52,52,56,61,99,1, 56,48,50,61,50,1, 53,50,51,61,113,1, 56,48,51,61,45,55,1, 53,50,51,61,1,
     52,52,56,61,100,1, 56,48,50,61,48,1, 57,51,61,48,1] := by decide +kernel

end NasdaqModel.Props.C13
