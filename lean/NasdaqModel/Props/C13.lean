import NasdaqModel.Lemmas.PyLemmas
import NasdaqModel.Model.Fix
namespace NasdaqModel.Props.C13
open NasdaqModel Py Fix

theorem C13_stub : joinSOH [] = [] := rfl

end NasdaqModel.Props.C13
