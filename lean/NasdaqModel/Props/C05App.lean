import NasdaqModel.Lemmas.AppSessionLemmasO
import NasdaqModel.Lemmas.AppMonitorLemmas
import NasdaqModel.Props.C05
/-
C05, application sessions — every way of ending an ITCH / OUCH / SQF / ASN.1 application session closes it once, completely.

Theorems about the product machine `Model/AppSession.lean` (inner session machine × application layer: second queue, its dispatcher
`D2` and receive helper `V2`, the close event, `_on_soup_message`, `_on_soup_close`) for **every** configuration — any `decode`,
pull or callback mode, message callbacks that return / await / raise / await `close()` / await `close()` in their cancellation
clean-up, close callbacks that return / await / await `close()` — and **every** event sequence: any interleaving of inner events
(bytes, disconnects, heartbeat trips, soup-level calls, task steps), application task steps, `close()` / `receive_message()` calls
and user cancellations.  The inner component is always a legal state of the inner machine (`C04App_inner_reachable`), so
`Props/C05.lean` holds for it verbatim; what is proved here is the second stage.

`closedFirst = true` is the code as it is (commit 7eb8348: `closed = True` before `await self._message_queue.stop()`); the order
before that commit is `closedFirst = false`.

`close()` awaited from the message callback is carried out by the calling task, the second dispatcher (the repair of
C05-app-close-from-message-callback; `Model/AppSession.lean`, `closeOnD2`): `C05App_close_never_raises` holds without any
hypothesis on the callbacks.  `Witness/C05AppOld.lean` keeps the transition before the repair and decides that it ends the call with
`CancelledError` on the recorded history (and, with the old order, deadlocks in the clean-up).
-/
namespace NasdaqModel.Props.C05App
open NasdaqModel App

abbrev reach (a : ACfg) (evs : List Ev) : St := runEvs a {} evs

/-- **The application-level close sequence.** In every reachable state the application-level trace is accepted by the close
    monitor: the user's close callback entered at most once, left at most once after that, and no application message callback
    started once it has been entered. -/
theorem C05App_close_sequence (a : ACfg) (evs : List Ev) : mon2Run (reach a evs).trace2 ≠ 9 := by
  rw [(runEvs_Inv a evs).bb.ph]
  unfold phase2
  split <;> (try split) <;> omega

/-- **At most once.** Whatever combination and repetition of close triggers occurs, the application's close callback is entered
    and left at most once. -/
theorem C05App_cb_at_most_once (a : ACfg) (evs : List Ev) :
    (reach a evs).trace2.count .cbEnter ≤ 1 ∧ (reach a evs).trace2.count .cbExit ≤ 1 := by
  have h := C05App_close_sequence a evs
  exact ⟨(count2_cbEnter _ 0 h).1 rfl, (count2_cbExit _ 0 h).1 (by omega)⟩

/-- **The callback returns after it was entered.** -/
theorem C05App_callback_exit_after_enter (a : ACfg) (evs : List Ev) (l1 l2 : List AObs)
    (e : (reach a evs).trace2 = l1 ++ AObs.cbExit :: l2) : AObs.cbEnter ∈ l1 :=
  cbEnter2_before_cbExit2 _ l1 l2 (C05App_close_sequence a evs) e

/-- **After the last message callback.** No application message callback is started once the application's close callback has
    been entered. -/
theorem C05App_no_message_callback_after_close_callback (a : ACfg) (evs : List Ev) (l1 l2 : List AObs) (v : Nat)
    (e : (reach a evs).trace2 = l1 ++ AObs.msgEnter v :: l2) : AObs.cbEnter ∉ l1 ∧ AObs.cbExit ∉ l1 :=
  no_msgEnter2_after_cbEnter2 _ l1 l2 v (C05App_close_sequence a evs) e

/-- **Transport first, queue stopped first.** Whenever the application's close callback has been entered, the soup session reports
    closed, its transport has been closed, the application queue is stopped and the application session reports closed.
    (This holds in every reachable state, in particular in the one in which the callback is entered.) -/
theorem C05App_callback_after_soup_close (a : ACfg) (evs : List Ev) (h : AObs.cbEnter ∈ (reach a evs).trace2) :
    (reach a evs).inner.closed = true ∧ Sess.Obs.tclose ∈ (reach a evs).inner.trace ∧
    (reach a evs).q2Closed = true ∧ (reach a evs).appClosed = true := by
  have i := runEvs_Inv a evs
  have hne : (reach a evs).cpc ≠ .idle ∧ (reach a evs).built = true ∧ lateStage (reach a evs).cpc = true := by
    have hph := i.bb.ph
    by_cases h0 : phase2 a (reach a evs) = 0
    · rw [h0] at hph
      exact absurd h (mon2_zero_no_cb _ hph).1
    · unfold phase2 at h0
      split at h0
      · rename_i k hc; exact ⟨by rw [hc]; simp, i.bb.bu (Or.inl (by rw [hc]; rfl)), by rw [hc]; rfl⟩
      · rename_i hc; exact ⟨by rw [hc]; simp, i.bb.bu (Or.inr hc), by rw [hc]; rfl⟩
      · rename_i hc
        split at h0
        · rename_i hb; simp at hb; exact ⟨by rw [hc]; simp, hb.2, by rw [hc]; rfl⟩
        · contradiction
      · contradiction
  exact ⟨i.bb.b hne.1, i.bb.tc hne.1, i.bb.q hne.2.1 hne.1, i.bb.ac2 hne.2.1 hne.2.2⟩

/-- **`closed` means closed.** The application session reports closed only when the soup session reports closed and
    `_on_soup_close` has started; and it does report closed from the moment the user's close callback is entered. -/
theorem C05App_closed_semantics (a : ACfg) (evs : List Ev) :
    ((reach a evs).appClosed = true → (reach a evs).inner.closed = true ∧ (reach a evs).cpc ≠ .idle) ∧
    ((reach a evs).built = true → lateStage (reach a evs).cpc = true → (reach a evs).appClosed = true) ∧
    (a.closedFirst = true → (reach a evs).built = true → (reach a evs).cpc ≠ .idle → (reach a evs).appClosed = true) := by
  have i := runEvs_Inv a evs
  exact ⟨fun h => ⟨i.bb.b (i.bb.ac1 h).2, (i.bb.ac1 h).2⟩, i.bb.ac2, i.bb.ac3⟩

/-- **The position inside `_on_soup_close` follows the inner close stage.** Before the inner close callback is entered
    `_on_soup_close` has not started; while the closer is inside the inner callback stage it is inside `_on_soup_close`; when the
    inner close has finished, `_on_soup_close` has returned. -/
theorem C05App_stage_sync (a : ACfg) (evs : List Ev) :
    (Sess.preCb (reach a evs).inner → (reach a evs).cpc = .idle) ∧
    (∀ t k c, (reach a evs).inner.cstage = .cb t k c → k = 0 ∧ midStage (reach a evs).cpc = true) ∧
    ((reach a evs).inner.cstage = .finished → (reach a evs).cpc = .finished) := by
  have i := runEvs_Inv a evs
  exact ⟨i.yy.s1, i.yy.s2, i.yy.s3⟩

/-- **Completely, exactly once.** When the close of the soup session has run to its end, the application session (if it was
    constructed) reports closed, its queue is stopped, the close event — if anybody created one — is set, nobody waits for it,
    and the application's close callback (if one is configured) was entered and left exactly once. -/
theorem C05App_completed_exactly_once (a : ACfg) (evs : List Ev) (h : (reach a evs).inner.cstage = .finished)
    (hb : (reach a evs).built = true) :
    (reach a evs).appClosed = true ∧ (reach a evs).q2Closed = true ∧ (reach a evs).evt ≠ some false ∧
    (∀ t, (reach a evs).astatus t ≠ .waitE) ∧
    (a.hasCb = true → (reach a evs).trace2.count .cbEnter = 1 ∧ (reach a evs).trace2.count .cbExit = 1) ∧
    (a.hasCb = false → AObs.cbEnter ∉ (reach a evs).trace2) := by
  have i := runEvs_Inv a evs
  have hc : (reach a evs).cpc = .finished := i.yy.s3 h
  have hev := i.bb.ev2 hc
  refine ⟨i.bb.ac2 hb (by rw [hc]; rfl), i.bb.q hb (by rw [hc]; simp), hev, ?_, ?_, ?_⟩
  · intro t ht; exact hev (i.ss.we t ht)
  · intro hcb
    have hph := i.bb.ph
    simp only [phase2, hc, hcb, hb, Bool.and_self, if_true] at hph
    exact mon2_two_counts _ hph
  · intro hcb
    have hph := i.bb.ph
    simp only [phase2, hc, hcb, Bool.false_and] at hph
    exact (mon2_zero_no_cb _ hph).1

/-- **`close()` from the close callback returns at once** (commit 35c133f): with a close callback that awaits `app.close()`
    — or simply returns — the callback is never left hanging: in every reachable state it has been left as often as entered. -/
theorem C05App_close_from_close_callback_returns (a : ACfg) (evs : List Ev) (hbeh : ∀ k, a.cbBeh ≠ .await k) :
    (reach a evs).trace2.count .cbEnter = (reach a evs).trace2.count .cbExit := by
  have i := runEvs_Inv a evs
  have hph := i.bb.ph
  have hnu : ∀ k, (reach a evs).cpc ≠ .user k := by
    intro k hk
    obtain ⟨_, k0, h0⟩ := i.bb.ub (Or.inl ⟨k, hk⟩)
    exact hbeh k0 h0
  have hna : (reach a evs).cpc ≠ .aborted := by
    intro hk
    obtain ⟨_, k0, h0⟩ := i.bb.ub (Or.inr hk)
    exact hbeh k0 h0
  unfold phase2 at hph
  split at hph
  · rename_i k hc; exact absurd hc (hnu k)
  · rename_i hc; exact absurd hc hna
  · split at hph
    · obtain ⟨h1, h2⟩ := mon2_two_counts _ hph
      rw [h1, h2]
    · obtain ⟨h1, h2⟩ := mon2_zero_no_cb _ hph
      rw [List.count_eq_zero_of_not_mem h1, List.count_eq_zero_of_not_mem h2]
  · obtain ⟨h1, h2⟩ := mon2_zero_no_cb _ hph
    rw [List.count_eq_zero_of_not_mem h1, List.count_eq_zero_of_not_mem h2]

/-- **Closing twice is harmless.** Once a close is under way (the close event exists) or the application session reports closed,
    a further `close()` returns at once with no other effect. -/
theorem C05App_close_idempotent (a : ACfg) (s : St) (u : Nat) (hc : s.evt.isSome = true ∨ s.appClosed = true)
    (hu : s.astatus (.W u) = .absent) (hb : s.built = true) :
    (step a s (.appClose u)).tr = s.tr ++ [.app (.closeRet (.user u) .ok)] ∧
    (step a s (.appClose u)).inner = s.inner ∧ (step a s (.appClose u)).cpc = s.cpc ∧
    (step a s (.appClose u)).evt = s.evt := by
  have hg : (s.evt.isSome || s.appClosed) = true := by
    rcases hc with h | h <;> simp [h]
  simp [step, hu, hb, hg, St.emit2, St.setA]

/-- **The close never deadlocks.** In every reachable state in which the soup session reports closed but its close has not run
    to its end, a definite task can take the next step of the close: the closer itself, the (cancelled, hence runnable) inner
    task it is awaiting — or, while the closer is inside `_on_soup_close` awaiting the second dispatcher / the receive helper
    in `queue.stop()`, that task, which is cancelled and runnable.  (For the code as it is, `closedFirst = true`.) -/
theorem C05App_close_never_deadlocks (a : ACfg) (evs : List Ev) (hcf : a.closedFirst = true)
    (hc : (reach a evs).inner.closed = true) (hf : (reach a evs).inner.cstage ≠ .finished)
    (ha : (reach a evs).inner.cstage ≠ .aborted) :
    (∃ t, runnableI (reach a evs) t = true ∧
      (Sess.isCloser (reach a evs).inner t ∨
        ∃ t', Sess.isCloser (reach a evs).inner t' ∧ (reach a evs).inner.status t' = .waitT t)) ∨
    ((reach a evs).cpc = .waitD2 ∧ runnable2 (reach a evs) .D2 = true) ∨
    ((reach a evs).cpc = .waitV2 ∧ runnable2 (reach a evs) .V2 = true) := by
  have i : Inv a (reach a evs) := runEvs_Inv a evs
  obtain ⟨es, he⟩ := runEvs_reach a evs
  have he' : (reach a evs).inner = C05.reach (innerCfg a) es := he
  clear he
  have hin := C05.C05_close_never_deadlocks (innerCfg a) es (he' ▸ hc) (he' ▸ hf) (he' ▸ ha)
  rw [← he'] at hin
  obtain ⟨t, hrun, hrole⟩ := hin
  generalize reach a evs = s at *
  by_cases hblk : closerOf s.inner = some t ∧ closerBlocked s = true
  · -- the closer is inside `queue.stop()`
    obtain ⟨_, hb⟩ := hblk
    unfold closerBlocked at hb
    split at hb
    · rename_i hcp
      refine Or.inr (Or.inl ⟨hcp, ?_⟩)
      rcases i.ss.d2 hcp with h | h | ⟨h, v, hv⟩
      · simp [runnable2, h]
      · rw [h] at hb; contradiction
      · have := i.ss.cc v hv hb; rw [hcf] at this; contradiction
    · rename_i hcp
      refine Or.inr (Or.inr ⟨hcp, ?_⟩)
      rcases i.ss.v2 hcp with h | h
      · simp [runnable2, h]
      · rw [h] at hb; contradiction
    · contradiction
  · refine Or.inl ⟨t, ?_, hrole⟩
    unfold runnableI
    rw [hrun]
    simp only [Bool.true_and, Bool.not_eq_true', Bool.and_eq_false_iff, beq_eq_false_iff_ne, ne_eq]
    by_cases h1 : closerOf s.inner = some t
    · right
      cases hcb : closerBlocked s with
      | false => rfl
      | true => exact absurd ⟨h1, hcb⟩ hblk
    · left; exact h1

/-- **Each stop stage of `_on_soup_close` ends in one step**: the cancelled second dispatcher ends at its next step (whatever
    its message callback was doing — with `closedFirst` a `close()` in its cancellation clean-up returns at once), which
    unblocks the closer. -/
theorem C05App_stop_stage_progress (a : ACfg) (s : St) (i : Inv a s) (hcf : a.closedFirst = true)
    (hc : s.cpc = .waitD2) (hD : s.astatus .D2 = .cancelled) :
    alive2 ((step a s (.run .D2)).astatus .D2) = false ∧ (step a s (.run .D2)).cpc = .waitD2 := by
  have hb : s.built = true := i.bb.bu (Or.inl (by rw [hc]; rfl))
  have hac : s.appClosed = true := i.bb.ac3 hcf hb (by rw [hc]; simp)
  have hty := i.ss.ty .D2 (by rw [hD]; rfl)
  simp only [step, runnable2, hD, stepRun2]
  cases hp : s.aprog .D2 <;> simp_all [allowed2, St.finish2, St.emit2, alive2]

/-- **Every `close()` caller is released.** Once the close event is set nobody is waiting for it any more; and a released
    caller returns normally at its next step. -/
theorem C05App_callers_released (a : ACfg) (evs : List Ev) (h : (reach a evs).evt = some true) :
    ∀ t, (reach a evs).astatus t ≠ .waitE := by
  intro t ht
  have := (runEvs_Inv a evs).ss.we t ht
  rw [h] at this; cases this

theorem C05App_released_caller_returns (a : ACfg) (s : St) (u : Nat)
    (hW : s.astatus (.W u) = .ready) (hp : s.aprog (.W u) = .closeWait u) :
    (step a s (.run (.W u))).tr = s.tr ++ [.app (.closeRet (.user u) .ok)] ∧
    alive2 ((step a s (.run (.W u))).astatus (.W u)) = false := by
  simp [step, runnable2, hW, stepRun2, hp, St.finish2, St.emit2, alive2]

/-- **Close calls never raise.** Every `await app.close()` that has ended, whoever made it — a user task, a message callback in
    its body (at once or after some work) or in its cancellation clean-up, the close callback — and whatever else happened
    meanwhile, returned normally; the only exception is a *user task the user cancelled* while it was waiting, which reports
    that cancellation.  No hypothesis on the configuration: any callbacks, either order inside `_on_soup_close`. -/
theorem C05App_close_never_raises (a : ACfg) (evs : List Ev) (c : Caller) (r : Sess.Res)
    (h : AObs.closeRet c r ∈ (reach a evs).trace2) :
    r = .ok ∨ (∃ u, c = .user u ∧ r = .cancelled) := by
  have key := runEvs_InvO (a := a)
    (P := fun o => ∀ c r, o = AObs.closeRet c r → r = .ok ∨ (∃ u, c = .user u ∧ r = .cancelled)) ?_ evs
  · exact key _ h c r rfl
  · -- the observables a step can append: a `closeRet` among them is `ok`, or a user's own cancellation
    intro o ho c r e
    subst e
    cases r <;> cases c <;> simp_all [plainObs]

/-- in particular: a `close()` awaited from a message callback or from the close callback never ends with `CancelledError` -/
theorem C05App_callback_close_returns_ok (a : ACfg) (evs : List Ev) (r : Sess.Res) :
    (∀ v, AObs.closeRet (.handler v) r ∈ (reach a evs).trace2 → r = .ok) ∧
    (AObs.closeRet .closeCb r ∈ (reach a evs).trace2 → r = .ok) := by
  constructor
  · intro v h
    rcases C05App_close_never_raises a evs _ _ h with h' | ⟨u, h', _⟩
    · exact h'
    · cases h'
  · intro h
    rcases C05App_close_never_raises a evs _ _ h with h' | ⟨u, h', _⟩
    · exact h'
    · cases h'

/-- **A message callback inside `close()` is the closer, never a waiter.** In no reachable state does the second dispatcher wait
    for the close event, and whenever a message callback is inside a `close()` call (from its body: `handlerClose`; from its
    cancellation clean-up: `cleanupClose`) the dispatcher is carrying out `soup_session.close()` itself (`inSoup`): it is not
    suspended on anything `queue.stop()` would have to cancel, and no cancellation is pending for it — the situation in which the
    call ended with `CancelledError` before the repair (`Witness/C05AppOld.lean`) does not exist.  Only the dispatcher is ever
    `inSoup`, and only inside such a call; a callback gets there only if it is of the closing kind; and with the order as it is
    (`closedFirst`) the `close()` of a cancellation clean-up never even gets past its guard. -/
theorem C05App_handler_inside_close_is_closer (a : ACfg) (evs : List Ev) :
    (reach a evs).astatus .D2 ≠ .waitE ∧
    (∀ v, (reach a evs).aprog .D2 = .handlerClose v ∨ (reach a evs).aprog .D2 = .cleanupClose v →
      alive2 ((reach a evs).astatus .D2) = true →
      (reach a evs).astatus .D2 = .inSoup ∧ (reach a evs).astatus .D2 ≠ .cancelled) ∧
    (∀ t, (reach a evs).astatus t = .inSoup →
      t = .D2 ∧ ((∃ v, (reach a evs).aprog .D2 = .handlerClose v) ∨ ∃ v, (reach a evs).aprog .D2 = .cleanupClose v)) ∧
    (∀ v, (reach a evs).aprog .D2 = .handlerClose v → alive2 ((reach a evs).astatus .D2) = true →
      a.msgBeh v = .close ∨ ∃ k, a.msgBeh v = .awaitClose k) ∧
    (a.closedFirst = true → ∀ v, ¬ ((reach a evs).aprog .D2 = .cleanupClose v ∧ alive2 ((reach a evs).astatus .D2) = true)) := by
  have i := runEvs_Inv a evs
  refine ⟨i.ss.ds, ?_, i.ss.ip, i.ss.hc, ?_⟩
  · intro v h1 h2
    have h3 := i.ss.hs v h1 h2
    exact ⟨h3, by rw [h3]; simp⟩
  · intro hcf v ⟨h1, h2⟩
    have := i.ss.cc v h1 h2
    rw [hcf] at this; contradiction

/-- **The steps of a dispatcher that carries out the close are the steps of the closer of the soup session**: while the second
    dispatcher is inside the `soup_session.close()` of a message callback's `close()`, the event `run D2` is the inner event
    `run (U d2u)` — the task `C05App_close_never_deadlocks` names when the dispatcher is the closer — and the user cannot interfere
    with that task (its inner events are refused). -/
theorem C05App_dispatcher_closer_step (a : ACfg) (s : St) (hD : s.astatus .D2 = .inSoup) :
    step a s (.run .D2) = stepInner a { s with imm2 := false } (.run (.U d2u)) ∧
    step a s (.inner (.run (.U d2u))) = s ∧ step a s (.inner (.cancel d2u)) = s ∧ step a s (.inner (.callClose d2u)) = s := by
  refine ⟨?_, ?_, ?_, ?_⟩
  · simp [step, runnable2, hD]
  · simp [step, reservedEv]
  · simp [step, reservedEv]
  · simp [step, reservedEv]

/-- **The dispatcher that carries out the close has ended when the close has.** When the close of the soup session has run to
    its end, the second dispatcher is not alive any more — also when it was the closer: the `close()` of the message callback
    has returned, the callback has returned, the dispatcher loop has ended, all in the step in which `_on_soup_close` returned. -/
theorem C05App_dispatcher_ended_with_close (a : ACfg) (evs : List Ev) (h : (reach a evs).inner.cstage = .finished)
    (hb : (reach a evs).built = true) :
    alive2 ((reach a evs).astatus .D2) = false ∧ (reach a evs).disp2Set = false ∧ (reach a evs).astatus .D2 ≠ .inSoup := by
  have i := runEvs_Inv a evs
  have hc : (reach a evs).cpc = .finished := i.yy.s3 h
  have hD := i.ss.dnf rfl hb hc
  refine ⟨hD, (i.ss.dn hb (Or.inr (by rw [hc]; rfl))).2, ?_⟩
  intro h2; rw [h2] at hD; simp [alive2] at hD

/-! ### non-vacuity: concrete lifetimes -/

private def a1 : ACfg :=
  { dec := fun n => if n = 0 then .skip else .val n
    hasMsgCb := true, msgBeh := fun _ => .await 1, hasCb := true, cbBeh := .close, closedFirst := true }

private def login : List Ev :=
  [.inner .connect, .inner (.callLogin 1), .inner (.run .V), .inner (.data [.msg 0]), .inner (.run .R), .inner (.run .V),
   .inner (.run (.U 1))]

/-- message 3 is being handled (the callback awaits) when the user calls `close()`; the peer disconnects as well; the closing
    task stops the soup session, then — inside `_on_soup_close` — cancels and awaits the second dispatcher; the handler is
    abandoned; the close callback calls `close()` (returns at once); the event is set; the caller returns -/
private def life : List Ev := login ++
  [.run .D2, .inner (.run .D), .inner (.data [.msg 3]), .inner (.run .R), .inner (.run .D), .inner (.run .D), .run .D2,
   .appClose 2, .inner .eof, .inner (.run .C), .inner (.run .D), .inner (.run .C), .inner (.run .L), .inner (.run .C),
   .inner (.run .M), .inner (.run .C), .inner (.run .R), .inner (.run .C), .run .D2, .inner (.run .C), .run (.W 2)]

set_option maxRecDepth 100000 in
example : (reach a1 life).trace2 =
    [.msgEnter 3, .msgAbandon 3, .cbEnter, .closeRet .closeCb .ok, .cbExit, .closeRet (.user 2) .ok] := by decide
set_option maxRecDepth 100000 in
example : (reach a1 life).inner.cstage = .finished ∧ (reach a1 life).built = true ∧ (reach a1 life).cpc = .finished ∧
    (reach a1 life).appClosed = true ∧ (reach a1 life).evt = some true := by decide

/-- the callback for 3 works, then awaits `close()`; a user task calls `close()` while the callback's close is under way (it returns at once: the event exists); the dispatcher stops the soup session's tasks, runs
    `_on_soup_close` (the close callback calls `close()` as well) and returns into the callback -/
private def a2 : ACfg :=
  { dec := fun n => if n = 0 then .skip else .val n
    hasMsgCb := true, msgBeh := fun v => if v = 3 then .awaitClose 0 else .ret, hasCb := true, cbBeh := .close, closedFirst := true }

private def life2 : List Ev := login ++
  [.run .D2, .inner (.run .D), .inner (.data [.msg 3, .msg 4]), .inner (.run .R), .inner (.run .R),
   .inner (.run .D), .inner (.run .D), .inner (.run .D), .run .D2, .run .D2, .appClose 2,
   .inner (.run .D), .run .D2, .inner (.run .L), .run .D2, .inner (.run .M), .run .D2, .inner (.run .R), .run .D2]

set_option maxRecDepth 100000 in
example : (reach a2 life2).trace2 =
    [.msgEnter 3, .closeRet (.user 2) .ok, .cbEnter, .closeRet .closeCb .ok, .cbExit, .closeRet (.handler 3) .ok, .msgExit 3] := by
  decide
set_option maxRecDepth 100000 in
example : (reach a2 life2).inner.cstage = .finished ∧ (reach a2 life2).cpc = .finished ∧ (reach a2 life2).appClosed = true ∧
    (reach a2 life2).evt = some true ∧ (reach a2 life2).astatus .D2 = .done ∧ (reach a2 life2).q2 = [4] := by decide
set_option maxRecDepth 100000 in
/-- midway the dispatcher is the closer -/
example : (reach a2 (life2.take 18)).astatus .D2 = .inSoup ∧ (reach a2 (life2.take 18)).aprog .D2 = .handlerClose 3 ∧
    (reach a2 (life2.take 18)).inner.closed = true ∧ (reach a2 (life2.take 18)).inner.status (.U d2u) = .waitT .D := by decide

end NasdaqModel.Props.C05App
