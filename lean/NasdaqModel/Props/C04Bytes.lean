import NasdaqModel.Lemmas.RefineProgress
import NasdaqModel.Lemmas.RefineGate
import NasdaqModel.Lemmas.RefineWf
import NasdaqModel.Props.C04
/-
C04 at byte level — refinement: the byte-level reader (Model/Framing.lean, the C03 machine on BYTES) implements the token-level
reader of the session machine (Model/Session.lean, whose `Ev.data fs` delivers complete frames as tokens), so that
`Props/C04.lean` speaks about the bytes received.

Vocabulary (Model/Refine.lean): `tokens P buf` = the frames the reader loop cuts off `buf` (one `deserialize()` per round, as
`Framing.stepObs`), classified `msg m | hb | logout | bad`, up to the first `logout` / `bad`, + the bytes left + "stopped";
`carried P buf` = its `msg`s = the decodable application messages carried by `buf`; `stable P st buf` = the protocol's stability
test `st` holds at every cut point of `buf` (SoupBinTCP: always; FIX: always since the repair 658ee1f — before it, iff the computed
frame length was never negative: `Witness/C04Bytes.lean`);
`brun P num cfg evs` = ONE byte-level history `evs` (`bytes seg` = `data_received(seg)`, every other session event as it is)
driving BOTH existing machines: the C03 reader gets `data seg` / `tick` (a `run R` that finds the reader task at the top of its
loop), the session machine gets `Ev.data (newFrames … seg)` (the frames `seg` completes) / the event itself.  `num : μ → Nat`
names messages for the session machine (any function; an injective one loses nothing).

Proofs: Lemmas/Refine.lean (tokenisation, segmentation independence), RefineInstances.lean (SoupBinTCP, FIX), RefineWf.lean
(well-formed streams, C03's hypotheses), RefineSess.lean (who writes the reader's data), RefineSim.lean (simulation),
RefineRun.lean (invariant along every history), RefineReader.lean / RefineGate.lean (a stopped reader is never polled again).  Only property theorems and non-vacuity examples live here.
-/
namespace NasdaqModel.Props.C04Bytes
open NasdaqModel Py Refine
open NasdaqModel.Framing (Proto R Consuming FrameSpec stream expected soupProto fixProtoD)
open NasdaqModel.Sess (St Cfg Frame Tid msgsOf delivered atLoop)

variable {μ : Type}

/-! ## 1–2. Tokenisation is independent of segmentation -/

/-- **`tokens` is the reader loop of C03 run to quiescence** (so `tokens` is not a second definition of framing): `len(buffer)`
    polls of a running byte-level reader with no data in between hand on exactly the messages of `tokens buffer`, leave its
    remainder in the buffer, and the reader is stopped iff the tokenisation ends in a logout / malformed frame. -/
theorem C04_bytes_tokens_is_reader_loop (P : Proto μ) (hC : Consuming P) (r : R μ) (hst : r.stopped = false) (n : Nat)
    (hn : r.buf.length ≤ n) :
    (Framing.ticks P n r).out = r.out ++ (tokens P r.buf).msgs ∧ (Framing.ticks P n r).buf = (tokens P r.buf).rest ∧
    (Framing.ticks P n r).stopped = (tokens P r.buf).fin :=
  ticks_tokens P hC n r hst hn

/-- **Segmentation independence of tokens.**  For a protocol whose `deserialize()` is a `Framer` relative to a stability test `st`:
    if the stream `a ++ b` is stable, tokenising it is tokenising `a` and continuing on what `a` left over once `b` has
    arrived; and the prefix `a` is stable too. -/
theorem C04_bytes_tokens_append {P : Proto μ} {st : Bytes → Bool} (F : Framer P st) (a b : Bytes)
    (h : stable P st (a ++ b) = true) :
    tokens P (a ++ b) = (tokens P a).extend P b ∧ stable P st a = true :=
  ⟨tokens_append F a b h, stable_prefix F a b h⟩

/-- … hence the tokens of what has arrived are a prefix of the tokens of what will have arrived -/
theorem C04_bytes_tokens_prefix {P : Proto μ} {st : Bytes → Bool} (F : Framer P st) (a b : Bytes)
    (h : stable P st (a ++ b) = true) : (tokens P a).toks <+: (tokens P (a ++ b)).toks :=
  tokens_toks_prefix F a b h

/-- **SoupBinTCP: for EVERY byte string** (framing is by the 2-byte length prefix only: whatever could be cut off, and whatever
    `from_bytes` raised on the delimited packet, is the same whatever arrives later). -/
theorem C04_bytes_soup_tokens_append (a b : Bytes) :
    tokens soupProto (a ++ b) = (tokens soupProto a).extend soupProto b :=
  tokens_append soupFramer a b (soup_stable _)

/-- **FIX (reader with the dictionary dispatch, any dictionary, any field-level decoder): for EVERY byte string** — since the
    repair 658ee1f (`if body_length < 0: raise ValueError`).  `bytes.find` results, the BodyLength text and the computed length
    `n` never change when bytes are appended; the frame is `buf[:n]`, and `n ≥ 8` wherever a frame is cut.  (Before the repair
    `n < 0` counted from the END of whatever had arrived: `Witness/C04Bytes.lean`.) -/
theorem C04_bytes_fix_tokens_append (known : Bytes → Bool) (decode : Bytes → Except Err Unit) (a b : Bytes) :
    tokens (fixProtoD known decode) (a ++ b) = (tokens (fixProtoD known decode) a).extend (fixProtoD known decode) b :=
  tokens_append (fixFramer known decode) a b (fix_stable _ _)

/-- the FIX facts behind it, for every buffer: a frame that could be cut off, or an exception that was raised, is not changed
    by later bytes; and a cut frame is never empty (whatever the dictionary) -/
theorem C04_bytes_fix_deser_stable (known : Bytes → Bool) (decode : Bytes → Except Err Unit) (buf more : Bytes) :
    (∀ f r, Framing.fixDeserD known decode buf = .ok (some (f, r)) →
        Framing.fixDeserD known decode (buf ++ more) = .ok (some (f, r ++ more)) ∧ f ≠ [] ∧ r.length < buf.length) ∧
    (∀ e, Framing.fixDeserD known decode buf = .error e → Framing.fixDeserD known decode (buf ++ more) = .error e) :=
  ⟨fun _ _ h => ⟨fixDeserD_mono more h, fixDeser_consumes (fixDeserD_inv h).1⟩, fun _ h => fixDeserD_err_mono more h⟩

/-- **Well-formed streams (exactly C03's hypotheses, `FrameSpec`: a complete well-formed frame followed by anything is cut off
    exactly, a proper prefix asks for more bytes, frames are non-empty — `soupSpec` for `wfPkt`, `fixSpec` / `fixSpecD` for
    `wfFixFrame`)**: however a prefix of the stream is cut in two, no stability test is needed. -/
theorem C04_bytes_tokens_append_wf {P : Proto μ} {enc : μ → Bytes} {wf : μ → Prop} (S : FrameSpec P enc wf)
    (hC : Consuming P) (ms : List μ) (hwf : ∀ m ∈ ms, wf m) (a b : Bytes) (h : a ++ b <+: stream enc ms) :
    tokens P (a ++ b) = (tokens P a).extend P b :=
  tokens_append_wf S hC ms hwf a b h

/-- the decodable messages carried by a well-formed stream are C03's `expected` messages -/
theorem C04_bytes_carried_wf {P : Proto μ} {enc : μ → Bytes} {wf : μ → Prop} (S : FrameSpec P enc wf) (hC : Consuming P)
    (ms : List μ) (hwf : ∀ m ∈ ms, wf m) : carried P (stream enc ms) = expected P ms :=
  carried_stream S hC ms hwf

/-- FIX, well-formed frames the dictionary accepts (`FixWf.wfD`: C03's `wfFixFrame` + known type + decodable): the messages
    carried by their concatenation are C03's `expected` -/
theorem C04_bytes_fix_carried_wf (known : Bytes → Bool) (decode : Bytes → Except Err Unit) (fs : List Bytes)
    (hwf : ∀ f ∈ fs, FixWf.wfD known decode f) :
    carried (fixProtoD known decode) (stream (fun f => f) fs) = expected (fixProtoD known decode) fs :=
  carried_stream (FixWf.fixSpecD known decode) (fixProtoD_consuming' known decode) fs hwf

/-- SoupBinTCP, well-formed packets (`wfPkt`, C12/C03): the messages carried by their byte stream (the documented layouts) are the
    non-heartbeats before the first logout — C03's `expected` -/
theorem C04_bytes_soup_carried_wf (ms : List Soup.Pkt) (hwf : ∀ p ∈ ms, Props.C12.wfPkt p = true) :
    carried soupProto (stream Spec.SoupLayout.layout ms) = expected soupProto ms :=
  carried_stream Framing.soupSpec Framing.soupProto_consuming ms hwf

/-! ## 3. Simulation: byte-level reader vs. token-level reader -/

/-- **Data.**  `on_data(seg)` is matched by the delivery of the frames `seg` completes: related states stay related. -/
theorem C04_bytes_sim_data {P : Proto μ} {st : Bytes → Bool} (F : Framer P st) (num : μ → Nat) (cfg : Cfg) (r : R μ) (s : St)
    (h : Rel P num r s) (seg : Bytes) (hs : r.stopped = false → stable P st (r.buf ++ seg) = true) :
    Rel P num (Framing.step P r (.data seg)) (Sess.step cfg s (.data (newFrames P num r seg))) :=
  h.data F num cfg seg hs

/-- the frames a segment completes: what the tokenisation of the buffer gains = what an incremental tokeniser cuts -/
theorem C04_bytes_newFrames {P : Proto μ} {st : Bytes → Bool} (F : Framer P st) (num : μ → Nat) (r : R μ) (seg : Bytes)
    (hst : r.stopped = false) (hs : stable P st (r.buf ++ seg) = true) :
    (tokens P r.buf).frames num ++ newFrames P num r seg = (tokens P (r.buf ++ seg)).frames num ∧
    newFrames P num r seg =
      (if (tokens P r.buf).fin then [] else (tokens P ((tokens P r.buf).rest ++ seg)).frames num) :=
  ⟨newFrames_spec F num r seg hst hs, newFrames_incremental F num r seg hst hs⟩

/-- **Poll.**  One poll of the reader task at the top of its loop (`run R`) is one `tick` of the byte-level reader — one
    `deserialize()`, one frame on both sides: related states stay related. -/
theorem C04_bytes_sim_poll {P : Proto μ} (hC : Consuming P) (num : μ → Nat) (cfg : Cfg) (r : R μ) (s : St)
    (h : Rel P num r s) (hl : atLoop s) (hs : s.rStopped = false) :
    Rel P num (Framing.step P r .tick) (Sess.step cfg s (.run .R)) :=
  h.tick hC num cfg hl hs

/-- **Everything else.**  No other event of the session machine — and no `run R` that does not find the reader task at the
    top of its loop, or finds `_stopped` set — touches what the relation reads. -/
theorem C04_bytes_sim_other {P : Proto μ} (num : μ → Nat) (cfg : Cfg) (r : R μ) (s : St) (h : Rel P num r s) (ev : Sess.Ev)
    (hd : ∀ fs, ev ≠ .data fs) (hr : ev = .run .R → (¬ atLoop s ∨ s.rStopped = true)) :
    Rel P num r (Sess.step cfg s ev) := by
  by_cases hx : ev = .run .R ∧ atLoop s
  · obtain ⟨rfl, hl⟩ := hx
    rcases hr rfl with h0 | h0
    · exact absurd hl h0
    · exact h.poll_stopped num cfg hl h0
  · exact h.other num cfg ev hd (fun he hl => hx ⟨he, hl⟩)

/-- **One history, both machines.**  The two components of a byte-level run ARE the two existing machines, run on the two
    projections of the history; the reader machine is given exactly the bytes of the history. -/
theorem C04_bytes_components (P : Proto μ) (num : μ → Nat) (cfg : Cfg) (evs : List BEv) :
    (brun P num cfg evs).s = Sess.runEvs cfg {} (traces P num cfg {} evs).1 ∧
    (brun P num cfg evs).r = Framing.run P (traces P num cfg {} evs).2 ∧
    Framing.received (traces P num cfg {} evs).2 = bytesOf evs ∧
    (brun P num cfg evs).all = bytesOf evs :=
  ⟨brun_s P num cfg evs, brun_r P num cfg evs, traces_received P num cfg evs {}, brun_all P num cfg evs⟩

/-- **The tick gate is the real one.**  `brun` gives the byte-level reader a `tick` exactly when the reader task runs its loop
    body (`polls`: ready at the top of `_process`, `_stopped` false — when the real reader calls `deserialize()`); the C03 machine
    additionally ignores ticks once its own `stopped` is set (on entering `stop()`, earlier than `_stopped`).  The two never
    disagree: in every reachable state a byte-level reader that has stopped is not polled — its task is inside `close()` until
    `_stopped` is set, or has ended. -/
theorem C04_bytes_stopped_never_polls {P : Proto μ} {st : Bytes → Bool} (F : Framer P st) (num : μ → Nat) (cfg : Cfg)
    (evs : List BEv) (hs : stable P st (bytesOf evs) = true) (h : (brun P num cfg evs).r.stopped = true) :
    polls (brun P num cfg evs).s = false :=
  stopped_never_polls F num cfg evs hs h

/-- **The refinement, along every history.**  For every byte stream (stable), segmentation and schedule, every configuration:
    the two machines are related at the end (token buffer = tokenisation of the byte buffer; byte-level reader stopped ⇒ session
    flagged closed; same messages handed on), the frames the session machine counts as received are the tokens of ALL the bytes
    received, and the messages the byte-level reader handed on are a prefix of the messages those bytes carry. -/
theorem C04_bytes_related {P : Proto μ} {st : Bytes → Bool} (F : Framer P st) (num : μ → Nat) (cfg : Cfg) (evs : List BEv)
    (hs : stable P st (bytesOf evs) = true) :
    Rel P num (brun P num cfg evs).r (brun P num cfg evs).s ∧
    (brun P num cfg evs).s.wire = (tokens P (bytesOf evs)).frames num ∧
    msgsOf (brun P num cfg evs).s.wire = (carried P (bytesOf evs)).map num ∧
    (brun P num cfg evs).r.out <+: carried P (bytesOf evs) := by
  have h := brun_pinv F num cfg evs hs
  have ha := brun_all P num cfg evs
  refine ⟨h.rel, ?_, ?_, ?_⟩
  · rw [h.wire, ha]
  · rw [h.msgs_wire, ha]
  · rw [← ha]; exact h.out_prefix

/-! ## 4. C04 over bytes -/

/-- **Order, no duplicates, no inventions — over the bytes.**  For every byte stream (stable), segmentation, schedule and
    configuration: what the consumer was handed is a subsequence of the decodable application messages carried by all the bytes
    received (`C04_sublist` restated over bytes). -/
theorem C04_bytes_sublist {P : Proto μ} {st : Bytes → Bool} (F : Framer P st) (num : μ → Nat) (cfg : Cfg) (evs : List BEv)
    (hs : stable P st (bytesOf evs) = true) :
    List.Sublist (delivered (brun P num cfg evs).s.trace) ((carried P (bytesOf evs)).map num) := by
  have h := (C04_bytes_related F num cfg evs hs).2.2.1
  rw [← h, brun_s]
  exact Props.C04.C04_sublist cfg _

/-- **Prefix — over the bytes** (every history: late cancels of receives no longer lose a message, `Props.C04.C04_prefix`): what
    the consumer was handed is a prefix of the decodable application messages carried by all the bytes received. -/
theorem C04_bytes_prefix {P : Proto μ} {st : Bytes → Bool} (F : Framer P st) (num : μ → Nat) (cfg : Cfg)
    (evs : List BEv) (hs : stable P st (bytesOf evs) = true) :
    delivered (brun P num cfg evs).s.trace <+: (carried P (bytesOf evs)).map num := by
  have h := (C04_bytes_related F num cfg evs hs).2.2.1
  rw [← h]
  rw [brun_s]
  exact Props.C04.C04_prefix cfg _

/-- the same two statements about the MESSAGES (not their numbers): the delivered numbers name a subsequence / a prefix `ds` of
    the carried messages (for an injective `num` it is the only list they name) -/
theorem C04_bytes_sublist_msgs {P : Proto μ} {st : Bytes → Bool} (F : Framer P st) (num : μ → Nat) (cfg : Cfg)
    (evs : List BEv) (hs : stable P st (bytesOf evs) = true) :
    ∃ ds : List μ, List.Sublist ds (carried P (bytesOf evs)) ∧ delivered (brun P num cfg evs).s.trace = ds.map num :=
  List.sublist_map_iff.1 (C04_bytes_sublist F num cfg evs hs)

theorem C04_bytes_prefix_msgs {P : Proto μ} {st : Bytes → Bool} (F : Framer P st) (num : μ → Nat) (cfg : Cfg)
    (evs : List BEv) (hs : stable P st (bytesOf evs) = true) :
    ∃ ds : List μ, ds <+: carried P (bytesOf evs) ∧ delivered (brun P num cfg evs).s.trace = ds.map num := by
  have h := C04_bytes_prefix F num cfg evs hs
  refine ⟨(carried P (bytesOf evs)).take (delivered (brun P num cfg evs).s.trace).length, List.take_prefix _ _, ?_⟩
  rw [List.map_take]
  exact List.prefix_iff_eq_take.1 h

/-- with an injective numbering the delivered numbers name exactly one list of messages, and that list is a subsequence of
    the carried messages -/
theorem C04_bytes_sublist_injective {P : Proto μ} {st : Bytes → Bool} (F : Framer P st) (num : μ → Nat)
    (hinj : ∀ x y, num x = num y → x = y) (cfg : Cfg) (evs : List BEv) (hs : stable P st (bytesOf evs) = true) (ds : List μ)
    (hds : delivered (brun P num cfg evs).s.trace = ds.map num) : List.Sublist ds (carried P (bytesOf evs)) := by
  obtain ⟨ds', h1, h2⟩ := C04_bytes_sublist_msgs F num cfg evs hs
  rw [hds] at h2
  rw [(List.map_inj_right hinj).1 h2]; exact h1

/-- **Conservation, over the bytes**: every message the byte-level reader handed on is, in order, gone for good (delivered:
    nothing is dropped, `Props.C04.C04_nothing_lost`), held for the pending receive, or still queued. -/
theorem C04_bytes_flow {P : Proto μ} {st : Bytes → Bool} (F : Framer P st) (num : μ → Nat) (cfg : Cfg) (evs : List BEv)
    (hs : stable P st (bytesOf evs) = true) :
    (brun P num cfg evs).s.gone.map (·.1) ++ (brun P num cfg evs).s.vres.toList ++ (brun P num cfg evs).s.queue
      = (brun P num cfg evs).r.out.map num := by
  have h := brun_pinv F num cfg evs hs
  rw [h.g.flow, h.rel.out]

/-- **SoupBinTCP: every byte stream**, no hypothesis on the bytes at all -/
theorem C04_bytes_soup_sublist (num : Soup.Pkt → Nat) (cfg : Cfg) (evs : List BEv) :
    List.Sublist (delivered (brun soupProto num cfg evs).s.trace) ((carried soupProto (bytesOf evs)).map num) :=
  C04_bytes_sublist soupFramer num cfg evs (soup_stable _)

theorem C04_bytes_soup_prefix (num : Soup.Pkt → Nat) (cfg : Cfg) (evs : List BEv) :
    delivered (brun soupProto num cfg evs).s.trace <+: (carried soupProto (bytesOf evs)).map num :=
  C04_bytes_prefix soupFramer num cfg evs (soup_stable _)

/-- **FIX: every byte stream too** (since the repair 658ee1f), any dictionary, any field-level decoder -/
theorem C04_bytes_fix_sublist (known : Bytes → Bool) (decode : Bytes → Except Err Unit) (num : Bytes → Nat) (cfg : Cfg)
    (evs : List BEv) :
    List.Sublist (delivered (brun (fixProtoD known decode) num cfg evs).s.trace)
      ((carried (fixProtoD known decode) (bytesOf evs)).map num) :=
  C04_bytes_sublist (fixFramer known decode) num cfg evs (fix_stable _ _)

theorem C04_bytes_fix_prefix (known : Bytes → Bool) (decode : Bytes → Except Err Unit) (num : Bytes → Nat) (cfg : Cfg)
    (evs : List BEv) :
    delivered (brun (fixProtoD known decode) num cfg evs).s.trace <+:
      (carried (fixProtoD known decode) (bytesOf evs)).map num :=
  C04_bytes_prefix (fixFramer known decode) num cfg evs (fix_stable _ _)

/-- the FIX refinement itself, unconditionally: related machines, wire = tokens of all bytes, reader output ≤ carried -/
theorem C04_bytes_fix_related (known : Bytes → Bool) (decode : Bytes → Except Err Unit) (num : Bytes → Nat) (cfg : Cfg)
    (evs : List BEv) :
    Rel (fixProtoD known decode) num (brun (fixProtoD known decode) num cfg evs).r (brun (fixProtoD known decode) num cfg evs).s ∧
    (brun (fixProtoD known decode) num cfg evs).s.wire = (tokens (fixProtoD known decode) (bytesOf evs)).frames num ∧
    msgsOf (brun (fixProtoD known decode) num cfg evs).s.wire = (carried (fixProtoD known decode) (bytesOf evs)).map num ∧
    (brun (fixProtoD known decode) num cfg evs).r.out <+: carried (fixProtoD known decode) (bytesOf evs) :=
  C04_bytes_related (fixFramer known decode) num cfg evs (fix_stable _ _)

theorem C04_bytes_soup_related (num : Soup.Pkt → Nat) (cfg : Cfg) (evs : List BEv) :
    Rel soupProto num (brun soupProto num cfg evs).r (brun soupProto num cfg evs).s ∧
    (brun soupProto num cfg evs).s.wire = (tokens soupProto (bytesOf evs)).frames num ∧
    msgsOf (brun soupProto num cfg evs).s.wire = (carried soupProto (bytesOf evs)).map num ∧
    (brun soupProto num cfg evs).r.out <+: carried soupProto (bytesOf evs) :=
  C04_bytes_related soupFramer num cfg evs (soup_stable _)

/-! ## 5. Non-vacuity: concrete byte strings, tokens, histories and related states -/

-- SoupBinTCP: server heartbeat, sequenced data `01 02 03`, end of session, one more data packet (never looked at)
private def exBytes : Bytes := [0, 1, 72, 0, 4, 83, 1, 2, 3, 0, 1, 90, 0, 2, 83, 9]
example : tokens soupProto exBytes = ⟨[.hb, .msg (.seqData [1, 2, 3]), .logout], [0, 2, 83, 9], true⟩ := by decide
example : carried soupProto exBytes = [.seqData [1, 2, 3]] := by decide
-- cut inside the 2-byte length prefix of the data packet: the heartbeat is a token, the half prefix waits; continued on arrival
example : tokens soupProto [0, 1, 72, 0] = ⟨[.hb], [0], false⟩ := by decide
set_option maxRecDepth 4000 in
example : (tokens soupProto [0, 1, 72, 0]).extend soupProto [4, 83, 1, 2, 3] = ⟨[.hb, .msg (.seqData [1, 2, 3])], [], false⟩ := by
  decide
-- a zero-length packet is malformed: token `bad`, the buffer stays as it is, the reader stops
example : tokens soupProto [0, 1, 72, 0, 0, 0, 1, 72] = ⟨[.hb, .bad], [0, 0, 0, 1, 72], true⟩ := by decide

private def numS : Soup.Pkt → Nat
  | .seqData d => 100 + d.length
  | .unseqData d => 200 + d.length
  | _ => 0
private def cfg0 : Cfg :=
  { msgBeh := fun _ => .ret, cbBeh := .ret, hasCb := true, dispatchOnConnect := false, hasMsgCb := false, fixLogin := false }
/-- one byte, poll, the rest of the heartbeat and half a length prefix, two polls, everything else, poll, a receive, poll -/
private def exEvs : List BEv :=
  [.ev .connect, .bytes [0], .ev (.run .R), .bytes [1, 72, 0], .ev (.run .R), .ev (.run .R),
   .bytes [4, 83, 1, 2, 3, 0, 1, 90, 0, 2, 83, 9], .ev (.run .R), .ev (.callRecvNowait 0), .ev (.run .R)]
example : bytesOf exEvs = exBytes := by decide
-- the token-level history the session machine is given, and the C03 history the reader machine is given
example : (traces soupProto numS cfg0 {} exEvs).1 =
    [.connect, .data [], .run .R, .data [.hb], .run .R, .run .R, .data [.msg 103, .logout], .run .R, .callRecvNowait 0, .run .R] := by
  decide
example : (traces soupProto numS cfg0 {} exEvs).2 =
    [.data [0], .tick, .data [1, 72, 0], .tick, .tick, .data [4, 83, 1, 2, 3, 0, 1, 90, 0, 2, 83, 9], .tick, .tick] := by decide
-- the related final states: reader stopped behind the logout with the unread packet still buffered, session closed, message delivered
example : (brun soupProto numS cfg0 exEvs).r.buf = [0, 2, 83, 9] ∧ (brun soupProto numS cfg0 exEvs).r.stopped = true ∧
    (brun soupProto numS cfg0 exEvs).r.out = [.seqData [1, 2, 3]] := by decide
example : (brun soupProto numS cfg0 exEvs).s.wire = [.hb, .msg 103, .logout] ∧ (brun soupProto numS cfg0 exEvs).s.buf = [] ∧
    (brun soupProto numS cfg0 exEvs).s.closed = true ∧ delivered (brun soupProto numS cfg0 exEvs).s.trace = [103] := by decide

-- FIX: `8=FIX.4.4|9=5|35=0|10=163|` (heartbeat), `8=FIX.4.4|9=13|35=D|58=35=5|10=107|` (order), `8=FIX.4.4|9=5|35=5|10=168|` (logout)
private def exHb : Bytes := [56,61,70,73,88,46,52,46,52,1, 57,61,53,1, 51,53,61,48,1, 49,48,61,49,54,51,1]
private def exOrd : Bytes := [56,61,70,73,88,46,52,46,52,1, 57,61,49,51,1, 51,53,61,68,1, 53,56,61,51,53,61,53,1, 49,48,61,49,48,55,1]
private def exOut : Bytes := [56,61,70,73,88,46,52,46,52,1, 57,61,53,1, 51,53,61,53,1, 49,48,61,49,54,56,1]
private def exKnown : Bytes → Bool := fun ty => ty == [48] || ty == [53] || ty == [68]
private def exDec : Bytes → Except Err Unit := fun _ => .ok ()
private def exPD : Proto Bytes := fixProtoD exKnown exDec
/-- an injective numbering of byte strings with bytes below 256 -/
private def numF : Bytes → Nat := fun f => f.foldl (fun a b => a * 256 + b) 1
example : FixWf.wfD exKnown exDec exHb ∧ FixWf.wfD exKnown exDec exOrd ∧ FixWf.wfD exKnown exDec exOut := by
  refine ⟨⟨?_, ?_, ?_⟩, ⟨?_, ?_, ?_⟩, ⟨?_, ?_, ?_⟩⟩ <;> decide
set_option maxRecDepth 8000 in
example : tokens exPD (exHb ++ exOrd ++ exOut ++ exOrd) = ⟨[.hb, .msg exOrd, .logout], exOrd, true⟩ := by decide
-- cut between `9=13` and its SOH: the heartbeat is a token, the partial order waits; continued on arrival
set_option maxRecDepth 8000 in
example : tokens exPD (exHb ++ exOrd.take 14) = ⟨[.hb], exOrd.take 14, false⟩ := by decide
set_option maxRecDepth 8000 in
example : (tokens exPD (exHb ++ exOrd.take 14)).extend exPD (exOrd.drop 14) = ⟨[.hb, .msg exOrd], [], false⟩ := by decide
private def exEvsF : List BEv :=
  [.ev .connect, .bytes (exHb ++ exOrd.take 14), .ev (.run .R), .ev (.run .R), .bytes (exOrd.drop 14 ++ exOut), .ev (.run .R),
   .ev (.callRecvNowait 0), .ev (.run .R)]
set_option maxRecDepth 8000 in
example : (traces exPD numF cfg0 {} exEvsF).1 =
    [.connect, .data [.hb], .run .R, .run .R, .data [.msg (numF exOrd), .logout], .run .R, .callRecvNowait 0, .run .R] := by decide
set_option maxRecDepth 8000 in
example : (brun exPD numF cfg0 exEvsF).s.closed = true ∧ delivered (brun exPD numF cfg0 exEvsF).s.trace = [numF exOrd] ∧
    (brun exPD numF cfg0 exEvsF).r.out = [exOrd] ∧ (brun exPD numF cfg0 exEvsF).r.stopped = true := by decide
-- hostile: a negative BodyLength (`8=FIX.4.4|9=-25|35=0|`) is a malformed frame whatever follows and whenever it is polled
example : tokens exPD [56, 61, 70, 73, 88, 46, 52, 46, 52, 1, 57, 61, 45, 50, 53, 1, 51, 53, 61, 48, 1] =
    ⟨[.bad], [56, 61, 70, 73, 88, 46, 52, 46, 52, 1, 57, 61, 45, 50, 53, 1, 51, 53, 61, 48, 1], true⟩ := by decide

end NasdaqModel.Props.C04Bytes
