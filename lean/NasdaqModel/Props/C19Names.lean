import NasdaqModel.Props.C19
/-
C19, names and modules (seeded change C19i, and C19a / C19e before it: "reload support" in the duplicate check).

A class object has a name, a qualified name, a module, and the module may or may not still bind that name to an earlier
class.  The registration code looks at none of these: what a class statement does to the id registry — raise or not, and
which class every id resolves to afterwards — is a function of (application namespace, id, class identity) alone.

  * `C19_site_irrelevant`            the registry after any program written at any sites = the registry of the bare statements
  * `C19_define_depends_on_app_id_class_only`
                                     two statements that reach `CommonMessage.__init_subclass__` with the same (application, id)
                                     and the same class identity have the same outcome on the id registry, whatever they are called
  * `C19_rename_invariant`           renaming the classes of a whole program in any way changes no outcome, no id lookup, no decode
  * `C19_redefinition_rejected`      a second, different class for a taken id raises DuplicateMessageException and changes
                                     neither the registries nor the module bindings — in particular when it has the name, the module
                                     and the definition form of the registered class and the module attribute is still bound to it
                                     (`looksLikeReload`), the situation the seeded change accepts
  * `C19_first_class_survives_redefinitions`
                                     … and decoding keeps returning the first class after any number of such statements
-/
namespace NasdaqModel.Props.C19Names
open NasdaqModel Registry NasdaqModel.Props.C19

/-! ### the site is never read -/

theorem stepAt_reg (w : World) (sd : SDecl) : (stepAt w sd).reg = step w.reg sd.decl := by
  unfold stepAt step
  cases defineMsg w.reg sd.decl <;> rfl

/-- **The site is irrelevant.** Module, definition form, binding of the module attribute: the registry after a program is
    the registry of its bare class statements. -/
theorem C19_site_irrelevant (sds : List SDecl) : ∀ (w : World), (runAt w sds).reg = run w.reg (sds.map (·.decl)) := by
  induction sds with
  | nil => intro w; rfl
  | cons sd rest ih =>
    intro w
    show (runAt (stepAt w sd) rest).reg = run (step w.reg sd.decl) (rest.map (·.decl))
    rw [ih, stepAt_reg]

/-- same statements at other sites: same registry -/
theorem C19_same_statements_same_registry (sds sds' : List SDecl) (h : sds.map (·.decl) = sds'.map (·.decl)) (w w' : World)
    (hw : w.reg = w'.reg) : (runAt w sds).reg = (runAt w' sds').reg := by
  rw [C19_site_irrelevant, C19_site_irrelevant, h, hw]

/-! ### the name is never read by the id registry -/

private theorem lookupId_ids {r r' : Reg} (h : r.ids = r'.ids) (a : Nat) (k : Key) : lookupId r a k = lookupId r' a k := by
  unfold lookupId; rw [h]

/-- the id half of the outcome of a class statement: exception, or the id registry afterwards -/
def idOutcome (x : Except Err Reg) : Except Err (List Entry) :=
  match x with
  | .ok r => .ok r.ids
  | .error e => .error e

private theorem register_ids {r r' : Reg} (h : r.ids = r'.ids) (a : Nat) (k : Key) (n n' c : Nat) :
    idOutcome (register r a k n c) = idOutcome (register r' a k n' c) := by
  unfold register
  rw [lookupId_ids h a k]
  cases lookupId r' a k with
  | none => simp [idOutcome, h]
  | some c0 =>
    by_cases hc : (c0 != c) = true
    · simp [hc, idOutcome]
    · simp [hc, idOutcome, h]

/-- **(application, id, class identity) only.** Two class statements whose keywords resolve to the same namespace and id
    (`resolve`) and that create the same class object act identically on the id registry — on registries with the same ids,
    whatever the names registered so far and whatever the two classes are called. -/
theorem C19_define_depends_on_app_id_class_only {r r' : Reg} (hr : r.ids = r'.ids) (d d' : Decl)
    (hres : resolve d = resolve d') (hcid : d.cid = d'.cid) :
    idOutcome (defineMsg r d) = idOutcome (defineMsg r' d') := by
  unfold defineMsg
  rw [hres]
  cases resolve d' with
  | error e => rfl
  | ok t =>
    cases t with
    | none => simp [idOutcome, hr]
    | some ak =>
      obtain ⟨a, k⟩ := ak
      show idOutcome (register r a k d.name d.cid) = idOutcome (register r' a k d'.name d'.cid)
      rw [hcid]
      exact register_ids hr a k _ _ _

/-- a renaming of classes -/
def rename (ren : Decl → Nat) (d : Decl) : Decl := { d with name := ren d }

@[simp] theorem rename_cid (ren : Decl → Nat) (d : Decl) : (rename ren d).cid = d.cid := rfl
@[simp] theorem rename_resolve (ren : Decl → Nat) (d : Decl) : resolve (rename ren d) = resolve d := rfl

private theorem idOutcome_cases {x y : Except Err Reg} (h : idOutcome x = idOutcome y) :
    (∃ e, x = .error e ∧ y = .error e) ∨ (∃ a b, x = .ok a ∧ y = .ok b ∧ a.ids = b.ids) := by
  cases x <;> cases y <;> simp_all [idOutcome]

/-- **Renaming changes nothing.** Give every class of a program any other name (equal names for different classes
    included): every statement raises or succeeds as before, and every id resolves as before. -/
theorem C19_rename_invariant (ren : Decl → Nat) (ds : List Decl) : ∀ (r r' : Reg), r.ids = r'.ids →
    outcomes r (ds.map (rename ren)) = outcomes r' ds ∧ (run r (ds.map (rename ren))).ids = (run r' ds).ids := by
  induction ds with
  | nil => intro r r' h; exact ⟨rfl, h⟩
  | cons d rest ih =>
    intro r r' h
    have hd := C19_define_depends_on_app_id_class_only h (rename ren d) d (rename_resolve ren d) (rename_cid ren d)
    rcases idOutcome_cases hd with ⟨e, h1, h2⟩ | ⟨a, b, h1, h2, hab⟩
    · obtain ⟨i1, i2⟩ := ih r r' h
      constructor
      · simp only [List.map_cons, outcomes, h1, h2, i1]
      · show (run (step r (rename ren d)) (rest.map (rename ren))).ids = (run (step r' d) rest).ids
        simp only [step, h1, h2]; exact i2
    · obtain ⟨i1, i2⟩ := ih a b hab
      constructor
      · simp only [List.map_cons, outcomes, h1, h2, i1]
      · show (run (step r (rename ren d)) (rest.map (rename ren))).ids = (run (step r' d) rest).ids
        simp only [step, h1, h2]; exact i2

/-- … in particular every decode through every base class -/
theorem C19_rename_decode (ren : Decl → Nat) (ds : List Decl) (b : Base) (byte : Nat) :
    decode (run Reg.empty (ds.map (rename ren))) b byte = decode (run Reg.empty ds) b byte := by
  unfold decode
  rw [lookupId_ids (C19_rename_invariant ren ds Reg.empty Reg.empty rfl).2]

/-! ### a second class that looks like a re-definition of the first -/

/-- **Re-definition rejected.** After any program, written at any sites: a statement for an (application, id) that
    resolves to a *different* class raises DuplicateMessageException and leaves registries and module bindings alone — no
    hypothesis on names, modules, forms or bindings, so also when `looksLikeReload` holds. -/
theorem C19_redefinition_rejected (sds : List SDecl) (sd : SDecl) (a : Nat) (k : Key) (c : Nat)
    (ht : target sd.decl = some (a, k))
    (hl : lookupId (runAt World.empty sds).reg a k = some c) (hc : c ≠ sd.decl.cid) :
    defineMsg (runAt World.empty sds).reg sd.decl = .error .dup ∧
    stepAt (runAt World.empty sds) sd = runAt World.empty sds := by
  have hreg : (runAt World.empty sds).reg = run Reg.empty (sds.map (·.decl)) := C19_site_irrelevant sds World.empty
  have hdup : defineMsg (runAt World.empty sds).reg sd.decl = .error .dup := by
    rw [hreg] at hl ⊢
    exact (C19_unique (sds.map (·.decl))).2 sd.decl a k c ht hl hc
  exact ⟨hdup, by unfold stepAt; rw [hdup]⟩

/-- **The first class survives.** `d0` is the first statement of the program for (application of base `b`, id `byte`);
    whatever follows — any number of statements for the same id with the same name in the same module — decoding returns
    `d0`'s class, and the module attribute `d0` bound is never re-bound by a statement for that id. -/
theorem C19_first_class_survives_redefinitions (pre post : List SDecl) (sd0 : SDecl) (b : Base) (byte : Nat)
    (h0 : target sd0.decl = some (b.app, decodeKey b.proto byte))
    (hpre : ∀ sd ∈ pre, target sd.decl ≠ some (b.app, decodeKey b.proto byte)) :
    decode (runAt World.empty (pre ++ sd0 :: post)).reg b byte = .ok sd0.decl.cid := by
  rw [C19_site_irrelevant]
  simp only [List.map_append, List.map_cons]
  apply C19_decodes_first _ _ _ _ _ h0
  intro d hd
  obtain ⟨sd, hsd, rfl⟩ := List.mem_map.mp hd
  exact hpre sd hsd

/-! ### non-vacuity: the history of the seeded change's demonstration

`class Quote(App, indicator=81)` twice at top level of one module, different bodies (different class objects 1 and 2);
then the same with a factory, and in another module. -/

private def app : Base := { proto := .itch, app := 3, style := .generated }
private def top (m : Nat) : Site := { modl := m, form := .topLevel, bind := true, unbind := false }
private def quote (cid : Nat) : Decl := { cid := cid, name := 7, base := app, ind := some 81, dir := none, appKw := none }
private def prog : List SDecl :=
  [ { decl := quote 1, site := top 0 } ]
private def second : SDecl := { decl := quote 2, site := top 0 }

/-- the seeded change's test would call this a reload … -/
example : looksLikeReload (runAt World.empty prog) 7 (top 0) 1 second = true := by decide
/-- … the code raises, the module still binds the first class, the id still resolves to it -/
example : defineMsg (runAt World.empty prog).reg second.decl = .error .dup := by decide
example : bindGet (runAt World.empty (prog ++ [second])).binds 0 7 = some 1 := by decide
example : decode (runAt World.empty (prog ++ [second, { decl := quote 3, site := top 1 },
    { decl := quote 4, site := { modl := 0, form := .factory, bind := true, unbind := false } }])).reg app 81 = .ok 1 := by decide
example : (outcomes Reg.empty ((prog ++ [second]).map (·.decl))) = [none, some .dup] := by decide
/-- the same program with every class renamed apart: same outcomes -/
example : outcomes Reg.empty (((prog ++ [second]).map (·.decl)).map (rename (·.cid))) = [none, some .dup] := by decide

end NasdaqModel.Props.C19Names
