import NasdaqModel.Lemmas.MonitorLateLemmas
/-
C09, late ticks — "the session is never closed for inactivity … whatever else it is doing" includes a handler that blocks the
event loop.  Model/MonitorLate.lean adds to the monitor model: `hold` (one grid unit passes while a callback blocks: no timer
fires), bytes that reach the socket meanwhile (`base (recv k)` while held: they wait), and `resume` (the callback returns: the
waiting bytes are handed to `data_received`, then the timers whose deadline has passed run — late).  A tick may thus be late by
any amount, any number of times.

Reading guide.  `x.s` is the session of Model/Monitor.lean; `x.arrivals` the instants at which bytes from the peer reached the
socket (this is what "the peer delivers a byte" means when the loop may be blocked: the bytes are handed to `data_received` at once
on a running loop, at the end of the hold-up otherwise — before the late timers, as `BaseEventLoop._run_once` does);
`x.remChecks` the instants at which the remote monitor's sleep returned and it looked at `_pinged` (newest first);
`x.tripFrom` the instant of the check before the one that closed the session.
All theorems hold for every event list (`LEv`: any interleaving of hold-ups of any length with sends, failed sends, arrivals,
closes), every pair of intervals, every tolerance; no well-formedness hypothesis is needed.

The lemma everything rests on is `C09Late_next_sleep_starts_at_the_check`: after a check — however late — the monitor sleeps a
*full* interval again (`await asyncio.sleep(self.interval)` inside the loop), so consecutive checks are at least one interval
apart (`C09Late_check_windows_ge_interval`).  A monitor that paces its checks off a fixed schedule (`next_check += interval`)
does not have this property: after a hold-up two checks follow each other at once and a live peer is dropped.
-/
namespace NasdaqModel.Props.C09Late
open NasdaqModel.Monitor NasdaqModel.MonitorLate

/-- histories without hold-ups are exactly the histories of Model/Monitor.lean: all theorems of Props/C08.lean, C09.lean apply -/
theorem C09Late_extends (role : Role) (c : Cfg) (evs : List Ev) :
    ((loginL role c).run (evs.map LEv.base)).s = (login role c).run evs :=
  (run_base_s evs (loginL role c) rfl).1

/-- **the drift.**  When the remote monitor's check has run and the monitor goes on, its next sleep is a full interval from
    *now* — not from the deadline it missed. -/
theorem C09Late_next_sleep_starts_at_the_check (s : Sess) (h : (remCheck s).rem.running = true) :
    (remCheck s).rem.left = s.rem.interval ∧ (remCheck s).now = s.now :=
  ⟨remCheck_left s h, remCheck_now s⟩

/-- **C09Late_check_windows_ge_interval.**  However the event loop is held up, two consecutive checks of the remote monitor are at
    least one interval apart, and the first one is at least one interval after login. -/
theorem C09Late_check_windows_ge_interval (l r tl n : Nat) (evs : List LEv) (pre rest : List Nat) (c : Nat)
    (h : ((startWithL l r tl n).run evs).remChecks = pre ++ c :: rest) : rest.headD 0 + r ≤ c := by
  have hs := (invLate_run l r tl n evs).spaced
  rw [h] at hs
  clear h
  induction pre with
  | nil => exact hs.1
  | cons p pre ih => exact ih hs.2

/-- **C09Late_trip_has_silent_period.**  Whenever the remote monitor has closed the session — after any hold-ups — it did so at
    one of its checks (`closeT`), the previous check (`tripFrom`) was at least one interval earlier, and strictly between the two
    no byte from the peer reached the socket. -/
theorem C09Late_trip_has_silent_period (l r tl n : Nat) (evs : List LEv)
    (hclosed : ((startWithL l r tl n).run evs).s.closed = true) (hmon : ((startWithL l r tl n).run evs).s.closedByMon = true) :
    let x := (startWithL l r tl n).run evs
    x.tripFrom + r ≤ x.s.closeT ∧ x.tripFrom ∈ x.remChecks ∧ x.s.closeT ∈ x.remChecks ∧
      ∀ a ∈ x.arrivals, ¬ (x.tripFrom < a ∧ a < x.s.closeT) :=
  (invLate_run l r tl n evs).trip hclosed hmon

/-- **C09Late_live_never_dropped** (any tolerance, any hold-ups).  If every window `[τ, τ + P)` of the session's life contains an
    instant at which a byte from the peer reached the socket, and no byte arrives at the very instant of a check (on a continuous
    time line: almost surely; in the harness: arrivals on odd, checks on even instants), the remote monitor never closes the
    session. -/
theorem C09Late_live_never_dropped_generic (l r tl n : Nat) (evs : List LEv)
    (hlive : ∀ τ, τ + r ≤ ((startWithL l r tl n).run evs).s.life →
      ∃ a ∈ ((startWithL l r tl n).run evs).arrivals, τ ≤ a ∧ a < τ + r)
    (hnotie : ∀ a ∈ ((startWithL l r tl n).run evs).arrivals, a ∉ ((startWithL l r tl n).run evs).remChecks) :
    ¬ (((startWithL l r tl n).run evs).s.closed = true ∧ ((startWithL l r tl n).run evs).s.closedByMon = true) := by
  rintro ⟨hc, hm⟩
  obtain ⟨h1, h2, _, h4⟩ := C09Late_trip_has_silent_period l r tl n evs hc hm
  obtain ⟨a, ha, hlo, hhi⟩ := hlive ((startWithL l r tl n).run evs).tripFrom (by rw [life_closed _ hc]; exact h1)
  have hne : a ≠ ((startWithL l r tl n).run evs).tripFrom := fun e => hnotie a ha (e ▸ h2)
  exact h4 a ha ⟨by omega, by omega⟩

/-- the same without any assumption about ties: a byte in every window one grid unit shorter than the interval (the grid can be
    as fine as one likes) -/
theorem C09Late_live_never_dropped_strict (l r tl n : Nat) (hr : 1 ≤ r) (evs : List LEv)
    (hlive : ∀ τ, τ + (r - 1) ≤ ((startWithL l r tl n).run evs).s.life →
      ∃ a ∈ ((startWithL l r tl n).run evs).arrivals, τ ≤ a ∧ a < τ + (r - 1)) :
    ¬ (((startWithL l r tl n).run evs).s.closed = true ∧ ((startWithL l r tl n).run evs).s.closedByMon = true) := by
  rintro ⟨hc, hm⟩
  obtain ⟨h1, _, _, h4⟩ := C09Late_trip_has_silent_period l r tl n evs hc hm
  obtain ⟨a, ha, hlo, hhi⟩ := hlive (((startWithL l r tl n).run evs).tripFrom + 1) (by rw [life_closed _ hc]; omega)
  exact h4 a ha ⟨by omega, by omega⟩

private theorem loginL_eq (role : Role) (c : Cfg) :
    loginL role c = startWithL (ownInterval role c) (peerInterval role c) 1 1 := by
  cases role <;> rfl

/-- **C09Late_live_never_dropped** for sessions: `P` is the interval of the peer's role (`C09_role`) -/
theorem C09Late_live_never_dropped (role : Role) (c : Cfg) (evs : List LEv)
    (hlive : ∀ τ, τ + peerInterval role c ≤ ((loginL role c).run evs).s.life →
      ∃ a ∈ ((loginL role c).run evs).arrivals, τ ≤ a ∧ a < τ + peerInterval role c)
    (hnotie : ∀ a ∈ ((loginL role c).run evs).arrivals, a ∉ ((loginL role c).run evs).remChecks) :
    ¬ (((loginL role c).run evs).s.closed = true ∧ ((loginL role c).run evs).s.closedByMon = true) := by
  rw [loginL_eq] at hlive hnotie ⊢
  exact C09Late_live_never_dropped_generic _ _ 1 1 evs hlive hnotie

theorem C09Late_live_never_dropped_strict_session (role : Role) (c : Cfg) (hp : 1 ≤ peerInterval role c) (evs : List LEv)
    (hlive : ∀ τ, τ + (peerInterval role c - 1) ≤ ((loginL role c).run evs).s.life →
      ∃ a ∈ ((loginL role c).run evs).arrivals, τ ≤ a ∧ a < τ + (peerInterval role c - 1)) :
    ¬ (((loginL role c).run evs).s.closed = true ∧ ((loginL role c).run evs).s.closedByMon = true) := by
  rw [loginL_eq] at hlive ⊢
  exact C09Late_live_never_dropped_strict _ _ 1 1 hp evs hlive

/-- the failing input of the seeded change C09f as a history: a client whose peer (interval 8) delivers a byte at 7, 13, 19, 25, 31;
    a handler blocks the loop from 9 to 20 -/
def heldUpLivePeer : List LEv :=
  List.replicate 7 (.base .adv) ++ [.base (.recv .hb)] ++ List.replicate 2 (.base .adv) ++
  List.replicate 4 .hold ++ [.base (.recv .hb)] ++ List.replicate 6 .hold ++ [.base (.recv .hb)] ++ [.hold, .resume] ++
  List.replicate 5 (.base .adv) ++ [.base (.recv .hb)] ++ List.replicate 6 (.base .adv) ++ [.base (.recv .hb)] ++
  List.replicate 4 (.base .adv)

set_option maxRecDepth 100000 in
/-- non-vacuity: in that history the checks ran at 8, at 20 (the deadline 16 was missed by 4) and at 28 — never less than 8
    apart —, the bytes arrived at 7, 13, 19, 25, 31 (a byte in every window of 8, none at a check instant) and the session is
    open at 35.  A monitor on the fixed schedule 8, 16, 24 would have checked at 20 and again at 24 with no byte in between. -/
example :
    let x := (loginL .soupClient ⟨100, 8⟩).run heldUpLivePeer
    x.s.now = 35 ∧ x.s.closed = false ∧ x.remChecks = [28, 20, 8] ∧ x.arrivals = [31, 25, 19, 13, 7] ∧
      (x.arrivals.all fun a => !x.remChecks.contains a) = true := by decide

set_option maxRecDepth 100000 in
/-- non-vacuity of the trip theorem: the same client, held up from 9 to 30 with no byte from the peer after 7, is closed by its
    late check at 30; the previous check was at 8 and nothing arrived in between -/
example :
    let x := (loginL .soupClient ⟨100, 8⟩).run
      (List.replicate 7 (.base .adv) ++ [.base (.recv .hb)] ++ List.replicate 2 (.base .adv) ++ List.replicate 21 .hold ++ [.resume])
    x.s.closed = true ∧ x.s.closedByMon = true ∧ x.s.closeT = 30 ∧ x.tripFrom = 8 ∧ x.remChecks = [30, 8] := by decide

end NasdaqModel.Props.C09Late
