import NasdaqModel.Lemmas.SessionLemmas2
/-
C07 — hostile or corrupt input cannot wedge or crash a session.

In the session machine an inbound frame is `msg n | hb | logout | bad`; `bad` stands for *every* delimited frame the parser
rejects (the parsers' classification is exercised on the implementation side by the harness: every malformed-frame class
must behave like `bad`).  Theorems for every configuration and every event sequence.
-/
namespace NasdaqModel.Props.C07
open NasdaqModel Sess

abbrev reach (cfg : Cfg) (evs : List Ev) : St := runEvs cfg {} evs

/-- **Never open and deaf.** In every reachable state: if the session is connected and does not report closed, its reader
    task is alive, runnable (it will poll again), in its poll loop, and not stopped. -/
theorem C07_reader_alive_while_open (cfg : Cfg) (evs : List Ev)
    (hopen : (reach cfg evs).closed = false) (hconn : (reach cfg evs).status .R ≠ .absent) :
    runnable (reach cfg evs) .R = true ∧ (reach cfg evs).prog .R = .readerLoop ∧ (reach cfg evs).rStopped = false := by
  obtain ⟨hr, hR, _⟩ := runEvs_InvR cfg evs hopen
  rcases hR with h | h
  · exact absurd h hconn
  · exact ⟨by simp [runnable, h.1], h.2, hr⟩

/-- **One frame per poll.** Whenever the reader of an open session polls a non-empty buffer it takes exactly the first
    frame out of it (so every fully received frame is reached after as many polls as there are frames before it). -/
theorem C07_poll_consumes_one_frame (cfg : Cfg) (s : St) (f : Frame) (rest : List Frame)
    (hR : s.status .R = .ready) (hp : s.prog .R = .readerLoop) (hs : s.rStopped = false) (hb : s.buf = f :: rest) :
    (f = .hb → step cfg s (.run .R) = { s with imm := none, buf := rest, consumed := s.consumed ++ [.hb] }) ∧
    (∀ n, f = .msg n → (step cfg s (.run .R)).buf = rest ∧ (step cfg s (.run .R)).queue = s.queue ++ [n]) := by
  constructor
  · intro hf; subst hf
    simp [step, runnable, hR, stepRun, hp, stepReader, hs, hb]
  · intro n hf; subst hf
    simp [step, runnable, hR, stepRun, hp, stepReader, hs, hb, St.put, St.wakeGetter]
    constructor <;> (split <;> split <;> rfl)

/-- **A malformed frame ends the session** (as does a logout frame): the very poll that meets it sets the closed flag —
    the session never stays open behind an unparsable frame. -/
theorem C07_bad_frame_closes (cfg : Cfg) (s : St) (f : Frame) (rest : List Frame)
    (hR : s.status .R = .ready) (hp : s.prog .R = .readerLoop) (hs : s.rStopped = false) (hb : s.buf = f :: rest)
    (hf : f = .bad ∨ f = .logout) : (step cfg s (.run .R)).closed = true := by
  rcases hf with rfl | rfl <;>
    simp [step, runnable, hR, stepRun, hp, stepReader, hs, hb, enterClose_closed]

/-- **Closed stays closed** — no input can reopen a session. -/
theorem C07_closed_is_final (cfg : Cfg) (s : St) (ev : Ev) (h : s.closed = true) : (step cfg s ev).closed = true :=
  step_closed_mono cfg s ev h

/-! ### non-vacuity -/

private def cfg0 : Cfg :=
  { msgBeh := fun _ => .ret, cbBeh := .ret, hasCb := true, dispatchOnConnect := false, hasMsgCb := false, fixLogin := false }

/-- valid frame, malformed frame, valid frame: the first is queued, the second closes the session completely -/
example : (reach cfg0 [.connect, .data [.msg 1, .bad, .msg 2], .run .R, .run .R]).trace = [.tclose, .cbEnter, .cbExit] := by decide
example : (reach cfg0 [.connect, .data [.msg 1, .bad, .msg 2], .run .R, .run .R]).queue = [1] := by decide
example : (reach cfg0 [.connect, .data [.msg 1, .bad, .msg 2], .run .R]).closed = false := by decide

end NasdaqModel.Props.C07
