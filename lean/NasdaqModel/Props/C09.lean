import NasdaqModel.Lemmas.HeartbeatLemmas
/-
C09 — peer silence closes the session in bounded time; a live peer is never timed out; any inbound byte counts.
Only property theorems and their non-vacuity examples live here; the invariants are in Lemmas/HeartbeatLemmas.lean.

Reading guide (see also Props/C08.lean).  `s.recvs` are the `data_received` calls (newest first) with their instant and
what the bytes were (`hb` a heartbeat packet, `msg` another message, `frag` part of a frame).  `s.closed`, `s.closeT`,
`s.closedByMon`: the session is closed, when, and whether it was the remote monitor that called `close()`.
A monitor tick at instant `T` is processed before an arrival stamped `T` (see Model/Monitor.lean).
All theorems hold for every event list (any concurrent local activity, any application close), every configuration
with intervals ≥ 1 grid unit, every role, and — where a tolerance appears — every tolerated-miss count `n`.
-/
namespace NasdaqModel.Props.C09
open NasdaqModel.Monitor

def wfCfg (c : Cfg) : Bool := decide (1 ≤ c.clientI) && decide (1 ≤ c.serverI)

example : wfCfg ⟨8, 16⟩ = true := by decide

private theorem peer_pos (role : Role) (c : Cfg) (h : wfCfg c = true) : 1 ≤ peerInterval role c := by
  simp [wfCfg] at h
  cases role <;> simp [peerInterval] <;> omega

/-- every call site of `start_heartbeats` gives the remote monitor the interval of the *peer's* role
    (server interval on client / FIX sessions, client interval on a server session) -/
theorem C09_role (role : Role) (c : Cfg) : (sessionIntervals role c).2 = peerInterval role c := by
  cases role <;> rfl

private theorem login_eq (role : Role) (c : Cfg) :
    login role c = startWith (ownInterval role c) (peerInterval role c) 1 1 := by
  cases role <;> rfl

/-- **C09_silence_closes** (any tolerance `n`, `N = max n 1`).  If no byte arrives in `(t, t + (N+1)·P]` and the
    history reaches `t + (N+1)·P`, the session is closed and was closed no later than `t + (N+1)·P`. -/
theorem C09_silence_closes_generic (l r tl n : Nat) (hr : 1 ≤ r) (evs : List Ev) (t : Nat)
    (hlong : t + (max n 1 + 1) * r ≤ ((startWith l r tl n).run evs).now)
    (hsilent : ∀ x ∈ ((startWith l r tl n).run evs).recvs, ¬ (t < x.1 ∧ x.1 ≤ t + (max n 1 + 1) * r)) :
    ((startWith l r tl n).run evs).closed = true ∧ ((startWith l r tl n).run evs).closeT ≤ t + (max n 1 + 1) * r := by
  apply (invR_run l r tl n hr evs).silence t hlong
  rw [recvIn_false_iff]
  intro x hx hab
  exact hsilent x hx ⟨by omega, by omega⟩

/-- **C09_silence_closes** for sessions (`n = 1`): no byte from the peer during `(t, t + 2·P]`, `P` the interval of the
    peer's role ⇒ closed by `t + 2·P` -/
theorem C09_silence_closes (role : Role) (c : Cfg) (hc : wfCfg c = true) (evs : List Ev) (t : Nat)
    (hlong : t + 2 * peerInterval role c ≤ ((login role c).run evs).now)
    (hsilent : ∀ x ∈ ((login role c).run evs).recvs, ¬ (t < x.1 ∧ x.1 ≤ t + 2 * peerInterval role c)) :
    ((login role c).run evs).closed = true ∧ ((login role c).run evs).closeT ≤ t + 2 * peerInterval role c := by
  rw [login_eq] at hlong hsilent ⊢
  have h := C09_silence_closes_generic (ownInterval role c) (peerInterval role c) 1 1 (peer_pos role c hc) evs t
  simp only [Nat.max_self] at h
  exact h hlong hsilent

set_option maxRecDepth 100000 in
/-- non-vacuity: a client (peer interval 4) that hears nothing is closed at 8 = 0 + 2·4 -/
example : ((login .soupClient ⟨100, 4⟩).run (List.replicate 10 .adv)).closeT = 8 := by decide

set_option maxRecDepth 100000 in
/-- non-vacuity with arrivals: a FIX session (peer interval 4) hears bytes at 1 and 3, then nothing: the hypotheses of
    `C09_silence_closes` hold for t = 3 (history of 12 units, no arrival in (3, 11]) and the session closed at 8 ≤ 11 -/
example :
    let s := (login .fix ⟨100, 4⟩).run ([.adv, .recv .msg, .adv, .adv, .recv .frag] ++ List.replicate 9 .adv)
    3 + 2 * peerInterval .fix ⟨100, 4⟩ ≤ s.now ∧ (s.recvs.all fun x => !(decide (3 < x.1) && decide (x.1 ≤ 11))) = true ∧
      s.closed = true ∧ s.closeT = 8 ∧ s.closedByMon = true := by decide

/-- **C09_trip_has_silent_period.**  Whenever the remote monitor has closed the session (any tolerance), the period
    `[c - P, c)` between its last two ticks contains no arrival at all. -/
theorem C09_trip_has_silent_period (l r tl n : Nat) (hr : 1 ≤ r) (evs : List Ev)
    (hclosed : ((startWith l r tl n).run evs).closed = true) (hmon : ((startWith l r tl n).run evs).closedByMon = true) :
    r ≤ ((startWith l r tl n).run evs).closeT ∧ ((startWith l r tl n).run evs).closeT ≤ ((startWith l r tl n).run evs).now ∧
      ∀ x ∈ ((startWith l r tl n).run evs).recvs,
        ¬ (((startWith l r tl n).run evs).closeT - r ≤ x.1 ∧ x.1 < ((startWith l r tl n).run evs).closeT) := by
  have h := invQ_run l r tl n hr evs
  obtain ⟨h1, h2⟩ := h.witness hclosed hmon
  exact ⟨h1, h.closeT_le hclosed, (recvIn_false_iff _ _ _).mp h2⟩

/-- **C09_live_never_dropped** (any tolerance).  If every window `[τ, τ + P)` of the history contains a byte from the
    peer, the remote monitor never closes the session — however long it runs and whatever else happens. -/
theorem C09_live_never_dropped_generic (l r tl n : Nat) (hr : 1 ≤ r) (evs : List Ev)
    (hlive : ∀ τ, τ + r ≤ ((startWith l r tl n).run evs).now →
      ∃ x ∈ ((startWith l r tl n).run evs).recvs, τ ≤ x.1 ∧ x.1 < τ + r) :
    ¬ (((startWith l r tl n).run evs).closed = true ∧ ((startWith l r tl n).run evs).closedByMon = true) := by
  rintro ⟨hc, hm⟩
  obtain ⟨h1, h2, h3⟩ := C09_trip_has_silent_period l r tl n hr evs hc hm
  obtain ⟨x, hx, ha, hb⟩ := hlive (((startWith l r tl n).run evs).closeT - r) (by omega)
  exact h3 x hx ⟨ha, by omega⟩

theorem C09_live_never_dropped (role : Role) (c : Cfg) (hc : wfCfg c = true) (evs : List Ev)
    (hlive : ∀ τ, τ + peerInterval role c ≤ ((login role c).run evs).now →
      ∃ x ∈ ((login role c).run evs).recvs, τ ≤ x.1 ∧ x.1 < τ + peerInterval role c) :
    ¬ (((login role c).run evs).closed = true ∧ ((login role c).run evs).closedByMon = true) := by
  rw [login_eq] at hlive ⊢
  exact C09_live_never_dropped_generic _ _ 1 1 (peer_pos role c hc) evs hlive

set_option maxRecDepth 100000 in
/-- non-vacuity: a server (peer interval 4) whose client delivers one byte per period stays open for 40 units -/
example : ((login .soupServer ⟨4, 100⟩).run ((List.replicate 10 [Ev.adv, .recv .frag, .adv, .adv, .adv]).flatten)).closed = false := by
  decide

/-- **C09_any_byte_counts.**  Replacing every arrival by any other kind of bytes (heartbeat packet, other message,
    fragment of a frame) changes nothing but the recorded kinds: same writes, same close, same monitor states. -/
theorem C09_any_byte_counts (s : Sess) (evs evs' : List Ev) (h : evs.map Ev.eraseKind = evs'.map Ev.eraseKind) :
    (s.run evs).forgetKinds = (s.run evs').forgetKinds := by
  rw [forget_run, forget_run, h]

/-- in particular the close instant and the writes do not depend on what the bytes were -/
theorem C09_any_byte_counts_obs (s : Sess) (evs evs' : List Ev) (h : evs.map Ev.eraseKind = evs'.map Ev.eraseKind) :
    (s.run evs).closed = (s.run evs').closed ∧ (s.run evs).closeT = (s.run evs').closeT ∧
      (s.run evs).closedByMon = (s.run evs').closedByMon ∧ (s.run evs).writes = (s.run evs').writes ∧
      (s.run evs).now = (s.run evs').now := by
  have e := C09_any_byte_counts s evs evs' h
  exact ⟨congrArg (fun x => x.closed) e, congrArg (fun x => x.closeT) e, congrArg (fun x => x.closedByMon) e,
    congrArg (fun x => x.writes) e, congrArg (fun x => x.now) e⟩

/-- **C09_tol0_eq_tol1.**  A remote monitor that tolerates 0 missed heartbeats behaves exactly like one that tolerates 1. -/
theorem C09_tol0_eq_tol1 (l r tl : Nat) (evs : List Ev) :
    ((startWith l r tl 0).run evs).withTolR 1 = (startWith l r tl 1).run evs := by
  rw [tol01_run evs _ rfl]; rfl

end NasdaqModel.Props.C09
