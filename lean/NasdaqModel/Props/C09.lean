import NasdaqModel.Model.Monitor
namespace NasdaqModel.Props.C09
open NasdaqModel.Monitor

theorem C09_role (role : Role) (c : Cfg) : (sessionIntervals role c).2 = peerInterval role c := by
  cases role <;> rfl

end NasdaqModel.Props.C09
