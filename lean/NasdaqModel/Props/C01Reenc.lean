import NasdaqModel.Model.BinObj
import NasdaqModel.Props.C01
/-
C01, message objects over time (`Model/BinObj.lean`): "every value assignable through the typed attributes" includes the value a
message holds after it has been encoded and then changed IN PLACE below its top level - a field of a nested record, an optional
record that becomes present, a list that grows or shrinks, a field of a record inside a list - and is encoded again.  Every
`to_bytes()` of such a history is the encoding of the body the message holds at that moment, whatever was encoded or changed
before, and therefore decodes to a message of the same class whose every field reads back what the message holds NOW.
-/
namespace NasdaqModel.Props.C01Reenc
open NasdaqModel BinCodec BinObj

/-- **No memory.**  The `to_bytes()` calls of a history return the encodings of the bodies held at each call: the result is a
    function of the current value tree alone. -/
theorem C01_reenc_run_eq (m : MsgDef) (v : Val) (ops : List Op) :
    run m v ops = (atEncodes v ops).map (encodeMsg m) := by
  induction ops generalizing v with
  | nil => rfl
  | cons op r ih =>
    cases op with
    | toBytes => simp only [run, atEncodes, List.map_cons]; rw [ih]
    | change p mu => simp only [run, atEncodes]; exact ih _

/-- Two histories - from whatever first values, through whatever encodings and changes - that hold the same bodies at their
    encodings return the same bytes. -/
theorem C01_reenc_current_only (m : MsgDef) (v v' : Val) (ops ops' : List Op)
    (h : atEncodes v ops = atEncodes v' ops') : run m v ops = run m v' ops' := by
  rw [C01_reenc_run_eq, C01_reenc_run_eq, h]

/-- encode, change anything anywhere, encode again: the second encoding is the encoding of the changed body -/
theorem C01_reenc_sees_change (m : MsgDef) (v : Val) (p : List Step) (mu : Mut) :
    run m v [.toBytes, .change p mu, .toBytes] = [encodeMsg m v, encodeMsg m (step v (.change p mu))] := rfl

/-- the statement of C01 for one encoding `r` of a message whose body is `q` at that moment: it succeeded, reported the number of
    bytes it produced, and those bytes - with `tail` following - decode to the same class, consume exactly the encoded length, read
    back equal at every path, and re-encode to the identical bytes -/
def ReadsBack (reg : List MsgDef) (m : MsgDef) (tail : Bytes) (r : Except Err (Nat × Bytes)) (q : Val) : Prop :=
  ∃ n bs v', r = .ok (n, bs) ∧ n = bs.length ∧ decodeMsg reg (bs ++ tail) = .ok ((n : Int), m.cls, v') ∧
    (∀ p, read (.record m.fs) v' p = read (.record m.fs) q p) ∧ encodeMsg m v' = .ok (n, bs)

private theorem readsBack_of_wf (reg : List MsgDef) (m : MsgDef) (hreg : findMsg reg (m.ind : Int) = some m)
    (q : Val) (tail : Bytes) (hwf : wfMsg m q = true) : ReadsBack reg m tail (encodeMsg m q) q := by
  have henc := encodeMsg_layout m q hwf
  obtain ⟨hrt, hlen⟩ := Props.C01.C01_msg_roundtrip reg m q tail _ _ hreg hwf henc
  have hwf' : wf (.record m.fs) q = true := by
    simp only [wfMsg, Bool.and_eq_true] at hwf
    exact hwf.2
  refine ⟨_, _, _, henc, hlen, hrt, ?_, ?_⟩
  · intro p
    exact Props.C01.C01_reads_equal (.record m.fs) q hwf' p
  · rw [← henc]
    simp only [encodeMsg, Props.C01.C01_reencode (.record m.fs) q hwf']

/-- **Round trip of every encoding of a history.**  If the body is in the domain at every `to_bytes()` call, the `i`-th call
    returns the encoding of the body `q` held at that call, and those bytes decode (also with unrelated bytes following) to the
    class of the message with every field reading back what the message holds at THAT call - independent of every earlier
    encoding and of where in the tree the changes were made. -/
theorem C01_reenc_roundtrip (reg : List MsgDef) (m : MsgDef) (hreg : findMsg reg (m.ind : Int) = some m)
    (v : Val) (ops : List Op) (tail : Bytes) (h : ∀ q ∈ atEncodes v ops, wfMsg m q = true)
    (i : Nat) (q : Val) (hq : (atEncodes v ops)[i]? = some q) :
    (run m v ops)[i]? = some (encodeMsg m q) ∧ ReadsBack reg m tail (encodeMsg m q) q := by
  refine ⟨?_, readsBack_of_wf reg m hreg q tail (h q (List.mem_of_getElem? hq))⟩
  rw [C01_reenc_run_eq, List.getElem?_map, hq]
  rfl

/-- as many results as `to_bytes()` calls -/
theorem C01_reenc_length (m : MsgDef) (v : Val) (ops : List Op) : (run m v ops).length = (atEncodes v ops).length := by
  rw [C01_reenc_run_eq, List.length_map]

/-! ### where a message that remembers its encoding is right, and no further

`runCached` packs again only after an assignment on the body record itself.  Under the extra hypothesis that EVERY change of the
history is such an assignment it returns what `run` returns; `Witness/C01Reenc.lean` decides a history with one change one level
down on which it does not. -/

/-- `to_bytes`, or an assignment to a field of the body record itself -/
def bodyOnly : Op → Bool
  | .toBytes => true
  | .change [] (.set _ _) => true
  | _ => false

/-- the remembered encoding, when it is used, is the encoding of the body as it is -/
private def CacheOk (m : MsgDef) (v : Val) (cache : Option (Nat × Bytes)) (dirty : Bool) : Prop :=
  dirty = false → ∀ bs, cache = some bs → encodeMsg m v = .ok bs

private theorem cachedToBytes_spec (m : MsgDef) (v : Val) (cache : Option (Nat × Bytes)) (dirty : Bool)
    (hinv : CacheOk m v cache dirty) :
    (cachedToBytes m v cache dirty).1 = encodeMsg m v ∧
      CacheOk m v (cachedToBytes m v cache dirty).2.1 (cachedToBytes m v cache dirty).2.2 := by
  unfold cachedToBytes
  split
  · rename_i bs
    exact ⟨(hinv rfl bs rfl).symm, hinv⟩
  · split
    · rename_i bs he
      refine ⟨he.symm, ?_⟩
      intro _ b hb
      cases hb
      exact he
    · rename_i e he
      exact ⟨he.symm, hinv⟩

private theorem cached_aux (m : MsgDef) (ops : List Op) :
    ∀ (v : Val) (cache : Option (Nat × Bytes)) (dirty : Bool), ops.all bodyOnly = true → CacheOk m v cache dirty →
      runCached m v cache dirty ops = run m v ops := by
  induction ops with
  | nil => intros; rfl
  | cons op r ih =>
    intro v cache dirty hall hinv
    simp only [List.all_cons, Bool.and_eq_true] at hall
    obtain ⟨hop, hr⟩ := hall
    cases op with
    | toBytes =>
      obtain ⟨h1, h2⟩ := cachedToBytes_spec m v cache dirty hinv
      rw [runCached, run, h1, ih v _ _ hr h2]
    | change p mu =>
      cases p with
      | nil =>
        cases mu with
        | set k x =>
          rw [runCached, run]
          exact ih _ cache _ hr (by intro hd; simp [noticed] at hd)
        | _ => simp [bodyOnly] at hop
      | cons s p => simp [bodyOnly] at hop

/-- the remembering variant agrees with the code as it is on every history that changes the body record's own fields only
    (`_partial`: the hypothesis `ops.all bodyOnly` cannot be dropped - `Witness.C01Reenc.C01_witness_stale_nested`) -/
theorem C01_reenc_cached_partial (m : MsgDef) (v : Val) (ops : List Op) (h : ops.all bodyOnly = true) :
    runCached m v none false ops = run m v ops :=
  cached_aux m ops v none false h (by intro _ b hb; cases hb)

/-! ### non-vacuity: the message of the seeded demonstration - a short, a nested record (price, 6-character symbol), an optional
record with one text, a list of bytes, a list of records - encoded, changed at each kind of position below the top level, encoded -/

def legF : Flds := .cons 1 (.int 4 false true) .none (.cons 2 (.fixed false 6 false) .none .nil)

def quote : MsgDef :=
  { ind := 81, cls := 0,
    fs := .cons 1 (.int 2 true false) .none
         (.cons 2 (.record legF) .none
         (.cons 3 (.optrec (.cons 1 (.str false) .none .nil)) .none
         (.cons 4 (.arr (.int 1 false false) 2 true false) .none
         (.cons 5 (.arr (.record legF) 2 true false) .none .nil)))) }

/-- seq = 7, leg = (100, 'ABC'), note untouched (absent), sizes = [1, 2], legs = [(5, 'X')] -/
def quote0 : Val :=
  .recd [(2, .recd [(1, .int 100), (2, .str [65, 66, 67])]), (3, .recd []), (1, .int 7), (4, .list [.int 1, .int 2]),
         (5, .list [.recd [(1, .int 5), (2, .str [88])]])]

def demoOps : List Op :=
  [ .toBytes,
    .change [.field 2] (.set 1 (.int 4294967295)), .toBytes,                 -- msg.leg.price = 0xFFFFFFFF
    .change [.field 3] (.set 1 (.str [104, 105])), .toBytes,                 -- msg.note.text = 'hi'   (absent -> present)
    .change [.field 4] (.append (.int 255)), .toBytes,                       -- msg.sizes.append(255)
    .change [.field 5, .idx 0] (.set 2 (.str [90, 90])), .toBytes,           -- msg.legs[0].symbol = 'ZZ'
    .change [.field 5] (.delItem 0), .toBytes ]                              -- del msg.legs[0]

example : findMsg [quote] (quote.ind : Int) = some quote := by simp [findMsg]
example : (atEncodes quote0 demoOps).length = 6 := by decide
example : (atEncodes quote0 demoOps).all (wfMsg quote) = true := by decide
example : (atEncodes quote0 demoOps).map (fun q => read (.record quote.fs) q [.field 2, .field 1])
    = [.int 100, .int 4294967295, .int 4294967295, .int 4294967295, .int 4294967295, .int 4294967295] := by decide
example : (atEncodes quote0 demoOps).map (fun q => read (.record quote.fs) q [.field 3, .field 1])
    = [.absent, .absent, .text [104, 105], .text [104, 105], .text [104, 105], .text [104, 105]] := by decide
example : (atEncodes quote0 demoOps).map (fun q => read (.record quote.fs) q [.field 4])
    = [.len 2, .len 2, .len 2, .len 3, .len 3, .len 3] := by decide
example : (atEncodes quote0 demoOps).map (fun q => read (.record quote.fs) q [.field 5, .idx 0, .field 2])
    = [.text [88], .text [88], .text [88], .text [88], .text [90, 90], .invalid] := by decide
example : (run quote quote0 demoOps).map (fun r => r.toOption.map (·.1)) = [some 30, some 30, some 34, some 35, some 35, some 25] := by
  decide
example : demoOps.all bodyOnly = false := by decide
example : [Op.toBytes, .change [] (.set 1 (.int 8)), .toBytes].all bodyOnly = true := by decide

end NasdaqModel.Props.C01Reenc
