import NasdaqModel.Lemmas.SessionLemmas5
/-
C11 — login either yields a working session or fails cleanly.

Theorems about the login procedure of the session machine (`callLogin`, `loginResume` in Model/Session.lean, which
transcribe `SoupClientSession.login` / `FixSession.login` and the mapping done by `connect_async`).  The quantification is
over every state in which the step can happen — hence over every reply stream, segmentation, disconnect offset and
cancellation phase that can lead to such a state.  The end-to-end statement over whole attempts (outcome ∈ {active,
refused}; refused / cancelled ⇒ closed and clean) is the composition of these with C05 (`C05_close_never_deadlocks`,
`C05_completed_exactly_once`) and C06 (`C06_quiescent_clean`); the harness oracle checks that composition on the
implementation for every generated attempt.
-/
namespace NasdaqModel.Props.C11
open NasdaqModel Sess

abbrev reach (cfg : Cfg) (evs : List Ev) : St := runEvs cfg {} evs

/-- **The login request is written first.** Starting a login writes the login request before anything else happens in
    that step. -/
theorem C11_login_request_first (cfg : Cfg) (s : St) (u : Nat) (hu : s.status (.U u) = .absent)
    (hb : s.rcvBusy = false) (hv : alive (s.status .V) = false) (hres : s.vres = none) :
    ∃ rest, (step cfg s (.callLogin u)).trace = s.trace ++ Obs.write .login :: rest := by
  simp only [step, hu, hb, hv, bne_self_eq_false, Bool.or_self, Bool.false_eq_true, if_false]
  unfold startRecv
  simp only [St.emit, hb, hv, hres, Option.isSome_none, Bool.or_self, Bool.false_eq_true, if_false]
  split
  · exact ⟨[.ret u .state], by simp [St.setStatus, St.emit]⟩
  · split
    · exact ⟨[], by simp [St.setStatus, St.setProg]⟩
    · split
      · exact ⟨[.ret u .refused], by simp [St.setStatus, St.emit]⟩
      · exact ⟨[], by simp [St.setStatus, St.setProg, St.spawn]⟩

/-- **Outcome 1: active.** When `login()` resumes with the acceptance and the session is neither closed nor closing, it
    returns the session (`ret u ok`), both heartbeat monitors have been started, the dispatcher has been started if a
    message callback is configured and dispatching had not been started before, and the session is still open. -/
theorem C11_accept_yields_active_session (cfg : Cfg) (s : St) (u : Nat)
    (hst : s.status (.U u) = .ready) (hp : s.prog (.U u) = .loginWait u)
    (hv : s.vres = some 0) (hc : s.closed = false) (hct : s.closingTask = false) :
    (step cfg s (.run (.U u))).trace = s.trace ++ [.loginReply 0, .ret u .ok] ∧
    (step cfg s (.run (.U u))).closed = false ∧
    (step cfg s (.run (.U u))).status .L = .ready ∧ (step cfg s (.run (.U u))).status .M = .ready ∧
    (cfg.hasMsgCb = true → s.dispSet = false →
      (step cfg s (.run (.U u))).status .D = .ready ∧ (step cfg s (.run (.U u))).prog .D = .dispLoop) := by
  have e0 : step cfg s (.run (.U u)) = loginResume cfg { s with imm := none } (.U u) u := by
    simp [step, runnable, hst, stepRun, hp]
  have e : step cfg s (.run (.U u)) =
      ((((({ s with imm := none, vres := none, rcvBusy := false, gone := s.gone ++ [(0, true)] } : St).emit (.loginReply 0)).startHeartbeats).startDispatching cfg).emit
        (.ret u .ok)).finish (.U u) := by
    rw [e0]
    unfold loginResume
    simp only [hv]
    rw [if_pos (by simp [St.emit, hc, hct])]
  rw [e]
  generalize hs1 : (({ s with imm := none, vres := none, rcvBusy := false, gone := s.gone ++ [(0, true)] } : St).emit (.loginReply 0)).startHeartbeats = s1
  have h1t : s1.trace = s.trace ++ [.loginReply 0] := by rw [← hs1]; rfl
  have h1c : s1.closed = false := by rw [← hs1]; exact hc
  have h1L : s1.status .L = .ready := by rw [← hs1]; rfl
  have h1M : s1.status .M = .ready := by rw [← hs1]; rfl
  have h1d : s1.dispSet = s.dispSet := by rw [← hs1]; rfl
  have hcore := core_startDispatching s1 cfg
  simp only [core, Prod.mk.injEq] at hcore
  obtain ⟨c1, _, _, c4⟩ := hcore
  refine ⟨?_, ?_, ?_, ?_, ?_⟩
  · show (s1.startDispatching cfg).trace ++ [.ret u .ok] = _
    rw [c4, h1t]; simp
  · show (s1.startDispatching cfg).closed = false
    rw [c1]; exact h1c
  · show (if Tid.L = Tid.U u then Status.done else
        if (s1.startDispatching cfg).status .L = .waitT (.U u) then .ready else (s1.startDispatching cfg).status .L) = _
    have : (s1.startDispatching cfg).status .L = .ready := by
      unfold St.startDispatching; split
      · simp [St.spawn, St.setStatus, St.setProg, h1L]
      · exact h1L
    simp [this]
  · show (if Tid.M = Tid.U u then Status.done else
        if (s1.startDispatching cfg).status .M = .waitT (.U u) then .ready else (s1.startDispatching cfg).status .M) = _
    have : (s1.startDispatching cfg).status .M = .ready := by
      unfold St.startDispatching; split
      · simp [St.spawn, St.setStatus, St.setProg, h1M]
      · exact h1M
    simp [this]
  · intro hm hd
    have hD : (s1.startDispatching cfg).status .D = .ready ∧ (s1.startDispatching cfg).prog .D = .dispLoop := by
      unfold St.startDispatching
      rw [if_pos (by simp [hm, h1d, hd])]
      exact ⟨rfl, rfl⟩
    constructor
    · show (if Tid.D = Tid.U u then Status.done else
        if (s1.startDispatching cfg).status .D = .waitT (.U u) then .ready else (s1.startDispatching cfg).status .D) = _
      simp [hD.1]
    · exact hD.2

/-- **Outcome 2: refused, for any reply other than an acceptance** — a rejection, any other packet, or an acceptance that
    arrives on a session that was closed / is closing meanwhile: `login()` does not return the session; it closes the session
    (the closed flag is set in that very step) before raising. -/
theorem C11_other_reply_closes (cfg : Cfg) (s : St) (u n : Nat)
    (hst : s.status (.U u) = .ready) (hp : s.prog (.U u) = .loginWait u) (hv : s.vres = some n)
    (hn : n ≠ 0 ∨ s.closed = true ∨ s.closingTask = true) :
    (step cfg s (.run (.U u))).closed = true := by
  have e : step cfg s (.run (.U u)) =
      enterClose cfg (({ s with imm := none, vres := none, rcvBusy := false, gone := s.gone ++ [(n, true)] } : St).emit (.loginReply n))
        (.U u) (.userTail u .refused) := by
    have : (decide (n = 0) && !(s.closed || s.closingTask)) = false := by
      rcases hn with h | h | h <;> simp [h]
    simp only [step, runnable, hst, beq_self_eq_true, Bool.true_or, if_true, stepRun, hp, loginResume, hv, St.emit, this,
      Bool.false_eq_true, if_false]
  rw [e]
  exact enterClose_closed _ _ _ _

/-- **Outcome 2: refused, for a disconnect at any point of the reply.** When the peer disconnected (the closing task
    stopped the queue, which cancelled the helper task), `login()` ends with the connection-refused error. -/
theorem C11_disconnect_is_refused (cfg : Cfg) (s : St) (u : Nat)
    (hst : s.status (.U u) = .ready ∨ s.status (.U u) = .cancelled) (hp : s.prog (.U u) = .loginWait u)
    (hv : s.vres = none) (hq : s.qClosed = true) :
    (step cfg s (.run (.U u))).trace = s.trace ++ [.ret u .refused] := by
  rcases hst with hst | hst <;>
    simp [step, runnable, hst, stepRun, hp, loginResume, hv, hq, St.emit, St.finish]

/-- **The caller's cancellation closes the session.** When the caller cancels (or times out) the attempt while the reply
    is outstanding, `login()` closes the session before the cancellation propagates: the closed flag is set in that step. -/
theorem C11_cancel_closes (cfg : Cfg) (s : St) (u : Nat)
    (hp : s.prog (.U u) = .loginWait u) (hq : s.qClosed = false)
    (hst : s.status (.U u) = .cancelled ∨ (s.status (.U u) = .ready ∧ s.vres = none)) :
    (step cfg s (.run (.U u))).closed = true := by
  rcases hst with hst | ⟨hst, hv⟩
  · have e : step cfg s (.run (.U u)) = enterClose cfg
        (({ s with imm := none, vres := none, rcvBusy := false, queue := s.vres.toList ++ s.queue } : St).setStatus (.U u) .ready)
        (.U u) (.userTail u .cancelled) := by
      simp [step, runnable, hst, stepRun, hp, hq]
    rw [e]; exact enterClose_closed _ _ _ _
  · have e : step cfg s (.run (.U u)) = enterClose cfg ({ s with imm := none, rcvBusy := false } : St)
        (.U u) (.userTail u .cancelled) := by
      simp [step, runnable, hst, stepRun, hp, loginResume, hv, hq]
    rw [e]; exact enterClose_closed _ _ _ _

/-- **Closed for good, and the close completes**: in every reachable state that reports closed, the close either has run to
    its end or a definite task can take its next step (`C05_close_never_deadlocks`); the closed flag never reverts. -/
theorem C11_failed_login_leaves_closing_session (cfg : Cfg) (evs : List Ev) (ev : Ev)
    (hc : (reach cfg evs).closed = true) : (reach cfg (evs ++ [ev])).closed = true := by
  have : reach cfg (evs ++ [ev]) = step cfg (reach cfg evs) ev := by simp [reach, runEvs, List.foldl_append]
  rw [this]; exact step_closed_mono cfg _ ev hc

/-! ### non-vacuity -/

private def cfg1 : Cfg :=
  { msgBeh := fun _ => .ret, cbBeh := .ret, hasCb := true, dispatchOnConnect := false, hasMsgCb := true, fixLogin := false }

/-- acceptance with a data message piggy-backed in the same segment: the callback sees it only after login returned -/
example : (reach cfg1 [.connect, .callLogin 1, .run .V, .data [.msg 0, .msg 5], .run .R, .run .R, .run .V, .run (.U 1), .run .D]).trace =
    [.write .login, .loginReply 0, .ret 1 .ok, .msgEnter 5, .msgExit 5] := by decide
/-- a rejection: refused, session closed, callback completed -/
example : (reach cfg1 [.connect, .callLogin 1, .run .V, .data [.msg 7], .run .R, .run .V, .run (.U 1), .run .R, .run (.U 1)]).trace =
    [.write .login, .loginReply 7, .tclose, .cbEnter, .cbExit, .ret 1 .refused] := by decide

end NasdaqModel.Props.C11
