import NasdaqModel.Py.Dec
import NasdaqModel.Extracted.PyTable
/-
The Python semantics layer (`NasdaqModel/Py`) pinned to the running interpreter on whole finite tables.

The models take `str.strip()`, `bytes.strip(b' \x00')`, `int(bytes)` and `int(str)` as given.  `Extracted/PyTable.lean` is regenerated from the
interpreter the library runs on, on every run of `./check C12` (harness/extract_c12.py): the complete set of code points with
`chr(c).isspace()`, and the outcome of the four functions on every word up to length 2 (3 for smaller alphabets) over alphabets that
contain every character class the models distinguish (digits, signs, each ASCII blank, NUL, `_`, letters, `.`, U+001C..U+001F, U+0085,
U+00A0, DEL).  The theorems say the Lean definitions agree with the interpreter on EVERY row (kernel evaluation, no sampling), and that
`isSpace` is exactly the interpreter's whitespace set for every natural number.
-/
namespace NasdaqModel.Props.C12Py
open NasdaqModel Py

def optOf : Except Err Int → Option Int
  | .ok v => some v
  | .error _ => none

/-- **`int(bytes)`** -/
theorem C12_py_int_bytes_table : Extracted.pyIntBytesTable.all (fun r => optOf (parseIntBytes r.1) == r.2) = true := by decide +kernel

/-- **`int(str)` on ASCII text** (the whitespace `int()` skips there is TAB..CR and space — not U+001C..U+001F, which `str.strip()` removes) -/
theorem C12_py_int_str_table : Extracted.pyIntStrTable.all (fun r => optOf (parseIntWith isAsciiSpace r.1) == r.2) = true := by
  decide +kernel

/-- **`str.strip()`** -/
theorem C12_py_strip_table : Extracted.pyStripTable.all (fun r => strip r.1 == r.2) = true := by decide +kernel

/-- **`bytes.strip(b' \x00')`** -/
theorem C12_py_strip_spnul_table : Extracted.pyStripSpNulTable.all (fun r => stripSpNul r.1 == r.2) = true := by decide +kernel

private theorem small : (List.range 12290).all (fun c => isSpace c == Extracted.pyWhitespace.contains c) = true := by decide +kernel

private theorem ws_small : Extracted.pyWhitespace.all (· < 12290) = true := by decide +kernel

/-- **`isSpace` is exactly `str.isspace`**, for every code point (and every natural number): the model's predicate holds of `c` iff `c` is in
    the set extracted from the interpreter. -/
theorem C12_py_isspace_exact (c : Nat) : isSpace c = Extracted.pyWhitespace.contains c := by
  by_cases h : c < 12290
  · have := List.all_eq_true.mp small c (List.mem_range.mpr h)
    simpa using this
  · have h1 : isSpace c = false := by
      simp only [isSpace, Bool.or_eq_false_iff, Bool.and_eq_false_iff, decide_eq_false_iff_not, beq_eq_false_iff_ne]
      omega
    have h2 : Extracted.pyWhitespace.contains c = false := by
      apply Bool.eq_false_iff.mpr
      intro hc
      have hm : c ∈ Extracted.pyWhitespace := List.contains_iff_mem.mp hc
      have := List.all_eq_true.mp ws_small c hm
      simp at this
      omega
    rw [h1, h2]

example : optOf (parseIntBytes [32, 45, 49, 95, 50, 10]) = some (-12) := by decide   -- int(b' -1_2\n')

end NasdaqModel.Props.C12Py
