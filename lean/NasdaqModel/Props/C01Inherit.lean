import NasdaqModel.Model.BinInherit
import NasdaqModel.Props.C01
/-
C01 for message classes declared by inheritance (`Model/BinInherit.lean`): a message class derived from another registered message
class - with an extended body, a body of its own, or the parent's body under another id; chains of any depth, any number of
siblings - round-trips AS ITSELF.  Inheritance adds nothing to the wire format: the encoding of a message is a function of its own
id and its own (resolved) field list, whatever the hierarchy it was declared in and whatever other classes exist or were used before.
-/
namespace NasdaqModel.Props.C01Inherit
open NasdaqModel BinCodec BinInherit

private theorem regAux_inds (ds : List Decl) (done : List Flds) (k : Nat) :
    (regAux ds done k).map (·.ind) = ds.map (·.ind) := by
  induction ds generalizing done k with
  | nil => rfl
  | cons d ds ih => simp [regAux, ih]

private theorem findMsg_of_mem (reg : List MsgDef) (m : MsgDef) (hnd : (reg.map (·.ind)).Nodup) (hm : m ∈ reg) :
    findMsg reg (m.ind : Int) = some m := by
  induction reg with
  | nil => cases hm
  | cons x rest ih =>
    simp only [List.map_cons, List.nodup_cons] at hnd
    rcases List.mem_cons.1 hm with rfl | h
    · simp [findMsg]
    · have hne : ¬ ((x.ind : Int) = (m.ind : Int)) := by
        intro e
        have e' : x.ind = m.ind := by exact_mod_cast e
        exact hnd.1 (e' ▸ List.mem_map_of_mem h)
      simp only [findMsg, if_neg hne]
      exact ih hnd.2 h

/-- **Every class of a hierarchy is found under its own id**: with pairwise distinct ids (the library refuses a duplicate), the
    registry resolves the id of a derived class to that class - never to the parent it was derived from. -/
theorem C01_inherit_own_class (ds : List Decl) (hnd : (ds.map (·.ind)).Nodup) (m : MsgDef) (hm : m ∈ registry ds) :
    findMsg (registry ds) (m.ind : Int) = some m :=
  findMsg_of_mem _ m (by rw [registry, regAux_inds]; exact hnd) hm

/-- **Round trip of derived classes.**  Any class of any hierarchy - derived or not, whatever was declared before or after it -
    encodes to bytes that decode, with unrelated bytes following, to the SAME class and the same record, consuming exactly the
    encoded length. -/
theorem C01_inherit_roundtrip (ds : List Decl) (hnd : (ds.map (·.ind)).Nodup) (m : MsgDef) (hm : m ∈ registry ds)
    (v : Val) (tail : Bytes) (n : Nat) (bs : Bytes) (hwf : wfMsg m v = true) (henc : encodeMsg m v = .ok (n, bs)) :
    decodeMsg (registry ds) (bs ++ tail) = .ok ((n : Int), m.cls, norm (.record m.fs) v) ∧ n = bs.length :=
  Props.C01.C01_msg_roundtrip (registry ds) m v tail n bs (C01_inherit_own_class ds hnd m hm) hwf henc

/-- **Own id, own fields, nothing else.**  Two classes with the same id and the same resolved field list - in whatever hierarchies,
    at whatever position - encode every value to the same bytes: there is nothing of the parent in the encoding of a child. -/
theorem C01_inherit_encoding_own (m m' : MsgDef) (hi : m.ind = m'.ind) (hf : m.fs = m'.fs) (v : Val) :
    encodeMsg m v = encodeMsg m' v := by
  simp [encodeMsg, hi, hf]

/-- the first byte written is the class's own id -/
theorem C01_inherit_id_byte (m : MsgDef) (v : Val) (n : Nat) (bs : Bytes) (hwf : wfMsg m v = true)
    (henc : encodeMsg m v = .ok (n, bs)) : bs.head? = some m.ind := by
  rw [encodeMsg_layout m v hwf] at henc
  injection henc with henc
  injection henc with _ h2
  rw [← h2]
  simp [Spec.Layout.msgLayout]

/-! ### non-vacuity: EnterOrder 'O', ReplaceOrder(EnterOrder) 'U' with one more field, a third class derived from that with the
body unchanged under 'X', and a sibling with a body of its own -/

def exDecls : List Decl :=
  [ ⟨79, none, .own, .cons 1 (.int 8 true true) .none (.cons 2 (.char false) .none (.cons 3 (.fixed false 8 false) .none
      (.cons 4 (.int 4 false true) .none .nil)))⟩,
    ⟨85, some 0, .extend, .cons 101 (.int 8 true true) .none .nil⟩,
    ⟨88, some 1, .same, .nil⟩,
    ⟨67, some 0, .own, .cons 201 (.str true) .none .nil⟩ ]

example : (exDecls.map (·.ind)).Nodup := by decide
example : (registry exDecls).map (fun m => (m.ind, m.cls)) = [(79, 0), (85, 1), (88, 2), (67, 3)] := by decide
example : ((registry exDecls).map (fun m => names m.fs)) = [[1, 2, 3, 4], [1, 2, 3, 4, 101], [1, 2, 3, 4, 101], [201]] := by decide

end NasdaqModel.Props.C01Inherit
