import NasdaqModel.Lemmas.FramingInstances
/-
C03 — stream framing is independent of TCP segmentation and timing.

Model: Model/Framing.lean (`Reader.on_data` / `_process` / `_process_1` / `stop`, `SoupMessageReader.deserialize`,
`FixMessageReader.deserialize`, `Message.get_msg_type`).  An event list `evs : List Ev` is an arbitrary interleaving of
`data seg` (one `on_data` call — any segmentation, including empty and one-byte segments and segments holding many messages)
and `tick` (one poll of the reader — any timing relative to the arrival of the segments).  All theorems quantify over *every*
event list; nothing bounds the number of messages, segments or polls.

Only property theorems and their non-vacuity examples live here; the proofs are in Lemmas/FramingLemmas.lean (generic
invariant) and Lemmas/FramingInstances.lean (the three framing facts for SoupBinTCP and FIX).
-/
namespace NasdaqModel.Props.C03
open NasdaqModel Py Framing Soup Spec.SoupLayout Props.C12

/-- the byte stream of a list of SoupBinTCP packets: their documented layouts, which (C12) is what `to_bytes` produces -/
def soupStream (ms : List Pkt) : Bytes := stream layout ms

/-- the byte stream of a list of FIX frames -/
def fixStream (fs : List Bytes) : Bytes := stream (fun f => f) fs

/-! ## SoupBinTCP -/

/-- the stream is made of the bytes the library writes for these packets (`C12_layout`, restated) -/
theorem C03_soup_stream_is_encoding (p : Pkt) (h : wfPkt p = true) : Soup.encode p = .ok (layout p) :=
  C12_layout p h

/-- **Key lemma 1.** A complete packet followed by anything is cut off exactly. -/
theorem C03_soup_deser_exact (p : Pkt) (rest : Bytes) (h : wfPkt p = true) :
    soupDeser (layout p ++ rest) = .ok (some (p, rest)) :=
  soup_exact p rest h

/-- **Key lemma 2.** A proper prefix of a packet (in particular a cut inside the 2-byte length prefix) asks for more bytes. -/
theorem C03_soup_deser_need_more (p : Pkt) (q : Bytes) (h : wfPkt p = true) (hq : q <+: layout p) (hne : q ≠ layout p) :
    soupDeser q = .ok none :=
  soup_short p q h hq hne

/-- **Key lemma 3.** Bytes arriving behind a packet that could already be framed do not change how it is framed (any buffer). -/
theorem C03_soup_deser_mono (buf more : Bytes) (m : Pkt) (r : Bytes) (h : soupDeser buf = .ok (some (m, r))) :
    soupDeser (buf ++ more) = .ok (some (m, r ++ more)) := by
  match buf, h with
  | [], h => simp [soupDeser] at h
  | [_], h => simp [soupDeser] at h
  | b0 :: b1 :: tl, h =>
    rw [soupDeser_cons2] at h
    have e : (b0 :: b1 :: tl) ++ more = b0 :: b1 :: (tl ++ more) := rfl
    split at h
    · simp at h
    · next hle =>
      have hle' : b0 * 256 + b1 + 2 ≤ (b0 :: b1 :: tl).length := by omega
      rw [e, soupDeser_cons2, ← e, if_neg (by rw [List.length_append]; omega),
        List.take_append_of_le_length hle', List.drop_append_of_le_length hle']
      cases hd : Soup.decode (List.take (b0 * 256 + b1 + 2) (b0 :: b1 :: tl)) with
      | error e' => rw [hd] at h; simp at h
      | ok msg =>
        rw [hd] at h
        simp only [ok_bind, pure_eq_ok, Except.ok.injEq, Option.some.injEq, Prod.mk.injEq] at h ⊢
        exact ⟨h.1, by rw [h.2]⟩

/-- **C03_prefix.** Whatever part of the stream has arrived, however it was cut and whenever the reader polled: what has been
    emitted is a prefix of the expected messages (the non-heartbeats before the first logout), in order, each once. -/
theorem C03_prefix (ms : List Pkt) (hwf : ∀ p ∈ ms, wfPkt p = true) (evs : List Ev)
    (hrecv : received evs <+: soupStream ms) :
    (run soupProto evs).out <+: expected soupProto ms :=
  generic_prefix soupSpec ms hwf evs hrecv

/-- **C03_complete.** Once the whole stream has arrived and the reader has polled at least once per packet afterwards, it has
    emitted exactly the expected messages, it is stopped iff the stream contains a logout, and the close signal was given
    exactly once in that case and never otherwise. -/
theorem C03_complete (ms : List Pkt) (hwf : ∀ p ∈ ms, wfPkt p = true) (evs : List Ev)
    (hrecv : received evs = soupStream ms) (hticks : ms.length ≤ ticksAfterLastData evs) :
    (run soupProto evs).out = expected soupProto ms ∧
    ((run soupProto evs).stopped = true ↔ hasLogout soupProto ms = true) ∧
    (run soupProto evs).closeSignals = (if hasLogout soupProto ms then 1 else 0) :=
  generic_complete soupSpec ms hwf evs hrecv hticks

/-- **C03_nothing_after_logout.** When the reader is stopped it stopped at the first logout: everything expected has been
    emitted, close was signalled once — and whatever arrives or is polled afterwards changes none of that. -/
theorem C03_nothing_after_logout (ms : List Pkt) (hwf : ∀ p ∈ ms, wfPkt p = true) (evs more : List Ev)
    (hrecv : received evs <+: soupStream ms) (hs : (run soupProto evs).stopped = true) :
    hasLogout soupProto ms = true ∧
    (run soupProto (evs ++ more)).out = expected soupProto ms ∧
    (run soupProto (evs ++ more)).closeSignals = 1 ∧
    (run soupProto (evs ++ more)).stopped = true := by
  obtain ⟨h1, h2, h3⟩ := generic_stopped soupSpec ms hwf evs hrecv hs
  obtain ⟨g1, g2, g3⟩ := generic_nothing_after_stop soupProto evs more hs
  exact ⟨h3, g1.trans h1, g2.trans h2, g3⟩

/-! ## FIX -/

/-- **Key lemma 1 (FIX).** -/
theorem C03_fix_deser_exact (f rest : Bytes) (h : wfFixFrame f = true) : fixDeser (f ++ rest) = .ok (some (f, rest)) :=
  fix_exact f rest h

/-- **Key lemma 2 (FIX).** A proper prefix of a frame — cut inside `9=n`, between `9=n` and its SOH, inside `35=`, inside the
    trailer — asks for more bytes. -/
theorem C03_fix_deser_need_more (f q : Bytes) (h : wfFixFrame f = true) (hq : q <+: f) (hne : q ≠ f) :
    fixDeser q = .ok none :=
  fix_short f q h hq hne

/-- heartbeat / logout classification of a well-formed frame is by its own MsgType field -/
theorem C03_fix_msgType (f ver ds ty rest : Bytes) (h : wfFixFrame f = true)
    (hp : fixParts f = some (ver, ds, tag35 ++ ty ++ 1 :: rest)) (hty : 1 ∉ ty) :
    getMsgType f = ty ∧ fixIsHeartbeat f = (ty == [48]) ∧ fixIsLogout f = (ty == [53]) := by
  have := fix_msgType h hp hty
  simp [fixIsHeartbeat, fixIsLogout, this]

theorem C03_fix_prefix (fs : List Bytes) (hwf : ∀ f ∈ fs, wfFixFrame f = true) (evs : List Ev)
    (hrecv : received evs <+: fixStream fs) :
    (run fixProto evs).out <+: expected fixProto fs :=
  generic_prefix fixSpec fs hwf evs hrecv

theorem C03_fix_complete (fs : List Bytes) (hwf : ∀ f ∈ fs, wfFixFrame f = true) (evs : List Ev)
    (hrecv : received evs = fixStream fs) (hticks : fs.length ≤ ticksAfterLastData evs) :
    (run fixProto evs).out = expected fixProto fs ∧
    ((run fixProto evs).stopped = true ↔ hasLogout fixProto fs = true) ∧
    (run fixProto evs).closeSignals = (if hasLogout fixProto fs then 1 else 0) :=
  generic_complete fixSpec fs hwf evs hrecv hticks

theorem C03_fix_nothing_after_logout (fs : List Bytes) (hwf : ∀ f ∈ fs, wfFixFrame f = true) (evs more : List Ev)
    (hrecv : received evs <+: fixStream fs) (hs : (run fixProto evs).stopped = true) :
    hasLogout fixProto fs = true ∧
    (run fixProto (evs ++ more)).out = expected fixProto fs ∧
    (run fixProto (evs ++ more)).closeSignals = 1 ∧
    (run fixProto (evs ++ more)).stopped = true := by
  obtain ⟨h1, h2, h3⟩ := generic_stopped fixSpec fs hwf evs hrecv hs
  obtain ⟨g1, g2, g3⟩ := generic_nothing_after_stop fixProto evs more hs
  exact ⟨h3, g1.trans h1, g2.trans h2, g3⟩

/-! ## any byte stream (no well-formedness assumed), either protocol -/

/-- the close signal is given at most once, and exactly when the reader becomes stopped -/
theorem C03_close_at_most_once {μ : Type} (P : Proto μ) (evs : List Ev) :
    (run P evs).closeSignals = (if (run P evs).stopped then 1 else 0) :=
  generic_close_once P evs

/-- a stopped reader emits nothing and signals nothing, whatever follows -/
theorem C03_stop_is_final {μ : Type} (P : Proto μ) (evs more : List Ev) (hs : (run P evs).stopped = true) :
    (run P (evs ++ more)).out = (run P evs).out ∧ (run P (evs ++ more)).closeSignals = (run P evs).closeSignals ∧
    (run P (evs ++ more)).stopped = true :=
  generic_nothing_after_stop P evs more hs

/-! ## non-vacuity: concrete well-formed inputs, segmentations and schedules -/

-- server heartbeat, sequenced data `01 02 03`, end of session, one more data packet (must not be emitted)
private def exPkts : List Pkt := [.serverHb, .seqData [1, 2, 3], .endOfSession, .seqData [9]]
example : ∀ p ∈ exPkts, wfPkt p = true := by decide
example : soupStream exPkts = [0, 1, 72, 0, 4, 83, 1, 2, 3, 0, 1, 90, 0, 2, 83, 9] := by decide
example : expected soupProto exPkts = [.seqData [1, 2, 3]] := by decide
-- cut inside the first length prefix, heartbeat and half of the data packet in one segment, everything else in one burst
private def exEvs : List Ev :=
  [.data [0], .tick, .data [1, 72, 0, 4, 83], .tick, .tick, .data [1, 2, 3, 0, 1, 90, 0, 2, 83, 9], .tick, .tick, .tick, .tick]
example : received exEvs = soupStream exPkts := by decide
example : exPkts.length ≤ ticksAfterLastData exEvs := by decide
example : (run soupProto exEvs).out = [.seqData [1, 2, 3]] ∧ (run soupProto exEvs).stopped = true ∧
    (run soupProto exEvs).closeSignals = 1 ∧ (run soupProto exEvs).buf = [0, 2, 83, 9] := by decide

-- `8=FIX.4.4|9=5|35=0|10=163|` (heartbeat), `8=FIX.4.4|9=13|35=D|58=35=5|10=107|` (order whose text contains `35=5`),
-- `8=FIX.4.4|9=5|35=5|10=168|` (logout)
private def exHb : Bytes := [56,61,70,73,88,46,52,46,52,1, 57,61,53,1, 51,53,61,48,1, 49,48,61,49,54,51,1]
private def exOrd : Bytes := [56,61,70,73,88,46,52,46,52,1, 57,61,49,51,1, 51,53,61,68,1, 53,56,61,51,53,61,53,1, 49,48,61,49,48,55,1]
private def exOut : Bytes := [56,61,70,73,88,46,52,46,52,1, 57,61,53,1, 51,53,61,53,1, 49,48,61,49,54,56,1]
example : wfFixFrame exHb = true ∧ wfFixFrame exOrd = true ∧ wfFixFrame exOut = true := by decide
example : fixIsHeartbeat exHb = true ∧ fixIsLogout exOut = true ∧ fixIsLogout exOrd = false ∧ fixIsHeartbeat exOrd = false := by
  decide
example : fixParts exOrd = some ([70,73,88,46,52,46,52], [49,51], tag35 ++ [68] ++ 1 :: [53,56,61,51,53,61,53,1, 49,48,61,49,48,55,1]) := by
  decide
example : expected fixProto [exHb, exOrd, exOut, exOrd] = [exOrd] := by decide
-- everything in one segment (several messages per segment), then polls
set_option maxRecDepth 4000 in
example : (run fixProto [.data (exHb ++ exOrd ++ exOut ++ exOrd), .tick, .tick, .tick, .tick]).out = [exOrd] := by decide
-- cut between `9=12` and its SOH
example : (run fixProto [.data (exOrd.take 14), .tick, .data (exOrd.drop 14), .tick]).out = [exOrd] := by decide
-- not well-formed: BodyLength one too small; the hypothesis `wfFixFrame` is not vacuous
example : wfFixFrame [56,61,70,73,88,46,52,46,52,1, 57,61,52,1, 51,53,61,48,1, 49,48,61,49,54,51,1] = false := by decide

end NasdaqModel.Props.C03
